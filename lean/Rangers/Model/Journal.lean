import Rangers.Basic.Hex
/-!
# Model of `src/storage/account` (AccountDB, accountObject, journal) — property C04

Transcription of the code as it is (see design/C04.md for the line-by-line map):

* `accountdb.go`      : getAccountObject / createObject, every exported mutator and reader,
                        Snapshot / RevertToSnapshot, Finalise / IntermediateRoot / Commit, Prepare, Reset, Clean
* `account_object.go` : GetData / GetCommittedData (both *write* `cachedStorage`), SetData / setData,
                        the one-shot `onDirty` callback (`armed`), `empty()`, `touch()`
* `account_object_ft.go`, `accountdb_tuntun.go` : balances as storage slots of the bound token
                        contract (journaled only when Proposal002 is active), per-account FT slots
* `transition.go`     : the undo method of every journal entry kind
* `access_list.go`, `transient_storage.go`

Go maps are association lists keyed by byte strings; `nil` and empty byte slices are identified
(`[]`): every consumer in the package uses `len(v) == 0` / `bytes.Compare`, and `trie.TryUpdate`
deletes on an empty value.  A Go panic becomes the sticky flag `crashed` (explicit error branch:
nothing is silently defaulted).  The account trie and storage tries are kept as *content*
(key ↦ value); the hash of a content is property C02's business.

Core Lean only: this file is linked into the driver executable `drv_c04`.
-/
namespace Rangers.Model.Journal
open Rangers

abbrev Addr := Bytes
abbrev Key := Bytes
abbrev Val := Bytes
abbrev Hash := Bytes

/-! ## association lists (Go maps) -/

def mget {α : Type} : List (Bytes × α) → Bytes → Option α
  | [], _ => none
  | (k', v) :: t, k => if k' = k then some v else mget t k

/-- assignment `m[k] = v`: replace in place, else append -/
def mset {α : Type} : List (Bytes × α) → Bytes → α → List (Bytes × α)
  | [], k, v => [(k, v)]
  | (k', v') :: t, k, v => if k' = k then (k, v) :: t else (k', v') :: mset t k v

/-- `delete(m, k)` -/
def mdel {α : Type} (m : List (Bytes × α)) (k : Bytes) : List (Bytes × α) :=
  m.filter (fun p => decide (p.1 ≠ k))

/-- a Go `map[K]struct{}` -/
def sadd (m : List Bytes) (k : Bytes) : List Bytes := if k ∈ m then m else m ++ [k]
def sdel (m : List Bytes) (k : Bytes) : List Bytes := m.filter (fun x => decide (x ≠ k))

def U64 : Nat := 18446744073709551616

/-- `sha3.Sum256(nil)` — the package's `emptyCodeHash` (SHA3-256, *not* Keccak). -/
def emptyCodeHash : Hash :=
  [0xa7,0xff,0xc6,0xf8,0xbf,0x1e,0xd7,0x66,0x51,0xc1,0x47,0x56,0xa0,0x61,0xd6,0x62,
   0xf5,0x80,0xff,0x4d,0xe4,0x3b,0x49,0xfa,0x82,0xd8,0x0a,0x4b,0x80,0xf8,0x43,0x4a]

def zeroHash : Hash := List.replicate 32 0

/-- `common.BytesToHash`: crop from the left to 32 bytes, left-pad with zeros. -/
def toHash (b : Bytes) : Hash :=
  if b.length > 32 then b.drop (b.length - 32) else List.replicate (32 - b.length) 0 ++ b

/-! ## state -/

/-- content of one leaf of the account trie: `Account{Nonce, Root, NFTSetDefinitionHash}` with
    `Root` replaced by the content of the storage trie it commits to -/
structure Leaf where
  nonce : Nat
  storage : List (Key × Val)
  codeHash : Hash
deriving DecidableEq, Repr

/-- `accountObject` -/
structure Obj where
  nonce : Nat
  codeHash : Hash
  /-- `nftSet` (code cache; `none` = nil) -/
  code : Option Bytes
  dirtyCode : Bool
  /-- content of the live storage trie `ao.trie` (flushed slots) -/
  strie : List (Key × Val)
  /-- `cachedStorage`, with key presence -/
  cached : List (Key × Val)
  /-- `dirtyStorage`, with key presence -/
  dirty : List (Key × Val)
  suicided : Bool
  touched : Bool
  deleted : Bool
  /-- `onDirty != nil` -/
  armed : Bool
deriving DecidableEq, Repr

structure LogRec where
  addr : Addr
  topics : Bytes
  data : Bytes
  thash : Hash
  bhash : Hash
  txIndex : Nat
  index : Nat
deriving DecidableEq, Repr

/-- the 11 reachable journal entry kinds of `transition.go` (`resetObjectChange` is only
    appended by `createObject(addr, prev)` with `prev != nil`, which no caller does) -/
inductive Entry where
  | create (a : Addr)
  | suicide (a : Addr) (prev : Bool) (prevBal : Nat)
  | nonce (a : Addr) (prev : Nat)
  | storage (a : Addr) (k : Key) (prev : Val)
  | code (a : Addr) (prevCode : Option Bytes) (prevHash : Hash)
  | refund (prev : Nat)
  | addLog (th : Hash)
  | touch (a : Addr) (prev : Bool) (prevDirty : Bool)
  | alAddr (a : Addr)
  | alSlot (a : Addr) (slot : Hash)
  | transient (a : Addr) (k : Hash) (prev : Hash)
deriving DecidableEq, Repr

/-- `accessList`: `addresses map[Address]int` (-1 = no slots) and `slots []map[Hash]struct{}` -/
structure AccessList where
  addrs : List (Addr × Int)
  slots : List (List Hash)
deriving DecidableEq, Repr

/-- what is fixed for the lifetime of a process: the bound token contract
    (`rpgContractAddress`), `ripemd`, the Proposal002 flag and the slot key of an address's
    balance, `GetERC20Key(addr, position)` (a Keccak image: a parameter of the model). -/
structure Cfg where
  tok : Addr
  ripemd : Addr
  p002 : Bool
  balKey : Addr → Key

structure ADB where
  /-- content of `adb.trie` -/
  trie : List (Addr × Leaf)
  /-- content of the account trie at the last `Commit` (what `NewAccountDB(root)` / `Reset(root)` open) -/
  committed : List (Addr × Leaf)
  /-- code blobs in the trie database (`InsertBlob` at `Commit`) -/
  codes : List (Hash × Bytes)
  objs : List (Addr × Obj)
  dirtySet : List Addr
  journal : List Entry
  /-- `validRevisions` as (id, journalIndex) -/
  revisions : List (Nat × Nat)
  nextRev : Nat
  refund : Nat
  logs : List (Hash × List LogRec)
  logSize : Nat
  al : AccessList
  transient : List (Addr × List (Hash × Hash))
  thash : Hash
  bhash : Hash
  txIndex : Nat
  /-- a Go panic happened (sticky) -/
  crashed : Bool
deriving Repr

def ADB.empty : ADB :=
  { trie := [], committed := [], codes := [], objs := [], dirtySet := [], journal := [],
    revisions := [], nextRev := 0, refund := 0, logs := [], logSize := 0,
    al := ⟨[], []⟩, transient := [], thash := zeroHash, bhash := zeroHash, txIndex := 0,
    crashed := false }

def crash (s : ADB) : ADB := { s with crashed := true }

/-! ## account objects -/

/-- `newAccountObject(db, addr, data, MarkAccountObjectDirty)` for a leaf read from the trie -/
def Obj.ofLeaf (l : Leaf) : Obj :=
  { nonce := l.nonce, codeHash := l.codeHash, code := none, dirtyCode := false,
    strie := l.storage, cached := [], dirty := [],
    suicided := false, touched := false, deleted := false, armed := true }

/-- the object `createObject` stores: `Account{}` after `setNonce(0)` fired `onDirty` -/
def Obj.fresh : Obj :=
  { nonce := 0, codeHash := emptyCodeHash, code := none, dirtyCode := false,
    strie := [], cached := [], dirty := [],
    suicided := false, touched := false, deleted := false, armed := false }

/-- `accountObject.empty()` -/
def Obj.isEmpty (o : Obj) : Bool :=
  decide (o.codeHash = emptyCodeHash) && decide (o.nonce = 0) && o.cached.isEmpty && o.dirty.isEmpty

/-- value `GetData` answers (pure part) -/
def Obj.get (o : Obj) (k : Key) : Val :=
  match mget o.cached k with
  | some v => v
  | none => (mget o.strie k).getD []

/-- `GetData`: a miss that finds a non-nil value in the storage trie caches it -/
def Obj.read (o : Obj) (k : Key) : Obj × Val :=
  match mget o.cached k with
  | some v => (o, v)
  | none =>
    match mget o.strie k with
    | some v => ({ o with cached := mset o.cached k v }, v)
    | none => (o, [])

/-- `GetCommittedData`: reads the storage trie and *overwrites* the cache entry when non-nil -/
def Obj.readCommitted (o : Obj) (k : Key) : Obj × Val :=
  match mget o.strie k with
  | some v => ({ o with cached := mset o.cached k v }, v)
  | none => (o, [])

def putObj (s : ADB) (a : Addr) (o : Obj) : ADB := { s with objs := mset s.objs a o }

/-- store a modified object and run its one-shot `onDirty` callback -/
def markDirty (s : ADB) (a : Addr) (o : Obj) : ADB :=
  if o.armed then
    { s with objs := mset s.objs a { o with armed := false }, dirtySet := sadd s.dirtySet a }
  else { s with objs := mset s.objs a o }

/-- `getAccountObject(addr, false)`: a trie hit is stored in `accountObjects` -/
def resolve (s : ADB) (a : Addr) : ADB × Option Obj :=
  match mget s.objs a with
  | some o => if o.deleted then (s, none) else (s, some o)
  | none =>
    match mget s.trie a with
    | some l => (putObj s a (Obj.ofLeaf l), some (Obj.ofLeaf l))
    | none => (s, none)

/-- `getOrNewAccountObject(addr)`; note a `deleted` object yields nil, not a new object -/
def resolveNew (s : ADB) (a : Addr) : ADB × Option Obj :=
  match mget s.objs a with
  | some o => if o.deleted then (s, none) else (s, some o)
  | none =>
    match mget s.trie a with
    | some l => (putObj s a (Obj.ofLeaf l), some (Obj.ofLeaf l))
    | none =>
      ({ s with objs := mset s.objs a Obj.fresh, dirtySet := sadd s.dirtySet a,
                journal := s.journal ++ [Entry.create a] }, some Obj.fresh)

/-- `accountObject.setData` on the object stored at `a` -/
def setDataRaw (s : ADB) (a : Addr) (k : Key) (v : Val) : ADB :=
  match mget s.objs a with
  | none => crash s
  | some o => markDirty s a { o with cached := mset o.cached k v, dirty := mset o.dirty k v }

/-- `accountObject.GetData` on the object stored at `a` -/
def readAt (s : ADB) (a : Addr) (k : Key) : ADB × Val :=
  match mget s.objs a with
  | none => (crash s, [])
  | some o => let (o1, v) := o.read k; (putObj s a o1, v)

/-- `accountObject.SetData` on the object stored at `a` -/
def setDataJ (s : ADB) (a : Addr) (k : Key) (v : Val) : ADB :=
  let (s1, pre) := readAt s a k
  if s1.crashed then s1
  else if v = pre then s1
  else setDataRaw { s1 with journal := s1.journal ++ [Entry.storage a k pre] } a k v

/-- `accountObject.setNonce` -/
def setNonceRaw (s : ADB) (a : Addr) (n : Nat) : ADB :=
  match mget s.objs a with
  | none => crash s
  | some o => markDirty s a { o with nonce := n }

/-- code as `nftSetDefinition(db)` returns it: cache, else empty for the empty hash, else the blob -/
def codeLookup (s : ADB) (o : Obj) : Option Bytes :=
  match o.code with
  | some c => some c
  | none => if o.codeHash = emptyCodeHash then none else mget s.codes o.codeHash

/-- `nftSetDefinition(db)`: fills the `nftSet` cache -/
def loadCode (s : ADB) (a : Addr) : ADB × Option Bytes :=
  match mget s.objs a with
  | none => (crash s, none)
  | some o => let c := codeLookup s o; (putObj s a { o with code := c }, c)

/-- `accountObject.setNFTSetDefinition` -/
def setCodeRaw (s : ADB) (a : Addr) (h : Hash) (c : Option Bytes) : ADB :=
  match mget s.objs a with
  | none => crash s
  | some o => markDirty s a { o with code := c, codeHash := h, dirtyCode := true }

/-! ## mutators of AccountDB -/

def setNonce (s : ADB) (a : Addr) (n : Nat) : ADB :=
  if s.crashed then s else
  match resolveNew s a with
  | (s1, none) => s1
  | (s1, some o) => setNonceRaw { s1 with journal := s1.journal ++ [Entry.nonce a o.nonce] } a n

def increaseNonce (s : ADB) (a : Addr) : ADB × Nat :=
  if s.crashed then (s, 0) else
  match resolveNew s a with
  | (s1, none) => (s1, 0)
  | (s1, some o) =>
    (setNonceRaw { s1 with journal := s1.journal ++ [Entry.nonce a o.nonce] } a ((o.nonce + 1) % U64),
     (o.nonce + 1) % U64)

def setData (s : ADB) (a : Addr) (k : Key) (v : Val) : ADB :=
  if s.crashed then s else
  match resolveNew s a with
  | (s1, none) => s1
  | (s1, some _) => setDataJ s1 a k v

def createAccount (s : ADB) (a : Addr) : ADB :=
  if s.crashed then s else (resolveNew s a).1

def setCode (s : ADB) (a : Addr) (code : Bytes) (h : Hash) : ADB :=
  if s.crashed then s else
  match resolveNew s a with
  | (s1, none) => s1
  | (s1, some _) =>
    let (s2, prev) := loadCode s1 a
    match mget s2.objs a with
    | none => crash s2
    | some o => setCodeRaw { s2 with journal := s2.journal ++ [Entry.code a prev o.codeHash] } a h (some code)

/-- `GetFT(addr, BLANCE_NAME)`: goes through `getOrNewAccountObject(contract)` (may journal a
    creation) and dereferences the result without a nil check -/
def getBalance (c : Cfg) (s : ADB) (a : Addr) : ADB × Nat :=
  if s.crashed then (s, 0) else
  match resolveNew s c.tok with
  | (s1, none) => (crash s1, 0)
  | (s1, some _) => let (s2, v) := readAt s1 c.tok (c.balKey a); (s2, beToNat v)

/-- the write at the end of `AddFT` / `SubFT` on the bound contract -/
def balWrite (c : Cfg) (s : ADB) (a : Addr) (n : Nat) : ADB :=
  if c.p002 then setDataJ s c.tok (c.balKey a) (natToBE n) else setDataRaw s c.tok (c.balKey a) (natToBE n)

def addBalance (c : Cfg) (s : ADB) (a : Addr) (n : Nat) : ADB :=
  let (s1, b) := getBalance c s a
  if s1.crashed then s1 else balWrite c s1 a (b + n)

/-- `SubFT(addr, BLANCE_NAME, n)`: (left, ok) -/
def subBalance (c : Cfg) (s : ADB) (a : Addr) (n : Nat) : ADB × Nat × Bool :=
  let (s1, b) := getBalance c s a
  if s1.crashed then (s1, 0, false)
  else if b < n then (s1, b, false)
  else (balWrite c s1 a (b - n), b - n, true)

/-- `SetFT(addr, BLANCE_NAME, n)`: always the journaled `SetData` -/
def setBalance (c : Cfg) (s : ADB) (a : Addr) (n : Nat) : ADB :=
  if s.crashed then s else
  match resolveNew s c.tok with
  | (s1, none) => crash s1
  | (s1, some _) => setDataJ s1 c.tok (c.balKey a) (natToBE n)

/-- the lower-case `setBalance`: un-journaled `setData` on the contract -/
def setBalanceRaw (c : Cfg) (s : ADB) (a : Addr) (n : Nat) : ADB :=
  match resolveNew s c.tok with
  | (s1, none) => crash s1
  | (s1, some _) => setDataRaw s1 c.tok (c.balKey a) (natToBE n)

/-- `Transfer`: the result of `SubBalance` is ignored -/
def transfer (c : Cfg) (s : ADB) (from_ to : Addr) (n : Nat) : ADB :=
  if s.crashed then s else
  if n = 0 then s else
  let (s1, _) := subBalance c s from_ n
  if s1.crashed then s1 else addBalance c s1 to n

/-- `accountObject.touch` -/
def touch (s : ADB) (a : Addr) : ADB :=
  match mget s.objs a with
  | none => crash s
  | some o =>
    markDirty { s with journal := s.journal ++ [Entry.touch a o.touched (!o.armed)] } a { o with touched := true }

/-- `AddFT(addr, name, n)` for a name without ERC20 binding; `k` = bytes of `GenerateFTKey(name)` -/
def addFT (s : ADB) (a : Addr) (k : Key) (n : Nat) : ADB :=
  if s.crashed then s else
  match resolveNew s a with
  | (s1, none) => crash s1
  | (s1, some o) =>
    if n = 0 then (if o.isEmpty then touch s1 a else s1)
    else
      let (s2, v) := readAt s1 a k
      if s2.crashed then s2 else setDataJ s2 a k (natToBE (beToNat v + n))

/-- `SubFT(addr, name, n)` for an unbound name: (left, ok); `nil` left is reported as 0 -/
def subFT (s : ADB) (a : Addr) (k : Key) (n : Nat) : ADB × Nat × Bool :=
  if s.crashed then (s, 0, false) else
  match resolveNew s a with
  | (s1, none) => (crash s1, 0, false)
  | (s1, some _) =>
    let (s2, v) := readAt s1 a k
    if s2.crashed then (s2, 0, false)
    else if n = 0 then (s2, beToNat v, true)
    else if v = [] ∨ beToNat v < n then (s2, 0, false)
    else (setDataJ s2 a k (natToBE (beToNat v - n)), beToNat v - n, true)

def setFT (s : ADB) (a : Addr) (k : Key) (n : Nat) : ADB :=
  if s.crashed then s else
  match resolveNew s a with
  | (s1, none) => crash s1
  | (s1, some _) => setDataJ s1 a k (natToBE n)

def getFT (s : ADB) (a : Addr) (k : Key) : ADB × Nat :=
  if s.crashed then (s, 0) else
  match resolveNew s a with
  | (s1, none) => (crash s1, 0)
  | (s1, some _) => let (s2, v) := readAt s1 a k; (s2, beToNat v)

/-- `Suicide` -/
def suicide (c : Cfg) (s : ADB) (a : Addr) : ADB × Bool :=
  if s.crashed then (s, false) else
  match resolve s a with
  | (s1, none) => (s1, false)
  | (s1, some o) =>
    let (s2, bal) := getBalance c s1 a
    if s2.crashed then (s2, false) else
    let s3 := { s2 with journal := s2.journal ++ [Entry.suicide a o.suicided bal] }
    match mget s3.objs a with
    | none => (crash s3, false)
    | some o3 =>
      let s4 := markDirty s3 a { o3 with suicided := true }
      (setBalanceRaw c s4 a 0, true)

def addRefund (s : ADB) (g : Nat) : ADB :=
  if s.crashed then s else
  { s with journal := s.journal ++ [Entry.refund s.refund], refund := (s.refund + g) % U64 }

def subRefund (s : ADB) (g : Nat) : ADB :=
  if s.crashed then s else
  let s1 := { s with journal := s.journal ++ [Entry.refund s.refund] }
  if g > s.refund then crash s1 else { s1 with refund := s.refund - g }

def addLog (s : ADB) (addr : Addr) (topics data : Bytes) : ADB :=
  if s.crashed then s else
  let r : LogRec := { addr := addr, topics := topics, data := data, thash := s.thash, bhash := s.bhash,
                      txIndex := s.txIndex, index := s.logSize }
  { s with journal := s.journal ++ [Entry.addLog s.thash],
           logs := mset s.logs s.thash ((mget s.logs s.thash).getD [] ++ [r]),
           logSize := (s.logSize + 1) % U64 }

/-! ### access list -/

def AccessList.containsAddr (al : AccessList) (a : Addr) : Bool := (mget al.addrs a).isSome

/-- `Contains`: (addressPresent, slotPresent); `none` = index out of range panic -/
def AccessList.contains (al : AccessList) (a : Addr) (slot : Hash) : Option (Bool × Bool) :=
  match mget al.addrs a with
  | none => some (false, false)
  | some idx =>
    if idx = -1 then some (true, false)
    else if idx < 0 then none
    else match al.slots[idx.toNat]? with
      | none => none
      | some m => some (true, decide (slot ∈ m))

def AccessList.addAddress (al : AccessList) (a : Addr) : AccessList × Bool :=
  match mget al.addrs a with
  | some _ => (al, false)
  | none => ({ al with addrs := mset al.addrs a (-1) }, true)

/-- `AddSlot`: (list, addrChange, slotChange); `none` = panic -/
def AccessList.addSlot (al : AccessList) (a : Addr) (slot : Hash) : Option (AccessList × Bool × Bool) :=
  match mget al.addrs a with
  | none => some ({ addrs := mset al.addrs a (Int.ofNat al.slots.length), slots := al.slots ++ [[slot]] }, true, true)
  | some idx =>
    if idx = -1 then
      some ({ addrs := mset al.addrs a (Int.ofNat al.slots.length), slots := al.slots ++ [[slot]] }, false, true)
    else if idx < 0 then none
    else match al.slots[idx.toNat]? with
      | none => none
      | some m =>
        if slot ∈ m then some (al, false, false)
        else some ({ al with slots := al.slots.set idx.toNat (m ++ [slot]) }, false, true)

/-- `DeleteSlot`; `none` = panic -/
def AccessList.deleteSlot (al : AccessList) (a : Addr) (slot : Hash) : Option AccessList :=
  match mget al.addrs a with
  | none => none
  | some idx =>
    if idx < 0 then none
    else match al.slots[idx.toNat]? with
      | none => none
      | some m =>
        let m' := sdel m slot
        if m'.isEmpty then some { addrs := mset al.addrs a (-1), slots := al.slots.take idx.toNat }
        else some { al with slots := al.slots.set idx.toNat m' }

def AccessList.deleteAddress (al : AccessList) (a : Addr) : AccessList := { al with addrs := mdel al.addrs a }

def addAddressToAccessList (s : ADB) (a : Addr) : ADB :=
  if s.crashed then s else
  let (al, ch) := s.al.addAddress a
  if ch then { s with al := al, journal := s.journal ++ [Entry.alAddr a] } else s

def addSlotToAccessList (s : ADB) (a : Addr) (slot : Hash) : ADB :=
  if s.crashed then s else
  match s.al.addSlot a slot with
  | none => crash s
  | some (al, addrMod, slotMod) =>
    let j1 := if addrMod then s.journal ++ [Entry.alAddr a] else s.journal
    let j2 := if slotMod then j1 ++ [Entry.alSlot a slot] else j1
    { s with al := al, journal := j2 }

/-! ### transient storage -/

def isZero (h : Bytes) : Bool := h.all (fun b => b == 0)

def tget (t : List (Addr × List (Hash × Hash))) (a : Addr) (k : Hash) : Hash :=
  match mget t a with
  | none => zeroHash
  | some m => toHash ((mget m k).getD [])

/-- `transientStorage.Set` -/
def tset (t : List (Addr × List (Hash × Hash))) (a : Addr) (k v : Hash) : List (Addr × List (Hash × Hash)) :=
  if isZero v then
    match mget t a with
    | none => t
    | some m => let m' := mdel m k; if m'.isEmpty then mdel t a else mset t a m'
  else
    match mget t a with
    | none => mset t a [(k, v)]
    | some m => mset t a (mset m k v)

def setTransientState (s : ADB) (a : Addr) (k v : Hash) : ADB :=
  if s.crashed then s else
  let prev := tget s.transient a k
  if prev = v then s
  else { s with journal := s.journal ++ [Entry.transient a k prev], transient := tset s.transient a k v }

/-! ## snapshots -/

def snapshot (s : ADB) : ADB × Nat :=
  if s.crashed then (s, 0) else
  ({ s with revisions := s.revisions ++ [(s.nextRev, s.journal.length)], nextRev := s.nextRev + 1 }, s.nextRev)

/-- one `undo` method of `transition.go` -/
def undo (c : Cfg) (s : ADB) (e : Entry) : ADB :=
  if s.crashed then s else
  match e with
  | .create a => { s with objs := mdel s.objs a, dirtySet := sdel s.dirtySet a }
  | .suicide a prev prevBal =>
    match resolve s a with
    | (s1, none) => s1
    | (s1, some o) => setBalanceRaw c (putObj s1 a { o with suicided := prev }) a prevBal
  | .nonce a prev =>
    match resolve s a with
    | (s1, none) => crash s1
    | (s1, some _) => setNonceRaw s1 a prev
  | .storage a k prev =>
    match resolve s a with
    | (s1, none) => crash s1
    | (s1, some _) => setDataRaw s1 a k prev
  | .code a prevCode prevHash =>
    match resolve s a with
    | (s1, none) => crash s1
    | (s1, some _) => setCodeRaw s1 a (toHash prevHash) prevCode
  | .refund prev => { s with refund := prev }
  | .addLog th =>
    match (mget s.logs th).getD [] with
    | [] => crash s
    | [_] => { s with logs := mdel s.logs th, logSize := (s.logSize + U64 - 1) % U64 }
    | l => { s with logs := mset s.logs th l.dropLast, logSize := (s.logSize + U64 - 1) % U64 }
  | .touch a prev prevDirty =>
    if !prev && decide (a ≠ c.ripemd) then
      match resolve s a with
      | (s1, none) => crash s1
      | (s1, some o) =>
        let s2 := putObj s1 a { o with touched := prev }
        if !prevDirty then { s2 with dirtySet := sdel s2.dirtySet a } else s2
    else s
  | .alAddr a => { s with al := s.al.deleteAddress a }
  | .alSlot a slot =>
    match s.al.deleteSlot a slot with
    | none => crash s
    | some al => { s with al := al }
  | .transient a k prev => { s with transient := tset s.transient a k prev }

/-- undo a journal suffix, last entry first -/
def undoAll (c : Cfg) (s : ADB) (es : List Entry) : ADB := es.reverse.foldl (undo c) s

/-- first index whose revision id is ≥ `id` (what `sort.Search` finds on the id-sorted stack) -/
def findRev : List (Nat × Nat) → Nat → Nat → Option (Nat × Nat × Nat)
  | [], _, _ => none
  | (rid, j) :: t, id, i => if rid ≥ id then some (i, rid, j) else findRev t id (i + 1)

/-- `RevertToSnapshot` -/
def revert (c : Cfg) (s : ADB) (id : Nat) : ADB :=
  if s.crashed then s else
  match findRev s.revisions id 0 with
  | none => crash s
  | some (i, rid, j) =>
    if rid ≠ id then crash s else
    let s1 := undoAll c s (s.journal.drop j)
    if s1.crashed then s1
    else { s1 with journal := s.journal.take j, revisions := s.revisions.take i }

/-! ## transaction / block boundary -/

def prepare (s : ADB) (th bh : Hash) (ti : Nat) : ADB :=
  if s.crashed then s else { s with thash := th, bhash := bh, txIndex := ti, al := ⟨[], []⟩ }

/-- `updateTrie`: flush the dirty slots into the storage trie.  `dirtyStorage` is a Go map (unique keys,
    arbitrary iteration order); on the association list the fold is written so that, should a key
    occur twice, the entry `mget` sees (the first) is the one that counts. -/
def flush (strie : List (Key × Val)) (dirty : List (Key × Val)) : List (Key × Val) :=
  dirty.foldr (fun p t => if p.2 = [] then mdel t p.1 else mset t p.1 p.2) strie

def Obj.flushed (o : Obj) : Obj := { o with strie := flush o.strie o.dirty, dirty := [] }

def Obj.leaf (o : Obj) : Leaf := { nonce := o.nonce, storage := o.strie, codeHash := o.codeHash }

def clearJournal (s : ADB) : ADB := { s with journal := [], revisions := [], refund := 0 }

/-- body of the `Finalise` loop for one dirty address -/
def finaliseOne (del : Bool) (s : ADB) (a : Addr) : ADB :=
  match mget s.objs a with
  | none => s
  | some o =>
    if o.suicided || (del && o.isEmpty) then
      { s with objs := mset s.objs a { o with deleted := true }, trie := mdel s.trie a }
    else
      let o1 := o.flushed
      { s with objs := mset s.objs a o1, trie := mset s.trie a o1.leaf }

/-- `Finalise(deleteEmptyObjects)`; `IntermediateRoot` = this, then the hash of `trie` -/
def finalise (del : Bool) (s : ADB) : ADB :=
  if s.crashed then s else clearJournal (s.dirtySet.foldl (finaliseOne del) s)

/-- body of the `Commit` range loop for one cached object -/
def commitOne (del : Bool) (s : ADB) (a : Addr) : ADB :=
  match mget s.objs a with
  | none => s
  | some o =>
    let isDirty := decide (a ∈ s.dirtySet)
    let s1 :=
      if o.suicided || (isDirty && del && o.isEmpty) then
        { s with objs := mset s.objs a { o with deleted := true }, trie := mdel s.trie a }
      else if isDirty then
        let (codes, o0) :=
          match o.code with
          | some c => if o.dirtyCode then (mset s.codes o.codeHash c, { o with dirtyCode := false }) else (s.codes, o)
          | none => (s.codes, o)
        let o1 := o0.flushed
        { s with codes := codes, objs := mset s.objs a o1, trie := mset s.trie a o1.leaf }
      else s
    { s1 with dirtySet := sdel s1.dirtySet a }

/-- `Commit(deleteEmptyObjects)` -/
def commit (del : Bool) (s : ADB) : ADB :=
  if s.crashed then s else
  let s1 := (s.objs.map (·.1)).foldl (commitOne del) s
  let s2 := clearJournal s1
  { s2 with committed := s2.trie }

/-- `NewAccountDB(lastCommittedRoot, sameDatabase)` -/
def reopen (s : ADB) : ADB :=
  { ADB.empty with trie := s.committed, committed := s.committed, codes := s.codes }

/-- `Reset(lastCommittedRoot)`: transient storage and `nextRevisionID` survive -/
def reset (s : ADB) : ADB :=
  if s.crashed then s else
  { s with trie := s.committed, objs := [], dirtySet := [], journal := [], revisions := [], refund := 0,
           al := ⟨[], []⟩, thash := zeroHash, bhash := zeroHash, txIndex := 0, logs := [], logSize := 0 }

/-- `Clean()` -/
def clean (s : ADB) : ADB :=
  if s.crashed then s else clearJournal { s with objs := [], dirtySet := [] }

/-! ## readers (they load objects and fill caches, so they return a state too) -/

def exist (s : ADB) (a : Addr) : ADB × Bool :=
  if s.crashed then (s, false) else
  match resolve s a with
  | (s1, none) => (s1, false)
  | (s1, some _) => (s1, true)

def isEmptyQ (s : ADB) (a : Addr) : ADB × Bool :=
  if s.crashed then (s, false) else
  match resolve s a with
  | (s1, none) => (s1, true)
  | (s1, some o) => (s1, o.isEmpty)

def getNonce (s : ADB) (a : Addr) : ADB × Nat :=
  if s.crashed then (s, 0) else
  match resolve s a with
  | (s1, none) => (s1, 0)
  | (s1, some o) => (s1, o.nonce)

def getData (s : ADB) (a : Addr) (k : Key) : ADB × Val :=
  if s.crashed then (s, []) else
  match resolve s a with
  | (s1, none) => (s1, [])
  | (s1, some _) => readAt s1 a k

def getCommitted (s : ADB) (a : Addr) (k : Key) : ADB × Val :=
  if s.crashed then (s, []) else
  match resolve s a with
  | (s1, none) => (s1, [])
  | (s1, some o) => let (o1, v) := o.readCommitted k; (putObj s1 a o1, v)

def hasSuicided (s : ADB) (a : Addr) : ADB × Bool :=
  if s.crashed then (s, false) else
  match resolve s a with
  | (s1, none) => (s1, false)
  | (s1, some o) => (s1, o.suicided)

def getCode (s : ADB) (a : Addr) : ADB × Bytes :=
  if s.crashed then (s, []) else
  match resolve s a with
  | (s1, none) => (s1, [])
  | (s1, some _) => let (s2, c) := loadCode s1 a; (s2, c.getD [])

/-- `GetCodeSize` does not fill the object's code cache -/
def getCodeSize (s : ADB) (a : Addr) : ADB × Nat :=
  if s.crashed then (s, 0) else
  match resolve s a with
  | (s1, none) => (s1, 0)
  | (s1, some o) => (s1, ((codeLookup s1 o).getD []).length)

def getCodeHash (s : ADB) (a : Addr) : ADB × Hash :=
  if s.crashed then (s, zeroHash) else
  match resolve s a with
  | (s1, none) => (s1, zeroHash)
  | (s1, some o) => (s1, toHash o.codeHash)

def getLogs (s : ADB) (th : Hash) : List LogRec := (mget s.logs th).getD []

/-- `CanTransfer(addr, amount)` for a non-negative amount: `GetBalance(addr) >= amount` -/
def canTransfer (c : Cfg) (s : ADB) (a : Addr) (n : Nat) : ADB × Bool :=
  let r := getBalance c s a; (r.1, decide (r.2 ≥ n))

/-- `IsContract(addr)`: `GetCode` is non-nil and non-empty -/
def isContract (s : ADB) (a : Addr) : ADB × Bool :=
  let r := getCode s a; (r.1, !r.2.isEmpty)

/-- `GetState(addr, hash)`: `GetData` through `common.BytesToHash` -/
def getState (s : ADB) (a : Addr) (k : Key) : ADB × Hash :=
  let r := getData s a k; (r.1, toHash r.2)

/-- `common.BytesToAddress` (`Address.SetBytes`): longer input is cropped from the left to 20 bytes, shorter input
    is copied to the FRONT, i.e. right-padded with zeros (unlike `BytesToHash`, which left-pads) -/
def toAddr (b : Bytes) : Addr :=
  if b.length > 20 then b.drop (b.length - 20) else b ++ List.replicate (20 - b.length) 0

/-- `SetStorage(addr, map)` ("debugging only"): `getOrNewAccountObject`, then `SetData` per entry. The Go map is
    iterated in arbitrary order; the entries have distinct keys, so every order gives the same object and the same
    number of journal entries (`kvs` is the map in some order). A nil object is dereferenced only if there is an entry. -/
def setStorage (s : ADB) (a : Addr) (kvs : List (Key × Val)) : ADB :=
  if s.crashed then s else
  match resolveNew s a with
  | (s1, none) => if kvs.isEmpty then s1 else crash s1
  | (s1, some _) => kvs.foldl (fun acc p => setDataJ acc a p.1 p.2) s1

/-- `getAllRefund`'s cache fill: every slot of the storage trie that is not cached yet is copied into `cachedStorage` -/
def Obj.cacheAll (o : Obj) : Obj :=
  { o with cached := o.strie.foldl (fun c p => if (mget c p.1).isSome then c else mset c p.1 p.2) o.cached }

/-- `GetAllRefund(addr)`: `getOrNewAccountObject` (may journal a creation, nil is dereferenced), then the map
    key-as-address ↦ value-as-integer over the cached slots and the storage-trie slots not cached (later entries of the
    list overwrite earlier ones with the same address, as map assignment does) -/
def getAllRefund (s : ADB) (a : Addr) : ADB × List (Addr × Nat) :=
  if s.crashed then (s, []) else
  match resolveNew s a with
  | (s1, none) => (crash s1, [])
  | (s1, some o) =>
    let o1 := o.cacheAll
    (putObj s1 a o1, o1.cached.foldl (fun r p => mset r (toAddr p.1) (beToNat p.2)) [])

/-- `utility.UInt64ToByte`: 8 bytes big endian -/
def u64BE (n : Nat) : Bytes := padLeft 8 (natToBE (n % U64))

/-- `AddERC20Binding(name, contract, position, decimal)`; `bind` = `GenerateERC20Binding(name)` (a SHA-256 image:
    parameter). The three writes are ordinary journaled `SetData`s. -/
def addERC20Binding (s : ADB) (bind contract : Addr) (pos dec : Nat) : ADB × Bool :=
  if s.crashed then (s, false) else
  match exist s bind with
  | (s1, true) => (s1, false)
  | (s1, false) =>
    (setData (setData (setData s1 bind [0x63] contract) bind [0x70] (u64BE pos)) bind [0x64] (u64BE dec), true)

/-! ## pure views used by the theorems (what a query would answer, without the caching) -/

inductive Res where
  | absent
  | deleted
  | live (o : Obj)
deriving DecidableEq, Repr

/-- how `getAccountObject(a, false)` resolves `a` -/
def res (s : ADB) (a : Addr) : Res :=
  match mget s.objs a with
  | some o => if o.deleted then .deleted else .live o
  | none =>
    match mget s.trie a with
    | some l => .live (Obj.ofLeaf l)
    | none => .absent

/-- every query named in the property statement, for one address / key / tx hash -/
structure Observation where
  crashed : Bool
  exist : Bool
  nonce : Nat
  slot : Val
  code : Bytes
  codeHash : Hash
  suicided : Bool
  balance : Nat
  refund : Nat
  logs : List LogRec
  logSize : Nat
  inAL : Bool
  slotInAL : Option (Bool × Bool)
  transient : Hash
deriving DecidableEq, Repr

def liveObj (s : ADB) (a : Addr) : Option Obj :=
  match res s a with
  | .live o => some o
  | _ => none

/-- the observation at (address `a`, storage key `k`, tx hash `th`, access-list slot / transient key `h`) -/
def obs (c : Cfg) (s : ADB) (a : Addr) (k : Key) (th h : Hash) : Observation :=
  { crashed := s.crashed
    exist := (liveObj s a).isSome
    nonce := ((liveObj s a).map (·.nonce)).getD 0
    slot := ((liveObj s a).map (·.get k)).getD []
    code := ((liveObj s a).map (fun o => (codeLookup s o).getD [])).getD []
    codeHash := ((liveObj s a).map (fun o => toHash o.codeHash)).getD zeroHash
    suicided := ((liveObj s a).map (·.suicided)).getD false
    balance := ((liveObj s c.tok).map (fun o => beToNat (o.get (c.balKey a)))).getD 0
    refund := s.refund
    logs := getLogs s th
    logSize := s.logSize
    inAL := s.al.containsAddr a
    slotInAL := s.al.contains a h
    transient := tget s.transient a h }

/-! ## op language of the driver and of the theorems -/

inductive Op where
  | setNonce (a : Addr) (n : Nat)
  | incNonce (a : Addr)
  | setData (a : Addr) (k : Key) (v : Val)
  | create (a : Addr)
  | setCode (a : Addr) (code : Bytes) (h : Hash)
  | suicide (a : Addr)
  | addBal (a : Addr) (n : Nat)
  | subBal (a : Addr) (n : Nat)
  | setBal (a : Addr) (n : Nat)
  | transfer (a b : Addr) (n : Nat)
  | addFT (a : Addr) (k : Key) (n : Nat)
  | subFT (a : Addr) (k : Key) (n : Nat)
  | setFT (a : Addr) (k : Key) (n : Nat)
  | addRefund (g : Nat)
  | subRefund (g : Nat)
  | addLog (a : Addr) (topics data : Bytes)
  | alAddr (a : Addr)
  | alSlot (a : Addr) (slot : Hash)
  | tset (a : Addr) (k v : Hash)
  | snapshot
  | revert (id : Nat)
  -- readers with side effects on caches
  | qExist (a : Addr)
  | qEmpty (a : Addr)
  | qBal (a : Addr)
  | qNonce (a : Addr)
  | qData (a : Addr) (k : Key)
  | qCommitted (a : Addr) (k : Key)
  | qSuicided (a : Addr)
  | qCode (a : Addr)
  | qCodeSize (a : Addr)
  | qCodeHash (a : Addr)
  | qFT (a : Addr) (k : Key)
  | setStorage (a : Addr) (kvs : List (Key × Val))
  | qAllRefund (a : Addr)
  | addBinding (bind contract : Addr) (pos dec : Nat)
deriving DecidableEq, Repr

/-- state transformer of an op (the answer is computed by the driver from the same functions) -/
def step (c : Cfg) (s : ADB) : Op → ADB
  | .setNonce a n => setNonce s a n
  | .incNonce a => (increaseNonce s a).1
  | .setData a k v => setData s a k v
  | .create a => createAccount s a
  | .setCode a code h => setCode s a code h
  | .suicide a => (suicide c s a).1
  | .addBal a n => addBalance c s a n
  | .subBal a n => (subBalance c s a n).1
  | .setBal a n => setBalance c s a n
  | .transfer a b n => transfer c s a b n
  | .addFT a k n => addFT s a k n
  | .subFT a k n => (subFT s a k n).1
  | .setFT a k n => setFT s a k n
  | .addRefund g => addRefund s g
  | .subRefund g => subRefund s g
  | .addLog a t d => addLog s a t d
  | .alAddr a => addAddressToAccessList s a
  | .alSlot a sl => addSlotToAccessList s a sl
  | .tset a k v => setTransientState s a k v
  | .snapshot => (snapshot s).1
  | .revert id => revert c s id
  | .qExist a => (exist s a).1
  | .qEmpty a => (isEmptyQ s a).1
  | .qBal a => (getBalance c s a).1
  | .qNonce a => (getNonce s a).1
  | .qData a k => (getData s a k).1
  | .qCommitted a k => (getCommitted s a k).1
  | .qSuicided a => (hasSuicided s a).1
  | .qCode a => (getCode s a).1
  | .qCodeSize a => (getCodeSize s a).1
  | .qCodeHash a => (getCodeHash s a).1
  | .qFT a k => (getFT s a k).1
  | .setStorage a kvs => setStorage s a kvs
  | .qAllRefund a => (getAllRefund s a).1
  | .addBinding b ct p d => (addERC20Binding s b ct p d).1

def run (c : Cfg) (s : ADB) (ops : List Op) : ADB := ops.foldl (step c) s

end Rangers.Model.Journal
