import Rangers.Basic.Hex
/-!
Model of how a member id becomes the key of the witness / share-piece maps and comes back
(`groupsig/id.go`, `bn_curve.go`), core Lean only:

* `idSerialize`   — `ID.Serialize`: the big-endian bytes of the value, LEFT-padded with zeros to
                    `ID_LENGTH = 32`; more than 32 bytes panics.
* `idHexChars`    — `ID.GetHexString` = `common.ToHex(Serialize())`: `"0x"` + lower-case hex.
* `idSetHex`      — `ID.SetHexString` = `BnInt.setHexString`: needs the prefix `"0x"` (else the error
                    "arg failed"), then `big.Int.SetString(rest, 16)`, whose failure is IGNORED (the
                    value is then whatever `SetString` left: `undefined`).
`RecoverGroupSignature` reads the Lagrange abscissa of a share back from the map key with exactly
this pair, so recovery is only right if the round trip is the identity.
-/
namespace Rangers.Model.IdKey
open Rangers

def hexCharsOfByte (b : UInt8) : List Char := [hexDigit (b.toNat / 16), hexDigit (b.toNat % 16)]

def hexChars (bs : Bytes) : List Char := bs.flatMap hexCharsOfByte

/-- `ID.Serialize`; `none` = the panic "ID bytes is more than IDLENGTH". -/
def idSerialize (x : Nat) : Option Bytes :=
  if (natToBE x).length ≤ 32 then some (padLeft 32 (natToBE x)) else none

/-- `ID.GetHexString`. -/
def idHexChars (x : Nat) : Option (List Char) :=
  (idSerialize x).map (fun b => '0' :: 'x' :: hexChars b)

/-- `big.Int.SetString(s, 16)` on plain hex digits (upper or lower case), most significant first;
    `none` when a character is not a hex digit. -/
def parseHexAux : Nat → List Char → Option Nat
  | acc, [] => some acc
  | acc, c :: cs =>
    match hexVal? c with
    | some d => parseHexAux (acc * 16 + d) cs
    | none => none

inductive SetHex where
  | argFailed            -- returned error "arg failed"
  | ok (v : Nat)
  | undefined            -- SetString failed, error dropped
  deriving Repr, DecidableEq

/-- `ID.SetHexString`. -/
def idSetHex : List Char → SetHex
  | '0' :: 'x' :: rest =>
    if rest.isEmpty then .undefined
    else match parseHexAux 0 rest with
      | some v => .ok v
      | none => .undefined
  | _ => .argFailed

end Rangers.Model.IdKey
