import Rangers.Model.TrieLive
/-
The disk path: `decodeNode` (node.go) on the RLP blob `NodeDatabase.Commit` wrote, with the
RLP splitting it uses (`storage/rlp/raw.go`: readKind, readSize, Split, SplitString, SplitList,
CountValues — only these, as used by node.go).  `none` = any of the Go errors
(unexpected EOF, canon-size, value too large, expected string/list, invalid number of list
elements, oversized embedded node, invalid RLP string size) or the slice panic of
`compactToHex` on an empty key.  Core Lean only.
-/
namespace Rangers.Trie
open Rangers

inductive RKind where
  | byte | string | list
deriving Repr, BEq, DecidableEq

/-- `readSize` -/
def readSize (b : Bytes) (slen : Nat) : Option Nat :=
  if b.length < slen then none
  else
    let s := beToNat (b.take slen)
    if s < 56 ∨ (b.headD 0) = 0 then none else some s

/-- `readKind`: (kind, tagsize, contentsize) -/
def readKind (buf : Bytes) : Option (RKind × Nat × Nat) :=
  match buf with
  | [] => none
  | b :: rest =>
    let x := b.toNat
    let r : Option (RKind × Nat × Nat) :=
      if x < 0x80 then some (.byte, 0, 1)
      else if x < 0xB8 then
        if x - 0x80 = 1 ∧ 0 < rest.length ∧ (rest.headD 0).toNat < 128 then none
        else some (.string, 1, x - 0x80)
      else if x < 0xC0 then (readSize rest (x - 0xB7)).map (fun s => (RKind.string, x - 0xB7 + 1, s))
      else if x < 0xF8 then some (.list, 1, x - 0xC0)
      else (readSize rest (x - 0xF7)).map (fun s => (RKind.list, x - 0xF7 + 1, s))
    r.bind (fun r => if buf.length - r.2.1 < r.2.2 then none else some r)

/-- `Split`: (kind, content, rest) -/
def rlpSplit (b : Bytes) : Option (RKind × Bytes × Bytes) :=
  (readKind b).map (fun r => (r.1, (b.drop r.2.1).take r.2.2, b.drop (r.2.1 + r.2.2)))

/-- `SplitString` -/
def splitString (b : Bytes) : Option (Bytes × Bytes) :=
  (rlpSplit b).bind (fun r => if r.1 == .list then none else some (r.2.1, r.2.2))

/-- `SplitList` -/
def splitList (b : Bytes) : Option (Bytes × Bytes) :=
  (rlpSplit b).bind (fun r => if r.1 == .list then some (r.2.1, r.2.2) else none)

/-- `CountValues` (fuel = an upper bound on the number of values) -/
def countValues : Nat → Bytes → Option Nat
  | 0, b => if b.isEmpty then some 0 else none
  | f + 1, b =>
    if b.isEmpty then some 0
    else (readKind b).bind (fun r => (countValues f (b.drop (r.2.1 + r.2.2))).map (· + 1))

mutual
/-- `decodeNode(hash, buf, cachegen)`; the first argument is fuel (`buf.length` suffices) -/
def decodeNode (gen : Nat) : Nat → Option Bytes → Bytes → Option LNode
  | 0, _, _ => none
  | f + 1, hash, buf =>
    if buf.isEmpty then none
    else
      (splitList buf).bind (fun r =>
        let elems := r.1
        (countValues elems.length elems).bind (fun c =>
          if c = 2 then
            -- decodeShort
            (splitString elems).bind (fun kr =>
              (compactToHex kr.1).bind (fun key =>
                if hasTerm key then
                  (splitString kr.2).map (fun vr => .short key (.value vr.1) { hash := hash, gen := gen, dirty := false })
                else
                  (decodeRef gen f kr.2).map (fun rr => .short key rr.1 { hash := hash, gen := gen, dirty := false })))
          else if c = 17 then
            -- decodeFull
            (decodeRefs gen f 16 elems).bind (fun cr =>
              (splitString cr.2).map (fun vr =>
                .full (cr.1 ++ [if vr.1.length > 0 then LNode.value vr.1 else .nil]) { hash := hash, gen := gen, dirty := false }))
          else none))
/-- `decodeRef`: (node, rest) -/
def decodeRef (gen : Nat) : Nat → Bytes → Option (LNode × Bytes)
  | 0, _ => none
  | f + 1, buf =>
    (rlpSplit buf).bind (fun r =>
      if r.1 == .list then
        -- embedded node; must not be larger than a hash
        if buf.length - r.2.2.length > 32 then none
        else (decodeNode gen f none buf).map (fun n => (n, r.2.2))
      else if r.2.1.length = 0 then some (.nil, r.2.2)
      else if r.2.1.length = 32 then some (.hash r.2.1, r.2.2)
      else none)
/-- the loop over the first 16 children in `decodeFull` -/
def decodeRefs (gen : Nat) : Nat → Nat → Bytes → Option (List LNode × Bytes)
  | 0, _, _ => none
  | _ + 1, 0, buf => some ([], buf)
  | f + 1, n + 1, buf =>
    (decodeRef gen f buf).bind (fun r => (decodeRefs gen f n r.2).map (fun rs => (r.1 :: rs.1, rs.2)))
end

/-- `NodeDatabase.node` for an entry that has been flushed to disk: decode the blob -/
def resolveHashDisk (st : Store) (gen : Nat) (h : Bytes) : Option LNode :=
  (st.lookup h).bind (fun c => decodeNode gen (20 * (encC c).length + 20) (some h) (encC c))

end Rangers.Trie
