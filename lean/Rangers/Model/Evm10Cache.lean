import Rangers.Model.Evm10Ops
/-
C10 — `Contract.isCode` with its caching (contract.go): `c.analysis` per frame, and the
`jumpdests` map shared by the frames of one call tree, keyed by code hash; hash-less init code
(zero `CodeHash`) is analysed locally and never stored in the shared map.  Core Lean only.
-/
namespace Rangers.Model.Evm10

/-- the part of a `Contract` that `isCode` reads and writes; `codeHash = none` is the zero hash -/
structure JContract where
  code : Bytes
  codeHash : Option Bytes
  analysis : Option Bytes

/-- `c.jumpdests`: code hash ↦ bitmap, shared with the parent context -/
abbrev JMap := List (Bytes × Bytes)

def JMap.find (jd : JMap) (h : Bytes) : Option Bytes :=
  match jd with
  | [] => none
  | (k, v) :: rest => if k == h then some v else JMap.find rest h

/-- `c.isCode(udest)` → (answer, the contract afterwards, the shared map afterwards) -/
def isCodeJ (c : JContract) (jd : JMap) (udest : Nat) : Bool × JContract × JMap :=
  match c.analysis with
  | some a => (Bitvec.codeSegment a udest, c, jd)
  | none =>
    match c.codeHash with
    | some h =>
      match jd.find h with
      | some a => (Bitvec.codeSegment a udest, { c with analysis := some a }, jd)
      | none =>
        let a := Bitvec.codeBitmap c.code
        (Bitvec.codeSegment a udest, { c with analysis := some a }, (h, a) :: jd)
    | none =>
      let a := Bitvec.codeBitmap c.code
      (Bitvec.codeSegment a udest, { c with analysis := some a }, jd)

/-- `c.validJumpdest(dest)` with the cache -/
def validJumpdestJ (c : JContract) (jd : JMap) (dest : Word) : Bool × JContract × JMap :=
  if !U256.isUint64 dest || decide (U256.lo64 dest ≥ c.code.length) then (false, c, jd)
  else if (c.code.getD (U256.lo64 dest) 0) != 0x5b then (false, c, jd)
  else isCodeJ c jd (U256.lo64 dest)

end Rangers.Model.Evm10
