import Rangers.Model.TrieStore
/-
The live trie of `src/storage/trie` as it sits in memory: nodes carry cache flags
(`nodeFlag{hash, gen, dirty}`), clean subtrees may be unloaded to `hashNode`s, and
`tryGet` / `insert` / `delete` resolve hash nodes on demand against the node database
(`resolveHash` → `NodeDatabase.node` → `expandNode`).  Transcribed from
  trie.go      tryGet, insert, delete (incl. the `resolve` in the branch reduction), resolveHash,
               Hash, Commit, hashRoot, NewTrie, newFlag
  hasher.go    hash (cached hash / canUnload / dirty), hashChildren, store
  node.go      nodeFlag.canUnload (uint16 arithmetic)
  database.go  insert (first entry for a hash wins), node, expandNode
`Model/Trie.lean` is the same code with every node loaded and no flags;
`Props/C02Live` proves the two agree.  Core Lean only.
-/
namespace Rangers.Trie
open Rangers

/-- `nodeFlag` -/
structure Flag where
  hash : Option Bytes
  gen : Nat
  dirty : Bool
deriving Repr, BEq, Inhabited

inductive LNode where
  | nil
  | value (b : Bytes)
  | short (k : Key) (v : LNode) (fl : Flag)
  | full (cs : List LNode) (fl : Flag)
  | hash (h : Bytes)
deriving Repr, Inhabited

abbrev Store := List (Bytes × CNode)

/-- `Trie.newFlag` -/
def newFlag (gen : Nat) : Flag := { hash := none, gen := gen, dirty := true }

/-- `nodeFlag.canUnload`: `!dirty && cachegen-gen >= cachelimit` in uint16 arithmetic -/
def canUnload (fl : Flag) (cachegen cachelimit : Nat) : Bool :=
  !fl.dirty && decide (cachelimit ≤ (cachegen + 65536 - fl.gen % 65536) % 65536)

/-! ### database.go -/

mutual
/-- `expandNode(hash, n, cachegen)`; `none` where `compactToHex` would slice out of range -/
def expandNode (gen : Nat) (hash : Option Bytes) : CNode → Option LNode
  | .empty => some .nil
  | .hashRef h => some (.hash h)
  | .leaf ck v => (compactToHex ck).map (fun k => .short k (.value v) { hash := hash, gen := gen, dirty := false })
  | .ext ck c =>
    (compactToHex ck).bind (fun k => (expandNode gen none c).map (fun c' => .short k c' { hash := hash, gen := gen, dirty := false }))
  | .branch cs v =>
    (expandNodeL gen cs).map (fun cs' =>
      .full (cs' ++ [if v.isEmpty then LNode.nil else .value v]) { hash := hash, gen := gen, dirty := false })
def expandNodeL (gen : Nat) : List CNode → Option (List LNode)
  | [] => some []
  | c :: cs => (expandNode gen none c).bind (fun c' => (expandNodeL gen cs).map (fun cs' => c' :: cs'))
end

/-- `Trie.resolveHash`: `none` = `MissingNodeError` -/
def resolveHash (st : Store) (gen : Nat) (h : Bytes) : Option LNode :=
  (st.lookup h).bind (expandNode gen (some h))

/-- `NodeDatabase.insert`: the first entry for a hash wins -/
def dbInsert (st : Store) (h : Bytes) (c : CNode) : Store :=
  if (st.lookup h).isSome then st else st ++ [(h, c)]

/-! ### trie.go; the `Nat` argument is recursion fuel (hash nodes are resolved from the store,
    so the recursion is not structural); `none` = error or panic in the Go code or fuel exhausted -/

/-- `Trie.tryGet`: (value, node with the resolved path cached, didResolve) -/
def getL (st : Store) (gen : Nat) : Nat → LNode → Key → Option (Option Bytes × LNode × Bool)
  | 0, _, _ => none
  | _ + 1, .nil, _ => some (none, .nil, false)
  | _ + 1, .value b, _ => some (some b, .value b, false)
  | f + 1, .short k v fl, key =>
    if k.length ≤ key.length ∧ key.take k.length = k then
      (getL st gen f v (key.drop k.length)).map (fun r =>
        if r.2.2 then (r.1, .short k r.2.1 { fl with gen := gen }, true) else (r.1, .short k v fl, false))
    else some (none, .short k v fl, false)
  | _ + 1, .full _ _, [] => none
  | f + 1, .full cs fl, i :: rest =>
    if i < cs.length then
      (getL st gen f (cs.getD i .nil) rest).map (fun r =>
        if r.2.2 then (r.1, .full (cs.set i r.2.1) { fl with gen := gen }, true) else (r.1, .full cs fl, false))
    else none
  | f + 1, .hash h, key =>
    (resolveHash st gen h).bind (fun child => (getL st gen f child key).map (fun r => (r.1, r.2.1, true)))

def emptyFullL : List LNode := List.replicate 17 .nil

def mkLeafL (gen : Nat) (key : Key) (value : LNode) : LNode :=
  if key.isEmpty then value else .short key value (newFlag gen)

/-- `Trie.insert` -/
def insertL (st : Store) (gen : Nat) : Nat → LNode → Key → LNode → Option (Bool × LNode)
  | 0, _, _, _ => none
  | _ + 1, .value v, [], value =>
    match value with
    | .value w => some (v != w, value)
    | _ => none
  | _ + 1, _, [], value => some (true, value)
  | f + 1, .short k v fl, key, value =>
    let m := prefixLen key k
    if m = k.length then
      (insertL st gen f v (key.drop m) value).map (fun r =>
        if !r.1 then (false, .short k v fl) else (true, .short k r.2 (newFlag gen)))
    else if key.length ≤ m ∨ 17 ≤ k.getD m 0 ∨ 17 ≤ key.getD m 0 then none
    else
      let c1 := mkLeafL gen (k.drop (m + 1)) v
      let c2 := mkLeafL gen (key.drop (m + 1)) value
      let branch := LNode.full ((emptyFullL.set (k.getD m 0) c1).set (key.getD m 0) c2) (newFlag gen)
      if m = 0 then some (true, branch) else some (true, .short (key.take m) branch (newFlag gen))
  | f + 1, .full cs fl, i :: rest, value =>
    if i < cs.length then
      (insertL st gen f (cs.getD i .nil) rest value).map (fun r =>
        if !r.1 then (false, .full cs fl) else (true, .full (cs.set i r.2) (newFlag gen)))
    else none
  | _ + 1, .nil, key, value => some (true, .short key value (newFlag gen))
  | f + 1, .hash h, key, value =>
    (resolveHash st gen h).bind (fun rn =>
      (insertL st gen f rn key value).map (fun r => if !r.1 then (false, rn) else (true, r.2)))
  | _ + 1, .value _, _ :: _, _ => none

def isNilL : LNode → Bool
  | .nil => true
  | _ => false

def soleChildL (cs : List LNode) : Option Nat :=
  let idx := (List.range cs.length).filter (fun i => !isNilL (cs.getD i .nil))
  match idx with
  | [p] => some p
  | _ => none

/-- `Trie.resolve`: a hash node is loaded, anything else returned as is -/
def resolveL (st : Store) (gen : Nat) (n : LNode) : Option LNode :=
  match n with
  | .hash h => resolveHash st gen h
  | c => some c

/-- the branch reduction at the end of `delete` on a full node (`n` already has the child replaced) -/
def reduceL (st : Store) (gen : Nat) (cs' : List LNode) : Option LNode :=
  match soleChildL cs' with
  | some pos =>
    if pos != 16 then
      -- `cnode, err := t.resolve(n.Children[pos], prefix)`
      (resolveL st gen (cs'.getD pos .nil)).map (fun cn =>
        match cn with
        | .short ck cv _ => .short (pos :: ck) cv (newFlag gen)
        | _ => .short [pos] (cs'.getD pos .nil) (newFlag gen))
    else some (.short [pos] (cs'.getD pos .nil) (newFlag gen))
  | none => some (.full cs' (newFlag gen))

/-- `Trie.delete` -/
def deleteL (st : Store) (gen : Nat) : Nat → LNode → Key → Option (Bool × LNode)
  | 0, _, _ => none
  | f + 1, .short k v fl, key =>
    let m := prefixLen key k
    if m < k.length then some (false, .short k v fl)
    else if m = key.length then some (true, .nil)
    else
      (deleteL st gen f v (key.drop k.length)).map (fun r =>
        if !r.1 then (false, .short k v fl)
        else match r.2 with
          | .short ck cv _ => (true, .short (k ++ ck) cv (newFlag gen))
          | child => (true, .short k child (newFlag gen)))
  | _ + 1, .full _ _, [] => none
  | f + 1, .full cs fl, i :: rest =>
    if i < cs.length then
      (deleteL st gen f (cs.getD i .nil) rest).bind (fun r =>
        if !r.1 then some (false, .full cs fl)
        else (reduceL st gen (cs.set i r.2)).map (fun n => (true, n)))
    else none
  | _ + 1, .value _, _ => some (true, .nil)
  | _ + 1, .nil, _ => some (false, .nil)
  | f + 1, .hash h, key =>
    (resolveHash st gen h).bind (fun rn =>
      (deleteL st gen f rn key).map (fun r => if !r.1 then (false, rn) else (true, r.2)))

/-! ### hasher.go -/

/-- RLP of a collapsed node (`rlp.Encode(&h.tmp, n)` in `store`) -/
def encC : CNode → Bytes
  | .empty => [0x80]
  | .hashRef h => rlpString h
  | .leaf ck v => rlpList (rlpString ck ++ rlpString v)
  | .ext ck c => rlpList (rlpString ck ++ encC c)
  | .branch cs v => rlpList (encCL cs ++ (if v.isEmpty then [0x80] else rlpString v))
where encCL : List CNode → Bytes
  | [] => []
  | c :: cs => encC c ++ encCL cs

/-- `hasher.store`: embed (< 32 bytes and not forced) or replace by the hash and, with a
    database, insert the collapsed node.  Result: (reference, cached hash, store). -/
def storeL (H : Bytes → Bytes) (withDb force : Bool) (cached : Option Bytes) (collapsed : CNode) (st : Store) :
    CNode × Option Bytes × Store :=
  let e := encC collapsed
  if e.length < 32 && !force then (collapsed, none, st)
  else
    let h := cached.getD (H e)
    (.hashRef h, some h, if withDb then dbInsert st h collapsed else st)

/-- the head of `hasher.hash`: use the cached hash (`n` = the node itself) -/
def cacheHit (gen limit : Nat) (withDb : Bool) (fl : Flag) (n : LNode) (st : Store) : Option (CNode × LNode × Store) :=
  match fl.hash with
  | some h =>
    if !withDb then some (.hashRef h, n, st)
    else if canUnload fl gen limit then some (.hashRef h, .hash h, st)     -- unload
    else if !fl.dirty then some (.hashRef h, n, st)
    else none
  | none => none

/-- flags of the cached copy after `store` -/
def hashedFlag (withDb : Bool) (fl : Flag) (h : Option Bytes) : Flag :=
  { hash := h, gen := fl.gen, dirty := if withDb then false else fl.dirty }

def valueBytesL : LNode → Bytes
  | .value b => b
  | _ => []

/-- `hashChildren` on a short node: a value child is kept, anything else replaced by its reference -/
def shortKid (ck : Bytes) (v : LNode) (c : CNode × LNode × Store) : CNode × LNode × Store :=
  match v with
  | .value b => (.leaf ck b, .value b, c.2.2)
  | _ => (.ext ck c.1, c.2.1, c.2.2)

mutual
/-- `hasher.hash(n, db, force)`: (what the parent embeds, replacement for `n`, store) -/
def hashL (H : Bytes → Bytes) (gen limit : Nat) (withDb : Bool) : LNode → Bool → Store → CNode × LNode × Store
  | .nil, _, st => (.empty, .nil, st)
  | .value b, _, st => (.leaf [] b, .value b, st)      -- not reachable: value nodes are skipped by hashChildren
  | .hash h, _, st => (.hashRef h, .hash h, st)
  | .short k v fl, force, st =>
    match cacheHit gen limit withDb fl (.short k v fl) st with
    | some r => r
    | none =>
      -- hashChildren (`hashL` on a value child is the identity on the store; `shortKid` ignores its result)
      let r := shortKid (hexToCompact k) v (hashL H gen limit withDb v false st)
      let s := storeL H withDb force fl.hash r.1 r.2.2
      (s.1, .short k r.2.1 (hashedFlag withDb fl s.2.1), s.2.2)
  | .full cs fl, force, st =>
    match cacheHit gen limit withDb fl (.full cs fl) st with
    | some r => r
    | none =>
      let r := hashLs H gen limit withDb cs 0 st
      let s := storeL H withDb force fl.hash (.branch r.1 (valueBytesL (cs.getD 16 .nil))) r.2.2
      (s.1, .full r.2.1 (hashedFlag withDb fl s.2.1), s.2.2)
/-- children `i..`: slots 0..15 are hashed, the value slot is copied -/
def hashLs (H : Bytes → Bytes) (gen limit : Nat) (withDb : Bool) : List LNode → Nat → Store → List CNode × List LNode × Store
  | [], _, st => ([], [], st)
  | c :: cs, i, st =>
    if i < 16 then
      let r := hashL H gen limit withDb c false st
      let rs := hashLs H gen limit withDb cs (i + 1) r.2.2
      (r.1 :: rs.1, r.2.1 :: rs.2.1, rs.2.2)
    else
      let rs := hashLs H gen limit withDb cs (i + 1) st
      (rs.1, c :: rs.2.1, rs.2.2)
end

/-! ### the trie object -/

structure LTrie where
  root : LNode
  gen : Nat          -- cachegen
  limit : Nat        -- cachelimit
  db : Store

def LTrie.empty : LTrie := { root := .nil, gen := 0, limit := 0, db := [] }

/-- fuel that always suffices for a key of this length (see `Props.C02Live`) -/
def fuelFor (key : Key) : Nat := 2 * key.length + 4

/-- `Trie.TryGet` -/
def LTrie.get (t : LTrie) (key : Bytes) : Option (Option Bytes × LTrie) :=
  let k := keybytesToHex key
  (getL t.db t.gen (fuelFor k) t.root k).map (fun r => (r.1, if r.2.2 then { t with root := r.2.1 } else t))

/-- `Trie.TryUpdate` -/
def LTrie.update (t : LTrie) (key value : Bytes) : Option LTrie :=
  let k := keybytesToHex key
  if value.length != 0 then
    (insertL t.db t.gen (fuelFor k) t.root k (.value value)).map (fun r => { t with root := r.2 })
  else
    (deleteL t.db t.gen (fuelFor k) t.root k).map (fun r => { t with root := r.2 })

/-- `Trie.TryDelete` -/
def LTrie.remove (t : LTrie) (key : Bytes) : Option LTrie :=
  let k := keybytesToHex key
  (deleteL t.db t.gen (fuelFor k) t.root k).map (fun r => { t with root := r.2 })

def refHash : CNode → Bytes
  | .hashRef h => h
  | _ => []

/-- `Trie.Hash`: no database, the root is replaced by its copy with cached hashes -/
def LTrie.hash (H : Bytes → Bytes) (t : LTrie) : Bytes × LTrie :=
  match t.root with
  | .nil => (emptyRoot, t)
  | root =>
    let r := hashL H t.gen t.limit false root true t.db
    (refHash r.1, { t with root := r.2.1 })

/-- `Trie.Commit`: nodes go to the database, clean old nodes are unloaded, `cachegen++` (uint16) -/
def LTrie.commit (H : Bytes → Bytes) (t : LTrie) : Bytes × LTrie :=
  match t.root with
  | .nil => (emptyRoot, { t with gen := (t.gen + 1) % 65536 })
  | root =>
    let r := hashL H t.gen t.limit true root true t.db
    (refHash r.1, { t with root := r.2.1, db := r.2.2, gen := (t.gen + 1) % 65536 })

/-- `NewTrie(root, db)` on the same database (cachegen 0, cachelimit 0) -/
def LTrie.open (db : Store) (root : Bytes) : Option LTrie :=
  if root == emptyRoot || root == List.replicate 32 0 then some { root := .nil, gen := 0, limit := 0, db := db }
  else (resolveHash db 0 root).map (fun n => { root := n, gen := 0, limit := 0, db := db })

end Rangers.Trie

namespace Rangers.Trie
open Rangers

/-- every hash node resolved: the fully loaded trie a live trie stands for (`none` = missing node) -/
def expandFull (st : Store) : Nat → LNode → Option Node
  | 0, _ => none
  | _ + 1, .nil => some .nil
  | _ + 1, .value b => some (.value b)
  | f + 1, .short k v _ => (expandFull st f v).map (fun v' => .short k v')
  | f + 1, .full cs _ => (cs.mapM (expandFull st f)).map (fun cs' => .full cs')
  | f + 1, .hash h => (resolveHash st 0 h).bind (expandFull st f)

/-- in-memory shape, for the structural tie with the implementation -/
def shapeFlag (fl : Flag) : String :=
  (if fl.hash.isSome then "h" else "-") ++ (if fl.dirty then "d" else "-") ++ toString fl.gen

mutual
def shapeL : LNode → String
  | .nil => "N"
  | .value _ => "V"
  | .hash _ => "H"
  | .short k v fl => "S" ++ toString k.length ++ shapeFlag fl ++ "(" ++ shapeL v ++ ")"
  | .full cs fl => "F" ++ shapeFlag fl ++ "(" ++ shapeLs cs ++ ")"
def shapeLs : List LNode → String
  | [] => ""
  | c :: cs => shapeL c ++ shapeLs cs
end

end Rangers.Trie
