import Rangers.Model.Bls14Text
import Rangers.Model.Bls14Sha3
/-!
C14 model, part 9: the remaining small functions of `groupsig` that can change what a key, id or
signature IS: equality / validity predicates, ids and addresses derived from public keys,
secret-key construction and aggregation, the shortened hex form.
-/
namespace Rangers.Model.Bls14
open Rangers

/-- `G1.Marshal` of a struct value: a nil pointer is first replaced by the zero point (infinity). -/
def g1ValMarshal : G1Val → Bytes
  | .nil => g1Marshal .inf
  | .pt q => g1Marshal q

/-- `Signature.IsEqual` = `bytes.Equal(value.Marshal(), rhs.value.Marshal())`
    (so the nil signature "equals" the identity signature). -/
def sigIsEqual (a b : Sig) : Bool := g1ValMarshal a == g1ValMarshal b

/-- `Pubkey.IsEqual`. -/
def pubIsEqual (a b : Pub) : Bool := Pub.serialize a == Pub.serialize b

/-- `Seckey.IsValid` / `ID.IsValid`: non-zero. `IsEqual`: equal values. -/
def scalarIsValid (n : Nat) : Bool := n != 0
def scalarIsEqual (a b : Nat) : Bool := a == b

/-- `AggregateSeckeys(secs)`: `none` (nil) for the empty list, else the sum reduced mod the order. -/
def aggregateSeckeys : List Nat → Option Nat
  | [] => none
  | s :: ss => some (ss.foldl (· + ·) s % R)

/-- `NewSeckeyFromRand(seed)` = `newSeckeyFromByte(seed.Bytes())`: the 32 seed bytes as a number, mod
    the order (the result can be the INVALID key 0). -/
def seckeyFromRand (seed : Bytes) : Nat := beToNat (seed.take 32) % R

/-- `common.BytesToAddress` (20-byte addresses): longer input keeps its LAST 20 bytes, shorter input
    is copied to the FRONT (left-aligned, zero-filled on the right). -/
def bytesToAddress (b : Bytes) : Bytes :=
  if b.length > 20 then b.drop (b.length - 20) else b ++ List.replicate (20 - b.length) 0

/-- `NewIDFromPubkey(pk)`: the SHA3-256 digest of the serialised key as a number. -/
def newIDFromPubkey (pk : Pub) : Nat := beToNat (Sha3.sha3_256 (Pub.serialize pk))

/-- `Pubkey.GetAddress()`. -/
def pubGetAddress (pk : Pub) : Bytes := bytesToAddress (Sha3.sha3_256 (Pub.serialize pk))

/-- `ID.ToAddress()`; `none` = the panic of `Serialize`. -/
def idToAddress (n : Nat) : Option Bytes := (idSerialize n).map bytesToAddress

/-- `common.ShortHex12`. -/
def shortHex12 (s : List Char) : List Char :=
  if s.length < 12 then s else s.take 6 ++ ['-'] ++ s.drop (s.length - 6)

end Rangers.Model.Bls14
