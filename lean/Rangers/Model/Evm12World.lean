/-
C12 model, part 1: the abstract world the EVM frame entry points act on.

What is modelled (from src/storage/account/accountdb*.go, account_object.go,
transition.go, transient_storage.go, access_list.go, as read):

* an account object exists or not (`Exist` = `getAccountObject(addr,false) != nil`);
  `SetNonce`, `SetState`, `SetCode`, `CreateAccount` go through
  `getOrNewAccountObject` and therefore create the object; `AddBalance`,
  `SubBalance`, `AddLog`, `SetTransientState`, `AddAddressToAccessList` do not.
* balances are NOT a field of the account object: `GetBalance/AddBalance/SubBalance`
  go through `GetFT/AddFT/SubFT(addr, BLANCE_NAME)` and live in the storage of the
  bound ERC-20 ledger account; so balance and existence are independent here.
* `SubBalance` leaves the balance unchanged when it is smaller than the amount
  (`SubFT` returns `(remain,false)`), `AddBalance` is unconditional.
* `Suicide(addr)` only acts on an existing object: marks it and zeroes the balance.
* `AddLog` stamps the log with the current `thash`, `txIndex` and the running `logSize`
  and appends to `logs[thash]`.
* per-transaction scratch: access list (addresses), transient storage.

Addresses are symbolic: CREATE / CREATE2 addresses are terms, not hashes. That
distinct terms denote distinct 20-byte addresses (Keccak/RLP injectivity) is an
assumption recorded in the trusted base; the harness maps real addresses back to
these terms.

Core Lean only (the driver executable links this file).
-/
namespace Rangers.Model.Evm12

/-- Symbolic account address. -/
inductive Addr where
  | base (n : Nat)
  | created (creator : Addr) (nonce : Nat)
  | created2 (creator : Addr) (salt : Nat)
  deriving DecidableEq, Repr, Inhabited

/-- Printable, prefix-parsable name: `b7`, `c.b7.0`, `d.c.b7.0.3`. -/
def Addr.name : Addr → String
  | .base n => "b" ++ toString n
  | .created c n => "c." ++ c.name ++ "." ++ toString n
  | .created2 c s => "d." ++ c.name ++ "." ++ toString s

/-- What the code of an account is, as far as frames care. `hosted` = one of the
    pre-deployed dispatcher contracts of the harness (runs the frame body named by
    the call); `deployed t` = runtime code left by a successful CREATE (`00 t`). -/
inductive Code where
  | empty
  | hosted
  | deployed (tag : Nat)
  deriving DecidableEq, Repr, Inhabited

def Code.name : Code → String
  | .empty => "-"
  | .hosted => "H"
  | .deployed t => "r" ++ toString t

structure Log where
  addr : Addr
  ntopics : Nat
  tag : Nat
  txh : Nat
  txIndex : Nat
  index : Nat
  deriving DecidableEq, Repr, Inhabited

def Log.name (l : Log) : String :=
  toString l.txh ++ "/" ++ toString l.txIndex ++ "/" ++ toString l.index ++ "/" ++ l.addr.name
    ++ "/" ++ toString l.ntopics ++ "/" ++ toString l.tag

/-- Association list with first-match lookup; `set` conses, so no invariant is needed. -/
abbrev AMap (β : Type) := List (Addr × β)

def AMap.get {β : Type} (m : AMap β) (d : β) (a : Addr) : β :=
  match m with
  | [] => d
  | (k, v) :: rest => if k = a then v else AMap.get rest d a

def AMap.set {β : Type} (m : AMap β) (a : Addr) (v : β) : AMap β := (a, v) :: m

abbrev SMap := List ((Addr × Nat) × Nat)

def SMap.get (m : SMap) (a : Addr) (k : Nat) : Nat :=
  match m with
  | [] => 0
  | ((a', k'), v) :: rest => if a' = a ∧ k' = k then v else SMap.get rest a k

def SMap.set (m : SMap) (a : Addr) (k v : Nat) : SMap := ((a, k), v) :: m

/-- The state object (`*account.AccountDB`) as far as this property observes it. -/
structure World where
  exist : AMap Bool := []
  nonce : AMap Nat := []
  bal : AMap Nat := []
  code : AMap Code := []
  sui : AMap Bool := []
  stor : SMap := []
  /-- all logs in emission order (the Go map `logs[thash]` is `getLogs`) -/
  logs : List Log := []
  logSize : Nat := 0
  thash : Nat := 0
  txIndex : Nat := 0
  transient : SMap := []
  access : List Addr := []
  /-- stake of the miner registered for an account (`miner.Stake`, kept in the storage of the miner
      database account; read by `GetMiner`, written by `AddStake` / `GetRefundStake`) -/
  stake : AMap Nat := []
  /-- the refund counter (`AddRefund`; journaled; cleared by `Finalise`, not by `Prepare`) -/
  refund : Nat := 0
  deriving Repr, Inhabited

namespace World

def exists? (w : World) (a : Addr) : Bool := w.exist.get false a
def getNonce (w : World) (a : Addr) : Nat := w.nonce.get 0 a
def getBalance (w : World) (a : Addr) : Nat := w.bal.get 0 a
def getCode (w : World) (a : Addr) : Code := w.code.get .empty a
def hasSuicided (w : World) (a : Addr) : Bool := w.sui.get false a
def getState (w : World) (a : Addr) (k : Nat) : Nat := w.stor.get a k
def getTransient (w : World) (a : Addr) (k : Nat) : Nat := w.transient.get a k
def getStake (w : World) (a : Addr) : Nat := w.stake.get 0 a
def inAccessList (w : World) (a : Addr) : Bool := w.access.contains a
/-- `AccountDB.GetLogs(hash)` -/
def getLogs (w : World) (h : Nat) : List Log := w.logs.filter (fun l => l.txh == h)

/-- `getOrNewAccountObject(addr)`: the object exists afterwards. -/
def touchNew (w : World) (a : Addr) : World :=
  if w.exists? a then w else { w with exist := w.exist.set a true }

/-- `CreateAccount` = `getOrNewAccountObject` (it does NOT reset an existing object). -/
def createAccount (w : World) (a : Addr) : World := w.touchNew a

def setNonce (w : World) (a : Addr) (n : Nat) : World :=
  let w := w.touchNew a
  { w with nonce := w.nonce.set a n }

def setState (w : World) (a : Addr) (k v : Nat) : World :=
  let w := w.touchNew a
  { w with stor := w.stor.set a k v }

def setCode (w : World) (a : Addr) (c : Code) : World :=
  let w := w.touchNew a
  { w with code := w.code.set a c }

def addBalance (w : World) (a : Addr) (v : Nat) : World :=
  { w with bal := w.bal.set a (w.getBalance a + v) }

/-- `SubFT`: unchanged when the balance is too small. -/
def subBalance (w : World) (a : Addr) (v : Nat) : World :=
  if w.getBalance a < v then w else { w with bal := w.bal.set a (w.getBalance a - v) }

/-- `vm.CanTransfer` -/
def canTransfer (w : World) (a : Addr) (v : Nat) : Bool := decide (v ≤ w.getBalance a)

/-- `vm.Transfer`: SubBalance then AddBalance. -/
def transfer (w : World) (src dst : Addr) (v : Nat) : World :=
  (w.subBalance src v).addBalance dst v

/-- `Suicide`: only for an existing object; marks it and zeroes its balance. -/
def suicide (w : World) (a : Addr) : World :=
  if w.exists? a then { w with sui := w.sui.set a true, bal := w.bal.set a 0 } else w

/-- the record `AddLog` stamps: current tx hash, tx index and running log index -/
def newLog (w : World) (a : Addr) (ntopics tag : Nat) : Log :=
  { addr := a, ntopics := ntopics, tag := tag, txh := w.thash, txIndex := w.txIndex,
    index := w.logSize }

def addLog (w : World) (a : Addr) (ntopics tag : Nat) : World :=
  { w with logs := w.logs ++ [w.newLog a ntopics tag], logSize := w.logSize + 1 }

def setTransient (w : World) (a : Addr) (k v : Nat) : World :=
  { w with transient := w.transient.set a k v }

/-- `gasSelfdestruct`: `if !HasSuicided(self) { AddRefund(SelfdestructRefundGas) }` -/
def selfdestructRefund (w : World) (self : Addr) : World :=
  if w.hasSuicided self then w else { w with refund := w.refund + 24000 }

def addAccess (w : World) (a : Addr) : World :=
  if w.access.contains a then w else { w with access := a :: w.access }

end World

/-- The part of the world property C12 protects: balances, nonces, storage, code,
    logs and the set of existing accounts, as seen through the getters (this is
    the observation C04 proves `RevertToSnapshot` restores). -/
structure Obs where
  exist : Addr → Bool
  nonce : Addr → Nat
  bal : Addr → Nat
  code : Addr → Code
  stor : Addr → Nat → Nat
  logs : List Log
  /-- miner stakes: storage of the miner database account -/
  stake : Addr → Nat
  /-- `HasSuicided`: a flagged account disappears at `Finalise`, so the flag is part of "the set of existing
      accounts" one block later -/
  sui : Addr → Bool

def obs (w : World) : Obs :=
  { exist := w.exists?, nonce := w.getNonce, bal := w.getBalance, code := w.getCode,
    stor := w.getState, logs := w.logs, stake := w.getStake, sui := w.hasSuicided }

/-- Per-transaction scratch state and log stamping context. -/
structure Scratch where
  transient : Addr → Nat → Nat
  access : Addr → Bool
  thash : Nat
  txIndex : Nat
  logSize : Nat
  refund : Nat

def scratch (w : World) : Scratch :=
  { transient := w.getTransient, access := w.inAccessList, thash := w.thash,
    txIndex := w.txIndex, logSize := w.logSize, refund := w.refund }

end Rangers.Model.Evm12
