import Rangers.Model.ModArith
/-!
Model of the threshold-key arithmetic of `src/consensus/groupsig` and of the
selection logic of `RecoverGroupSignature` (core Lean only; the driver executes
exactly these definitions).

Scalars and ids are `Nat` (`big.Int ≥ 0`), the group order `r` is a parameter
(the driver passes `Generated.Bn256.order`). Group elements are abstract: every
function that touches points takes the point operations as a record `Ops G`, so
the driver instantiates it with the executable `Model.G1` and the theorems with
any `Module (ZMod r) G`.

What is mirrored, statement by statement:
* `shareSeckey`        — `seckey.go: ShareSeckey` (Horner from the top coefficient, `Mod` after
                         every step, final `NewSeckeyFromBigInt` reduction; index panic on `[]`).
* `aggregateSeckeys`   — `seckey.go: AggregateSeckeys` (nil on empty, sum then one `Mod`).
* `lagrangeDelta`      — the `num/den/ModInverse/delta` block of `sig.go: recoverSignature`;
                         a failed `ModInverse` leaves `den` unchanged (Go ≥ 1.11).
* `recoverWith`        — the accumulation loop of `recoverSignature` (`i == 0` copies, later adds).
* `randomPerm`, `sortInts`, `pickSorted`, `recoverGroupSignature`
                       — `base.Rand.RandomPerm`, `sort.Ints`, `getRandomKSignInfo`,
                         `RecoverGroupSignature`, with the two Go-map iterations and the random
                         draws as explicit parameters.
* `getGroupK`          — `model/param.go: GetGroupK` through a bit-exact model of the IEEE-754
                         double division and `math.Ceil`.
-/
namespace Rangers.Model.Shamir
open Rangers.Model.ModArith

/-! ### Secret sharing (scalars) -/

/-- `ShareSeckey(msec, id)`: `none` is the index-out-of-range panic on an empty
    coefficient list (`msec[len-1]` with `len = 0`). -/
def shareSeckey (r : Nat) (cs : List Nat) (x : Nat) : Option Nat :=
  match cs.reverse with
  | [] => none
  | top :: rest => some ((rest.foldl (fun acc c => (acc * x + c) % r) top) % r)

/-- `AggregateSeckeys(secs)`: `none` is Go's `nil` for an empty slice. -/
def aggregateSeckeys (r : Nat) (secs : List Nat) : Option Nat :=
  match secs with
  | [] => none
  | s :: rest => some ((rest.foldl (fun acc x => acc + x) s) % r)

/-- Member key after the DKG (`groupNodeInfo.genMinerSignSecKey`): every dealer `d` sends
    `ShareSeckey(coeffs_d, id)`, the member aggregates what it received. `dealers` lists the
    dealers' coefficient lists. -/
def memberKey (r : Nat) (dealers : List (List Nat)) (x : Nat) : Option Nat :=
  match dealers.mapM (fun cs => shareSeckey r cs x) with
  | some shares => aggregateSeckeys r shares
  | none => none

/-- The group secret `Σ_d coeffs_d[0] mod r`. The node never computes it; the harness does (with
    `AggregateSeckeys`) to obtain the reference signature. -/
def groupSecret (r : Nat) (dealers : List (List Nat)) : Option Nat :=
  aggregateSeckeys r (dealers.map (fun cs => cs.headD 0))

/-- `AggregatePubkeys` (`pubkey.go`): `none` (Go `nil`) on empty input, else the first key with the
    others added one by one. -/
def aggregatePoints {G : Type} (add : G → G → G) : List G → Option G
  | [] => none
  | p :: ps => some (ps.foldl add p)

/-- Decision core of `VerifySig` (`sig.go`): `PairIsEuqal(Pair(σ, g₂), Pair(H(m), pk))`. The
    nil / on-curve guards in front of it are C14's subject. -/
def verifyCore {G1 G2 GT : Type} (pair : G1 → G2 → GT) (eq : GT → GT → Bool)
    (g2 pk : G2) (hm sig : G1) : Bool :=
  eq (pair sig g2) (pair hm pk)

/-! ### `groupNodeInfo` — collecting share pieces (`group_create/group_node_info.go`) -/

/-- A share piece as `handleSharePiece` sees it: sender id, secret share, the dealer's public key. -/
structure Piece (P : Type) where
  id : Nat
  share : Nat
  pub : P

/-- State of a member's `groupNodeInfo`: group size, `receivedSharePiece` (entries in insertion
    order; a Go map keyed by the sender's id), `minerSignSeckey` (`0` = not valid), `groupPubKey`
    (`none` = empty). -/
structure NodeInfo (P : Type) where
  n : Nat
  received : List (Piece P)
  msk : Nat
  gpk : Option P

def NodeInfo.new {P : Type} (n : Nat) : NodeInfo P := ⟨n, [], 0, none⟩

/-- `handleSharePiece(id, share)` → `(state, status)`: `-1` for a sender already present (the first
    piece is kept, whatever the new one contains); otherwise the piece is stored — no membership test
    here nor in the caller — and when the number of DISTINCT senders equals the group size
    (`gotAllSharePiece`: `len(receivedSharePiece) == groupMemberNum`) the keys are aggregated
    (`aggregateKeys`: only if not both valid yet) and `1` is returned if both are valid, else `-1`;
    `0` in every other case (also for senders beyond the `n`-th, after completion). -/
def handleSharePiece {P : Type} (r : Nat) (addP : P → P → P) (st : NodeInfo P) (pc : Piece P) :
    NodeInfo P × Int :=
  if st.received.any (fun e => e.id == pc.id) then (st, -1)
  else
    let rc := st.received ++ [pc]
    if rc.length = st.n then
      let st' : NodeInfo P :=
        if st.gpk.isNone ∨ st.msk = 0 then
          ⟨st.n, rc, (aggregateSeckeys r (rc.map (·.share))).getD 0, aggregatePoints addP (rc.map (·.pub))⟩
        else ⟨st.n, rc, st.msk, st.gpk⟩
      (st', if st'.gpk.isSome ∧ st'.msk ≠ 0 then 1 else -1)
    else (⟨st.n, rc, st.msk, st.gpk⟩, 0)

/-- A delivery history. -/
def deliverAll {P : Type} (r : Nat) (addP : P → P → P) :
    NodeInfo P → List (Piece P) → NodeInfo P × List Int
  | st, [] => (st, [])
  | st, pc :: rest =>
    let (st', c) := handleSharePiece r addP st pc
    let (st'', cs) := deliverAll r addP st' rest
    (st'', c :: cs)

/-! ### Lagrange coefficients -/

/-- The inner `j` loop of `recoverSignature` for fixed `i`: running `(num, den)`. `j` is the
    position of the head of the remaining list. -/
def numDenAux (r : Nat) (i : Nat) (xi : Nat) : Nat → List Nat → Nat × Nat → Nat × Nat
  | _, [], nd => nd
  | j, xj :: rest, nd =>
    numDenAux r i xi (j + 1) rest
      (if j = i then nd
       else ((nd.1 * xj) % r, emod ((nd.2 : Int) * ((xj : Int) - (xi : Int))) r))

def numDen (r : Nat) (xs : List Nat) (i : Nat) (xi : Nat) : Nat × Nat :=
  numDenAux r i xi 0 xs (1, 1)

/-- `den.ModInverse(den, curveOrder)`: on failure `den` keeps its value. -/
def invOrKeep (r : Nat) (den : Nat) : Nat :=
  match modInverse den r with
  | some v => v
  | none => den

/-- `delta` for position `i` (whose id is `xi`) among the ids `xs`. -/
def lagrangeDelta (r : Nat) (xs : List Nat) (i : Nat) (xi : Nat) : Nat :=
  let nd := numDen r xs i xi
  (nd.1 * invOrKeep r nd.2) % r

def lagrangeAux (r : Nat) (xs : List Nat) : Nat → List Nat → List Nat
  | _, [] => []
  | i, xi :: rest => lagrangeDelta r xs i xi :: lagrangeAux r xs (i + 1) rest

/-- All `delta`s of `recoverSignature` for the id list `xs`, in order. -/
def lagrangeCoeffs (r : Nat) (xs : List Nat) : List Nat := lagrangeAux r xs 0 xs

/-- Scalar twin of `recoverSignature` (Σ δᵢ·sᵢ mod r); used for the scalar-level tie. -/
def recoverScalar (r : Nat) (xs : List Nat) (shares : List Nat) : Nat :=
  ((List.zipWith (fun d s => d * s) (lagrangeCoeffs r xs) shares).foldl (· + ·) 0) % r

/-! ### Recovery in the group -/

/-- The two point operations `recoverSignature` uses. -/
structure Ops (G : Type) where
  add : G → G → G
  mul : G → Nat → G

/-- Accumulation loop: `sig = δ₀·σ₀`, then `sig = sig + δᵢ·σᵢ`. -/
def accumulate {G : Type} (ops : Ops G) : Option G → List Nat → List G → Option G
  | acc, d :: ds, s :: ss =>
    let t := ops.mul s d
    accumulate ops (some (match acc with | none => t | some a => ops.add a t)) ds ss
  | acc, _, _ => acc

/-- Outcome of a Go call that can panic. -/
inductive Res (α : Type) where
  | ok (a : α)
  | panic
  deriving Repr, DecidableEq

/-- `recoverSignature(sigs, ids)`: `k = len(sigs)`; `ids[i]` for `i < len(xs)` only, so fewer
    ids than signatures is an index panic; surplus ids are ignored (`j < k`). `ok none` is the
    empty `&Signature{}` returned for `k = 0`. -/
def recoverWith {G : Type} (ops : Ops G) (r : Nat) (ids : List Nat) (sigs : List G) : Res (Option G) :=
  if ids.length < sigs.length then .panic
  else
    let xs := ids.take sigs.length
    .ok (accumulate ops none (lagrangeCoeffs r xs) sigs)

/-! ### `RandomPerm`, `sort.Ints`, `getRandomKSignInfo`, `RecoverGroupSignature` -/

def swapList (l : List Nat) (i j : Nat) : List Nat :=
  let a := l.getD i 0
  let b := l.getD j 0
  (l.set i b).set j a

def randomPermAux : Nat → Nat → List Nat → List Nat → List Nat
  | _, 0, _, l => l
  | i, steps + 1, js, l =>
    match js with
    | [] => l
    | jr :: js' => randomPermAux (i + 1) steps js' (swapList l i (jr + i))

/-- `Rand.RandomPerm(n, k)` where `js[i]` is the value `r.Deri(i).Modulo(n-i)` (the only
    place the hash enters). Requires `js.length ≥ k`; the Go code panics (`Modulo(0)`) for
    `k > n`, which callers exclude (`k < n` at the only call site). -/
def randomPerm (n k : Nat) (js : List Nat) : List Nat :=
  (randomPermAux 0 k js (List.range n)).take k

def insertSorted (a : Nat) : List Nat → List Nat
  | [] => [a]
  | b :: bs => if a ≤ b then a :: b :: bs else b :: insertSorted a bs

/-- `sort.Ints` (only the result matters). -/
def sortInts : List Nat → List Nat
  | [] => []
  | a :: as => insertSorted a (sortInts as)

/-- The loop of `getRandomKSignInfo`: walk the map (in iteration order) with counter `i`, take
    the entry when `i == indexs[j]`, stop when all indexes are used. -/
def pickSorted {α : Type} : Nat → List α → List Nat → List α
  | _, [], _ => []
  | _, _, [] => []
  | i, e :: es, d :: ds =>
    if i = d then e :: pickSorted (i + 1) es ds else pickSorted (i + 1) es (d :: ds)

/-- The sources of nondeterminism of `RecoverGroupSignature`: the iteration order of the
    witness map, the draws of `RandomPerm`, the iteration order of the reduced map. -/
structure Choice (α : Type) where
  ord1 : List α → List α
  js : List Nat
  ord2 : List α → List α

/-- `RecoverGroupSignature(memberSignMap, thresholdValue)`; `m` lists the map's entries
    `(id, signature)`, a signature being `none` when its point pointer is nil (zero-valued
    `Signature{}`, or `DeserializeSign` of fewer than 64 bytes). Fewer than `k` entries leave
    zero-valued slots; a nil point in a used slot is dereferenced
    (`new_sig.value.Set(&sigs[i].value)`): panic. `k = 0` with a non-empty map enters
    `getRandomKSignInfo` with an empty index slice and reads `indexs[0]`: panic. -/
def recoverGroupSignature {G : Type} (ops : Ops G) (r : Nat) (k : Nat) (m : List (Nat × Option G))
    (c : Choice (Nat × Option G)) : Res (Option G) :=
  if k = 0 ∧ 0 < m.length then .panic
  else
  let m' := if k < m.length then pickSorted 0 (c.ord1 m) (sortInts (randomPerm m.length k c.js)) else m
  let it := (c.ord2 m').take k
  if it.length < k then .panic
  else
    match it.mapM (fun e => e.2) with
    | none => .panic
    | some sigs => recoverWith ops r (it.map Prod.fst) sigs

/-! ### `GroupSignGenerator` (`model/group_sign.go`, and its twin in `logical/round_sign_piece.go`) -/

/-- State of a generator: threshold, witness map (as the list of its entries), recovered
    signature (`none` = zero-valued `Signature{}`, nil point). -/
structure SignGen (G : Type) where
  k : Nat
  witnesses : List (Nat × Option G)
  groupSign : Option G
  deriving DecidableEq

def SignGen.new {G : Type} (k : Nat) : SignGen G := ⟨k, [], none⟩

/-- `SignRecovered()` = `groupSign.IsValid()`: non-nil point that is on the curve (`isValid`). -/
def signRecovered {G : Type} (isValid : G → Bool) (st : SignGen G) : Bool :=
  match st.groupSign with
  | some g => isValid g
  | none => false

/-- `AddWitnessSign(id, sig)` → `(state, add, generated)`. Already recovered: `(false, true)`.
    Known id: `(false, false)`. Otherwise store; with `len ≥ threshold` call `genGroupSign`,
    which recovers (unless a valid signature is there), stores the result and reports `true`.
    `c` is the choice `RecoverGroupSignature` makes in this call. -/
def addWitnessSign {G : Type} (ops : Ops G) (r : Nat) (isValid : G → Bool) (st : SignGen G)
    (id : Nat) (sig : Option G) (c : Choice (Nat × Option G)) : Res (SignGen G × Bool × Bool) :=
  if signRecovered isValid st then .ok (st, false, true)
  else if st.witnesses.any (fun e => e.1 == id) then .ok (st, false, false)
  else
    let w := st.witnesses ++ [(id, sig)]
    if st.k ≤ w.length then
      match recoverGroupSignature ops r st.k w c with
      | .panic => .panic
      | .ok g => .ok (⟨st.k, w, g⟩, true, true)
    else .ok (⟨st.k, w, st.groupSign⟩, true, false)

/-- Feed a sequence of arrivals, each with the choice made by that call. -/
def feed {G : Type} (ops : Ops G) (r : Nat) (isValid : G → Bool) :
    SignGen G → List (Nat × Option G × Choice (Nat × Option G)) → Res (SignGen G)
  | st, [] => .ok st
  | st, (id, sig, c) :: rest =>
    match addWitnessSign ops r isValid st id sig c with
    | .panic => .panic
    | .ok (st', _, _) => feed ops r isValid st' rest

/-! ### `round1.Update` — block signature and random beacon together (`logical/round_sign_piece.go`) -/

/-- What `round1` holds for one block: the generator of the block signature, the generator of the
    random beacon, `bh.Signature`, `bh.Random` (`none` = not set yet) and `canProcessed`. -/
structure Round1 (G : Type) where
  g : SignGen G
  r : SignGen G
  blockSig : Option G
  blockRandom : Option G
  canProcessed : Bool
  deriving DecidableEq

/-- `round1.Start`: both generators get the same threshold. -/
def Round1.start {G : Type} (k : Nat) : Round1 G := ⟨SignGen.new k, SignGen.new k, none, none, false⟩

/-- The part of `round1.Update` that touches the generators. `checked` stands for all the guards in
    front of it (block exists, sender's key known, piece signed over this block's hash, both
    signatures verify — C15's subject); `rsig = none` is the guard `sig == nil || sig.IsNil()` on the
    random-beacon share. Then: the block-signature share goes to `gSignGenerator`; if it was not added
    (already recovered, or this sender already present) NOTHING else happens; otherwise the beacon share
    goes to `rSignGenerator`, and only if `radd && generate && rgen` the header fields are written and
    `canProcessed` is set. -/
def round1Update {G : Type} (ops : Ops G) (r : Nat) (isValid : G → Bool) (st : Round1 G)
    (id : Nat) (sig rsig : Option G) (checked : Bool)
    (cg cr : Choice (Nat × Option G)) : Res (Round1 G) :=
  if !checked || rsig.isNone then .ok st
  else
    match addWitnessSign ops r isValid st.g id sig cg with
    | .panic => .panic
    | .ok (g', add, generate) =>
      if !add then .ok ⟨g', st.r, st.blockSig, st.blockRandom, st.canProcessed⟩
      else
        match addWitnessSign ops r isValid st.r id rsig cr with
        | .panic => .panic
        | .ok (r', radd, rgen) =>
          if radd && generate && rgen then .ok ⟨g', r', g'.groupSign, r'.groupSign, true⟩
          else .ok ⟨g', r', st.blockSig, st.blockRandom, st.canProcessed⟩

/-! ### `GetGroupK` -/

/-- Bit length (`0` for `0`). -/
def bitLen (n : Nat) : Nat := if n = 0 then 0 else Nat.log2 n + 1

/-- Correctly rounded (nearest, ties to even) quotient of two positive integers `< 2^53` as a
    53-bit significand `q` and binary scale `s`: value `q / 2^s`. With `s0 = 53 + |b| - |a|`
    the scaled quotient lies in `(2^52, 2^54)`, so one conditional step normalises it. -/
def fdiv53 (a b : Nat) : Nat × Nat :=
  let s0 := 53 + bitLen b - bitLen a
  let s := if 2 ^ 53 ≤ (a <<< s0) / b then s0 - 1 else s0
  let n := a <<< s
  let q := n / b
  let rem := n % b
  let q' := if 2 * rem > b ∨ (2 * rem = b ∧ q % 2 = 1) then q + 1 else q
  (q', s)

/-- `math.Ceil` of the dyadic `q / 2^s`. -/
def ceilDyadic (qs : Nat × Nat) : Nat := (qs.1 + 2 ^ qs.2 - 1) / 2 ^ qs.2

/-- `GetGroupK(max) = int(math.Ceil(float64(max*thr) / 100))`. `none` outside the range where
    `float64(max*thr)` and `float64(div)` are exact (`< 2^53`); `max*thr = 0` gives `0`. -/
def getGroupK (thr div : Nat) (n : Nat) : Option Nat :=
  let a := n * thr
  if div = 0 then none
  else if a = 0 then some 0
  else if 2 ^ 53 ≤ a ∨ 2 ^ 53 ≤ div then none
  else some (ceilDyadic (fdiv53 a div))

/-! ### Group size (`model/param.go`) -/

/-- `IsGroupMemberCountLegal`. -/
def isGroupMemberCountLegal (min max cnt : Nat) : Bool := decide (min ≤ cnt) && decide (cnt ≤ max)

/-- `CreateGroupMemberCount(avail)`: `int(math.Ceil(float64(avail / ratio)))` — the division is the
    INTEGER division (so the ceiling does nothing; exact while the quotient is below `2^53`), capped
    at `max`, and `0` (no group) below `min`. `none` = integer division by zero (`ratio = 0`) or a
    quotient outside the exact range. -/
def createGroupMemberCount (min max ratio avail : Nat) : Option Nat :=
  if ratio = 0 then none
  else
    let cnt := avail / ratio
    if 2 ^ 53 ≤ cnt then none
    else if cnt > max then some max
    else if cnt < min then some 0
    else some cnt

/-- `genSharePiece(mems)`: the map `id.GetHexString() ↦ ShareSeckey(coeffs, id)`; `mems` are the
    member ids below `2^256` (distinct ids are distinct keys, `id_key_injective`); an id listed twice
    is one entry. `none` = `ShareSeckey` panicked (no coefficients). -/
def genSharePiece (r : Nat) (cs : List Nat) : List Nat → Option (List (Nat × Nat))
  | [] => some []
  | x :: rest =>
    match shareSeckey r cs x, genSharePiece r cs rest with
    | some v, some m => some ((x, v) :: m.filter (fun e => e.1 != x))
    | _, _ => none

end Rangers.Model.Shamir
