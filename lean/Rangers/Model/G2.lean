import Rangers.Basic.Hex
import Rangers.Model.ModArith
/-!
Executable mirror of what `bn256.G2` exposes for key aggregation (core Lean only): affine points of
the twist `y² = x³ + b'` over `GF(p²) = GF(p)[i]/(i²+1)`, with `add`, `double`, `mul`, `marshal`,
`unmarshal`. An element `x·i + y` is the pair `⟨x, y⟩` (field order of `gfP2{x, y}`).
Same case structure as `Model/G1.lean` (the Go code is the same Jacobian formulas over `gfP2`).
`G2.Marshal` writes ONE zero byte for infinity and 128 bytes `x.x ‖ x.y ‖ y.x ‖ y.y` otherwise.
-/
namespace Rangers.Model.G2
open Rangers Rangers.Model.ModArith

structure F2 where
  x : Nat
  y : Nat
  deriving Repr, DecidableEq, BEq

def fsubm (p a b : Nat) : Nat := (a + (p - b % p)) % p

def f2zero : F2 := ⟨0, 0⟩
def f2add (p : Nat) (a b : F2) : F2 := ⟨(a.x + b.x) % p, (a.y + b.y) % p⟩
def f2sub (p : Nat) (a b : F2) : F2 := ⟨fsubm p a.x b.x, fsubm p a.y b.y⟩
/-- `(a.x i + a.y)(b.x i + b.y) = (a.x b.y + a.y b.x) i + (a.y b.y − a.x b.x)`. -/
def f2mul (p : Nat) (a b : F2) : F2 :=
  ⟨(a.x * b.y + a.y * b.x) % p, fsubm p (a.y * b.y) (a.x * b.x)⟩
def f2scale (p : Nat) (k : Nat) (a : F2) : F2 := ⟨(k * a.x) % p, (k * a.y) % p⟩
/-- `(x i + y)⁻¹ = (−x i + y) / (x² + y²)`; `0 ↦ 0`. -/
def f2inv (p : Nat) (a : F2) : F2 :=
  let n := (a.x * a.x + a.y * a.y) % p
  let ni := match modInverse n p with
    | some v => v
    | none => 0
  ⟨(fsubm p 0 a.x * ni) % p, (a.y * ni) % p⟩

inductive Point where
  | inf
  | aff (x y : F2)
  deriving Repr, DecidableEq, BEq

def isOnCurve (p : Nat) (b : F2) : Point → Bool
  | .inf => true
  | .aff x y => f2mul p y y == f2add p (f2mul p (f2mul p x x) x) ⟨b.x % p, b.y % p⟩

def double (p : Nat) : Point → Point
  | .inf => .inf
  | .aff x y =>
    if y = f2zero then .inf
    else
      let l := f2mul p (f2scale p 3 (f2mul p x x)) (f2inv p (f2scale p 2 y))
      let x3 := f2sub p (f2sub p (f2mul p l l) x) x
      let y3 := f2sub p (f2mul p l (f2sub p x x3)) y
      .aff x3 y3

def add (p : Nat) : Point → Point → Point
  | .inf, q => q
  | a, .inf => a
  | .aff x1 y1, .aff x2 y2 =>
    if x1 = x2 then
      if y1 = y2 then double p (.aff x1 y1) else .inf
    else
      let l := f2mul p (f2sub p y2 y1) (f2inv p (f2sub p x2 x1))
      let x3 := f2sub p (f2sub p (f2mul p l l) x1) x2
      let y3 := f2sub p (f2mul p l (f2sub p x1 x3)) y1
      .aff x3 y3

/-- `twistPoint.Mul`: same loop as `curvePoint.Mul`. -/
def mulAux (p : Nat) (a : Point) (k : Nat) : Nat → Point → Point
  | 0, sum =>
    let t := double p sum
    if k.testBit 0 then add p t a else t
  | i + 1, sum =>
    let t := double p sum
    mulAux p a k i (if k.testBit (i + 1) then add p t a else t)

def bitLen (n : Nat) : Nat := if n = 0 then 0 else Nat.log2 n + 1

def mul (p : Nat) (a : Point) (k : Nat) : Point := mulAux p a k (bitLen k) .inf

def marshal : Point → Bytes
  | .inf => [0]
  | .aff x y => padLeft 32 (natToBE x.x) ++ padLeft 32 (natToBE x.y) ++ padLeft 32 (natToBE y.x) ++ padLeft 32 (natToBE y.y)

/-- Decoding of a 128-byte encoding (coordinates reduced mod `p`, all-zero = infinity; the on-curve
    test is left to the caller, as `Pubkey.Deserialize` is C14's subject). `none` if too short. -/
def unmarshal (p : Nat) (m : Bytes) : Option Point :=
  if m.length < 128 then none
  else
    let c (i : Nat) : Nat := beToNat ((m.drop (32 * i)).take 32) % p
    let x : F2 := ⟨c 0, c 1⟩
    let y : F2 := ⟨c 2, c 3⟩
    if x = f2zero ∧ y = f2zero then some .inf else some (.aff x y)

end Rangers.Model.G2
