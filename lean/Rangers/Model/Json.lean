import Rangers.Basic.Hex
/-!
C09 model, part 2: the text renderings the identifying hashes are computed from
(`encoding/json` output of the header projection, `time.Time` as RFC3339Nano, `big.Int`
literals, base64 for `[]byte`, `0x…` for `common.Hash`), the binary form of `time.Time`
(`MarshalBinary`/`UnmarshalBinary`, Go 1.23) and the JSON form of the `RequestIds` map.
Core Lean only.
-/
namespace Rangers.Json
open Rangers

def ascii (s : String) : Bytes := s.toList.map (fun c => UInt8.ofNat c.toNat)

/-- Decimal digits, most significant first (`strconv.FormatUint`); `fuel` bounds the digit count. -/
def decNatF : Nat → Nat → Bytes
  | 0, _ => []
  | f + 1, n => if n < 10 then [UInt8.ofNat (48 + n)] else decNatF f (n / 10) ++ [UInt8.ofNat (48 + n % 10)]

def decNat (n : Nat) : Bytes := decNatF (n + 1) n

def pad0 (w : Nat) (n : Nat) : Bytes :=
  let d := decNat n
  List.replicate (w - d.length) 48 ++ d

def decInt (i : Int) : Bytes := if i < 0 then 45 :: decNat i.natAbs else decNat i.natAbs

/-- Fixed-width big-endian bytes of `n mod 256^w`. -/
def beFixed : Nat → Nat → Bytes
  | 0, _ => []
  | w + 1, n => beFixed w (n / 256) ++ [UInt8.ofNat (n % 256)]

def toSigned (bits : Nat) (u : Nat) : Int := if u < 2 ^ (bits - 1) then (u : Int) else (u : Int) - (2 ^ bits : Nat)

/-! ## time.Time, by its observable content -/

/-- What `MarshalBinary`, `MarshalJSON` and `Zone` can see of a `time.Time`:
    `sec` = `t.sec()` (seconds since year 1), `nsec` = `t.nsec()`, `zone` = `none` for the UTC
    location, else the zone offset in seconds east of UTC (whatever the location's name). -/
structure GoTime where
  sec : Int
  nsec : Nat
  zone : Option Int
  deriving Repr, DecidableEq, Inhabited

def zeroTime : GoTime := ⟨0, 0, none⟩

/-- `Time.MarshalBinary` (Go 1.23: version 2 when the offset has a seconds part). `none` = error. -/
def timeToBin (t : GoTime) : Option Bytes :=
  let core := beFixed 8 (t.sec % 18446744073709551616).toNat ++ beFixed 4 t.nsec
  match t.zone with
  | none => some ([1] ++ core ++ [255, 255])
  | some off =>
    let s := Int.tmod off 60
    let m := Int.tdiv off 60
    if m < -32768 ∨ m = -1 ∨ m > 32767 then none
    else
      let mm := beFixed 2 (m % 65536).toNat
      if s ≠ 0 then some ([2] ++ core ++ mm ++ [UInt8.ofNat (s % 256).toNat])
      else some ([1] ++ core ++ mm)

/-- `Time.UnmarshalBinary`. A negative int32 nanosecond word sets the wall word's
    "has monotonic" bit, after which `sec()` is read from the wall word (1885 + 2^33 s). -/
def binToTime (b : Bytes) : Option GoTime :=
  match b with
  | [] => none
  | v :: rest =>
    if v ≠ 1 ∧ v ≠ 2 then none
    else if b.length ≠ (if v = 2 then 16 else 15) then none
    else
      let sec := toSigned 64 (beToNat (rest.take 8))
      let nsU := beToNat ((rest.drop 8).take 4)
      let offMin := toSigned 16 (beToNat ((rest.drop 12).take 2))
      let off := offMin * 60 + (if v = 2 then ((rest.drop 14).headD 0).toNat else 0)
      let secObs : Int := if nsU < 2147483648 then sec else 59453308800 + 8589934590 + (nsU / 1073741824 % 2 : Nat)
      some ⟨secObs, nsU % 1073741824, if off = -60 then none else some off⟩

def isLeap (y : Int) : Bool := y % 4 == 0 && (y % 100 != 0 || y % 400 == 0)

def daysBefore : List Nat := [0, 31, 59, 90, 120, 151, 181, 212, 243, 273, 304, 334, 365]

/-- `absDate(abs, true)` of time.go (uint64 day arithmetic), returning (year, month, day). -/
def absDate (abs : Nat) : Int × Nat × Nat :=
  let d := abs / 86400
  let n := d / 146097
  let y := 400 * n
  let d := d - 146097 * n
  let n := d / 36524
  let n := n - n / 4
  let y := y + 100 * n
  let d := d - 36524 * n
  let n := d / 1461
  let y := y + 4 * n
  let d := d - 1461 * n
  let n := d / 365
  let n := n - n / 4
  let y := y + n
  let d := d - 365 * n
  let year : Int := (y : Int) - 292277022399
  let leap := isLeap year
  if leap ∧ d = 59 then (year, 2, 29)
  else
    let day := if leap ∧ d > 59 then d - 1 else d
    let month := day / 31
    let e := daysBefore.getD (month + 1) 0
    if day ≥ e then (year, month + 2, day - e + 1)
    else (year, month + 1, day - daysBefore.getD month 0 + 1)

def stripZeros : Bytes → Bytes
  | [] => []
  | b :: bs => match stripZeros bs with
    | [] => if b = 48 then [] else [b]
    | r => b :: r

/-- `Time.MarshalJSON` without the quotes; `none` = the error cases of `appendStrictRFC3339`. -/
def timeRFC3339 (t : GoTime) : Option Bytes :=
  let off : Int := t.zone.getD 0
  let abs := ((t.sec + off + 9223371966579724800) % 18446744073709551616).toNat
  let (year, month, day) := absDate abs
  if year < 0 ∨ year > 9999 then none
  else
    let s := abs % 86400
    let base := pad0 4 year.toNat ++ [45] ++ pad0 2 month ++ [45] ++ pad0 2 day ++ [84] ++
      pad0 2 (s / 3600) ++ [58] ++ pad0 2 (s % 3600 / 60) ++ [58] ++ pad0 2 (s % 60)
    let frac := if t.nsec = 0 then [] else 46 :: stripZeros (pad0 9 t.nsec)
    if off = 0 then some (base ++ frac ++ [90])
    else
      let zone := (Int.tdiv off 60).natAbs
      if zone / 60 ≥ 24 then none
      else some (base ++ frac ++ [if Int.tdiv off 60 < 0 then 45 else 43] ++ pad0 2 (zone / 60) ++ [58] ++ pad0 2 (zone % 60))

/-! ## JSON pieces -/

def b64char (n : Nat) : UInt8 :=
  if n < 26 then UInt8.ofNat (65 + n) else if n < 52 then UInt8.ofNat (71 + n)
  else if n < 62 then UInt8.ofNat (n - 4) else if n = 62 then 43 else 47

/-- Standard base64 with padding, as `encoding/json` renders `[]byte`. -/
def base64 : Bytes → Bytes
  | [] => []
  | [a] => [b64char (a.toNat / 4), b64char (a.toNat % 4 * 16), 61, 61]
  | [a, b] => [b64char (a.toNat / 4), b64char (a.toNat % 4 * 16 + b.toNat / 16), b64char (b.toNat % 16 * 4), 61]
  | a :: b :: c :: rest =>
    b64char (a.toNat / 4) :: b64char (a.toNat % 4 * 16 + b.toNat / 16) ::
    b64char (b.toNat % 16 * 4 + c.toNat / 64) :: b64char (c.toNat % 64) :: base64 rest

def quote (b : Bytes) : Bytes := [34] ++ b ++ [34]

def jsonNull : Bytes := ascii "null"

def jsonBytes : Option Bytes → Bytes
  | none => jsonNull
  | some b => quote (base64 b)

def hexLower (bs : Bytes) : Bytes := flatHex bs
where flatHex : Bytes → Bytes
  | [] => []
  | b :: r => UInt8.ofNat (hexDigit (b.toNat / 16)).toNat :: UInt8.ofNat (hexDigit (b.toNat % 16)).toNat :: flatHex r

/-- `common.Hash.MarshalText`. -/
def jsonHash (h : Bytes) : Bytes := quote (ascii "0x" ++ hexLower h)

def commaSep : List Bytes → Bytes
  | [] => []
  | [a] => a
  | a :: rest => a ++ [44] ++ commaSep rest

def jsonArr (items : List Bytes) : Bytes := [91] ++ commaSep items ++ [93]

/-! ## JSON strings as `encoding/json` writes and reads them -/

/-- `utf8.DecodeRune` on a non-empty input: (rune, size); invalid encodings are (U+FFFD, 1). -/
def utf8Dec : Bytes → Nat × Nat
  | [] => (65533, 1)
  | b0 :: rest =>
    let c0 := b0.toNat
    let cont (b : UInt8) : Bool := 128 ≤ b.toNat && b.toNat ≤ 191
    if c0 < 128 then (c0, 1)
    else if 194 ≤ c0 ∧ c0 ≤ 223 then
      (match rest with
       | b1 :: _ => if cont b1 then ((c0 % 32) * 64 + b1.toNat % 64, 2) else (65533, 1)
       | _ => (65533, 1))
    else if 224 ≤ c0 ∧ c0 ≤ 239 then
      (match rest with
       | b1 :: b2 :: _ =>
         let lo := if c0 = 224 then 160 else 128
         let hi := if c0 = 237 then 159 else 191
         if lo ≤ b1.toNat ∧ b1.toNat ≤ hi ∧ cont b2 then
           ((c0 % 16) * 4096 + (b1.toNat % 64) * 64 + b2.toNat % 64, 3)
         else (65533, 1)
       | _ => (65533, 1))
    else if 240 ≤ c0 ∧ c0 ≤ 244 then
      (match rest with
       | b1 :: b2 :: b3 :: _ =>
         let lo := if c0 = 240 then 144 else 128
         let hi := if c0 = 244 then 143 else 191
         if lo ≤ b1.toNat ∧ b1.toNat ≤ hi ∧ cont b2 ∧ cont b3 then
           ((c0 % 8) * 262144 + (b1.toNat % 64) * 4096 + (b2.toNat % 64) * 64 + b3.toNat % 64, 4)
         else (65533, 1)
       | _ => (65533, 1))
    else (65533, 1)

/-- `utf8.EncodeRune` (surrogates and out-of-range runes become U+FFFD). -/
def utf8Enc (r : Nat) : Bytes :=
  if r < 128 then [UInt8.ofNat r]
  else if r < 2048 then [UInt8.ofNat (192 + r / 64), UInt8.ofNat (128 + r % 64)]
  else if (55296 ≤ r ∧ r < 57344) ∨ r > 1114111 then [239, 191, 189]
  else if r < 65536 then [UInt8.ofNat (224 + r / 4096), UInt8.ofNat (128 + r / 64 % 64), UInt8.ofNat (128 + r % 64)]
  else [UInt8.ofNat (240 + r / 262144), UInt8.ofNat (128 + r / 4096 % 64), UInt8.ofNat (128 + r / 64 % 64),
        UInt8.ofNat (128 + r % 64)]

def hexLow (n : Nat) : UInt8 := UInt8.ofNat (hexDigit n).toNat

/-- `htmlSafeSet`: ASCII written verbatim. -/
def htmlSafe (b : UInt8) : Bool := safeKeyByteRaw b
where safeKeyByteRaw (b : UInt8) : Bool :=
  32 ≤ b.toNat && b.toNat ≤ 127 && b.toNat != 34 && b.toNat != 92 && b.toNat != 60 && b.toNat != 62 && b.toNat != 38

/-- body of `appendString(…, escapeHTML = true)`. -/
def escapeStr : Nat → Bytes → Bytes
  | 0, _ => []
  | _ + 1, [] => []
  | f + 1, c :: r =>
    if c.toNat < 128 then
      if htmlSafe c then c :: escapeStr f r
      else if c = 92 ∨ c = 34 then 92 :: c :: escapeStr f r
      else if c = 8 then 92 :: 98 :: escapeStr f r
      else if c = 12 then 92 :: 102 :: escapeStr f r
      else if c = 10 then 92 :: 110 :: escapeStr f r
      else if c = 13 then 92 :: 114 :: escapeStr f r
      else if c = 9 then 92 :: 116 :: escapeStr f r
      else 92 :: 117 :: 48 :: 48 :: hexLow (c.toNat / 16) :: hexLow (c.toNat % 16) :: escapeStr f r
    else
      let (rune, size) := utf8Dec (c :: r)
      if rune = 65533 ∧ size = 1 then [92, 117, 102, 102, 102, 100] ++ escapeStr f r
      else if rune = 8232 ∨ rune = 8233 then [92, 117, 50, 48, 50, hexLow (rune % 16)] ++ escapeStr f ((c :: r).drop size)
      else (c :: r).take size ++ escapeStr f ((c :: r).drop size)

def jsonQuote (s : Bytes) : Bytes := [34] ++ escapeStr (s.length + 1) s ++ [34]

def hexVal (c : UInt8) : Option Nat :=
  if 48 ≤ c.toNat ∧ c.toNat ≤ 57 then some (c.toNat - 48)
  else if 97 ≤ c.toNat ∧ c.toNat ≤ 102 then some (c.toNat - 87)
  else if 65 ≤ c.toNat ∧ c.toNat ≤ 70 then some (c.toNat - 55)
  else none

def hex4 : Bytes → Option (Nat × Bytes)
  | a :: b :: c :: d :: rest =>
    match hexVal a, hexVal b, hexVal c, hexVal d with
    | some w, some x, some y, some z => some (((w * 16 + x) * 16 + y) * 16 + z, rest)
    | _, _, _, _ => none
  | _ => none

/-- A JSON string literal after its opening quote: decoded bytes and what follows the closing quote
    (scanner + `unquoteBytes`); `none` = syntax error. -/
def unquoteStr : Nat → Bytes → Option (Bytes × Bytes)
  | 0, _ => none
  | _ + 1, [] => none
  | f + 1, c :: r =>
    let cons (pre : Bytes) (rest : Bytes) : Option (Bytes × Bytes) :=
      match unquoteStr f rest with
      | none => none
      | some (s, t) => some (pre ++ s, t)
    if c = 34 then some ([], r)
    else if c.toNat < 32 then none
    else if c = 92 then
      match r with
      | [] => none
      | e :: r2 =>
        if e = 34 ∨ e = 92 ∨ e = 47 then cons [e] r2
        else if e = 98 then cons [8] r2
        else if e = 102 then cons [12] r2
        else if e = 110 then cons [10] r2
        else if e = 114 then cons [13] r2
        else if e = 116 then cons [9] r2
        else if e = 117 then
          match hex4 r2 with
          | none => none
          | some (rr, r3) =>
            if 55296 ≤ rr ∧ rr < 57344 then
              match r3 with
              | 92 :: 117 :: r4 =>
                (match hex4 r4 with
                 | some (rr1, r5) =>
                   if rr < 56320 ∧ 56320 ≤ rr1 ∧ rr1 < 57344 then
                     cons (utf8Enc ((rr - 55296) * 1024 + (rr1 - 56320) + 65536)) r5
                   else cons [239, 191, 189] r3
                 | none => cons [239, 191, 189] r3)
              | _ => cons [239, 191, 189] r3
            else cons (utf8Enc rr) r3
        else none
    else if c.toNat < 128 then cons [c] r
    else
      let (rune, size) := utf8Dec (c :: r)
      cons (utf8Enc rune) ((c :: r).drop size)

/-! ## `RequestIds map[string]uint64` -/

/-- A key byte `encoding/json` writes and reads back verbatim (printable ASCII without `"` `\` `<` `>` `&`). -/
def safeKeyByte (b : UInt8) : Bool :=
  32 ≤ b.toNat && b.toNat ≤ 127 && b.toNat != 34 && b.toNat != 92 && b.toNat != 60 && b.toNat != 62 && b.toNat != 38

inductive ReqIds where
  | nil
  | map (kvs : List (Bytes × Nat))      -- strictly sorted by key (byte-wise), as json.Marshal orders them
  | mapEsc (kvs : List (Bytes × Nat))   -- same, but some key needs JSON escaping / was written with escapes
  | opaque (raw : Bytes)                -- bytes outside the canonical class: whatever encoding/json makes of them
  deriving Repr, DecidableEq, Inhabited

def bytesLt : Bytes → Bytes → Bool
  | [], [] => false
  | [], _ :: _ => true
  | _ :: _, [] => false
  | a :: as, b :: bs => if a.toNat < b.toNat then true else if b.toNat < a.toNat then false else bytesLt as bs

def insertKV (k : Bytes) (v : Nat) : List (Bytes × Nat) → List (Bytes × Nat)
  | [] => [(k, v)]
  | (k', v') :: rest =>
    if bytesLt k k' then (k, v) :: (k', v') :: rest
    else if k = k' then (k, v) :: rest
    else (k', v') :: insertKV k v rest

def encKVs : List (Bytes × Nat) → List Bytes
  | [] => []
  | (k, v) :: rest => (quote k ++ [58] ++ decNat v) :: encKVs rest

def encKVsEsc : List (Bytes × Nat) → List Bytes
  | [] => []
  | (k, v) :: rest => (jsonQuote k ++ [58] ++ decNat v) :: encKVsEsc rest

/-- `json.Marshal(h.RequestIds)`. -/
def encReqIds : ReqIds → Bytes
  | .nil => jsonNull
  | .map kvs => [123] ++ commaSep (encKVs kvs) ++ [125]
  | .mapEsc kvs => [123] ++ commaSep (encKVsEsc kvs) ++ [125]
  | .opaque raw => raw

def parseKey : Bytes → Option (Bytes × Bytes)
  | [] => none
  | b :: rest =>
    if b = 34 then some ([], rest)
    else if safeKeyByte b then
      match parseKey rest with
      | none => none
      | some (k, r) => some (b :: k, r)
    else none

def parseDigits : Bytes → Nat → Nat × Bytes
  | [], acc => (acc, [])
  | b :: rest, acc => if 48 ≤ b.toNat ∧ b.toNat ≤ 57 then parseDigits rest (acc * 10 + (b.toNat - 48)) else (acc, b :: rest)

/-- canonical uint64 literal: `0` or no leading zero, below 2^64. -/
def parseNum : Bytes → Option (Nat × Bytes)
  | [] => none
  | b :: rest =>
    if b = 48 then
      (match rest with
       | c :: _ => if 48 ≤ c.toNat ∧ c.toNat ≤ 57 then none else some (0, rest)
       | [] => some (0, rest))
    else if 49 ≤ b.toNat ∧ b.toNat ≤ 57 then
      let (n, r) := parseDigits (b :: rest) 0
      if n < 18446744073709551616 then some (n, r) else none
    else none

/-- entries after `{`: `"k":n` separated by `,`, closed by `}` with nothing after. -/
def parseEntries : Nat → Bytes → List (Bytes × Nat) → Option (List (Bytes × Nat))
  | 0, _, _ => none
  | f + 1, bs, acc =>
    match bs with
    | 34 :: r =>
      match parseKey r with
      | none => none
      | some (k, r1) =>
        match r1 with
        | 58 :: r2 =>
          match parseNum r2 with
          | none => none
          | some (v, r3) =>
            match r3 with
            | [125] => some (insertKV k v acc)
            | 44 :: r4 => parseEntries f r4 (insertKV k v acc)
            | _ => none
        | _ => none
    | _ => none

/-- entries with arbitrary JSON string keys (escapes, non-ASCII, invalid UTF-8 coerced). -/
def parseEntriesEsc : Nat → Bytes → List (Bytes × Nat) → Option (List (Bytes × Nat))
  | 0, _, _ => none
  | f + 1, bs, acc =>
    match bs with
    | 34 :: r =>
      match unquoteStr (r.length + 1) r with
      | none => none
      | some (k, r1) =>
        match r1 with
        | 58 :: r2 =>
          match parseNum r2 with
          | none => none
          | some (v, r3) =>
            match r3 with
            | [125] => some (insertKV k v acc)
            | 44 :: r4 => parseEntriesEsc f r4 (insertKV k v acc)
            | _ => none
        | _ => none
    | _ => none

/-- `json.Unmarshal(raw, &header.RequestIds)` with the error ignored, on the class of inputs
    modelled exactly (what `json.Marshal` of such a map emits, `null`, and the empty string). -/
def decReqIds (raw : Bytes) : ReqIds :=
  if raw = [] ∨ raw = jsonNull then .nil
  else if raw = [123, 125] then .map []
  else match raw with
    | 123 :: rest =>
      match parseEntries (rest.length + 1) rest [] with
      | some kvs => .map kvs
      | none =>
        match parseEntriesEsc (rest.length + 1) rest [] with
        | some kvs => .mapEsc kvs
        | none => .opaque raw
    | _ => .opaque raw

/-! ## `SubTransactions []UserData`: the canonical JSON class

`pbToTransaction` runs `json.Unmarshal(raw, &subTransactions)`; the in-memory value is compared
through `json.Marshal`. For bytes that are exactly what `json.Marshal` emits for some `[]UserData`
(recognised by parsing them and re-encoding), that rendering is `raw` itself. -/

structure UserData where
  address : Nat
  balance : Bytes
  coin : List (Bytes × Bytes)
  ft : List (Bytes × Bytes)
  assets : Option (List (Bytes × Bytes))
  deriving Repr, DecidableEq, Inhabited

def insertSS (k v : Bytes) : List (Bytes × Bytes) → List (Bytes × Bytes)
  | [] => [(k, v)]
  | (k', v') :: rest =>
    if bytesLt k k' then (k, v) :: (k', v') :: rest
    else if k = k' then (k, v) :: rest
    else (k', v') :: insertSS k v rest

def encSMap (m : List (Bytes × Bytes)) : Bytes :=
  [123] ++ commaSep (m.map (fun kv => jsonQuote kv.1 ++ [58] ++ jsonQuote kv.2)) ++ [125]

def encUserData (u : UserData) : Bytes :=
  ascii "{\"address\":" ++ decNat u.address ++
  (if u.balance = [] then [] else ascii ",\"balance\":" ++ jsonQuote u.balance) ++
  (if u.coin = [] then [] else ascii ",\"coin\":" ++ encSMap u.coin) ++
  (if u.ft = [] then [] else ascii ",\"ft\":" ++ encSMap u.ft) ++
  ascii ",\"Assets\":" ++ (match u.assets with | none => jsonNull | some m => encSMap m) ++ [125]

/-- `json.Marshal([]UserData)` for a non-nil slice. -/
def encSubTx (l : List UserData) : Bytes := [91] ++ commaSep (l.map encUserData) ++ [93]

def expect (lit : Bytes) (bs : Bytes) : Option Bytes :=
  if lit.isPrefixOf bs then some (bs.drop lit.length) else none

def parseStr : Bytes → Option (Bytes × Bytes)
  | 34 :: r => unquoteStr (r.length + 1) r
  | _ => none

def parseSMapEntries : Nat → Bytes → List (Bytes × Bytes) → Option (List (Bytes × Bytes) × Bytes)
  | 0, _, _ => none
  | f + 1, bs, acc =>
    match parseStr bs with
    | none => none
    | some (k, r1) =>
      match r1 with
      | 58 :: r2 =>
        match parseStr r2 with
        | none => none
        | some (v, r3) =>
          match r3 with
          | 125 :: r4 => some (insertSS k v acc, r4)
          | 44 :: r4 => parseSMapEntries f r4 (insertSS k v acc)
          | _ => none
      | _ => none

def parseSMap : Bytes → Option (List (Bytes × Bytes) × Bytes)
  | 123 :: 125 :: r => some ([], r)
  | 123 :: r => parseSMapEntries (r.length + 1) r []
  | _ => none

def parseUserData (bs : Bytes) : Option (UserData × Bytes) := do
  let r0 ← expect (ascii "{\"address\":") bs
  let (addr, r1) ← parseNum r0
  let (bal, r2) ← (match expect (ascii ",\"balance\":") r1 with
    | some r => parseStr r
    | none => some ([], r1))
  let (coin, r3) ← (match expect (ascii ",\"coin\":") r2 with
    | some r => parseSMap r
    | none => some ([], r2))
  let (ft, r4) ← (match expect (ascii ",\"ft\":") r3 with
    | some r => parseSMap r
    | none => some ([], r3))
  let r5 ← expect (ascii ",\"Assets\":") r4
  let (assets, r6) ← (match expect jsonNull r5 with
    | some r => some (none, r)
    | none => (parseSMap r5).map (fun p => (some p.1, p.2)))
  match r6 with
  | 125 :: r7 => some (⟨addr, bal, coin, ft, assets⟩, r7)
  | _ => none

def parseUserDatas : Nat → Bytes → List UserData → Option (List UserData)
  | 0, _, _ => none
  | f + 1, bs, acc =>
    match parseUserData bs with
    | none => none
    | some (u, r) =>
      match r with
      | [93] => some (acc ++ [u])
      | 44 :: r2 => parseUserDatas f r2 (acc ++ [u])
      | _ => none

def parseSubTx : Bytes → Option (List UserData)
  | [91, 93] => some []
  | 91 :: r => parseUserDatas (r.length + 1) r []
  | _ => none

/-- `raw` is exactly `json.Marshal` of some `[]UserData` value. -/
def canonSubTx (raw : Bytes) : Bool :=
  match parseSubTx raw with
  | some l => encSubTx l == raw
  | none => false

end Rangers.Json
