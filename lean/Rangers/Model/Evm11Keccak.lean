import Rangers.Model.Evm11Basic
/-!
# C11 model: Keccak-256 (legacy padding 0x01), executable, core Lean only.

Used by the SHA3 opcode and by CREATE/CREATE2 address derivation. It is part of
the *trusted/sampled* base of C11 (no theorem is about it); the correspondence
run compares its output with golang.org/x/crypto/sha3 through every SHA3 /
CREATE the generators produce.
-/
namespace Rangers.Evm11.Keccak

def rc : Array UInt64 := #[
  0x0000000000000001, 0x0000000000008082, 0x800000000000808A, 0x8000000080008000,
  0x000000000000808B, 0x0000000080000001, 0x8000000080008081, 0x8000000000008009,
  0x000000000000008A, 0x0000000000000088, 0x0000000080008009, 0x000000008000000A,
  0x000000008000808B, 0x800000000000008B, 0x8000000000008089, 0x8000000000008003,
  0x8000000000008002, 0x8000000000000080, 0x000000000000800A, 0x800000008000000A,
  0x8000000080008081, 0x8000000000008080, 0x0000000080000001, 0x8000000080008008]

def rotc : Array UInt64 := #[1, 3, 6, 10, 15, 21, 28, 36, 45, 55, 2, 14, 27, 41, 56, 8, 25, 43, 62, 18, 39, 61, 20, 44]
def piln : Array Nat := #[10, 7, 11, 17, 18, 3, 5, 16, 8, 21, 24, 4, 15, 23, 19, 13, 12, 2, 20, 14, 22, 9, 6, 1]

@[inline] def rotl (x : UInt64) (n : UInt64) : UInt64 := (x <<< n) ||| (x >>> (64 - n))

def round (st : Array UInt64) (r : Nat) : Array UInt64 := Id.run do
  let mut st := st
  let mut bc : Array UInt64 := Array.replicate 5 0
  for i in [0:5] do
    bc := bc.set! i (st[i]! ^^^ st[i+5]! ^^^ st[i+10]! ^^^ st[i+15]! ^^^ st[i+20]!)
  for i in [0:5] do
    let t := bc[(i+4) % 5]! ^^^ rotl bc[(i+1) % 5]! 1
    for j in [0:5] do
      st := st.set! (j*5+i) (st[j*5+i]! ^^^ t)
  let mut t := st[1]!
  for i in [0:24] do
    let j := piln[i]!
    let b := st[j]!
    st := st.set! j (rotl t rotc[i]!)
    t := b
  for j in [0:5] do
    for i in [0:5] do
      bc := bc.set! i st[j*5+i]!
    for i in [0:5] do
      st := st.set! (j*5+i) (st[j*5+i]! ^^^ ((~~~ bc[(i+1) % 5]!) &&& bc[(i+2) % 5]!))
  st := st.set! 0 (st[0]! ^^^ rc[r]!)
  return st

def permute (st : Array UInt64) : Array UInt64 := Id.run do
  let mut st := st
  for r in [0:24] do
    st := round st r
  return st

/-- xor one 136-byte block (given as bytes from `off`) into the state -/
def absorbBlock (st : Array UInt64) (data : BA) (off : Nat) : Array UInt64 := Id.run do
  let mut st := st
  for i in [0:17] do
    let mut lane : UInt64 := 0
    for k in [0:8] do
      lane := lane ||| ((data[off + i*8 + k]!).toUInt64 <<< (8 * k).toUInt64)
    st := st.set! i (st[i]! ^^^ lane)
  return st

def keccak256 (data : BA) : BA := Id.run do
  let rate := 136
  let padLen := rate - data.size % rate
  let mut padded := data
  for k in [0:padLen] do
    let b : UInt8 := (if k = 0 then 0x01 else 0) ||| (if k = padLen - 1 then 0x80 else 0)
    padded := padded.push b
  let mut st : Array UInt64 := Array.replicate 25 0
  for blk in [0:padded.size / rate] do
    st := permute (absorbBlock st padded (blk * rate))
  let mut out : BA := Array.mkEmpty 32
  for i in [0:4] do
    for k in [0:8] do
      out := out.push ((st[i]! >>> (8 * k).toUInt64).toUInt8)
  return out

end Rangers.Evm11.Keccak
