import Rangers.Model.TxAuthBase
/-!
C07 model: `TxPool.VerifyTransaction(tx, height)` of go-rangers
(`src/service/transaction_pool.go`) with everything it calls except the
cryptographic primitives, which are parameters (`Crypto`).

Go strings are `Bytes`; `Hash` is a 32-byte string; `Sign` holds two big
integers and the recovery id exactly like `common.Sign`.
-/
namespace Rangers.Model.TxAuth
open Rangers

/-- The cryptographic primitives the code calls; never axiomatised, always a parameter. -/
structure Crypto where
  /-- `common.Sha256` -/
  sha256 : Bytes → Bytes
  /-- Keccak-256 (`sha3.NewKeccak256` / `NewLegacyKeccak256`) -/
  keccak : Bytes → Bytes
  /-- curve part of libsecp256k1's `secp256k1_ecdsa_recover`: message, r, s (both in
      [1, N)), recovery id 0..3 ↦ 65-byte uncompressed key, or failure -/
  recoverCore : Bytes → Nat → Nat → Nat → Option Bytes
  /-- curve part of libsecp256k1's verification (`secp256k1_ec_pubkey_parse` +
      `secp256k1_ecdsa_sig_verify`'s equation): key bytes, message, r, s in [1, N) -/
  verifyCore : Bytes → Bytes → Nat → Nat → Bool

/-- `common.Sign`. -/
structure Sign where
  r : Nat
  s : Nat
  recid : UInt8
deriving Repr, DecidableEq

/-- `common.BytesToSign` (nil unless 65 bytes). -/
def bytesToSign (b : Bytes) : Option Sign :=
  if b.length = 65 then
    some { r := beToNat (b.take 32), s := beToNat ((b.drop 32).take 32), recid := (b.drop 64).headD 0 }
  else none

/-- `Sign.Bytes()` for r, s < 2^256 (what `BytesToSign` produces). -/
def Sign.bytes (sg : Sign) : Bytes :=
  padLeft 32 (natToBE sg.r) ++ padLeft 32 (natToBE sg.s) ++ [sg.recid]

/-- `types.Transaction`: the eight hashed fields, hash, signature, and the
    fields no check looks at. -/
structure Tx where
  source : Bytes
  target : Bytes
  type : Int
  time : Bytes
  data : Bytes
  extraData : Bytes
  hash : Bytes
  sign : Option Sign
  nonce : Nat
  chainId : Bytes
  /- not looked at by any authenticity check: -/
  extraDataType : Int
  requestId : Nat
  socketRequestId : Bytes
  subHash : Bytes
deriving Repr, DecidableEq

/-- The part of `common.LocalChainConfig` / `common.Genesis` that selects the chain id. -/
structure ChainCfg where
  chainId : Bytes
  originalChainId : Bytes
  proposal001Block : Nat
  /-- `Genesis.ChainId` when `Genesis != nil` and non-empty (sub-chains) -/
  genesisChainId : Option Bytes
deriving Repr, DecidableEq

/-- `common.ChainId(height)`. -/
def chainIdStr (cfg : ChainCfg) (height : Nat) : Bytes :=
  if height ≥ cfg.proposal001Block then cfg.chainId else cfg.originalChainId

/-- `big.Int.SetString(s, 10)` restricted to what a chain id string can be:
    all-digit, non-empty strings parse; anything else gives nil, which
    `NewEIP155Signer` turns into 0. -/
def parseChainId (s : Bytes) : Nat :=
  if s.isEmpty then 0
  else if s.all (fun c => 48 ≤ c ∧ c ≤ 57) then s.foldl (fun acc c => acc * 10 + (c.toNat - 48)) 0
  else 0

/-- `common.GetChainId(height)` as the signer sees it. -/
def ethChainId (cfg : ChainCfg) (height : Nat) : Nat :=
  match cfg.genesisChainId with
  | some g => if g.isEmpty then parseChainId (chainIdStr cfg height) else parseChainId g
  | none => parseChainId (chainIdStr cfg height)

def typeETHTX : Int := 188

/-- The byte string `Transaction.GenHash` feeds to SHA-256:
    Data‖Nonce‖Source‖Target‖Type‖Time‖ExtraData‖ChainId, no separators. -/
def ser (tx : Tx) : Bytes :=
  tx.data ++ decimal tx.nonce ++ tx.source ++ tx.target ++ decimalInt tx.type ++ tx.time
    ++ tx.extraData ++ tx.chainId

/-- `common.BytesToAddress`: last 20 bytes if longer, else copied to the front. -/
def toAddress (b : Bytes) : Bytes :=
  if b.length > 20 then b.drop (b.length - 20) else b ++ List.replicate (20 - b.length) 0

/-- `BytesToPublicKey(pk)` (`elliptic.Unmarshal`): the coordinates of a 65-byte
    uncompressed key as integers (`big.Int.SetBytes`). -/
def pubX (pk : Bytes) : Nat := beToNat ((pk.drop 1).take 32)
def pubY (pk : Bytes) : Nat := beToNat ((pk.drop 33).take 32)

/-- the digest input of `PublicKey.GetID`: `X.Bytes()` and `Y.Bytes()` each copied
    right-aligned into a 32-byte slot (`copy(digest[32-len(x):], x)`, `copy(digest[64-len(y):], y)`) -/
def getIDInput (pk : Bytes) : Bytes :=
  padLeft 32 (natToBE (pubX pk)) ++ padLeft 32 (natToBE (pubY pk))

/-- `PublicKey.GetAddress().GetHexString()` for a recovered 65-byte key:
    Keccak of the padded coordinates, last 20 bytes, `0x` + lower-case hex. -/
def nativeAddrStr (cr : Crypto) (pk : Bytes) : Bytes :=
  toHex0x (toAddress (cr.keccak (getIDInput pk)))

inductive Verdict where
  | ok | chainId | hash | sign | illegal
deriving Repr, DecidableEq

def Verdict.toString : Verdict → String
  | .ok => "ok" | .chainId => "chainid" | .hash => "hash" | .sign => "sign" | .illegal => "illegal"

def secpN : Nat := 0xfffffffffffffffffffffffffffffffebaaedce6af48a03bbfd25e8cd0364141
def secpHalfN : Nat := secpN / 2

def sigR (sig : Bytes) : Nat := beToNat (sig.take 32)
def sigS (sig : Bytes) : Nat := beToNat ((sig.drop 32).take 32)

/-- libsecp256k1 `secp256k1_ext_ecdsa_recover` as decision logic around the curve
    operation: `…_parse_compact` fails when r or s is ≥ N (scalar overflow),
    `secp256k1_ecdsa_sig_recover` fails when r or s is zero; `sig` is 64 bytes + recovery id. -/
def libRecover (cr : Crypto) (msg sig : Bytes) : Option Bytes :=
  if sigR sig ≥ secpN ∨ sigS sig ≥ secpN then none
  else if sigR sig = 0 ∨ sigS sig = 0 then none
  else cr.recoverCore msg (sigR sig) (sigS sig) ((sig.drop 64).headD 0).toNat

/-- libsecp256k1 `secp256k1_ext_ecdsa_verify`: `…_parse_compact` (overflow), then
    `secp256k1_ecdsa_verify` = **`!secp256k1_scalar_is_high(&s)`** (the low-s rule) ∧ key
    parses ∧ `sig_verify` (zero r/s fail, then the curve equation). -/
def libVerify (cr : Crypto) (pk msg sig64 : Bytes) : Bool :=
  if sigR sig64 ≥ secpN ∨ sigS sig64 ≥ secpN then false
  else if sigS sig64 > secpHalfN then false
  else if sigR sig64 = 0 ∨ sigS sig64 = 0 then false
  else cr.verifyCore pk msg (sigR sig64) (sigS sig64)

/-- `secp256k1.RecoverPubkey` of `src/common/secp256k1/secp256.go` (native path):
    length checks, then `checkSignature` maps a recovery id 27..30 to 0..3 before
    the library call, so the last signature byte has two accepted spellings. -/
def recoverPubkey (cr : Crypto) (msg sig : Bytes) : Option Bytes :=
  if msg.length ≠ 32 then none
  else if sig.length ≠ 65 then none
  else
    let v := (sig.drop 64).headD 0
    let v' := if v > 26 then v - 27 else v
    if v' ≥ 4 then none else libRecover cr msg (sig.take 64 ++ [v'])

/-- `secp256k1.RecoverPubkey` of `src/eth_crypto/secp256k1/secp256.go` (what
    `crypto.Ecrecover` calls on the ETH path): no respelling, recovery id must be < 4. -/
def recoverPubkeyEth (cr : Crypto) (msg sig : Bytes) : Option Bytes :=
  if msg.length ≠ 32 then none
  else if sig.length ≠ 65 then none
  else if (sig.drop 64).headD 0 ≥ 4 then none
  else libRecover cr msg sig

/-- `verifyTransactionSign`. -/
def verifySign (cr : Crypto) (tx : Tx) : Bool :=
  match tx.sign with
  | none => false
  | some sg =>
    match recoverPubkey cr tx.hash sg.bytes with
    | none => false
    | some pk =>
      libVerify cr pk tx.hash (sg.bytes.take 64) && (tx.source == nativeAddrStr cr pk)

/-- native branch of `VerifyTransaction`. -/
def verifyNative (cr : Crypto) (cfg : ChainCfg) (height : Nat) (tx : Tx) : Verdict :=
  if tx.chainId ≠ chainIdStr cfg height then .chainId
  else if tx.hash ≠ cr.sha256 (ser tx) then .hash
  else if verifySign cr tx then .ok else .sign

/-! ### wrapped Ethereum transactions -/

/-- `isProtectedV`. -/
def isProtectedV (v : Nat) : Bool := if v < 256 then v ≠ 27 ∧ v ≠ 28 else true

/-- `deriveChainId` including the uint64 wrap-around of `(v - 35) / 2` for v < 35. -/
def deriveChainId (v : Nat) : Nat :=
  if v < 2 ^ 64 then
    if v = 27 ∨ v = 28 then 0
    else if v ≥ 35 then (v - 35) / 2 else (2 ^ 64 + v - 35) / 2
  else (v - 35) / 2

/-- `recoverPlain(sighash, R, S, Vb, homestead = true)`; `vb` may be negative. -/
def recoverPlain (cr : Crypto) (sighash : Bytes) (r s : Nat) (vb : Int) : Option Bytes :=
  if vb.natAbs ≥ 256 then none
  else
    let v := (vb.natAbs % 2 ^ 64 + 2 ^ 64 - 27) % 256
    if r < 1 ∨ s < 1 then none
    else if s > secpHalfN then none
    else if ¬ (r < secpN ∧ s < secpN ∧ (v = 0 ∨ v = 1)) then none
    else
      let sig := padLeft 32 (natToBE r) ++ padLeft 32 (natToBE s) ++ [UInt8.ofNat v]
      match recoverPubkeyEth cr sighash sig with
      | none => none
      | some pub =>
        if pub.head? ≠ some 4 then none
        else
          let h := (cr.keccak (pub.drop 1)).drop 12
          some (h.take 20 ++ List.replicate (20 - min 20 h.length) 0)

/-- `EIP155Signer(chainId).Sender`, with its Homestead fall-back for v ∈ {27, 28}. -/
def ethSender (cr : Crypto) (chainId : Nat) (e : EthTx) : Option Bytes :=
  if ¬ isProtectedV e.v then
    recoverPlain cr (cr.keccak (sigPreimageHomestead e)) e.r e.s (Int.ofNat e.v)
  else if deriveChainId e.v ≠ chainId then none
  else
    recoverPlain cr (cr.keccak (sigPreimage155 chainId e)) e.r e.s
      (Int.ofNat e.v - Int.ofNat (2 * chainId) - 8)

def jsonField (name value : Bytes) : Bytes := 34 :: name ++ 34 :: 58 :: 34 :: value ++ [34]

/-- `json.Marshal(types.ContractData{…})` as `ConvertTx` fills it (all four
    strings are non-empty digit/hex strings, so nothing is omitted or escaped). -/
def contractDataJson (e : EthTx) : Bytes :=
  123 :: jsonField [103,97,115,80,114,105,99,101] (decimal e.price) ++ 44 ::
    jsonField [103,97,115,76,105,109,105,116] (decimal e.gas) ++ 44 ::
    jsonField [116,114,97,110,115,102,101,114,86,97,108,117,101] (bigIntToStr e.value) ++ 44 ::
    jsonField [97,98,105,68,97,116,97] (toHex0x e.data) ++ [125]

/-- `eth_tx.ConvertTx(ethTx, sender, encodedTx)`; fields it leaves zero are zero. -/
def convertTx (cr : Crypto) (e : EthTx) (sender : Bytes) (enc : Bytes) : Tx :=
  { source := toHex0x sender
    target := match e.to with | some a => toHex0x a | none => []
    type := typeETHTX
    time := []
    data := contractDataJson e
    extraData := toHex0x enc
    hash := cr.keccak (encodeTx e)
    sign := none
    nonce := e.nonce
    chainId := decimal (deriveChainId e.v)
    extraDataType := 0
    requestId := 0
    socketRequestId := []
    subHash := List.replicate 32 0 }

/-- `compareTx`. -/
def compareTx (tx exp : Tx) : Bool :=
  tx.source == exp.source && tx.target == exp.target && tx.type == exp.type
    && tx.extraData == exp.extraData && tx.nonce == exp.nonce && tx.chainId == exp.chainId
    && tx.data == exp.data && tx.hash == exp.hash

/-- `verifyETHTx`. -/
def verifyEth (cr : Crypto) (cfg : ChainCfg) (height : Nat) (tx : Tx) : Verdict :=
  let enc := fromHex tx.extraData
  match decodeTx enc with
  | none => .illegal
  | some e =>
    if encodeTx e ≠ enc then .illegal   -- canonical-payload check (fix: commit on hooks/c07)
    else
    match ethSender cr (ethChainId cfg height) e with
    | none => .illegal
    | some sender =>
      if compareTx tx (convertTx cr e sender enc) then .ok else .illegal

/-- `TxPool.VerifyTransaction`. -/
def verifyTx (cr : Crypto) (cfg : ChainCfg) (height : Nat) (tx : Tx) : Verdict :=
  if tx.type = typeETHTX then verifyEth cr cfg height tx else verifyNative cr cfg height tx

/-! ### `eth_tx.Sender`: the per-object sender cache

`Sender(signer, tx)` returns the cached address when the cached signer `Equal`s the current one
(for EIP-155 signers: same chain id), otherwise derives it, and stores (signer, address) only on
success. -/

structure SigCache where
  chainId : Nat
  sender : Bytes
deriving Repr, DecidableEq

def senderCached (cr : Crypto) (cache : Option SigCache) (chainId : Nat) (e : EthTx) :
    Option Bytes × Option SigCache :=
  let derive : Option Bytes × Option SigCache :=
    match ethSender cr chainId e with
    | none => (none, cache)
    | some a => (some a, some ⟨chainId, a⟩)
  match cache with
  | some sc => if sc.chainId = chainId then (some sc.sender, cache) else derive
  | none => derive

/-- a sequence of `Sender` calls on one transaction object with signers of the given chain ids -/
def senderRun (cr : Crypto) (e : EthTx) : Option SigCache → List Nat → List (Option Bytes)
  | _, [] => []
  | cache, c :: cs =>
    let r := senderCached cr cache c e
    r.1 :: senderRun cr e r.2 cs

/-! ### the signing path (what an honest client / the node's own `SignTx` produces)

`crypto.Sign` / `secp256k1.Sign` are the curve operation (parameter: the 65 bytes r‖s‖recid the
library returns); the Go code around them is modelled: `FrontierSigner.SignatureValues`
(v = sig[64] + 27 in **byte** arithmetic), `EIP155Signer.SignatureValues` (v = sig[64] + 35, byte
arithmetic, plus 2·chainId — but only `if s.chainId.Sign() != 0`: for chain id 0 the Frontier
value 27/28 is kept), `Transaction.WithSignature`, and the native wrapper `secp256k1.Sign`
(`sig[64] += 27`). -/

/-- `FrontierSigner.SignatureValues` (= Homestead): `none` is the panic on a wrong size. -/
def frontierSigValues (sig : Bytes) : Option (Nat × Nat × Nat) :=
  if sig.length ≠ 65 then none
  else some (sigR sig, sigS sig, ((sig.drop 64).headD 0 + 27).toNat)

/-- `EIP155Signer{chainId}.SignatureValues`. -/
def eip155SigValues (chainId : Nat) (sig : Bytes) : Option (Nat × Nat × Nat) :=
  match frontierSigValues sig with
  | none => none
  | some (r, s, v) =>
    if chainId ≠ 0 then some (r, s, ((sig.drop 64).headD 0 + 35).toNat + 2 * chainId)
    else some (r, s, v)

/-- `Transaction.WithSignature` -/
def withSignature (e : EthTx) (rsv : Nat × Nat × Nat) : EthTx :=
  { e with r := rsv.1, s := rsv.2.1, v := rsv.2.2 }

/-- `eth_tx.SignTx(tx, NewEIP155Signer(chainId), key)` given the library's signature `sig`
    of `EIP155Signer.Hash(tx)`. -/
def signTx155 (chainId : Nat) (e : EthTx) (sig : Bytes) : Option EthTx :=
  (eip155SigValues chainId sig).map (withSignature e)

/-- the native wrapper `secp256k1.Sign`: the library's r‖s‖recid with `sig[64] += 27` -/
def nativeSignBytes (raw : Bytes) : Bytes :=
  raw.take 64 ++ [(raw.drop 64).headD 0 + 27]

/-! ### admission of a batch

`WorkerConn.handleMessage(TransactionGotMsg)` (peer batches / sync replies) walks the received
slice in order and hands an element to `TxPool.AddTransaction` exactly when *its own*
`VerifyTransaction` returned nil; `GameExecutor.write` / `runWrite` do the same for a single
transaction.  `TxPool.add` refuses a hash that is already in the pool. -/

/-- the transactions a batch adds to a pool that already holds the hashes `have` -/
def admitBatch (cr : Crypto) (cfg : ChainCfg) (height : Nat) : List Bytes → List Tx → List Tx
  | _, [] => []
  | have_, tx :: rest =>
    if verifyTx cr cfg height tx = .ok ∧ tx.hash ∉ have_ then
      tx :: admitBatch cr cfg height (tx.hash :: have_) rest
    else admitBatch cr cfg height have_ rest

/-- the hashes in the pool after a batch (what was there plus what the batch added) -/
def hashesAfter (cr : Crypto) (cfg : ChainCfg) (height : Nat) : List Bytes → List Tx → List Bytes
  | have_, [] => have_
  | have_, tx :: rest =>
    if verifyTx cr cfg height tx = .ok ∧ tx.hash ∉ have_ then
      hashesAfter cr cfg height (tx.hash :: have_) rest
    else hashesAfter cr cfg height have_ rest

/-- …and after a sequence of batches delivered one after the other to the same handler: the
    handlers keep no state of their own, the pool is the only memory -/
def hashesAfterSeq (cr : Crypto) (cfg : ChainCfg) (height : Nat) (have_ : List Bytes) (batches : List (List Tx)) :
    List Bytes :=
  batches.foldl (hashesAfter cr cfg height) have_

/-- the same loop reporting, per position, whether the element was added (what the
    correspondence stream `batch` compares with the pool after the real handler ran) -/
def admitFlags (cr : Crypto) (cfg : ChainCfg) (height : Nat) : List Bytes → List Tx → List Bool
  | _, [] => []
  | have_, tx :: rest =>
    if verifyTx cr cfg height tx = .ok ∧ tx.hash ∉ have_ then
      true :: admitFlags cr cfg height (tx.hash :: have_) rest
    else false :: admitFlags cr cfg height have_ rest

/-! ### the oracle queries one evaluation makes (used by the driver to insist
that every crypto answer it needed was supplied on the op line) -/

inductive Query where
  | sha (m : Bytes)
  | kec (m : Bytes)
  | rcv (msg : Bytes) (r s recid : Nat)
  | ver (pk msg : Bytes) (r s : Nat)
deriving Repr, DecidableEq

/-- the curve query `libRecover` makes, if it makes one -/
def libRecoverQ (msg sig : Bytes) : List Query :=
  if sigR sig ≥ secpN ∨ sigS sig ≥ secpN then []
  else if sigR sig = 0 ∨ sigS sig = 0 then []
  else [.rcv msg (sigR sig) (sigS sig) ((sig.drop 64).headD 0).toNat]

def libVerifyQ (pk msg sig64 : Bytes) : List Query :=
  if sigR sig64 ≥ secpN ∨ sigS sig64 ≥ secpN then []
  else if sigS sig64 > secpHalfN then []
  else if sigR sig64 = 0 ∨ sigS sig64 = 0 then []
  else [.ver pk msg (sigR sig64) (sigS sig64)]

def recQ (msg sig : Bytes) : List Query :=
  if msg.length ≠ 32 then []
  else if sig.length ≠ 65 then []
  else
    let v := (sig.drop 64).headD 0
    let v' := if v > 26 then v - 27 else v
    if v' ≥ 4 then [] else libRecoverQ msg (sig.take 64 ++ [v'])

def recQEth (msg sig : Bytes) : List Query :=
  if msg.length ≠ 32 then []
  else if sig.length ≠ 65 then []
  else if (sig.drop 64).headD 0 ≥ 4 then []
  else libRecoverQ msg sig

def nativeQueries (cr : Crypto) (cfg : ChainCfg) (height : Nat) (tx : Tx) : List Query :=
  if tx.chainId ≠ chainIdStr cfg height then []
  else .sha (ser tx) ::
    (if tx.hash ≠ cr.sha256 (ser tx) then []
     else match tx.sign with
      | none => []
      | some sg => recQ tx.hash sg.bytes ++
        (match recoverPubkey cr tx.hash sg.bytes with
         | none => []
         | some pk => libVerifyQ pk tx.hash (sg.bytes.take 64) ++
            (if libVerify cr pk tx.hash (sg.bytes.take 64) then [.kec (getIDInput pk)] else [])))

def recoverPlainQueries (cr : Crypto) (sighash : Bytes) (r s : Nat) (vb : Int) : List Query :=
  if vb.natAbs ≥ 256 then []
  else
    let v := (vb.natAbs % 2 ^ 64 + 2 ^ 64 - 27) % 256
    if r < 1 ∨ s < 1 then []
    else if s > secpHalfN then []
    else if ¬ (r < secpN ∧ s < secpN ∧ (v = 0 ∨ v = 1)) then []
    else
      let sig := padLeft 32 (natToBE r) ++ padLeft 32 (natToBE s) ++ [UInt8.ofNat v]
      recQEth sighash sig ++
        (match recoverPubkeyEth cr sighash sig with
         | none => []
         | some pub => if pub.head? ≠ some 4 then [] else [.kec (pub.drop 1)])

def ethSenderQueries (cr : Crypto) (chainId : Nat) (e : EthTx) : List Query :=
  if ¬ isProtectedV e.v then
    .kec (sigPreimageHomestead e) ::
      recoverPlainQueries cr (cr.keccak (sigPreimageHomestead e)) e.r e.s (Int.ofNat e.v)
  else if deriveChainId e.v ≠ chainId then []
  else
    .kec (sigPreimage155 chainId e) ::
      recoverPlainQueries cr (cr.keccak (sigPreimage155 chainId e)) e.r e.s
        (Int.ofNat e.v - Int.ofNat (2 * chainId) - 8)

def ethQueries (cr : Crypto) (cfg : ChainCfg) (height : Nat) (tx : Tx) : List Query :=
  match decodeTx (fromHex tx.extraData) with
  | none => []
  | some e =>
    if encodeTx e ≠ fromHex tx.extraData then [] else
    ethSenderQueries cr (ethChainId cfg height) e ++
      (match ethSender cr (ethChainId cfg height) e with
       | none => []
       | some _ => [.kec (encodeTx e)])

def queries (cr : Crypto) (cfg : ChainCfg) (height : Nat) (tx : Tx) : List Query :=
  if tx.type = typeETHTX then ethQueries cr cfg height tx else nativeQueries cr cfg height tx

end Rangers.Model.TxAuth
