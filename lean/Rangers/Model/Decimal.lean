/-
Model of go-rangers `src/utility/data_convert.go` (strToBigInt, bigIntToStr,
BigIntToStr, BigIntToStrWithoutDot, FormatDecimalForERC20, FormatDecimalForRocket)
together with the part of Go's `math/big` it runs through:
`big.ParseFloat(s, 10, 512, AwayFromZero)` (floatconv.go: Parse/scan/pow5,
natconv.go: nat.scan, ratconv.go: scanExponent, intconv.go: scanSign),
`Float.Mul`, `Float.Quo`, `Float.round`, `Float.setExpAndRound`, `Float.SetInt`,
`Float.Int` (float.go).

A `big.Float` is modelled at value level: a finite non-zero float is
`±m·2^e` with `m > 0` a natural number and `e` an integer (the Go mantissa is the
same bit string, left-aligned in words; Go's `exp` field is `bitLen m + e`).
Core Lean only (the driver is a compiled executable).
-/
namespace Rangers.Decimal

abbrev Str := List Char

/-- `big.Int.BitLen` / position of the most significant bit. -/
def bitLen (n : Nat) : Nat := if n = 0 then 0 else n.log2 + 1

/-- The two `big.RoundingMode`s that occur: the parsed amount uses `AwayFromZero`
    (set by `strToBigInt`), the `5^n` helper floats of `pow5` use the zero value
    `ToNearestEven`. -/
inductive Mode where
  | away
  | nearestEven
  deriving DecidableEq, Repr

/-- `big.Float` forms. `nan` stands for the `ErrNaN` panic of `Mul`/`Quo`
    (0·Inf, 0/0, Inf/Inf); it is kept explicit instead of being defaulted. -/
inductive BF where
  | zero (neg : Bool)
  | inf (neg : Bool)
  | fin (neg : Bool) (m : Nat) (e : Int)
  | nan
  deriving DecidableEq, Repr

def minExp : Int := -2147483648
def maxExp : Int := 2147483647
/-- `prec` constant of data_convert.go. -/
def prec : Nat := 512

/-- `Float.round`: cut the mantissa `m` to `p` bits. Returns the new mantissa and
    the number `s` of bits dropped (so the value is `m'·2^s` in units of the old lsb).
    `sticky` is the `sbit` argument (a non-zero remainder of a division). -/
def roundMant (mode : Mode) (p : Nat) (m : Nat) (sticky : Bool) : Nat × Nat :=
  let b := bitLen m
  if b ≤ p then (m, 0)
  else
    let s := b - p
    let q := m / 2 ^ s
    let r := m % 2 ^ s
    let inc : Bool :=
      match mode with
      | .away => r != 0 || sticky
      | .nearestEven =>
        let half := 2 ^ (s - 1)
        decide (r > half) || (r == half && (sticky || q % 2 == 1))
    (if inc then q + 1 else q, s)

/-- `Float.setExpAndRound` followed by the overflow check inside `round`:
    exact value `±m·2^e` (plus a sticky remainder) becomes a `p`-bit float. -/
def finish (neg : Bool) (mode : Mode) (p : Nat) (m : Nat) (e : Int) (sticky : Bool) : BF :=
  if m = 0 then .zero neg
  else if (bitLen m : Int) + e < minExp then .zero neg
  else
    let (m', s) := roundMant mode p m sticky
    let e' := e + (s : Int)
    if (bitLen m' : Int) + e' > maxExp then .inf neg else .fin neg m' e'

def BF.isNeg : BF → Bool
  | .zero n => n
  | .inf n => n
  | .fin n _ _ => n
  | .nan => false

/-- `z.Mul(x, y)` for a receiver `z` with rounding mode `mode` and precision `p`. -/
def mul (mode : Mode) (p : Nat) (x y : BF) : BF :=
  match x, y with
  | .nan, _ => .nan
  | _, .nan => .nan
  | .fin nx mx ex, .fin ny my ey => finish (nx != ny) mode p (mx * my) (ex + ey) false
  | .zero _, .inf _ => .nan
  | .inf _, .zero _ => .nan
  | .inf nx, y => .inf (nx != y.isNeg)
  | x, .inf ny => .inf (x.isNeg != ny)
  | x, y => .zero (x.isNeg != y.isNeg)

/-- `z.Quo(x, y)`: one correctly rounded division. `uquo` pads the dividend so
    that the integer quotient has more than `p + 1` bits and passes "remainder ≠ 0"
    as the sticky bit; here the dividend is shifted by `k = p + 2 + bitLen my`
    bits, which gives a quotient of more than `p + 2` bits. -/
def quo (mode : Mode) (p : Nat) (x y : BF) : BF :=
  match x, y with
  | .nan, _ => .nan
  | _, .nan => .nan
  | .fin nx mx ex, .fin ny my ey =>
    let k := p + 2 + bitLen my
    let a := mx * 2 ^ k
    finish (nx != ny) mode p (a / my) (ex - ey - (k : Int)) (a % my != 0)
  | .zero _, .zero _ => .nan
  | .inf _, .inf _ => .nan
  | .zero nx, y => .zero (nx != y.isNeg)
  | x, .inf ny => .zero (x.isNeg != ny)
  | x, y => .inf (x.isNeg != y.isNeg)

/-- The square-and-multiply loop of `Float.pow5` for `n > 27`:
    `z` has 576 bits, `f` 640 bits, both round to nearest even. -/
def pow5Loop : Nat → Nat → BF → BF → BF
  | 0, _, z, _ => z
  | fuel + 1, n, z, f =>
    if n = 0 then z
    else
      let z' := if n % 2 = 1 then mul .nearestEven (prec + 64) z f else z
      let f' := mul .nearestEven (prec + 128) f f
      pow5Loop fuel (n / 2) z' f'

/-- `p.pow5(n)` for `p` of precision `prec + 64`: `pow5tab[n]` (= `5^n`, exact in
    64 bits) for `n ≤ 27`, else the loop starting from `5^27`. `n` halves every
    round, so fuel `n` always suffices. -/
def pow5 (n : Nat) : BF :=
  if n ≤ 27 then .fin false (5 ^ n) 0
  else pow5Loop n (n - 27) (.fin false (5 ^ 27) 0) (.fin false 5 0)

/-- `'0' <= ch && ch <= '9'`. -/
def isDig (c : Char) : Bool := c.isDigit
def digVal (c : Char) : Nat := c.toNat - '0'.toNat

/-- State of `nat.scan` (base 10, `fracOk`): mantissa so far, digit count,
    position of the radix point. -/
structure MantScan where
  mant : Nat
  count : Nat
  dp : Option Nat
  rest : Str
  deriving Repr, DecidableEq

/-- The digit loop of `nat.scan(r, 10, true)`: digits accumulate, the first '.'
    records `dp = count`, anything else (a second '.', a letter, '_', …) ends the
    number and is left unread. -/
def scanMant : Str → Bool → Nat → Nat → Option Nat → MantScan
  | [], _, m, cnt, dp => ⟨m, cnt, dp, []⟩
  | c :: cs, fracOk, m, cnt, dp =>
    if c = '.' && fracOk then scanMant cs false m cnt (some cnt)
    else if isDig c then scanMant cs fracOk (m * 10 + digVal c) (cnt + 1) dp
    else ⟨m, cnt, dp, c :: cs⟩

/-- Longest prefix of decimal digits. -/
def spanDigits : Str → Str × Str
  | [] => ([], [])
  | c :: cs => if isDig c then let (a, b) := spanDigits cs; (c :: a, b) else ([], c :: cs)

/-- optional sign of the exponent: '-' is kept, '+' dropped -/
def expSign (r : Str) : Bool × Str :=
  match r with
  | '-' :: t => (true, t)
  | '+' :: t => (false, t)
  | _ => (false, r)

/-- `scanExponent(r, base2ok = true, sepOk = false)`: `none` is an error,
    otherwise (exponent, exponent base, unread rest). The digit string goes through
    `strconv.ParseInt(_, 10, 64)`, which fails outside the int64 range. -/
def scanExp : Str → Option (Int × Nat × Str)
  | [] => some (0, 10, [])
  | c :: r =>
    let base : Nat := if c = 'e' || c = 'E' then 10 else if c = 'p' || c = 'P' then 2 else 0
    if base = 0 then some (0, 10, c :: r)
    else
      let (neg, r1) : Bool × Str := expSign r
      let (ds, rest) := spanDigits r1
      if ds = [] then none
      else
        let v := Nat.ofDigitChars 10 ds 0
        if neg then (if v > 2 ^ 63 then none else some (-(v : Int), base, rest))
        else (if v ≥ 2 ^ 63 then none else some ((v : Int), base, rest))

/-- The arithmetic half of `Float.scan`: from the scanned mantissa (`mant ≠ 0`),
    digit count `fcount` (≤ 0: a radix point with `-fcount` fraction digits), exponent
    and exponent base to the rounded float. `none` = "exponent overflow" error. -/
def buildFloat (neg : Bool) (mant : Nat) (fcount exp : Int) (ebase : Nat) : Option BF :=
  let d : Int := if fcount < 0 then fcount else 0
  let exp2 : Int := (bitLen mant : Int) + d + exp
  let exp5 : Int := d + (if ebase = 10 then exp else 0)
  if exp2 < minExp || exp2 > maxExp then none
  else if exp5 = 0 then some (finish neg .away prec mant (d + exp) false)
  else if exp5 < 0 then some (quo .away prec (.fin neg mant (d + exp)) (pow5 (-exp5).toNat))
  else some (mul .away prec (.fin neg mant (d + exp)) (pow5 exp5.toNat))

/-- `count` as returned by `nat.scan`: the digit count, or, when a radix point was
    seen at position `dp`, `dp - count` (minus the number of fraction digits). -/
def fcountOf (dp : Option Nat) (count : Nat) : Int :=
  match dp with
  | some p => (p : Int) - (count : Int)
  | none => (count : Int)

/-- `Float.scan` after the sign, plus the end-of-string check of `Float.Parse`. -/
def scanBody (neg : Bool) (r : Str) : Option BF :=
  let ms := scanMant r true 0 0 none
  if ms.count = 0 then none
  else
    match scanExp ms.rest with
    | none => none
    | some (exp, ebase, rest) =>
      if ms.mant = 0 then (if rest = [] then some (.zero neg) else none)
      else
        match buildFloat neg ms.mant (fcountOf ms.dp ms.count) exp ebase with
        | none => none
        | some z => if rest = [] then some z else none

/-- `Float.scan` + the end-of-string check of `Float.Parse`, for conversion base 10,
    precision `prec`, mode AwayFromZero. `none` = an error is returned. -/
def scanFloat (s : Str) : Option BF :=
  match s with
  | [] => none
  | c0 :: t0 =>
    if c0 = '-' then scanBody true t0
    else if c0 = '+' then scanBody false t0
    else scanBody false s

/-- `big.ParseFloat(s, 10, prec, big.AwayFromZero)`. -/
def parseFloat (s : Str) : Option BF :=
  if s = "Inf".toList || s = "inf".toList || s = "+Inf".toList || s = "+inf".toList then some (.inf false)
  else if s = "-Inf".toList || s = "-inf".toList then some (.inf true)
  else scanFloat s

/-- `target.Int(result)` with `result := new(big.Int)`: truncation toward zero;
    for ±Inf `Int` returns nil and leaves `result` at 0. -/
def toInt : BF → Int
  | .zero _ => 0
  | .inf _ => 0
  | .nan => 0
  | .fin neg m e =>
    if (bitLen m : Int) + e ≤ 0 then 0   -- `x.exp <= 0`: 0 < |x| < 1
    else
      let v : Nat := if e ≥ 0 then m * 2 ^ e.toNat else m / 2 ^ (-e).toNat
      if neg then -(v : Int) else (v : Int)

/-- Result of `strToBigInt`: `(*big.Int, error)`; `panic` = `ErrNaN` (unreachable, see Props). -/
inductive Res where
  | ok (v : Int)
  | err
  | panic
  deriving DecidableEq, Repr

/-- `base := new(big.Float).SetInt(10^decimal)`: exact (precision = max(bitLen, 64));
    `big.Int.Exp` with a non-positive exponent yields 1. -/
def baseFloat (decimal : Int) : BF := .fin false (10 ^ decimal.toNat) 0

/-- `strToBigInt(s, decimal)`. -/
def strToBigInt (s : Str) (decimal : Int) : Res :=
  if s = [] then .ok 0
  else
    match parseFloat s with
    | none => .err
    | some target =>
      match mul .away prec target (baseFloat decimal) with
      | .nan => .panic
      | t => .ok (toInt t)

/-- `StrToBigInt(s)` (18 decimals). -/
def StrToBigInt (s : Str) : Res := strToBigInt s 18

/-- `bigIntToStr(n, precision)` for non-nil `n`. -/
def bigIntToStr (n : Int) (precision : Int) : Str :=
  if precision < 0 then ['0']
  else
    let p := precision.toNat
    let starter : Str := if n < 0 then ['-'] else []
    let number := Nat.toDigits 10 n.natAbs
    let length := number.length
    let first : Str := if length ≤ p then ['0'] else number.take (length - p)
    let last : Str := if length ≤ p then List.replicate (p - length) '0' ++ number else number.drop (length - p)
    if p = 0 then starter ++ first else starter ++ first ++ '.' :: last

/-- `BigIntToStr(number)` for non-nil `number`. -/
def BigIntToStr (n : Int) : Str := if n = 0 then ['0'] else bigIntToStr n 18

/-- `BigIntToStrWithoutDot`. -/
def BigIntToStrWithoutDot (n : Int) : Str := (BigIntToStr n).takeWhile (· != '.')

/-- `FormatDecimalForERC20(number, decimal)`; `err` = the Go function returns a nil pointer. -/
def formatERC20 (n : Int) (decimal : Int) : Res :=
  if n = 0 then .ok 0 else strToBigInt (BigIntToStr n) decimal

/-- `FormatDecimalForRocket(number, decimal)`. -/
def formatRocket (n : Int) (decimal : Int) : Res :=
  if n = 0 then .ok 0 else StrToBigInt (bigIntToStr n decimal)

/-- The value path of a wrapped Ethereum transaction: `eth_tx.ConvertTx` writes
    `BigIntToStr(value)` into the JSON field `transferValue`, the contract executor's
    `decodeContractData` reads it back with `StrToBigInt`. (The JSON round trip of an
    ASCII string is outside the model.) -/
def evmValue (v : Int) : Res := StrToBigInt (BigIntToStr v)

/-! ### ERC-20 bound token balances (`src/storage/account/accountdb_tuntun.go`)

For a token name bound to an ERC-20 contract with `d` decimals the contract's storage
slot holds the balance in token units (`bal : Nat`, stored as `big.Int.Bytes()`, i.e. the
absolute value); the ledger API speaks 18-decimal integers. `none` = the Go code would
dereference the nil pointer returned by a failed `FormatDecimalForERC20`. -/

/-- `SetFT(addr, name, balance)` on a bound token: new slot content. -/
def ftSet (d : Int) (n : Int) : Option Nat :=
  match formatERC20 n d with
  | .ok v => some v.natAbs
  | _ => none

/-- `GetFT(addr, name)` on a bound token. -/
def ftGet (d : Int) (bal : Nat) : Res := formatRocket (bal : Int) d

/-- `AddFT`: `remain.Add(remain, FormatDecimalForERC20(balance, d))`, stored via `Bytes()`. -/
def ftAdd (d : Int) (bal : Nat) (n : Int) : Option Nat :=
  match formatERC20 n d with
  | .ok v => some ((bal : Int) + v).natAbs
  | _ => none

/-- `SubFT`: `(false, remain)` (in token units!) when `remain < value`; otherwise the slot
    becomes `remain - value` and the result is that, re-scaled to 18 decimals. Returns
    (success, new slot content, returned integer or nil). -/
def ftSub (d : Int) (bal : Nat) (n : Int) : Option (Bool × Nat × Res) :=
  match formatERC20 n d with
  | .ok v =>
    if (bal : Int) < v then some (false, bal, .ok (bal : Int))
    else
      let r := (bal : Int) - v
      some (true, r.natAbs, formatRocket r d)
  | _ => none

/-! ### `service.ChangeAssets` / `transferBalance` (src/service/game.go) with one target

The native balance is the bound token `common.BLANCE_NAME` with 18 decimals, so
`SetBalance/GetBalance/AddBalance/SubBalance` are `ftSet/ftGet/ftAdd/ftSub` at `d = 18`.
Result: (success, source balance afterwards, target balance afterwards, response);
`none` = a nil `*big.Int` would be dereferenced. -/

def gameFailMsg : Str := "Transfer Balance Failed".toList

def gameTransfer (srcBal : Int) (value : Str) : Option (Bool × Res × Res × Str) :=
  match ftSet 18 srcBal with
  | none => none
  | some sb =>
    let failed : Option (Bool × Res × Res × Str) := some (false, ftGet 18 sb, ftGet 18 0, gameFailMsg)
    match StrToBigInt value with
    | .panic => none
    | .err => failed
    | .ok amt =>
      if amt < 0 then failed
      else
        match ftGet 18 sb with
        | .ok cur =>
          if cur < amt then failed
          else
            match ftAdd 18 0 amt, ftSub 18 sb amt with
            | some tb, some (_, sb', left) =>
              let leftStr : Str := match left with
                | .ok v => BigIntToStr v
                | _ => ['0']
              some (true, ftGet 18 sb', ftGet 18 tb, "{\"balance\":\"".toList ++ leftStr ++ "\"}".toList)
            | _, _ => none
        | _ => none

/-! ### the other helpers of data_convert.go that amounts pass through -/

/-- `Uint64ToBigInt(n)`: `n · baseNumber`. -/
def uint64ToBigInt (n : Nat) : Int := (n : Int) * 1000000000000000000

/-- IEEE-754 binary64 bit pattern → the value `big.Float.SetFloat64` stores (exact at
    512 bits; `SetFloat64(NaN)` panics with `ErrNaN`, kept as `.nan`). -/
def f64Decode (bits : Nat) : BF :=
  let neg : Bool := bits / 2 ^ 63 % 2 == 1
  let e : Nat := bits / 2 ^ 52 % 2048
  let f : Nat := bits % 2 ^ 52
  if e = 2047 then (if f = 0 then .inf neg else .nan)
  else if e = 0 then (if f = 0 then .zero neg else .fin neg f (-1074))
  else .fin neg (2 ^ 52 + f) ((e : Int) - 1075)

/-- `Float64ToBigInt` on a float64 value already held as a `big.Float`, with scale factor
    `B`: `target` has precision 512 and the default mode ToNearestEven, `base = B` is exact,
    one `Mul`, then `Int` (truncate; ±Inf leaves 0). -/
def float64ToBigIntWith (B : Nat) (x : BF) : Res :=
  match x with
  | .nan => .panic
  | x =>
    match mul .nearestEven prec x (.fin false B 0) with
    | .nan => .panic
    | t => .ok (toInt t)

/-- `Float64ToBigInt` (`baseNumber = 10^18`). -/
def float64ToBigIntOf (x : BF) : Res := float64ToBigIntWith 1000000000000000000 x

/-- `Float64ToBigInt(math.Float64frombits(bits))`. -/
def float64ToBigInt (bits : Nat) : Res := float64ToBigIntOf (f64Decode bits)

/-- Go's conversion `float64(n)` of a `uint64`: round to nearest even at 53 bits. -/
def u64ToF64 (n : Nat) : BF :=
  if n = 0 then .zero false
  else
    let r := roundMant .nearestEven 53 n false
    .fin false r.1 (r.2 : Int)

/-- `Float64ToBigInt(float64(stake))` as used by `MinerManager.AddStake` / `AddMiner`. -/
def stakeToBigInt (n : Nat) : Res := float64ToBigIntOf (u64ToF64 n)

/-- `strconv.ParseUint(s, 10, 0)`: decimal digits only (no sign, no separators), must be
    non-empty and fit 64 bits; `none` = error. -/
def parseUint64 (s : Str) : Option Nat :=
  if s = [] then none
  else if s.all isDig then
    let v := Nat.ofDigitChars 10 s 0
    if v < 2 ^ 64 then some v else none
  else none

/-- `strconv.ParseUint(utility.BigIntToStrWithoutDot(money), 10, 0)` (vm stake / unstake
    instructions): the whole-coin part of an 18-decimal amount. -/
def stakeArg (money : Int) : Option Nat := parseUint64 (BigIntToStrWithoutDot money)

/-- `BigIntBase10toN(n, base)` for `n ≥ 0`, `2 ≤ base ≤ 16` (digits `0-9a-f`); the empty
    string for 0. (Outside this domain the Go loop does not terminate or indexes past
    `tenToAny`; not modelled.) -/
def bigIntBase10toN (n : Nat) (base : Nat) : Str := if n = 0 then [] else Nat.toDigits base n

/-- `common.GenerateCallDataBigInt`: left-padded to 64 characters. -/
def callDataBigInt (n : Nat) : Str :=
  let r := bigIntBase10toN n 16
  List.replicate (64 - r.length) '0' ++ r

end Rangers.Decimal
