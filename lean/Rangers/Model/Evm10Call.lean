import Rangers.Model.Evm10Interp
/-
C10 — what `opStaticCall` / `opCall` (value 0) to the identity precompile 0x04 leave in the
caller's memory and in the return-data buffer (instructions.go opStaticCall/opCall, evm.go
StaticCall/Call, contracts.go dataCopy.Run, interpreter.go `in.returnData = CopyBytes(res)`).
Gas-free: the memory given is the one the interpreter has already resized.  Core Lean only.

The code, step by step:
  args := memory.GetPtr(inOffset, inSize)          -- a WINDOW of caller memory, not a copy
  ret  := dataCopy.Run(args) = args                -- the precompile returns its input slice
  memory.Set(retOffset, retSize, ret)              -- Go `copy` is memmove: the bytes written are
                                                   --   the input bytes as they were before
  return ret  →  in.returnData = CopyBytes(ret)    -- `ret` is still the window [inOffset, +inSize)
                                                   --   of memory, read AFTER the write-back
-/
namespace Rangers.Model.Evm10

/-- (memory after, return data) as the code computes them; `none` = a Go panic branch. -/
def identityCall (m : Bytes) (inOff inSize retOff retSize : Nat) : Option (Bytes × Bytes) :=
  match Mem.getPtr m inOff inSize with
  | none => none
  | some args =>
    match Mem.set m retOff retSize args with
    | none => none
    | some m' =>
      match Mem.getPtr m' inOff inSize with
      | some rd => some (m', rd)
      | none => none

/-- the memory `execute` sees for STATICCALL: resized to the word-rounded `memoryStaticCall` size -/
def staticCallMemory (m : Bytes) (inOff inSize retOff retSize : Word) : Option Bytes :=
  match memorySizeOf .memoryStaticCall [0#256, 4#256, inOff, inSize, retOff, retSize] with
  | .size sz false =>
    let r := safeMul (toWordSize sz) 32
    if r.2 then none else some (if r.1 > 0 then Mem.resize m r.1 else m)
  | _ => none

end Rangers.Model.Evm10
