import Rangers.Model.Evm10Word
import Rangers.Model.Evm10Table
/-
C10 — stack, memory, jump-destination analysis and the `execute` functions of the
computational opcodes, transcribed from go-rangers `src/vm` (stack.go, memory.go,
analysis.go, contract.go, common.go, instructions.go, eips.go).  Core Lean only.

Conventions
* the stack is a `List Word` with the TOP at the head (`pop` = head, `Back(n)` = index n);
* memory is a `List UInt8` (`Memory.store`);
* a Go run-time panic (index/slice out of range, the explicit `panic` in `Memory.Set`)
  is the explicit result `Err.goPanic` — never a default value.  `Props/C10` proves these
  branches unreachable under the interpreter's checks.
-/
namespace Rangers.Model.Evm10
open U256

inductive Err where
  | invalidOpcode | stackUnderflow | stackOverflow | outOfGas | gasUintOverflow
  | invalidJump | returnDataOutOfBounds | writeProtection | goPanic
  deriving DecidableEq, Repr

def Err.name : Err → String
  | .invalidOpcode => "invalid-opcode" | .stackUnderflow => "stack-underflow"
  | .stackOverflow => "stack-overflow" | .outOfGas => "out-of-gas"
  | .gasUintOverflow => "gas-uint-overflow" | .invalidJump => "invalid-jump"
  | .returnDataOutOfBounds => "returndata-oob" | .writeProtection => "write-protection"
  | .goPanic => "PANIC"

/-! ### memory.go -/
namespace Mem

/-- `Resize(size)` : grow with zero bytes, never shrink. -/
def resize (m : Bytes) (size : Nat) : Bytes :=
  if m.length < size then m ++ List.replicate (size - m.length) 0 else m

/-- `GetPtr(offset, size)` / `GetCopy` : nil for size 0 or when the offset is not below
`len(store)`; otherwise the slice `store[offset:offset+size]`, which is only meaningful
when it ends inside the store (beyond `len` Go would expose spare capacity or panic):
that case is `none`. -/
def getPtr (m : Bytes) (off size : Nat) : Option Bytes :=
  if size = 0 then some []
  else if m.length > off then
    if off + size ≤ m.length then some ((m.drop off).take size) else none
  else some []

/-- `Set(offset, size, value)` : no-op for size 0, panics when the region is not inside
the store, else `copy(store[offset:offset+size], value)` (copies `min size len(value)`). -/
def set (m : Bytes) (off size : Nat) (value : Bytes) : Option Bytes :=
  if size = 0 then some m
  else if off + size > m.length then none
  else
    let v := value.take size
    some (m.take off ++ v ++ m.drop (off + v.length))

/-- `Set32(offset, val)` : zero 32 bytes then write the word big-endian. -/
def set32 (m : Bytes) (off : Nat) (val : Word) : Option Bytes :=
  if off + 32 > m.length then none
  else some (m.take off ++ toBytes32 val ++ m.drop (off + 32))

/-- `store[off] = b` (opMstore8 writes the slice directly). -/
def setByte (m : Bytes) (off : Nat) (b : UInt8) : Option Bytes :=
  if off < m.length then some (m.take off ++ [b] ++ m.drop (off + 1)) else none

/-- `Copy(dst, src, len)` : `copy(store[dst:], store[src:src+len])`, Go's `copy` is
overlap-safe (memmove): the source bytes are those *before* the call. -/
def copy (m : Bytes) (dst src len : Nat) : Option Bytes :=
  if len = 0 then some m
  else if src + len > m.length ∨ dst > m.length then none
  else
    let v := ((m.drop src).take len).take (m.length - dst)
    some (m.take dst ++ v ++ m.drop (dst + v.length))

end Mem

/-! ### common.go -/

/-- `utility.RightPadBytes(slice, l)` : unchanged when already `l` long or longer. -/
def rightPad (bs : Bytes) (l : Nat) : Bytes :=
  if l ≤ bs.length then bs else bs ++ List.replicate (l - bs.length) 0

/-- `getData(data, start, size)` (start, size are uint64 values; `start+size` cannot wrap
for the sizes the interpreter lets through, see design/C10.md). -/
def getData (data : Bytes) (start size : Nat) : Bytes :=
  let length := data.length
  let start := if start > length then length else start
  let end_ := start + size
  let end_ := if end_ > length then length else end_
  rightPad ((data.drop start).take (end_ - start)) size

def maxUint64 : Nat := 2 ^ 64 - 1

/-- `toWordSize(size)` -/
def toWordSize (size : Nat) : Nat :=
  if size > maxUint64 - 31 then maxUint64 / 32 + 1 else (size + 31) / 32

/-- `calcMemSize64WithUint(off, length64)` → (size, overflow) -/
def calcMemSize64WithUint (off : Word) (length64 : Nat) : Nat × Bool :=
  if length64 = 0 then (0, false)
  else if !isUint64 off then (0, true)   -- `off.Uint64WithOverflow()` overflowed
  else
    -- `val := offset64 + length64` in uint64, overflow iff `val < offset64`
    ((lo64 off + length64) % 2 ^ 64, decide ((lo64 off + length64) % 2 ^ 64 < lo64 off))

/-- `calcMemSize64(off, l)` -/
def calcMemSize64 (off l : Word) : Nat × Bool :=
  if !isUint64 l then (0, true) else calcMemSize64WithUint off (lo64 l)

/-! ### analysis.go : the JUMPDEST bitmap (a set bit = PUSH data) -/
namespace Bitvec

def modifyAt (l : Bytes) (i : Nat) (f : UInt8 → UInt8) : Bytes :=
  match l, i with
  | [], _ => []
  | b :: bs, 0 => f b :: bs
  | b :: bs, i + 1 => b :: modifyAt bs i f

def sh (x : UInt8) (pos : Nat) : UInt8 := x >>> UInt8.ofNat (pos % 8)

/-- `bits.set(pos)` : `bits[pos/8] |= 0x80 >> (pos % 8)` -/
def set (bits : Bytes) (pos : Nat) : Bytes :=
  modifyAt bits (pos / 8) (fun b => b ||| sh 0x80 pos)

/-- `bits.set8(pos)` : `bits[pos/8] |= 0xFF >> (pos%8); bits[pos/8+1] |= ^(0xFF >> (pos%8))` -/
def set8 (bits : Bytes) (pos : Nat) : Bytes :=
  let bits := modifyAt bits (pos / 8) (fun b => b ||| sh 0xFF pos)
  modifyAt bits (pos / 8 + 1) (fun b => b ||| ~~~ (sh 0xFF pos))

/-- `bits.codeSegment(pos)` : `bits[pos/8] & (0x80 >> (pos%8)) == 0` -/
def codeSegment (bits : Bytes) (pos : Nat) : Bool :=
  (bits.getD (pos / 8) 0 &&& sh 0x80 pos) == 0

/-- `for ; numbits >= 8; numbits -= 8 { bits.set8(pc); pc += 8 }` runs `numbits/8` times. -/
def mark8 : Nat → Bytes → Nat → Bytes × Nat
  | 0, bits, pc => (bits, pc)
  | q + 1, bits, pc => mark8 q (set8 bits pc) (pc + 8)

/-- `for ; numbits > 0; numbits-- { bits.set(pc); pc++ }` -/
def mark1 : Nat → Bytes → Nat → Bytes × Nat
  | 0, bits, pc => (bits, pc)
  | r + 1, bits, pc => mark1 r (set bits pc) (pc + 1)

def isPush (op : UInt8) : Bool := decide (0x60 ≤ op.toNat ∧ op.toNat ≤ 0x7f)

/-- The outer loop of `codeBitmap`; `fuel` bounds the iterations (each advances pc). -/
def loop : Nat → Bytes → Nat → Bytes → Bytes
  | 0, _, _, bits => bits
  | fuel + 1, code, pc, bits =>
    if pc < code.length then
      let op := code.getD pc 0
      if isPush op then
        let numbits := op.toNat - 0x60 + 1
        let (bits, pc) := mark8 (numbits / 8) bits (pc + 1)
        let (bits, pc) := mark1 (numbits % 8) bits pc
        loop fuel code pc bits
      else loop fuel code (pc + 1) bits
    else bits

/-- `codeBitmap(code)` : `len(code)/8+1+4` zero bytes, then the loop. -/
def codeBitmap (code : Bytes) : Bytes :=
  loop code.length code 0 (List.replicate (code.length / 8 + 1 + 4) 0)

end Bitvec

/-! ### the frame -/

structure Frame where
  code : Bytes
  input : Bytes
  /-- `contract.analysis`; `Frame.init` sets it to `codeBitmap code` -/
  bitmap : Bytes
  stack : List Word
  mem : Bytes
  pc : Nat
  gas : Nat
  /-- `Memory.lastGasCost` -/
  lastGasCost : Nat
  /-- `interpreter.returnData` -/
  returnData : Bytes

def Frame.init (code input : Bytes) (gas : Nat) : Frame :=
  { code, input, bitmap := Bitvec.codeBitmap code, stack := [], mem := [], pc := 0, gas,
    lastGasCost := 0, returnData := [] }

/-- `contract.GetOp(n)` : byte n of the code, 0 (STOP) beyond its end. -/
def getOp (code : Bytes) (n : Nat) : Nat := if n < code.length then (code.getD n 0).toNat else 0

/-- `contract.validJumpdest(dest)` -/
def validJumpdest (f : Frame) (dest : Word) : Bool :=
  let (udest, overflow) := uint64WithOverflow dest
  if overflow || decide (udest ≥ f.code.length) then false
  else if (f.code.getD udest 0) != 0x5b then false
  else Bitvec.codeSegment f.bitmap udest

inductive ExecResult where
  /-- the function returned `(res, nil)` -/
  | ok (f : Frame) (res : Bytes)
  | err (e : Err)
  | unmodelled (name : String)

/-- binary operator `x, y := pop(), peek(); y.F(&x, y)` -/
def bin (f : Frame) (g : Word → Word → Word) : ExecResult :=
  match f.stack with
  | x :: y :: rest => .ok { f with stack := g x y :: rest } []
  | _ => .err .goPanic

def un (f : Frame) (g : Word → Word) : ExecResult :=
  match f.stack with
  | x :: rest => .ok { f with stack := g x :: rest } []
  | _ => .err .goPanic

def pushW (f : Frame) (w : Word) : ExecResult := .ok { f with stack := w :: f.stack } []

def opSHL (shift value : Word) : Word :=
  if ltUint64 shift 256 then lsh value (lo64 shift) else 0#256

def opSHR (shift value : Word) : Word :=
  if ltUint64 shift 256 then rsh value (lo64 shift) else 0#256

def opSAR (shift value : Word) : Word :=
  if gtUint64 shift 256 then
    if sign value ≥ 0 then 0#256 else allOnes
  else srsh value (lo64 shift)

def opAddmod (x y z : Word) : Word := if isZero z then 0#256 else addmod x y z

/-- `makePush(size, pushByteSize)` : the value pushed. -/
def pushValue (code : Bytes) (pc n : Nat) : Word :=
  let codeLen := code.length
  let startMin := if pc + 1 < codeLen then pc + 1 else codeLen
  let endMin := if startMin + n < codeLen then startMin + n else codeLen
  setBytes (rightPad ((code.drop startMin).take (endMin - startMin)) n)

/-- The `execute` function named by a jump-table slot, run on a frame whose memory has
already been resized by the interpreter loop.  `H` is the Keccak-256 parameter. -/
def execOp (H : Bytes → Bytes) (e : Exec) (f : Frame) : ExecResult :=
  match e with
  | .opStop => .ok f []
  | .opAdd => bin f add
  | .opSub => bin f sub
  | .opMul => bin f mul
  | .opDiv => bin f div
  | .opSdiv => bin f sdiv
  | .opMod => bin f mod
  | .opSmod => bin f smod
  | .opExp => bin f exp
  | .opSignExtend => bin f (fun back num => extendSign num back)
  | .opNot => un f U256.not
  | .opLt => bin f (fun x y => ofBool (lt x y))
  | .opGt => bin f (fun x y => ofBool (gt x y))
  | .opSlt => bin f (fun x y => ofBool (slt x y))
  | .opSgt => bin f (fun x y => ofBool (sgt x y))
  | .opEq => bin f (fun x y => ofBool (eq x y))
  | .opIszero => un f (fun x => ofBool (isZero x))
  | .opAnd => bin f U256.and
  | .opOr => bin f U256.or
  | .opXor => bin f U256.xor
  | .opByte => bin f (fun th val => byte val th)
  | .opAddmod =>
    match f.stack with
    | x :: y :: z :: rest => .ok { f with stack := opAddmod x y z :: rest } []
    | _ => .err .goPanic
  | .opMulmod =>
    match f.stack with
    | x :: y :: z :: rest => .ok { f with stack := mulmod x y z :: rest } []
    | _ => .err .goPanic
  | .opSHL => bin f opSHL
  | .opSHR => bin f opSHR
  | .opSAR => bin f opSAR
  | .opSha3 =>
    match f.stack with
    | offset :: size :: rest =>
      match Mem.getPtr f.mem (lo64 offset) (lo64 size) with
      | some data => .ok { f with stack := setBytes (H data) :: rest } []
      | none => .err .goPanic
    | _ => .err .goPanic
  | .opCallDataLoad =>
    match f.stack with
    | x :: rest =>
      let (offset, overflow) := uint64WithOverflow x
      if !overflow then .ok { f with stack := setBytes (getData f.input offset 32) :: rest } []
      else .ok { f with stack := 0#256 :: rest } []
    | _ => .err .goPanic
  | .opCallDataSize => pushW f (ofNat f.input.length)
  | .opCallDataCopy =>
    match f.stack with
    | memOffset :: dataOffset :: length :: rest =>
      let (d64, overflow) := uint64WithOverflow dataOffset
      let d64 := if overflow then maxUint64 else d64
      let length64 := lo64 length
      match Mem.set f.mem (lo64 memOffset) length64 (getData f.input d64 length64) with
      | some m => .ok { f with stack := rest, mem := m } []
      | none => .err .goPanic
    | _ => .err .goPanic
  | .opCodeSize => pushW f (ofNat f.code.length)
  | .opCodeCopy =>
    match f.stack with
    | memOffset :: codeOffset :: length :: rest =>
      let (c64, overflow) := uint64WithOverflow codeOffset
      let c64 := if overflow then maxUint64 else c64
      let length64 := lo64 length
      match Mem.set f.mem (lo64 memOffset) length64 (getData f.code c64 length64) with
      | some m => .ok { f with stack := rest, mem := m } []
      | none => .err .goPanic
    | _ => .err .goPanic
  | .opReturnDataSize => pushW f (ofNat f.returnData.length)
  | .opReturnDataCopy =>
    match f.stack with
    | memOffset :: dataOffset :: length :: rest =>
      -- `offset64, overflow := dataOffset.Uint64WithOverflow()`
      if !isUint64 dataOffset then .err .returnDataOutOfBounds
      else
        let end_ := add dataOffset length
        -- `end64, overflow := end.Uint64WithOverflow()`
        if !isUint64 end_ || decide (f.returnData.length < lo64 end_) then .err .returnDataOutOfBounds
        else if lo64 dataOffset > lo64 end_ then .err .goPanic   -- `returnData[offset64:end64]`
        else
          match Mem.set f.mem (lo64 memOffset) (lo64 length)
              ((f.returnData.drop (lo64 dataOffset)).take (lo64 end_ - lo64 dataOffset)) with
          | some m => .ok { f with stack := rest, mem := m } []
          | none => .err .goPanic
    | _ => .err .goPanic
  | .opPop =>
    match f.stack with
    | _ :: rest => .ok { f with stack := rest } []
    | _ => .err .goPanic
  | .opMload =>
    match f.stack with
    | v :: rest =>
      match Mem.getPtr f.mem (lo64 v) 32 with
      | some bs => .ok { f with stack := setBytes bs :: rest } []
      | none => .err .goPanic
    | _ => .err .goPanic
  | .opMstore =>
    match f.stack with
    | mStart :: val :: rest =>
      match Mem.set32 f.mem (lo64 mStart) val with
      | some m => .ok { f with stack := rest, mem := m } []
      | none => .err .goPanic
    | _ => .err .goPanic
  | .opMstore8 =>
    match f.stack with
    | off :: val :: rest =>
      match Mem.setByte f.mem (lo64 off) (UInt8.ofNat (lo64 val)) with
      | some m => .ok { f with stack := rest, mem := m } []
      | none => .err .goPanic
    | _ => .err .goPanic
  | .opJump =>
    match f.stack with
    | pos :: rest =>
      if !validJumpdest f pos then .err .invalidJump
      else .ok { f with stack := rest, pc := lo64 pos } []
    | _ => .err .goPanic
  | .opJumpi =>
    match f.stack with
    | pos :: cond :: rest =>
      if !isZero cond then
        if !validJumpdest f pos then .err .invalidJump
        else .ok { f with stack := rest, pc := lo64 pos } []
      else .ok { f with stack := rest, pc := f.pc + 1 } []
    | _ => .err .goPanic
  | .opJumpdest => .ok f []
  | .opPc => pushW f (ofNat f.pc)
  | .opMsize => pushW f (ofNat f.mem.length)
  | .opGas => pushW f (ofNat f.gas)
  | .opPush0 => pushW f 0#256
  | .opPush1 =>
    let pc := f.pc + 1
    if pc < f.code.length then
      .ok { f with stack := ofNat (f.code.getD pc 0).toNat :: f.stack, pc := pc } []
    else .ok { f with stack := 0#256 :: f.stack, pc := pc } []
  | .push size n =>
    .ok { f with stack := pushValue f.code f.pc n :: f.stack, pc := f.pc + size } []
  | .dup n =>
    -- `st.push(&st.data[st.len()-n])`
    if n = 0 then .err .goPanic
    else match f.stack[n - 1]? with
      | some w => .ok { f with stack := w :: f.stack } []
      | none => .err .goPanic
  | .swap n =>
    -- `makeSwap(n)` swaps `data[len-(n+1)]` with the top
    match f.stack with
    | top :: _ =>
      if n = 0 then .ok f []
      else match f.stack[n]? with
        | some w => .ok { f with stack := (w :: f.stack.tail).set n top } []
        | none => .err .goPanic
    | [] => .err .goPanic
  | .opMcopy =>
    match f.stack with
    | dst :: src :: length :: rest =>
      match Mem.copy f.mem (lo64 dst) (lo64 src) (lo64 length) with
      | some m => .ok { f with stack := rest, mem := m } []
      | none => .err .goPanic
    | _ => .err .goPanic
  | .opReturn =>
    match f.stack with
    | offset :: size :: rest =>
      match Mem.getPtr f.mem (lo64 offset) (lo64 size) with
      | some ret => .ok { f with stack := rest } ret
      | none => .err .goPanic
    | _ => .err .goPanic
  | .opRevert =>
    match f.stack with
    | offset :: size :: rest =>
      match Mem.getPtr f.mem (lo64 offset) (lo64 size) with
      | some ret => .ok { f with stack := rest } ret
      | none => .err .goPanic
    | _ => .err .goPanic
  | .other name => .unmodelled name

end Rangers.Model.Evm10
