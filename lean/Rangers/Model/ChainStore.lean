/-
Model of go-rangers' block store (src/core/blockchain*.go) for property C05.

What is modelled, statement by statement, in the order the Go code performs it:
  * the three indexes of `blockChain` (hashDB, heightDB, verifyHashDB), the
    recorded head `bcurrent`, the two intent marks, the executed-transaction
    store of the tx pool and the set of committed state roots   -> `Disk`
  * the volatile part: in-memory head, topBlocks cache, verifiedBlocks cache,
    futureBlocks cache, the pool's pending container              -> `Mem`
  * every physical write as a value of `Write`; `St.write` performs it under a
    write budget: when the budget is exhausted the process is dead (`crashed`),
    and nothing reaches the disk any more
  * `insertBlock`, `remove`, `removeFromCommonAncestor`, `verifyBlock`,
    `addBlockOnChain` (both the exported entry with `consensusVerify` and the
    inner recursive one), `successOnChainCallBack`, `initBlockChain` +
    `ensureChainConsistency` (= `restart`).
Core Lean only (the driver is a compiled executable).
-/
namespace Rangers.Model.ChainStore

/-- A block as far as the store logic looks at it. `valid` says whether the
    roots recorded in the header are the ones execution reproduces
    (`checkStates` passes). `hash` is the block's identity in every index. -/
structure Block where
  hash : Nat
  pre : Nat
  height : Nat
  totalQN : Nat
  pv : Nat
  txs : List Nat
  valid : Bool
  reqId : Nat := 0            -- header `RequestIds["fixed"]`
  txReqs : List Nat := []     -- `RequestId` of each transaction of the block
deriving DecidableEq, Repr, Inhabited

abbrev Map (α : Type) := Nat → Option α

def upd {α : Type} (m : Map α) (k : Nat) (v : Option α) : Map α :=
  fun x => if x = k then v else m x

def updB (m : Nat → Bool) (k : Nat) (v : Bool) : Nat → Bool :=
  fun x => if x = k then v else m x

/-- What survives a process death. -/
structure Disk where
  blocks : Map Block        -- hashDB: hash -> block
  heights : Map Block       -- heightDB: height -> header
  verify : Nat → Bool       -- verifyHashDB has an entry at this height
  current : Option Block    -- heightDB["bcurrent"]
  addMark : Option Block    -- hashDB["addBlockMark"]
  removeMark : Option Block -- hashDB["removeBlockMark"]
  executed : Map Nat        -- tx pool: tx -> hash of the block it was executed in
  roots : Nat → Bool        -- state root of block (by block hash) is committed

/-- What a process death forgets. -/
structure Mem where
  latest : Block            -- chain.latestBlock
  top : Map Block           -- topBlocks cache: height -> header
  verified : List Nat       -- verifiedBlocks cache (block hashes)
  future : Map Block        -- futureBlocks cache: parent hash -> orphan
  pending : List Nat        -- tx pool received container

/-- One physical write. -/
inductive Write where
  | putAddMark (b : Block)
  | delAddMark
  | putRemoveMark (b : Block)
  | delRemoveMark
  | putBlock (b : Block)
  | delBlock (hash : Nat)
  | putHeight (h : Nat) (b : Block)
  | delHeight (h : Nat)
  | putVerify (h : Nat)
  | delVerify (h : Nat)
  | putCurrent (b : Block)
  | commitState (hash : Nat)
  | putExecuted (txs : List Nat) (blockHash : Nat)
  | delExecuted (tx : Nat)
deriving DecidableEq, Repr

def markExec (m : Map Nat) (txs : List Nat) (bh : Nat) : Map Nat :=
  fun t => if t ∈ txs then some bh else m t

def Disk.apply (d : Disk) : Write → Disk
  | .putAddMark b => { d with addMark := some b }
  | .delAddMark => { d with addMark := none }
  | .putRemoveMark b => { d with removeMark := some b }
  | .delRemoveMark => { d with removeMark := none }
  | .putBlock b => { d with blocks := upd d.blocks b.hash (some b) }
  | .delBlock h => { d with blocks := upd d.blocks h none }
  | .putHeight h b => { d with heights := upd d.heights h (some b) }
  | .delHeight h => { d with heights := upd d.heights h none }
  | .putVerify h => { d with verify := updB d.verify h true }
  | .delVerify h => { d with verify := updB d.verify h false }
  | .putCurrent b => { d with current := some b }
  | .commitState h => { d with roots := updB d.roots h true }
  | .putExecuted txs bh => { d with executed := markExec d.executed txs bh }
  | .delExecuted t => { d with executed := upd d.executed t none }

/-- Whole state of one run: disk, memory, and the crash machinery. -/
structure St where
  disk : Disk
  mem : Mem
  log : List Write          -- writes that reached the disk during the current op, newest first
  budget : Option Nat       -- `some k`: the process dies before write number k (0-based) of this op
  crashed : Bool
  refused : Option Write    -- the write the process died in front of
  fuelOut : Bool            -- a recursion bound of the model was hit (never, see `Props`)
  p008 : Bool               -- fork configuration: `common.IsProposal008()` (executed-transaction check in verifyBlock)

/-- Perform one physical write, or die in front of it. -/
def St.write (s : St) (w : Write) : St :=
  if s.crashed then s else
  match s.budget with
  | some 0 => { s with crashed := true, refused := some w }
  | some (k + 1) => { s with disk := s.disk.apply w, log := w :: s.log, budget := some k }
  | none => { s with disk := s.disk.apply w, log := w :: s.log }

def St.writes (s : St) : List Write → St
  | [] => s
  | w :: ws => (s.write w).writes ws

def St.setMem (s : St) (m : Mem) : St := { s with mem := m }

/-- `QueryBlockHeaderByHeight(h, true)`: topBlocks cache first, then heightDB. -/
def St.lookupHeight (s : St) (h : Nat) : Option Block :=
  match s.mem.top h with
  | some x => some x
  | none => s.disk.heights h

inductive Res where
  | failed | succ | existed | qnless | nopre
deriving DecidableEq, Repr

def Res.name : Res → String
  | .failed => "failed" | .succ => "succ" | .existed => "existed" | .qnless => "qnless" | .nopre => "nopre"

/-- capacity of the verifiedBlocks LRU (`lru.New(20)` in `initBlockChain`; re-extracted by T-gen) -/
def verifiedCap : Nat := 20

/-- `lru.Cache.Add` on a key list kept most-recent-first: (re)insert at the front, evict the oldest beyond capacity -/
def lruAdd (cap : Nat) (l : List Nat) (k : Nat) : List Nat := (k :: l.filter (fun h => h != k)).take cap

/-- `lru.Cache.Get`: a hit moves the key to the front -/
def lruGet (l : List Nat) (k : Nat) : List Nat := if l.contains k then k :: l.filter (fun h => h != k) else l

/-- `chainPvGreatThanRemote(local, remote)`. -/
def pvGreater (loc rem : Block) : Bool :=
  if loc.pv > rem.pv then true
  else if loc.pv < rem.pv then false
  else loc.hash > rem.hash

/-- `getRequestIdFromTransactions(txs, last)["fixed"]`: the largest request id among the transactions if it is
    non-zero and exceeds the parent's, else the parent's. -/
def requestIdFrom (reqs : List Nat) (last : Nat) : Nat :=
  let m := reqs.foldl (fun acc r => if r > acc then r else acc) 0
  if m ≠ 0 ∧ m > last then m else last

/-- `blockChain.nextPvGreatThanFork(commonAncestor, fork)`: on an equal-QN fork switch the local branch keeps
    the head unless both branches have a block right above the common ancestor and the local one does not win
    the tie-break. `forkLatest` is the fork tip's height, `forkNext` the fork's block at `anc.height+1`. -/
def nextPvGreatThanFork (localLatest : Nat) (localNext : Option Block) (anc : Block) (forkLatest : Nat)
    (forkNext : Option Block) : Bool :=
  if anc.height < forkLatest ∧ anc.height < localLatest then
    match forkNext, localNext with
    | some f, some c => pvGreater c f
    | _, _ => true
  else true

/-- `TxPool.add` on each transaction (memory only). -/
def addPending (pending : List Nat) (executed : Map Nat) : List Nat → List Nat
  | [] => pending
  | t :: ts =>
    if t ∈ pending ∨ (executed t).isSome then addPending pending executed ts
    else addPending (pending ++ [t]) executed ts

/-- first half of `blockChain.remove(block)`: intent mark, the three deletes, cache evictions -/
def removeA (s : St) (x : Block) : St :=
  let s := s.writes [.putRemoveMark x, .delBlock x.hash, .delHeight x.height, .delVerify x.height]
  s.setMem { s.mem with top := upd s.mem.top x.height none,
                        verified := s.mem.verified.filter (fun h => h != x.hash) }

/-- `TxPool.UnMarkExecuted(block)`: nothing at all for a block without transactions -/
def unmark (s : St) (x : Block) : St :=
  if x.txs.isEmpty then s else
    let s := s.writes (x.txs.map .delExecuted)
    s.setMem { s.mem with pending := addPending s.mem.pending s.disk.executed x.txs }

/-- second half of `remove`: head back to the parent `p`, un-mark the transactions, erase the mark -/
def removeB (s : St) (x p : Block) : St :=
  let s := s.setMem { s.mem with latest := p }
  let s := s.write (.putCurrent p)
  let s := unmark s x
  s.write .delRemoveMark

/-- `blockChain.remove(block)`. Returns false (mark left behind) when the parent is not in the
    hash index. -/
def remove (s : St) (x : Block) : St × Bool :=
  let s := removeA s x
  match s.disk.blocks x.pre with
  | none => (s, false)
  | some p => (removeB s x p, true)

/-- The loop of `removeFromCommonAncestor`: heights `base+n, …, base+1`. -/
def removeLoop (base : Nat) : Nat → St → St
  | 0, s => s
  | n + 1, s =>
    let s := match s.lookupHeight (base + n + 1) with
      | none => s
      | some hd =>
        match s.disk.blocks hd.hash with
        | none => s
        | some blk => (remove s blk).1
    removeLoop base n s

def removeFromCommonAncestor (s : St) (anc : Block) : St :=
  removeLoop anc.height (s.mem.latest.height - anc.height) s

/-- `verifyBlock(header, txs, false)` as far as the store is concerned. -/
def verify (s : St) (b : Block) : St × Bool :=
  if s.mem.verified.contains b.hash then (s, true) else
  match s.disk.blocks b.pre with
  | none => (s.setMem { s.mem with future := upd s.mem.future b.pre (some b) }, false)
  | some pre =>
    if s.p008 && b.txs.any (fun t => (s.disk.executed t).isSome) then (s, false)   -- Proposal008
    else if requestIdFrom b.txReqs pre.reqId != b.reqId then (s, false)    -- request id of the header
    else if !b.valid then (s, false)                                       -- checkStates
    else (s.setMem { s.mem with verified := lruAdd verifiedCap s.mem.verified b.hash }, true)

/-- `insertBlock` up to `saveStates`: intent mark, hash index, height index -/
def insertA (s : St) (b : Block) : St :=
  s.writes [.putAddMark b, .putBlock b, .putHeight b.height b]

/-- `TxPool.MarkExecuted`, disk part: one batch for all receipts (none for an empty block) -/
def markTxs (s : St) (b : Block) : St :=
  if b.txs.isEmpty then s else s.write (.putExecuted b.txs b.hash)

/-- memory effects between `MarkExecuted` and `updateLastBlock`: pending container, topBlocks -/
def poolMem (m : Mem) (b : Block) : Mem :=
  { m with pending := m.pending.filter (fun t => !(b.txs.contains t)), top := upd m.top b.height (some b) }

/-- `insertBlock` from `saveStates` on: state commit, verify hash, MarkExecuted, topBlocks,
    recorded head, in-memory head, mark erased -/
def insertB (s : St) (b : Block) : St :=
  let s := s.writes [.commitState b.hash, .putVerify b.height]
  let s := markTxs s b
  let s := s.setMem (poolMem s.mem b)
  let s := s.write (.putCurrent b)
  let s := s.setMem { s.mem with latest := b }
  s.write .delAddMark

/-- the verified cache in `saveStates`: `Get` (hit: move to front), else `checkStates` again and `Add`;
    `none` when the re-execution does not reproduce the roots -/
def saveStatesCache (verified : List Nat) (b : Block) : Option (List Nat) :=
  if verified.contains b.hash then some (lruGet verified b.hash)
  else if b.valid then some (lruAdd verifiedCap verified b.hash)
  else none

/-- `insertBlock`; `cont` is `addBlockOnChain` for the orphan parked under this block
    (`successOnChainCallBack`). -/
def insertBlock (cont : St → Block → St) (s : St) (b : Block) : St × Res :=
  let s := insertA s b
  -- saveStates: cached verification result (a hit refreshes the entry), else execute again
  -- (failure leaves the mark behind)
  match saveStatesCache s.mem.verified b with
  | none => (s, .failed)
  | some v =>
    let s := s.setMem { s.mem with verified := v }
    let s := insertB s b
    match s.mem.future b.hash with
    | some f => (cont s f, .succ)
    | none => (s, .succ)

/-- `addBlockOnChain` (inner, recursive). `fuel` bounds the re-entries (after a
    reorg, and for parked orphans). -/
def addCore : Nat → St → Block → St × Res
  | 0, s, _ => ({ s with fuelOut := true }, .failed)
  | fuel + 1, s, b =>
    let top := s.mem.latest
    if b.hash = top.hash ∨ (s.disk.blocks b.hash).isSome then (s, .existed) else
    match verify s b with
    | (s, false) => (s, .failed)
    | (s, true) =>
      if b.pre = top.hash then insertBlock (fun s f => (addCore fuel s f).1) s b else
      if b.totalQN < top.totalQN then (s, .qnless) else
      match s.disk.blocks b.pre with
      | none => (s, .failed)
      | some anc =>
        if b.totalQN > top.totalQN then addCore fuel (removeFromCommonAncestor s anc) b else
        match s.lookupHeight (anc.height + 1) with
        | none => (s, .failed)
        | some ln =>
          if pvGreater ln b then (s, .qnless)
          else addCore fuel (removeFromCommonAncestor s anc) b

/-- `AddBlockOnChain` (exported): `consensusVerify` with every consensus check
    passing, then the inner function. -/
def addBlock (fuel : Nat) (s : St) (b : Block) : St × Res :=
  if (s.disk.blocks b.pre).isNone then
    (s.setMem { s.mem with future := upd s.mem.future b.pre (some b) }, .nopre)
  else if (s.disk.blocks b.hash).isSome then (s, .existed)
  else addCore fuel s b

/-- The loop of the sync fork switch (`blockChainFork.triggerOnChain`): `tryAddBlockOnChain` — i.e.
    `consensusVerify` then `addBlockOnChain`, exactly `addBlock` — for each fork block in turn, stopping at the
    first one that is not added. -/
def forkAdd (fuel : Nat) : St → List Block → St
  | s, [] => s
  | s, b :: bs =>
    match addBlock fuel s b with
    | (s', .succ) => forkAdd fuel s' bs
    | (s', _) => s'

/-- `triggerOnChain` once its own checks have passed: `removeFromCommonAncestor(commonAncestor)`, then the
    fork's blocks one by one. (Its checks — fork tip QN not lower, `nextPvGreatThanFork` on a tie — read the
    fork store of the sync processor and are not modelled; the theorems hold whatever they decide.) -/
def forkSwitch (fuel : Nat) (s : St) (anc : Block) (bs : List Block) : St :=
  forkAdd fuel (removeFromCommonAncestor s anc) bs

/-- `TxPool.AddTransaction`. -/
def poolAdd (s : St) (t : Nat) : St × Bool :=
  if t ∈ s.mem.pending ∨ (s.disk.executed t).isSome then (s, false)
  else (s.setMem { s.mem with pending := s.mem.pending ++ [t] }, true)

inductive RestartRes where
  | ok | panic | fresh
deriving DecidableEq, Repr

def topBlocksCacheSize : Nat := 100

/-- `buildCache`: heights `[start, latest.height)` from the height index. -/
def buildCache (s : St) : St :=
  let lh := s.mem.latest.height
  let start := if lh < topBlocksCacheSize then 0 else lh - (topBlocksCacheSize - 1)
  s.setMem { s.mem with top := fun h => if start ≤ h ∧ h < lh then s.disk.heights h else none }

/-- `ensureChainConsistency`, first half: a half-added block is removed again -/
def repairAdd (s : St) : St :=
  match s.disk.addMark with
  | some b => ((remove s b).1).write .delAddMark
  | none => s

/-- `ensureChainConsistency`, second half: a half-removed block is removed completely
    (the mark is read after the first half has run) -/
def repairRemove (s : St) : St :=
  match s.disk.removeMark with
  | some b => ((remove s b).1).write .delRemoveMark
  | none => s

/-- Process start on whatever is on disk: `initBlockChain` with
    `ensureChainConsistency`. Memory starts empty. -/
def restart (s : St) : St × RestartRes :=
  match s.disk.current with
  | none => (s, .fresh)       -- empty store: genesis creation (outside the model)
  | some cur =>
    let s := s.setMem { latest := cur, top := fun _ => none, verified := [], future := fun _ => none, pending := [] }
    let s := repairRemove (repairAdd s)
    if !(s.disk.roots s.mem.latest.hash) then (s, .panic)
    else (buildCache s, .ok)

/-- Start an op: fresh log, given budget. -/
def St.arm (s : St) (budget : Option Nat) : St :=
  { s with log := [], budget := budget, crashed := false, refused := none }

def emptyDisk : Disk :=
  { blocks := fun _ => none, heights := fun _ => none, verify := fun _ => false, current := none,
    addMark := none, removeMark := none, executed := fun _ => none, roots := fun _ => false }

/-- The store right after `insertGenesisBlock`. -/
def genesisState (g : Block) : St :=
  { disk := { emptyDisk with blocks := upd (fun _ => none) g.hash (some g),
                             heights := upd (fun _ => none) g.height (some g),
                             verify := updB (fun _ => false) g.height true,
                             current := some g,
                             roots := updB (fun _ => false) g.hash true },
    mem := { latest := g, top := fun _ => none, verified := [], future := fun _ => none, pending := [] },
    log := [], budget := none, crashed := false, refused := none, fuelOut := false, p008 := true }

/-- Fuel the driver supplies: one re-entry after a reorg plus a generous bound on orphan cascades. -/
def defaultFuel : Nat := 64

end Rangers.Model.ChainStore
