import Rangers.Model.Bls14Pairing
/-!
C14 model, part 10: `twistPoint.Add / Double / Mul / Neg / MakeAffine` AS EXECUTED — Jacobian
coordinates over GF(p²), transcribed from `bn256/twist.go` (same formulas as `curve.go`, over `gfP2`;
`Mul` starts from the all-zero value, not from `SetInfinity`). The driver runs this next to the affine
model of `Bls14G2.lean` and answers `jacobian-affine-mismatch` if their `Marshal` images differ.
(The G1 analogue of the equivalence is PROVED in `Props/C14J`; for G2 it is tied by correspondence.)
-/
namespace Rangers.Model.Bls14
open Rangers

structure Jac2 where
  x : F2
  y : F2
  z : F2
deriving DecidableEq, Repr, Inhabited

def F2.isOne (a : F2) : Bool := a.x == 0 && a.y == 1

def Jac2.isInfinity (c : Jac2) : Bool := c.z.isZero

def Jac2.ofPt : Pt2 → Jac2
  | .inf => ⟨F2.zero, F2.one, F2.zero⟩
  | .aff x y => ⟨x, y, F2.one⟩

/-- `twistPoint.Double`. -/
def j2Double (a : Jac2) : Jac2 :=
  let A := a.x.sq
  let B := a.y.sq
  let C := B.sq
  let t := a.x.add B
  let t2 := t.sq
  let t := t2.sub A
  let t2 := t.sub C
  let d := t2.add t2
  let t := A.add A
  let e := t.add A
  let f := e.sq
  let t := d.add d
  let cx := f.sub t
  let cz := a.y.mul a.z
  let cz := cz.add cz
  let t := C.add C
  let t2 := t.add t
  let t := t2.add t2
  let cy := d.sub cx
  let t2 := e.mul cy
  let cy := t2.sub t
  ⟨cx, cy, cz⟩

/-- `twistPoint.Add`. -/
def j2Add (a b : Jac2) : Jac2 :=
  if a.isInfinity then b
  else if b.isInfinity then a
  else
    let z12 := a.z.sq
    let z22 := b.z.sq
    let u1 := a.x.mul z22
    let u2 := b.x.mul z12
    let t := b.z.mul z22
    let s1 := a.y.mul t
    let t := a.z.mul z12
    let s2 := b.y.mul t
    let h := u2.sub u1
    let xEqual := h.isZero
    let t := h.add h
    let i := t.sq
    let j := h.mul i
    let t := s2.sub s1
    let yEqual := t.isZero
    if xEqual && yEqual then j2Double a
    else
      let r := t.add t
      let v := u1.mul i
      let t4 := r.sq
      let t := v.add v
      let t6 := t4.sub j
      let cx := t6.sub t
      let t := v.sub cx
      let t4 := s1.mul j
      let t6 := t4.add t4
      let t4 := r.mul t
      let cy := t4.sub t6
      let t := a.z.add b.z
      let t4 := t.sq
      let t := t4.sub z12
      let t4 := t.sub z22
      let cz := t4.mul h
      ⟨cx, cy, cz⟩

def j2Neg (a : Jac2) : Jac2 := ⟨a.x, a.y.neg, a.z⟩

def j2MulStep (a : Jac2) (sum : Jac2) (bit : Bool) : Jac2 :=
  let t := j2Double sum
  if bit then j2Add t a else t

/-- `twistPoint.Mul`: the accumulator starts as the zero value `(0, 0, 0)`. -/
def j2Mul (a : Jac2) (k : Nat) : Jac2 :=
  ((bitsLE 512 k ++ [false]).reverse).foldl (j2MulStep a) ⟨F2.zero, F2.zero, F2.zero⟩

/-- `twistPoint.MakeAffine`. -/
def j2MakeAffine (c : Jac2) : Jac2 :=
  if c.z.isOne then c
  else if c.z.isZero then ⟨F2.zero, F2.one, F2.zero⟩
  else
    let zInv := c.z.inv
    let t := c.y.mul zInv
    let zInv2 := zInv.sq
    ⟨c.x.mul zInv2, t.mul zInv2, F2.one⟩

def Jac2.toPt (c : Jac2) : Pt2 :=
  let c' := j2MakeAffine c
  if c'.z.isZero then .inf else .aff c'.x c'.y

def j2Marshal (c : Jac2) : Bytes := g2Marshal c.toPt

end Rangers.Model.Bls14
