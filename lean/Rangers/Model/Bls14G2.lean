import Rangers.Model.Bls14Verify
/-!
C14 model, part 6: G2 arithmetic — the twist `y² = x³ + 3/ξ` over GF(p²), affine chord-and-tangent
(the Go code uses the same Jacobian formulas as for G1, over `gfP2`; its `Marshal` image is this),
`GeneratePubkey` (`sk · g₂`) and `AggregatePubkeys` (sum). Tied by the correspondence run
(`g2neg`, `g2add`, `g2mul`, `pkgen`, `pkagg`).
-/
namespace Rangers.Model.Bls14
open Rangers

namespace F2
/-- `gfP2.Invert`: conjugate over norm, `(x i + y)⁻¹ = (−x i + y)/(x² + y²)`; `0 ↦ 0`. -/
def inv (a : F2) : F2 :=
  let n := finv (fadd (fmul a.x a.x) (fmul a.y a.y))
  ⟨fmul (fneg a.x) n, fmul a.y n⟩
def isReduced (a : F2) : Bool := decide (a.x < P) && decide (a.y < P)
def ofNat (n : Nat) : F2 := ⟨0, n % P⟩
end F2

def Pt2.reduced : Pt2 → Bool
  | .inf => true
  | .aff x y => x.isReduced && y.isReduced

def Pt2.neg : Pt2 → Pt2
  | .inf => .inf
  | .aff x y => .aff x (F2.neg y)

def Pt2.double : Pt2 → Pt2
  | .inf => .inf
  | .aff x y =>
    if (F2.reduce y).isZero then .inf
    else
      let l := F2.mul (F2.mul (F2.ofNat 3) (F2.sq x)) (F2.inv (F2.add y y))
      let x3 := F2.sub (F2.sub (F2.sq l) x) x
      .aff x3 (F2.sub (F2.mul l (F2.sub x x3)) y)

def Pt2.add : Pt2 → Pt2 → Pt2
  | .inf, q => q
  | p, .inf => p
  | .aff x1 y1, .aff x2 y2 =>
    if F2.reduce x1 == F2.reduce x2 then
      (if F2.reduce y1 == F2.reduce y2 then Pt2.double (.aff x1 y1) else .inf)
    else
      let l := F2.mul (F2.sub y2 y1) (F2.inv (F2.sub x2 x1))
      let x3 := F2.sub (F2.sub (F2.sq l) x1) x2
      .aff x3 (F2.sub (F2.mul l (F2.sub x1 x3)) y1)

/-- `twistPoint.Mul`, MSB-first double-and-add. -/
def Pt2.mul (a : Pt2) (k : Nat) : Pt2 :=
  (bitsLE 512 k).reverse.foldl (fun s b => if b then Pt2.add (Pt2.double s) a else Pt2.double s) .inf

/-- `GeneratePubkey(sec)` = `ScalarBaseMult(sec)`. -/
def generatePubkey (sk : Nat) : Pub := .pt (Pt2.mul g2Gen sk)

/-- `AggregatePubkeys(pubs)`: `none` for the empty list (the Go code returns nil), else the sum
    starting from the first key. -/
def aggregatePubkeys : List Pt2 → Option Pt2
  | [] => none
  | p :: ps => some (ps.foldl Pt2.add p)

end Rangers.Model.Bls14
