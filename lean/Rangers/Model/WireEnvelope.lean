import Rangers.Model.WireConv
/-!
C09 model, part 4: what wraps every p2p message before the codecs of `Wire.lean` see it.

* `network/conn.go` — the 28-byte frame header (`loadMsg` / `unloadMsg`, `headerToBytes` / `bytesToHeader`).
* `network/message.go` — the envelope `Message{Code, Body}` (`marshalMessage` / `unMarshalMessage`). This file
  imports **golang/protobuf v1.4.2** (protobuf-go v1.23 underneath), not gogo: its reader rejects field numbers
  outside 1 … 2^29−1, end-group markers must match, and a stray end-group is an error. `rawFieldsV2` models that
  reader; the typed layer and the getters are shared with `Wire.lean`.

Whether `*message.Code` can fault is read from `Generated.C09.envelopeCodeGuarded`.
-/
namespace Rangers.Wire
open Rangers Rangers.Json

/-! ## protobuf-go reader (`impl.MessageInfo.unmarshalPointer`, `protowire.ConsumeFieldValue`) -/

/-- Skip the rest of an unknown group: `stack` holds the numbers of the open groups (innermost first).
    Returns what follows the end marker of the outermost one. -/
def skipGroupV2 : Nat → List Nat → Bytes → Option Bytes
  | 0, _, _ => none
  | f + 1, stack, bs =>
    match getVarint bs with
    | none => none
    | some (x, r) =>
      let num := x / 8
      if num = 0 ∨ num > 2147483647 then none      -- ConsumeTag: errCodeFieldNumber
      else match x % 8 with
      | 0 => match getVarint r with
        | none => none
        | some (_, r2) => skipGroupV2 f stack r2
      | 1 => if r.length < 8 then none else skipGroupV2 f stack (r.drop 8)
      | 2 => match getVarint r with
        | none => none
        | some (m, r2) => if r2.length < m then none else skipGroupV2 f stack (r2.drop m)
      | 3 => skipGroupV2 f (num :: stack) r
      | 4 => match stack with
        | [] => none
        | top :: rest => if top ≠ num then none else if rest = [] then some r else skipGroupV2 f rest r
      | 5 => if r.length < 4 then none else skipGroupV2 f stack (r.drop 4)
      | _ => none

def rawStepV2 (bs : Bytes) : Option (Raw × Bytes) :=
  match getVarint bs with
  | none => none
  | some (x, r) =>
    let num := x / 8
    if num = 0 ∨ num > 536870911 then none        -- "invalid field number"
    else match x % 8 with
    | 0 => match getVarint r with
      | none => none
      | some (v, r2) => some (.vint num v, r2)
    | 1 => if r.length < 8 then none else some (.other num 1, r.drop 8)
    | 2 => match getVarint r with
      | none => none
      | some (m, r2) => if r2.length < m then none else some (.len num (r2.take m), r2.drop m)
    | 3 => match skipGroupV2 (r.length + 1) [num] r with
      | none => none
      | some r2 => some (.other num 3, r2)
    | 5 => if r.length < 4 then none else some (.other num 5, r.drop 4)
    | _ => none                                     -- stray end-group, reserved wire types

def rawFieldsV2 : Nat → Bytes → Option (List Raw)
  | 0, _ => none
  | _ + 1, [] => some []
  | f + 1, b :: bs =>
    match rawStepV2 (b :: bs) with
    | none => none
    | some (r, rest) =>
      match rawFieldsV2 f rest with
      | none => none
      | some rs => some (r :: rs)

def parseRawV2 (bs : Bytes) : Option (List Raw) := rawFieldsV2 (bs.length + 1) bs

/-! ## the envelope `Message { optional uint32 Code = 1; optional bytes Body = 2; }` -/

structure PbEnvelope where
  code : Option Nat
  body : Option Bytes
  deriving Repr, DecidableEq, Inhabited

def decEnvelope (bs : Bytes) : Option PbEnvelope :=
  match parseRawV2 bs with
  | none => none
  | some rs => some ⟨(lastVint 1 rs).map (· % 4294967296), lastLen 2 rs⟩

def rawsOfEnvelope (p : PbEnvelope) : List Raw := optVintR 1 p.code ++ optLenR 2 p.body

def encEnvelope (p : PbEnvelope) : Bytes := encRaws (rawsOfEnvelope p)

/-- `network.Message`. -/
structure Envelope where
  code : Nat
  body : Option Bytes
  deriving Repr, DecidableEq, Inhabited

/-- `marshalMessage`. -/
def marshalEnvelope (m : Envelope) : Bytes := encEnvelope ⟨some m.code, m.body⟩

/-- `unMarshalMessage`: `Message{Code: *message.Code, Body: message.Body}`. -/
def unmarshalEnvelope (bs : Bytes) : Outcome Envelope :=
  match decEnvelope bs with
  | none => .err
  | some p =>
    match p.code with
    | some c => .ok ⟨c, p.body⟩
    | none => if Generated.C09.envelopeCodeGuarded then .ok ⟨0, p.body⟩ else .panic 501

/-! ## the frame header (`protocolHeaderSize = 28`) -/

structure FrameHeader where
  method : Option Bytes      -- nil for a frame shorter than the header
  sourceId : Nat
  targetId : Nat
  nonce : Nat
  deriving Repr, DecidableEq, Inhabited

/-- `copy(byteArray[0:4], h.method)`. -/
def method4 (m : Bytes) : Bytes := (m.take 4) ++ List.replicate (4 - (m.take 4).length) 0

/-- `loadMsg` / `headerToBytes`: the source id is not written (the gateway fills it in). -/
def loadMsg (method : Bytes) (targetId nonce : Nat) (body : Bytes) : Bytes :=
  method4 method ++ List.replicate 8 0 ++ beFixed 8 targetId ++ beFixed 8 nonce ++ body

/-- `unloadMsg` / `bytesToHeader`: a frame shorter than the header gives the zero header and a nil body. -/
def unloadMsg (m : Bytes) : FrameHeader × Option Bytes :=
  if m.length < 28 then (⟨none, 0, 0, 0⟩, none)
  else (⟨some (m.take 4), beToNat ((m.drop 4).take 8), beToNat ((m.drop 12).take 8), beToNat ((m.drop 20).take 8)⟩,
        some (m.drop 28))

end Rangers.Wire

namespace Rangers.Wire
open Rangers Rangers.Json

/-! ## the transaction request (`core/msg_sender.go` writes it with gogo, `core/msg_handler.go` reads it
with protobuf-go): `TransactionRequestMessage { repeated TransactionHash = 1; required bytes CurrentBlockHash = 2;
required uint64 BlockHeight = 3; required bytes BlockPv = 4 }` -/

structure TxReq where
  hashes : List (Bytes × Bytes)
  current : Bytes
  height : Nat
  pv : Option Int            -- `*big.Int`
  deriving Repr, DecidableEq, Inhabited

def rawsOfTxReq (m : TxReq) (pv : Int) : List Raw :=
  repLenR 1 (m.hashes.map (fun p => encRaws (rawsOfTxHash ⟨some p.1, some p.2⟩))) ++
  [.len 2 m.current, .vint 3 m.height, .len 4 (natToBE pv.natAbs)]

/-- `marshalTransactionRequestMessage`; a nil `BlockPv` faults in `m.BlockPv.Bytes()`. -/
def marshalTxReq (m : TxReq) : Outcome Bytes :=
  match m.pv with
  | none => .panic 601
  | some v => .ok (encRaws (rawsOfTxReq m v))

def decTxHashV2 (bs : Bytes) : Option PbTxHash :=
  match parseRawV2 bs with
  | none => none
  | some rs => some (txHashOfRaws rs)

def txReqRequired (rs : List Raw) : Bool := hasLen 2 rs && hasVint 3 rs && hasLen 4 rs

/-- `unMarshalTransactionRequestMessage`. -/
def unmarshalTxReq (bs : Bytes) : Outcome TxReq :=
  match parseRawV2 bs with
  | none => .err
  | some rs =>
    match mapM' decTxHashV2 (allLen 1 rs) with
    | none => .err
    | some ths =>
      if txReqRequired rs then
        .ok ⟨ths.map (fun t => (optHash t.hash, optHash t.subHash)), optHash (lastLen 2 rs),
             (lastVint 3 rs).getD 0, some ((beToNat ((lastLen 4 rs).getD []) : Nat) : Int)⟩
      else .err

end Rangers.Wire
