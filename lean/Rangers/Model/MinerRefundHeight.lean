import Rangers.Model.Miner
/-!
`RefundManager.getRefundHeight` under EVERY fork configuration (the main miner model fixes Proposal012, where the
release height is `now + 36000`). Before Proposal012 the release height of a validator's refund follows the dismiss
heights of the groups the miner is still in, a proposer's the next reward height. All arithmetic is `uint64` as in
the code (wraps included). External inputs: the fork flags and the dismiss heights of
`GetAvailableGroupsByMinerId(now, minerId)`. Core Lean only.
-/
namespace Rangers.Miner

def refundBlocks : Nat := 50      -- common.GetRefundBlocks() = refundTime / castingInterval
def rewardBlocks : Nat := 36000   -- common.GetRewardBlocks() = rewardTime / castingInterval

structure RefundFlags where
  p012 : Bool      -- IsProposal012()
  p004 : Bool      -- IsProposal004()
  p011Now : Bool   -- LocalChainConfig.Proposal011Block == now
deriving DecidableEq, Repr

def insertNat (k : Nat) : List Nat → List Nat
  | [] => [k]
  | a :: l => if k ≤ a then k :: a :: l else a :: insertNat k l

/-- `sort.Sort(DismissHeightList)`. -/
def sortNat : List Nat → List Nat
  | [] => []
  | a :: l => insertNat a (sortNat l)

/-- `RewardCalculator.NextRewardHeight` (`math.Ceil(float64(h) / 36000) * 36000`; exact below 2^53). -/
def nextRewardHeight (now : Nat) : Nat := (now + rewardBlocks - 1) / rewardBlocks * rewardBlocks

/-- The pre-Proposal012 base height: validators wait for the `delta`-th earliest dismissal among their groups, where
    `delta` = groups joined − groups the remaining stake still pays for (`left / 400`); nothing to wait for gives 0. -/
def baseHeight (left typ : Nat) (dismiss : List Nat) : Nat :=
  if typ = typeValidator then
    let leftGroups := left / validatorStake
    if dismiss.length > leftGroups then
      let base := (sortNat dismiss).getD (dismiss.length - leftGroups - 1) 0
      if base ≠ maxU64 then (base + refundBlocks) % 2 ^ 64 else 0
    else 0
  else 0

def refundHeightOf (fl : RefundFlags) (now left typ : Nat) (dismiss : List Nat) : Nat :=
  if fl.p012 then now + refundDelay
  else
    let h0 := if typ = typeValidator then baseHeight left typ dismiss else (nextRewardHeight now + refundBlocks) % 2 ^ 64
    let h1 := if fl.p004 ∧ h0 = 0 then (now + refundBlocks * 100) % 2 ^ 64 else h0
    if fl.p011Now then (h1 + 2 ^ 64 - refundBlocks) % 2 ^ 64 else h1

end Rangers.Miner
