/-
C10 — shape of one jump-table slot as dumped from the live interpreter
(`vm.VerifJumpTableAt`, hook `src/vm/verif_c10_jumptable.go`) and the names of the
go-rangers functions the model transcribes.  Core Lean only.

The translator `gen/cmd/c10facts` reads the constructor lists between the BEGIN/END
markers below: a function name it finds in the live table that is listed here is
emitted as that constructor, anything else as `.other "<name>"`.
-/
namespace Rangers.Model.Evm10

/-- `execute` functions of `src/vm/instructions.go` / `eips.go` that are transcribed in
`Evm10Ops.lean`.  `push size n`, `dup n`, `swap n` are the closures returned by
`makePush(size, n)`, `makeDup(n)`, `makeSwap(n)`; their parameters are recovered by a
behavioural probe inside the hook. -/
inductive Exec where
  -- BEGIN-EXEC
  | opStop
  | opAdd
  | opMul
  | opSub
  | opDiv
  | opSdiv
  | opMod
  | opSmod
  | opAddmod
  | opMulmod
  | opExp
  | opSignExtend
  | opLt
  | opGt
  | opSlt
  | opSgt
  | opEq
  | opIszero
  | opAnd
  | opOr
  | opXor
  | opNot
  | opByte
  | opSHL
  | opSHR
  | opSAR
  | opSha3
  | opCallDataLoad
  | opCallDataSize
  | opCallDataCopy
  | opCodeSize
  | opCodeCopy
  | opReturnDataSize
  | opReturnDataCopy
  | opPop
  | opMload
  | opMstore
  | opMstore8
  | opJump
  | opJumpi
  | opPc
  | opMsize
  | opGas
  | opJumpdest
  | opPush0
  | opPush1
  | opMcopy
  | opReturn
  | opRevert
  -- END-EXEC
  | push (size n : Nat)
  | dup (n : Nat)
  | swap (n : Nat)
  | other (name : String)
  deriving DecidableEq, Repr

/-- `memorySize` functions of `src/vm/memory_table.go`. -/
inductive MemFn where
  | none
  -- BEGIN-MEM
  | memorySha3
  | memoryCallDataCopy
  | memoryReturnDataCopy
  | memoryCodeCopy
  | memoryMLoad
  | memoryMStore8
  | memoryMStore
  | memoryMcopy
  | memoryReturn
  | memoryRevert
  | memoryExtCodeCopy
  | memoryCreate
  | memoryCreate2
  | memoryCall
  | memoryDelegateCall
  | memoryStaticCall
  | memoryLog
  | memoryAuthCall
  -- END-MEM
  | other (name : String)
  deriving DecidableEq, Repr

/-- `dynamicGas` functions of `src/vm/gas_table.go`; `copier pos` is the closure
`memoryCopierGas(pos)`. -/
inductive GasFn where
  | none
  -- BEGIN-GAS
  | pureMemoryGascost
  | gasSha3
  | gasExpFrontier
  | gasExpEIP158
  -- END-GAS
  | copier (pos : Nat)
  | other (name : String)
  deriving DecidableEq, Repr

structure OpInfo where
  exec : Exec
  constantGas : Nat
  minStack : Nat
  maxStack : Nat
  memSize : MemFn
  dynGas : GasFn
  halts : Bool
  jumps : Bool
  writes : Bool
  reverts : Bool
  returns : Bool
  deriving DecidableEq, Repr

/-- A jump table: 256 slots, `none` = undefined opcode. -/
abbrev Table := Array (Option OpInfo)

def Table.get (t : Table) (op : Nat) : Option OpInfo := (t[op]?).join

/-- Gas parameters (src/vm/param.go); the driver takes them from the generated file. -/
structure GasParams where
  memoryGas : Nat
  quadCoeffDiv : Nat
  copyGas : Nat
  sha3WordGas : Nat
  expGas : Nat
  expByteFrontier : Nat
  expByteEIP158 : Nat
  magnification : Nat
  /-- `common.IsProposal026()` -/
  p026 : Bool

end Rangers.Model.Evm10
