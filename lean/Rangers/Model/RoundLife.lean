import Rangers.Model.Round
/-
Life cycle of one SignParty, around the signing round of `Model/Round.lean`
(src/consensus/logical: processor_party.go `OnMessageCast` / `OnMessageVerify` /
`loadOrNewSignParty` / `waitUntilDone`, party.go `baseParty.Update`, round_sign.go
`round0.CanAccept` / `Update` / `onBlockAddSuccess` / `onMissTxAddSucc` / `checkBlock`).

round0's checks of the proposal (QN, castor key and signature, VRF, group selection, time,
`VerifyBlock`) are one abstract `Verdict`; what is modelled line by line is what decides the fate
of VERIFY messages: under which key the processor files them, whether round0 stores them for
`round1.Start`, when the party is re-registered under the block hash (`changeId`), the two ways a
proposal gets accepted (inside `baseParty.Update(ccm)`, which advances at once, and from a chain
notification, which does not advance until the next message), and the reaper with its timeout as
a nondeterministic event. Core Lean only.
-/
namespace Rangers.Model.Round

/-- What round0 decides about the proposal. `wait`: previous block unknown / transactions missing. -/
inductive Verdict | reject | wait | accept
  deriving DecidableEq, Repr

inductive Stage
  /-- no cast message seen: no party -/
  | noParty
  /-- party in round0, registered under its pre-change key -/
  | r0
  /-- accepted from a chain notification: `canProcessed` set, re-registered under the block hash,
      still in round0 until the next message -/
  | r0ready
  /-- round1 / round2 (`Life.proc` is live) -/
  | signing
  /-- reaped while still in round0 (proposal rejected, or timeout) -/
  | gone
  deriving DecidableEq, Repr

inductive Event (G : Type)
  /-- `OnMessageCast` with message id `mid`; round0's verdict -/
  | cast (mid : MsgId) (v : Verdict)
  /-- `BlockAddSucc` / `TransactionGotAddSucc` reaching a waiting round0; the verdict of
      `afterPreArrived` / `checkBlock` -/
  | notify (v : Verdict)
  /-- a verify packet from the network, while `HasBlockByHash(bh.Hash)` answers `chainHas` -/
  | packet (chainHas : Bool) (w : Wire G)
  /-- the 10 s timer of `waitUntilDone` fires -/
  | timeout

/-- A processor with no live party (before round1 exists). -/
def Proc.idle {G : Type} : Proc G :=
  { party := { phase := .r1, rs := RState.init [] [], errPending := false, donePending := false },
    inManager := false, done := false, stray := Lru.empty futureCap, ending := none }

structure Life (G : Type) where
  stage : Stage
  /-- `generatePartyKey(bh)`: the key the party is first registered under -/
  key0 : Data
  /-- `party.futureMessages`: verify messages round0 stored, in the order `round1.Start` ranges over them -/
  stored : List (VMsg G)
  /-- `round0.processed` -/
  processed0 : List MsgId
  /-- `Processor.futureMessages` while no round1 exists: an LRU of 50 keys, each holding the verify
      messages parked under it (filed under a key no party is registered for) -/
  parked : Lru (List (VMsg G))
  /-- the pre-change key is in `finishedParty` (set by the changeId step) -/
  key0Done : Bool
  proc : Proc G
  timedOut : Bool
  rejected : Bool
  /-- the block hash is in `finishedParty` although round1 never started (timeout in `r0ready`) -/
  hashDone : Bool := false

def Life.new {G : Type} (key0 : Data) : Life G :=
  { stage := .noParty, key0 := key0, stored := [], processed0 := [], parked := Lru.empty futureCap, key0Done := false,
    proc := Proc.idle, timedOut := false, rejected := false }

/-- what is parked under the block hash -/
def Life.pfuture {G : Type} (l : Life G) (env : Env) : List (VMsg G) := (l.parked.peek env.hash).getD []

/-- `round0.CanAccept` (= 1 for a verify message whose id is new) + `baseParty.StoreMessage`. -/
def storeRule {G : Type} (processed0 : List MsgId) (stored : List (VMsg G)) (m : VMsg G) : List (VMsg G) :=
  if processed0.contains m.mid || stored.any (fun f => f.mid == m.mid) then stored else stored ++ [m]

/-- Hand the processor-level stored messages to the live party (the reaper starts one
goroutine per message; sequentialised in list order). -/
def dispatch {G : Type} (c : Crypto G) (env : Env) (pr : Proc G) : List (VMsg G) → Proc G
  | [] => pr
  | m :: ms => dispatch c env (pr.onVerify c env m).1 ms

/-- The party leaves round0 inside `baseParty.Update`: `round1.Start` over the stored messages
(in the order `ord` gives: Go map iteration), then the reaper's changeId step. -/
def Life.enterSigning {G : Type} (c : Crypto G) (env : Env) (ord : List (VMsg G) → List (VMsg G))
    (l : Life G) (processed0 : List MsgId) (stored : List (VMsg G)) (pending : List (VMsg G)) : Life G :=
  -- the reaper's changeId step: `Get(realKey)`, `Remove(realKey)`; the rest of the cache lives on
  { l with stage := .signing, processed0 := processed0, stored := [], parked := Lru.empty futureCap, key0Done := true,
           proc := dispatch c env
             { Proc.initWith c env processed0 (ord stored) with stray := l.parked.remove env.hash } pending }

def Life.onCast {G : Type} (c : Crypto G) (env : Env) (ord : List (VMsg G) → List (VMsg G))
    (l : Life G) (mid : MsgId) (v : Verdict) : Life G :=
  let go (l : Life G) : Life G :=
    let p0 := l.processed0 ++ [mid]
    match v with
    | .reject => { l with stage := .gone, processed0 := p0, rejected := true, key0Done := true }
    | .wait => { l with stage := .r0, processed0 := p0 }
    | .accept => l.enterSigning c env ord p0 l.stored (l.pfuture env)
  match l.stage with
  | .noParty => go l
  | .r0 => if l.processed0.contains mid then l else go l
  | _ => l

def Life.onNotify {G : Type} (l : Life G) (v : Verdict) : Life G :=
  match l.stage with
  | .r0 =>
    match v with
    | .reject => { l with stage := .gone, rejected := true, key0Done := true }
    | .wait => l
    | .accept => { l with stage := .r0ready, key0Done := true }
  | _ => l

/-- `OnMessageVerify` at any stage of the life cycle. -/
def Life.onPacket {G : Type} (c : Crypto G) (env : Env) (ord : List (VMsg G) → List (VMsg G))
    (l : Life G) (w : Wire G) : Life G :=
  match decode w with
  | none => l
  | some m =>
    match l.stage with
    | .signing =>
      -- the pre-change key is in finishedParty since the changeId step: such messages are dropped
      if m.blockHash == l.key0 && l.key0Done && m.blockHash != env.hash then l
      else { l with proc := (l.proc.onVerify c env m).1 }
    | .r0ready =>
      if m.blockHash == env.hash then
        -- round0 stores it, then the advance loop runs round1.Start over everything stored
        l.enterSigning c env ord l.processed0 (storeRule l.processed0 l.stored m) []
      else if m.blockHash == l.key0 then l   -- the pre-change key is finished since changeId: dropped
      else { l with parked := park l.parked m.blockHash m }
    | .r0 =>
      if m.blockHash == l.key0 then { l with stored := storeRule l.processed0 l.stored m }
      else { l with parked := park l.parked m.blockHash m }
    | .noParty => { l with parked := park l.parked m.blockHash m }
    | .gone =>
      -- the reaper remembered the party's id at that moment as finished; any other key has no party: parked
      if (m.blockHash == l.key0 && l.key0Done) || (m.blockHash == env.hash && l.hashDone) then l
      else { l with parked := park l.parked m.blockHash m }

/-- The reaper's timeout branch (and, for a party in round0, the error branch) removes the party
and remembers its current id as finished. -/
def Life.onTimeout {G : Type} (l : Life G) : Life G :=
  match l.stage with
  | .r0 => { l with stage := .gone, timedOut := true, key0Done := true }
  | .r0ready => { l with stage := .gone, timedOut := true, hashDone := true }
  | .signing =>
    if l.proc.inManager then { l with proc := { l.proc with inManager := false, done := true }, timedOut := true }
    else l
  | _ => l

def Life.step {G : Type} (c : Crypto G) (env : Env) (ord : List (VMsg G) → List (VMsg G))
    (l : Life G) : Event G → Life G
  | .cast mid v => l.onCast c env ord mid v
  | .notify v =>
    -- the reaper's changeId step hands the messages filed under the hash to the party, one by one
    let l' := l.onNotify v
    if l'.stage = .r0ready ∧ l.stage = .r0 then
      (l'.pfuture env).foldl (fun acc m => acc.onPacket c env ord (.ok m))
        { l' with parked := l'.parked.remove env.hash }
    else l'
  | .packet b w => l.onPacket c (env.withChain b) ord w
  | .timeout => l.onTimeout

def Life.run {G : Type} (c : Crypto G) (env : Env) (ord : List (VMsg G) → List (VMsg G))
    (l : Life G) : List (Event G) → Life G
  | [] => l
  | e :: es => Life.run c env ord (l.step c env ord e) es

end Rangers.Model.Round
