import Rangers.Model.Evm12Tx
/-
C12 model, part 4: the notions the property theorems are stated with (no new behaviour).
-/
namespace Rangers.Model.Evm12

/-- What C04 proves of the journal and what the frame theorems assume of `Env.rv`:
    reverting to a snapshot restores the observation taken at the snapshot. -/
def RevertRestoresObs (rv : World → World → World) : Prop :=
  ∀ saved cur, obs (rv saved cur) = obs saved

/-- ... and leaves the log-stamping context alone (`thash`, `txIndex` are not journaled, they are
    only assigned by `Prepare`). -/
def RevertKeepsTxContext (rv : World → World → World) : Prop :=
  ∀ saved cur, (rv saved cur).thash = saved.thash ∧ (rv saved cur).txIndex = saved.txIndex

theorem restore_restoresObs : RevertRestoresObs restore := fun _ _ => rfl
theorem restore_keepsTxContext : RevertKeepsTxContext restore := fun _ _ => ⟨rfl, rfl⟩

/-- An account object that carries nothing: nonce 0, no code, no storage. A zero-value CALL
    to a precompile (and geth's STATICCALL "touch") creates such an object; it does not survive
    `Finalise(true)`. -/
def Obs.nonEmpty (o : Obs) (a : Addr) : Prop :=
  o.nonce a ≠ 0 ∨ o.code a ≠ .empty ∨ ∃ k, o.stor a k ≠ 0

/-- The observation the static clause protects: as `Obs`, with "the set of existing accounts"
    read as the set of existing NON-EMPTY accounts. -/
structure LiveObs where
  live : Addr → Prop
  nonce : Addr → Nat
  bal : Addr → Nat
  code : Addr → Code
  stor : Addr → Nat → Nat
  logs : List Log
  stake : Addr → Nat
  sui : Addr → Bool

def Obs.toLive (o : Obs) : LiveObs :=
  { live := fun a => o.exist a = true ∧ o.nonEmpty a, nonce := o.nonce, bal := o.bal, code := o.code,
    stor := o.stor, logs := o.logs, stake := o.stake, sui := o.sui }

def liveObs (w : World) : LiveObs := (obs w).toLive

/-- Well-formed observation: an address without account object has no nonce, code or storage
    (true of every `AccountDB`: those live in the object). -/
def Obs.WF (o : Obs) : Prop :=
  ∀ a, o.exist a = false → o.nonce a = 0 ∧ o.code a = .empty ∧ ∀ k, o.stor a k = 0

/-- no AUTHCALL / STAKE / UNSTAKE / UNSTAKEALL anywhere in the tree -/
def Frame.plain : Frame → Bool
  | .done _ => true
  | .sstore _ _ r => r.plain
  | .tstore _ _ r => r.plain
  | .log _ _ r => r.plain
  | .selfdestruct _ => true
  | .call _ _ _ _ b r => b.plain && r.plain
  | .create _ _ _ _ i r => i.plain && r.plain
  | .authcall .. => false
  | .stake .. => false
  | .unstake .. => false
  | .unstakeall .. => false
  | .stakenum .. => false

/-- `GasCut f f'`: `f'` is what `f` becomes under some allotment of gas -- any frame body may run out
    of gas at any point (everything from there on is replaced by the `oog` ending), at any nesting depth,
    and a CREATE whose init code would have deposited its code may instead be unable to pay for it
    (`retCode` becomes `retBig`). The gas abstraction of the model says: the real EVM with a given gas
    limit behaves like the model on SOME `GasCut` of the program the harness wrote down; the theorems are
    shown for EVERY `GasCut` (`Props/C12.lean`, `*_any_gas`). -/
inductive GasCut : Frame → Frame → Prop where
  | refl (f : Frame) : GasCut f f
  | oog (f : Frame) : GasCut f (.done .oog)
  | deposit (t : Nat) : GasCut (.done (.retCode t)) (.done .retBig)
  | sstore (k v : Nat) {r r' : Frame} : GasCut r r' → GasCut (.sstore k v r) (.sstore k v r')
  | tstore (k v : Nat) {r r' : Frame} : GasCut r r' → GasCut (.tstore k v r) (.tstore k v r')
  | log (n : Fin 5) (t : Nat) {r r' : Frame} : GasCut r r' → GasCut (.log n t r) (.log n t r')
  | call (id : Nat) (kind : CallKind) (tg : Addr) (v : Nat) {b b' r r' : Frame} :
      GasCut b b' → GasCut r r' → GasCut (.call id kind tg v b r) (.call id kind tg v b' r')
  | create (id : Nat) (two : Bool) (salt v : Nat) {b b' r r' : Frame} :
      GasCut b b' → GasCut r r' → GasCut (.create id two salt v b r) (.create id two salt v b' r')
  | authcall (id : Nat) (au : Option Addr) (n : Nat) (tg : Addr) (v : Nat) {b b' r r' : Frame} :
      GasCut b b' → GasCut r r' → GasCut (.authcall id au n tg v b r) (.authcall id au n tg v b' r')
  | stake (a : Nat) {r r' : Frame} : GasCut r r' → GasCut (.stake a r) (.stake a r')
  | unstake (a : Nat) {r r' : Frame} : GasCut r r' → GasCut (.unstake a r) (.unstake a r')
  | unstakeall {r r' : Frame} : GasCut r r' → GasCut (.unstakeall r) (.unstakeall r')
  | stakenum (p : Addr) {r r' : Frame} : GasCut r r' → GasCut (.stakenum p r) (.stakenum p r')

/-- world at the snapshot point of `create` (after the creator's nonce bump and the access-list
    insertion, which Ethereum keeps as well); the unchanged world when a pre-check refuses -/
def createEntryWorld (env : Env) (depth : Nat) (ro : Bool) (self : Addr) (value : Nat) (addr : Addr)
    (w : World) : World :=
  match createEnter env depth ro self value addr w with
  | .enter saved _ _ _ _ => saved
  | .fail w' _ => w'
  | .skip w' => w'

/-- world at the snapshot point of `AuthCall` (after the authorized account's nonce bump) -/
def authEntryWorld (env : Env) (depth : Nat) (ro : Bool) (authorized target : Addr) (value : Nat)
    (w : World) : World :=
  match authEnter env depth ro authorized target value w with
  | .enter saved _ _ _ _ => saved
  | .fail w' _ => w'
  | .skip w' => w'

/-- `w'` extends `w` by logs stamped with `w`'s current transaction hash only, same tx context -/
def LogsExtend (w w' : World) : Prop :=
  w'.thash = w.thash ∧ w'.txIndex = w.txIndex ∧ ∃ new, w'.logs = w.logs ++ new ∧ ∀ l ∈ new, l.txh = w.thash

/-- the world the first frame of a transaction starts from (vmexecutor.go:80-82) -/
def txStartWorld (cfg : Cfg) (i : Nat) (w : World) (tx : Tx) : World :=
  if cfg.p013 then prepare w tx.hash i else w

end Rangers.Model.Evm12
