import Rangers.Model.Evm12Tx
/-
C12 model, part 4: the notions the property theorems are stated with (no new behaviour).
-/
namespace Rangers.Model.Evm12

/-- What C04 proves of the journal and what the frame theorems assume of `Env.rv`:
    reverting to a snapshot restores the observation taken at the snapshot. -/
def RevertRestoresObs (rv : World → World → World) : Prop :=
  ∀ saved cur, obs (rv saved cur) = obs saved

/-- ... and leaves the log-stamping context alone (`thash`, `txIndex` are not journaled, they are
    only assigned by `Prepare`). -/
def RevertKeepsTxContext (rv : World → World → World) : Prop :=
  ∀ saved cur, (rv saved cur).thash = saved.thash ∧ (rv saved cur).txIndex = saved.txIndex

theorem restore_restoresObs : RevertRestoresObs restore := fun _ _ => rfl
theorem restore_keepsTxContext : RevertKeepsTxContext restore := fun _ _ => ⟨rfl, rfl⟩

/-- An account object that carries nothing: nonce 0, no code, no storage. A zero-value CALL
    to a precompile (and geth's STATICCALL "touch") creates such an object; it does not survive
    `Finalise(true)`. -/
def Obs.nonEmpty (o : Obs) (a : Addr) : Prop :=
  o.nonce a ≠ 0 ∨ o.code a ≠ .empty ∨ ∃ k, o.stor a k ≠ 0

/-- The observation the static clause protects: as `Obs`, with "the set of existing accounts"
    read as the set of existing NON-EMPTY accounts. -/
structure LiveObs where
  live : Addr → Prop
  nonce : Addr → Nat
  bal : Addr → Nat
  code : Addr → Code
  stor : Addr → Nat → Nat
  logs : List Log
  stake : Addr → Nat

def Obs.toLive (o : Obs) : LiveObs :=
  { live := fun a => o.exist a = true ∧ o.nonEmpty a, nonce := o.nonce, bal := o.bal, code := o.code,
    stor := o.stor, logs := o.logs, stake := o.stake }

def liveObs (w : World) : LiveObs := (obs w).toLive

/-- Well-formed observation: an address without account object has no nonce, code or storage
    (true of every `AccountDB`: those live in the object). -/
def Obs.WF (o : Obs) : Prop :=
  ∀ a, o.exist a = false → o.nonce a = 0 ∧ o.code a = .empty ∧ ∀ k, o.stor a k = 0

/-- no AUTHCALL / STAKE / UNSTAKE / UNSTAKEALL anywhere in the tree -/
def Frame.plain : Frame → Bool
  | .done _ => true
  | .sstore _ _ r => r.plain
  | .tstore _ _ r => r.plain
  | .log _ _ r => r.plain
  | .selfdestruct _ => true
  | .call _ _ _ _ b r => b.plain && r.plain
  | .create _ _ _ _ i r => i.plain && r.plain
  | .authcall .. => false
  | .stake .. => false
  | .unstake .. => false
  | .unstakeall .. => false
  | .stakenum .. => false

/-- world at the snapshot point of `create` (after the creator's nonce bump and the access-list
    insertion, which Ethereum keeps as well); the unchanged world when a pre-check refuses -/
def createEntryWorld (env : Env) (depth : Nat) (ro : Bool) (self : Addr) (value : Nat) (addr : Addr)
    (w : World) : World :=
  match createEnter env depth ro self value addr w with
  | .enter saved _ _ _ _ => saved
  | .fail w' _ => w'
  | .skip w' => w'

/-- world at the snapshot point of `AuthCall` (after the authorized account's nonce bump) -/
def authEntryWorld (env : Env) (depth : Nat) (ro : Bool) (authorized target : Addr) (value : Nat)
    (w : World) : World :=
  match authEnter env depth ro authorized target value w with
  | .enter saved _ _ _ _ => saved
  | .fail w' _ => w'
  | .skip w' => w'

/-- `w'` extends `w` by logs stamped with `w`'s current transaction hash only, same tx context -/
def LogsExtend (w w' : World) : Prop :=
  w'.thash = w.thash ∧ w'.txIndex = w.txIndex ∧ ∃ new, w'.logs = w.logs ++ new ∧ ∀ l ∈ new, l.txh = w.thash

/-- the world the first frame of a transaction starts from (vmexecutor.go:80-82) -/
def txStartWorld (cfg : Cfg) (i : Nat) (w : World) (tx : Tx) : World :=
  if cfg.p013 then prepare w tx.hash i else w

end Rangers.Model.Evm12
