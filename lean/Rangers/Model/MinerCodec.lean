import Rangers.Basic.Hex
/-!
Executable codecs the C20 driver instantiates the miner model with: SHA-256
(`common.Sha256`, the key derivation of the miner registry), std base64 and the
JSON text `types.Miner.GetMinerInfo` writes (Go `json.Marshal` of a
`map[string]interface{}`: keys sorted, `[]byte` as base64, `HexBytes` as "0x…").
Core Lean only. The property theorems do not depend on this file: they
quantify over an arbitrary `Cfg`; this instance is what the correspondence run
compares against the real code.
-/
namespace Rangers.Miner

def sha256K : Array UInt32 := #[
  0x428a2f98, 0x71374491, 0xb5c0fbcf, 0xe9b5dba5, 0x3956c25b, 0x59f111f1, 0x923f82a4, 0xab1c5ed5,
  0xd807aa98, 0x12835b01, 0x243185be, 0x550c7dc3, 0x72be5d74, 0x80deb1fe, 0x9bdc06a7, 0xc19bf174,
  0xe49b69c1, 0xefbe4786, 0x0fc19dc6, 0x240ca1cc, 0x2de92c6f, 0x4a7484aa, 0x5cb0a9dc, 0x76f988da,
  0x983e5152, 0xa831c66d, 0xb00327c8, 0xbf597fc7, 0xc6e00bf3, 0xd5a79147, 0x06ca6351, 0x14292967,
  0x27b70a85, 0x2e1b2138, 0x4d2c6dfc, 0x53380d13, 0x650a7354, 0x766a0abb, 0x81c2c92e, 0x92722c85,
  0xa2bfe8a1, 0xa81a664b, 0xc24b8b70, 0xc76c51a3, 0xd192e819, 0xd6990624, 0xf40e3585, 0x106aa070,
  0x19a4c116, 0x1e376c08, 0x2748774c, 0x34b0bcb5, 0x391c0cb3, 0x4ed8aa4a, 0x5b9cca4f, 0x682e6ff3,
  0x748f82ee, 0x78a5636f, 0x84c87814, 0x8cc70208, 0x90befffa, 0xa4506ceb, 0xbef9a3f7, 0xc67178f2]

def rotr (x : UInt32) (n : UInt32) : UInt32 := (x >>> n) ||| (x <<< (32 - n))

def sha256Pad (msg : Bytes) : Bytes :=
  let l := msg.length
  let padLen := (119 - (l % 64)) % 64   -- zero bytes so that l + 1 + padLen + 8 ≡ 0 mod 64
  msg ++ [0x80] ++ List.replicate padLen 0 ++ padLeft 8 (natToBE (l * 8))

def word32 (a b c d : UInt8) : UInt32 :=
  (a.toUInt32 <<< 24) ||| (b.toUInt32 <<< 16) ||| (c.toUInt32 <<< 8) ||| d.toUInt32

def blockWords : Bytes → List UInt32
  | a :: b :: c :: d :: rest => word32 a b c d :: blockWords rest
  | _ => []

def schedule (w16 : Array UInt32) : Array UInt32 := Id.run do
  let mut w := w16
  for i in [16:64] do
    let w15 := w[i - 15]!
    let w2 := w[i - 2]!
    let s0 := rotr w15 7 ^^^ rotr w15 18 ^^^ (w15 >>> 3)
    let s1 := rotr w2 17 ^^^ rotr w2 19 ^^^ (w2 >>> 10)
    w := w.push (w[i - 16]! + s0 + w[i - 7]! + s1)
  return w

def compress (h : Array UInt32) (blk : Bytes) : Array UInt32 := Id.run do
  let w := schedule (blockWords blk).toArray
  let mut a := h[0]!
  let mut b := h[1]!
  let mut c := h[2]!
  let mut d := h[3]!
  let mut e := h[4]!
  let mut f := h[5]!
  let mut g := h[6]!
  let mut hh := h[7]!
  for i in [0:64] do
    let s1 := rotr e 6 ^^^ rotr e 11 ^^^ rotr e 25
    let ch := (e &&& f) ^^^ ((~~~ e) &&& g)
    let t1 := hh + s1 + ch + sha256K[i]! + w[i]!
    let s0 := rotr a 2 ^^^ rotr a 13 ^^^ rotr a 22
    let mj := (a &&& b) ^^^ (a &&& c) ^^^ (b &&& c)
    let t2 := s0 + mj
    hh := g; g := f; f := e; e := d + t1; d := c; c := b; b := a; a := t1 + t2
  return #[h[0]! + a, h[1]! + b, h[2]! + c, h[3]! + d, h[4]! + e, h[5]! + f, h[6]! + g, h[7]! + hh]

def sha256Blocks (fuel : Nat) (h : Array UInt32) (bs : Bytes) : Array UInt32 :=
  match fuel with
  | 0 => h
  | fuel + 1 => if bs.length < 64 then h else sha256Blocks fuel (compress h (bs.take 64)) (bs.drop 64)

def word32Bytes (w : UInt32) : Bytes :=
  [(w >>> 24).toUInt8, (w >>> 16).toUInt8, (w >>> 8).toUInt8, w.toUInt8]

def sha256 (msg : Bytes) : Bytes :=
  let p := sha256Pad msg
  let h0 : Array UInt32 := #[0x6a09e667, 0xbb67ae85, 0x3c6ef372, 0xa54ff53a, 0x510e527f, 0x9b05688c, 0x1f83d9ab, 0x5be0cd19]
  (sha256Blocks (p.length / 64 + 1) h0 p).toList.flatMap word32Bytes

/-! base64 (std encoding, padded) -/
def b64Char (n : Nat) : Char :=
  if n < 26 then Char.ofNat (65 + n) else if n < 52 then Char.ofNat (97 + n - 26)
  else if n < 62 then Char.ofNat (48 + n - 52) else if n = 62 then '+' else '/'

def b64Enc : Bytes → List Char
  | a :: b :: c :: rest =>
    let n := a.toNat * 65536 + b.toNat * 256 + c.toNat
    b64Char (n / 262144) :: b64Char (n / 4096 % 64) :: b64Char (n / 64 % 64) :: b64Char (n % 64) :: b64Enc rest
  | [a, b] =>
    let n := a.toNat * 65536 + b.toNat * 256
    [b64Char (n / 262144), b64Char (n / 4096 % 64), b64Char (n / 64 % 64), '=']
  | [a] =>
    let n := a.toNat * 65536
    [b64Char (n / 262144), b64Char (n / 4096 % 64), '=', '=']
  | [] => []

def b64Val? (c : Char) : Option Nat :=
  if 'A' ≤ c ∧ c ≤ 'Z' then some (c.toNat - 65) else if 'a' ≤ c ∧ c ≤ 'z' then some (c.toNat - 97 + 26)
  else if '0' ≤ c ∧ c ≤ '9' then some (c.toNat - 48 + 52) else if c = '+' then some 62 else if c = '/' then some 63 else none

def b64Dec? : List Char → Option Bytes
  | [] => some []
  | [a, b, '=', '='] => do
    let x ← b64Val? a; let y ← b64Val? b
    pure [UInt8.ofNat ((x * 64 + y) / 16)]
  | [a, b, c, '='] => do
    let x ← b64Val? a; let y ← b64Val? b; let z ← b64Val? c
    let n := (x * 64 + y) * 64 + z
    pure [UInt8.ofNat (n / 1024), UInt8.ofNat (n / 4 % 256)]
  | a :: b :: c :: d :: rest => do
    let x ← b64Val? a; let y ← b64Val? b; let z ← b64Val? c; let w ← b64Val? d
    let n := ((x * 64 + y) * 64 + z) * 64 + w
    let r ← b64Dec? rest
    pure (UInt8.ofNat (n / 65536) :: UInt8.ofNat (n / 256 % 256) :: UInt8.ofNat (n % 256) :: r)
  | _ => none

/-- `common.ToHex` : "0x" ++ hex, "0x0" for the empty string. -/
def toHex0x (b : Bytes) : String := if b.isEmpty then "0x0" else "0x" ++ String.join (b.map hexOfByte)

/-- `common.FromHex` on a "0x…" string of hex digits (odd length is left-padded with one 0). -/
def fromHex0x? (s : String) : Option Bytes :=
  let cs := s.toList
  match cs with
  | '0' :: 'x' :: rest => if rest.length % 2 = 1 then hexPairs? ('0' :: rest) else hexPairs? rest
  | _ => none

end Rangers.Miner
