import Rangers.Model.Bls14G1
/-!
C14 model, part 5: `curvePoint` arithmetic AS THE CODE COMPUTES IT — Jacobian coordinates
`(x, y, z)` (the affine point is `(x/z², y/z³)`, infinity is `z = 0`), transcribed statement by
statement from `bn256/curve.go`: `Add` (add-2007-bl with the code's own case analysis), `Double`
(dbl-2009-l), `Mul` (MSB-first double-and-add over bits `BitLen … 0`), `MakeAffine`, `Neg`.
The fourth field `t` of `curvePoint` is write-only for G1 (it is read only for twist points in
`optate.go`) and is left out. Field elements are the reduced residues (Montgomery-free).
`Props/C14J.lean` proves that the affine image of every operation is the affine operation of
`Bls14G1.lean`, which `Props/C14W.lean` identifies with the elliptic-curve group law.
-/
namespace Rangers.Model.Bls14
open Rangers

structure Jac where
  x : Nat
  y : Nat
  z : Nat
deriving DecidableEq, Repr, Inhabited

/-- `SetInfinity`: `(0, 1, 0)`. -/
def Jac.infinity : Jac := ⟨0, 1, 0⟩

/-- `IsInfinity`: `z == 0`. -/
def Jac.isInfinity (c : Jac) : Bool := c.z == 0

/-- What `G1.Unmarshal` / `HashToPoint` build: `z = 1` for an affine pair, `(0,1,0)` for infinity. -/
def Jac.ofPt : Pt → Jac
  | .inf => Jac.infinity
  | .aff x y => ⟨x, y, 1⟩

/-- `curvePoint.Double` (no special case for infinity: `z = 2·y·z` stays 0). -/
def jDouble (a : Jac) : Jac :=
  let A := fmul a.x a.x
  let B := fmul a.y a.y
  let C := fmul B B
  let t := fadd a.x B
  let t2 := fmul t t
  let t := fsub t2 A
  let t2 := fsub t C
  let d := fadd t2 t2
  let t := fadd A A
  let e := fadd t A
  let f := fmul e e
  let t := fadd d d
  let cx := fsub f t
  let cz := fmul a.y a.z
  let cz := fadd cz cz
  let t := fadd C C
  let t2 := fadd t t
  let t := fadd t2 t2
  let cy := fsub d cx
  let t2 := fmul e cy
  let cy := fsub t2 t
  ⟨cx, cy, cz⟩

/-- `curvePoint.Add`. -/
def jAdd (a b : Jac) : Jac :=
  if a.isInfinity then b
  else if b.isInfinity then a
  else
    let z12 := fmul a.z a.z
    let z22 := fmul b.z b.z
    let u1 := fmul a.x z22
    let u2 := fmul b.x z12
    let t := fmul b.z z22
    let s1 := fmul a.y t
    let t := fmul a.z z12
    let s2 := fmul b.y t
    let h := fsub u2 u1
    let xEqual := h == 0
    let t := fadd h h
    let i := fmul t t
    let j := fmul h i
    let t := fsub s2 s1
    let yEqual := t == 0
    if xEqual && yEqual then jDouble a
    else
      let r := fadd t t
      let v := fmul u1 i
      let t4 := fmul r r
      let t := fadd v v
      let t6 := fsub t4 j
      let cx := fsub t6 t
      let t := fsub v cx
      let t4 := fmul s1 j
      let t6 := fadd t4 t4
      let t4 := fmul r t
      let cy := fsub t4 t6
      let t := fadd a.z b.z
      let t4 := fmul t t
      let t := fsub t4 z12
      let t4 := fsub t z22
      let cz := fmul t4 h
      ⟨cx, cy, cz⟩

/-- `curvePoint.Neg`. -/
def jNeg (a : Jac) : Jac := ⟨a.x, fneg a.y, a.z⟩

/-- One iteration of the loop of `curvePoint.Mul`: `t = 2·sum; sum = bit ? t + a : t`. -/
def jMulStep (a : Jac) (sum : Jac) (bit : Bool) : Jac :=
  let t := jDouble sum
  if bit then jAdd t a else t

/-- `curvePoint.Mul`: `for i := BitLen(k); i >= 0; i--` — bit `BitLen(k)` is the extra leading 0. -/
def jMul (a : Jac) (k : Nat) : Jac :=
  ((bitsLE 512 k ++ [false]).reverse).foldl (jMulStep a) Jac.infinity

/-- `curvePoint.MakeAffine`. -/
def jMakeAffine (c : Jac) : Jac :=
  if c.z == 1 then c
  else if c.z == 0 then ⟨0, 1, 0⟩
  else
    let zInv := finv c.z
    let t := fmul c.y zInv
    let zInv2 := fmul zInv zInv
    ⟨fmul c.x zInv2, fmul t zInv2, 1⟩

/-- The point `Marshal` writes: `MakeAffine`, then infinity iff `z = 0`. -/
def Jac.toPt (c : Jac) : Pt :=
  let c' := jMakeAffine c
  if c'.z == 0 then .inf else .aff c'.x c'.y

/-- `G1.Marshal` of a Jacobian value. -/
def jMarshal (c : Jac) : Bytes := g1Marshal c.toPt

/-- `Sign(sec, msg)` as executed: `ScalarMult(H(m), sk)` in Jacobian coordinates. -/
def signJ (sk : Nat) (hm : Pt) : Jac := jMul (Jac.ofPt hm) sk

end Rangers.Model.Bls14
