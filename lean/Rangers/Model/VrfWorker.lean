import Rangers.Basic.Hex
/-!
`consensus/logical/vrf_worker.go` as a small transition system: the status of one VRF worker
(prove → proposed → success through two compare-and-swap steps) and the `workingOn` guard
(same base block hash, same cast height, not timed out). Tied to the source by generated
facts only (constants, CAS arguments, guard expression) — no new hook.
-/
namespace Rangers.Model.VrfWorker
open Rangers

inductive Status where
  | prove
  | proposed
  | success
deriving Repr, DecidableEq

def Status.code : Status → Nat
  | .prove => 0
  | .proposed => 1
  | .success => 2

structure Worker where
  baseHash : Bytes
  castHeight : Nat
  expire : Int          -- time (ns) after which the worker is timed out
  status : Status
deriving Repr, DecidableEq

/-- `atomic.CompareAndSwapInt32(&status, old, new)` -/
def cas (w : Worker) (old new : Status) : Worker :=
  if w.status = old then { w with status := new } else w

def markProposed (w : Worker) : Worker := cas w .prove .proposed
def markSuccess (w : Worker) : Worker := cas w .proposed .success

/-- `timeout()`: `GetTime().After(expire)` — strictly after -/
def timeout (w : Worker) (now : Int) : Bool := decide (now > w.expire)

/-- `workingOn(bh, castHeight)` -/
def workingOn (w : Worker) (hash : Bytes) (castHeight : Nat) (now : Int) : Bool :=
  hash == w.baseHash && castHeight == w.castHeight && !timeout w now

inductive Ev where
  | markProposed
  | markSuccess

def step (w : Worker) : Ev → Worker
  | .markProposed => markProposed w
  | .markSuccess => markSuccess w

def run (w : Worker) (evs : List Ev) : Worker := evs.foldl step w

end Rangers.Model.VrfWorker
