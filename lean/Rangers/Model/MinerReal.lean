import Rangers.Model.Miner
import Rangers.Model.MinerCodec
/-!
The concrete `Cfg` the C20 driver runs: `H = SHA-256`, `enc` = the JSON text
`Miner.GetMinerInfo` produces after Proposal003, `dec` = a strict parser of
exactly that text (Go's `json.Unmarshal` accepts more; the generator never
stores other JSON in the registry, see design/C20.md).
-/
namespace Rangers.Miner
open Rangers

def strBytes (s : String) : Bytes := s.toList.map (fun c => UInt8.ofNat c.toNat)

def encInfoStr (i : Info) : String :=
  "{\"applyHeight\":" ++ toString i.applyHeight ++ ",\"id\":\"" ++ toHex0x i.id ++ "\",\"publicKey\":\"" ++ toHex0x i.pk
    ++ "\",\"type\":" ++ toString i.typ ++ ",\"vrfPublicKey\":"
    ++ (if i.vrf.isEmpty then "\"\"" else "\"" ++ String.ofList (b64Enc i.vrf) ++ "\"") ++ "}"

def encInfo (i : Info) : Bytes := strBytes (encInfoStr i)

def expect : List Char → List Char → Option (List Char)
  | [], cs => some cs
  | _ :: _, [] => none
  | a :: l, c :: cs => if a = c then expect l cs else none

def takeDigits : List Char → List Char × List Char
  | [] => ([], [])
  | c :: cs => if c.isDigit then let r := takeDigits cs; (c :: r.1, r.2) else ([], c :: cs)

def takeUntilQuote : List Char → Option (List Char × List Char)
  | [] => none
  | c :: cs => if c = '"' then some ([], cs) else (takeUntilQuote cs).map (fun r => (c :: r.1, r.2))

def digitsToNat (ds : List Char) : Nat := ds.foldl (fun a c => a * 10 + (c.toNat - 48)) 0

def decInfo (b : Bytes) : Option Info := do
  let cs := b.map (fun x => Char.ofNat x.toNat)
  let cs ← expect "{\"applyHeight\":".toList cs
  let (ah, cs) := takeDigits cs
  if ah.isEmpty then none
  let cs ← expect ",\"id\":\"".toList cs
  let (ids, cs) ← takeUntilQuote cs
  let id ← fromHex0x? (String.ofList ids)
  let cs ← expect ",\"publicKey\":\"".toList cs
  let (pks, cs) ← takeUntilQuote cs
  let pk ← fromHex0x? (String.ofList pks)
  let cs ← expect ",\"type\":".toList cs
  let (ts, cs) := takeDigits cs
  if ts.isEmpty then none
  let cs ← expect ",\"vrfPublicKey\":\"".toList cs
  let (vs, cs) ← takeUntilQuote cs
  let vrf ← b64Dec? vs
  if cs ≠ ['}'] then none
  pure { id := id, pk := pk, vrf := vrf, applyHeight := digitsToNat ah, typ := digitsToNat ts }

def realCfg : Cfg := { H := sha256, enc := encInfo, dec := decInfo }

end Rangers.Miner
