import Rangers.Basic.Hex
/-
C10 — 256-bit word primitives.  Core Lean only.

`Word = BitVec 256`.  Each `U256.f` below stands for the method `(*uint256.Int).F` of
`github.com/holiman/uint256 v1.1.1` that `src/vm/instructions.go` calls, and is written
with the *control flow of the library method above the limb level*: sign tests,
negations, early exits, the square-and-multiply loop of `Exp`, the 257-bit sum of
`AddMod`, the 512-bit product of `MulMod`, the mask construction of `ExtendSign`.
What happens on the four 64-bit limbs (carry chains, Knuth division) is *not*
modelled: unsigned `+ - * / %` and the three shifts on 256 bits are taken as the
`BitVec` operations (sampled by the correspondence run, see design/C10.md).

`Props/C10.lean` proves that each of these agrees with the Yellow-Paper formula
written independently over `Nat`/`Int`.
-/
namespace Rangers.Model.Evm10

abbrev Word := BitVec 256

/-- 2^256 -/
abbrev W : Nat := 2 ^ 256

namespace U256

def ofNat (n : Nat) : Word := BitVec.ofNat 256 n

/-- `Uint64()` : the low limb. -/
def lo64 (x : Word) : Nat := x.toNat % 2 ^ 64
/-- `IsUint64()` : the three high limbs are zero. -/
def isUint64 (x : Word) : Bool := decide (x.toNat < 2 ^ 64)
/-- `Uint64WithOverflow()` -/
def uint64WithOverflow (x : Word) : Nat × Bool := (lo64 x, !isUint64 x)
/-- `LtUint64(n)` : `z[0] < n && (z[1]|z[2]|z[3]) == 0`, n a uint64. -/
def ltUint64 (x : Word) (n : Nat) : Bool := decide (lo64 x < n) && isUint64 x
/-- `GtUint64(n)` : `z[0] > n || (z[1]|z[2]|z[3]) != 0`. -/
def gtUint64 (x : Word) (n : Nat) : Bool := decide (lo64 x > n) || !isUint64 x
def isZero (x : Word) : Bool := x == 0#256
def allOnes : Word := BitVec.allOnes 256

def add (x y : Word) : Word := x + y
def sub (x y : Word) : Word := x - y
def mul (x y : Word) : Word := x * y
/-- `Neg` : `0 - x`. -/
def neg (x : Word) : Word := sub 0#256 x

/-- `Sign()` : 0 if zero, +1 if the top limb is below 0x8000…, else −1. -/
def sign (x : Word) : Int :=
  if isZero x then 0 else if x.msb then -1 else 1

/-- `Div` : zero divisor gives 0 (the remaining early exits are below the limb level). -/
def div (x y : Word) : Word := if isZero y then 0#256 else BitVec.udiv x y
/-- `Mod` : zero divisor gives 0. -/
def mod (x y : Word) : Word := if isZero y then 0#256 else BitVec.umod x y

/-- `SDiv(n, d)` with its four sign branches. -/
def sdiv (n d : Word) : Word :=
  if sign n > 0 then
    if sign d > 0 then div n d
    else neg (div n (neg d))
  else if sign d < 0 then div (neg n) (neg d)
  else neg (div (neg n) d)

/-- `SMod(x, y)` : |x| mod |y| with the sign of x. -/
def smod (x y : Word) : Word :=
  let xs := sign x
  let ys := sign y
  let x' := if xs = -1 then neg x else x
  let y' := if ys = -1 then neg y else y
  let z := mod x' y'
  if xs = -1 then neg z else z

/-- `BitLen()` -/
def bitLen (x : Word) : Nat := if x.toNat = 0 then 0 else Nat.log2 x.toNat + 1

/-- The loop of `Exp`: one iteration per bit of the exponent below `BitLen`, least
significant first: multiply into `res` when the bit is set, square the multiplier. -/
def expLoop : Nat → Word → Word → Nat → Word
  | 0, res, _, _ => res
  | n + 1, res, m, w => expLoop n (if w % 2 = 1 then mul res m else res) (mul m m) (w / 2)

def exp (base e : Word) : Word := expLoop (bitLen e) 1#256 base e.toNat

/-- `AddMod(x, y, m)` : 0 for m = 0; if the 256-bit addition carries, reduce the 257-bit
sum (five limbs) by m, else `Mod(x+y, m)`. -/
def addmod (x y m : Word) : Word :=
  if isZero m then 0#256
  else
    let s := x.toNat + y.toNat
    if s ≥ W then ofNat (s % m.toNat) else mod (add x y) m

/-- `MulMod(x, y, m)` : 0 if any operand is 0; 512-bit product; if its high half is zero
`Mod(lo, m)`, else reduce all eight limbs by m. -/
def mulmod (x y m : Word) : Word :=
  if isZero x || isZero y || isZero m then 0#256
  else
    let p := x.toNat * y.toNat
    if p / W = 0 then mod (ofNat p) m else ofNat (p % m.toNat)

def lsh (x : Word) (n : Nat) : Word := x <<< n
def rsh (x : Word) (n : Nat) : Word := x >>> n
/-- `SRsh` : plain `Rsh` when bit 255 is clear, else shift in ones. -/
def srsh (x : Word) (n : Nat) : Word := if !x.msb then rsh x n else BitVec.sshiftRight x n

def not (x : Word) : Word := ~~~ x
def and (x y : Word) : Word := x &&& y
def or (x y : Word) : Word := x ||| y
def xor (x y : Word) : Word := x ^^^ y

def lt (x y : Word) : Bool := decide (x.toNat < y.toNat)
def gt (x y : Word) : Bool := lt y x
def eq (x y : Word) : Bool := x == y

/-- `z.Slt(x)` : sign cases first, unsigned compare when the signs agree. -/
def slt (z x : Word) : Bool :=
  let zs := sign z
  let xs := sign x
  if zs ≥ 0 ∧ xs < 0 then false
  else if zs < 0 ∧ xs ≥ 0 then true
  else lt z x

def sgt (z x : Word) : Bool :=
  let zs := sign z
  let xs := sign x
  if zs ≥ 0 ∧ xs < 0 then true
  else if zs < 0 ∧ xs ≥ 0 then false
  else gt z x

/-- `z.Byte(n)` : byte n of z counted from the most significant end; 0 unless n < 32. -/
def byte (z n : Word) : Word :=
  let (number, overflow) := uint64WithOverflow n
  if !overflow && decide (number < 32) then and (rsh z (8 * (31 - number))) 0xff#256
  else 0#256

/-- `ExtendSign(x, byteNum)`. -/
def extendSign (x byteNum : Word) : Word :=
  if gtUint64 byteNum 31 then x
  else
    let bit := lo64 byteNum * 8 + 7
    let mask := sub (lsh 1#256 bit) 1#256
    if x.getLsbD bit then or x (not mask) else and x mask

/-- `SetBytes(buf)` for `len(buf) ≤ 32` : big-endian. -/
def setBytes (bs : Bytes) : Word := ofNat (beToNat bs)

/-- byte `i` (0 = most significant) of the 32-byte big-endian form. -/
def byteAt (w : Word) (i : Nat) : UInt8 := UInt8.ofNat ((w.toNat >>> (8 * (31 - i))) % 256)

/-- `Bytes32()` / `WriteToSlice` on a 32-byte destination. -/
def toBytes32 (w : Word) : Bytes := (List.range 32).map (byteAt w)

def ofBool (b : Bool) : Word := if b then 1#256 else 0#256

end U256
end Rangers.Model.Evm10
