import Rangers.Model.TrieSpec
/-
The commit / reload path of `src/storage/trie` through the NodeDatabase memory cache:
  hasher.go   hash/store with a database: every node whose RLP is >= 32 bytes (and the root)
              is inserted as  hash ↦ collapsed node  (`db.insert(hash, blob, simplifyNode(n))`)
  database.go expandNode: a cached collapsed node is turned back into a live node
              (`compactToHex` on keys, children that are hash references stay `hashNode`s and
              are resolved on demand by `resolveHash` → `db.node` → `expandNode`)
`CNode` is the collapsed form (`rawShortNode` / `rawFullNode` / `hashNode` / nil),
`commitStore` the set of entries one `Commit` writes, `expand` full resolution
(what reading every key after `NewTrie(root, db)` amounts to).  Core Lean only.
-/
namespace Rangers.Trie
open Rangers

/-- collapsed node as held by `NodeDatabase.nodes` -/
inductive CNode where
  | empty                                  -- nil child
  | hashRef (h : Bytes)                    -- hashNode
  | leaf (ck : Bytes) (v : Bytes)          -- rawShortNode{compact key, valueNode}
  | ext (ck : Bytes) (child : CNode)       -- rawShortNode{compact key, hashNode | embedded node}
  | branch (cs : List CNode) (v : Bytes)   -- rawFullNode: 16 children, value slot ([] = nil)
deriving Repr, Inhabited

/-- the bytes in the value slot of a full node ([] = empty slot) -/
def valueBytes : Node → Bytes
  | .value b => b
  | _ => []

mutual
/-- `hashChildren` + `simplifyNode`: the collapsed form of a node -/
def collapse (H : Bytes → Bytes) : Node → CNode
  | .nil => .empty
  | .value b => .leaf [] b                 -- not reachable as a node of its own
  | .short k v =>
    match v with
    | .value b => .leaf (hexToCompact k) b
    | .nil => .ext (hexToCompact k) .empty
    | .short k' v' =>
      .ext (hexToCompact k)
        (if (enc H (.short k' v')).length < 32 then collapse H (.short k' v') else .hashRef (H (enc H (.short k' v'))))
    | .full cs' =>
      .ext (hexToCompact k)
        (if (enc H (.full cs')).length < 32 then collapse H (.full cs') else .hashRef (H (enc H (.full cs'))))
  | .full cs => .branch (collapseL H cs 0) (valueBytes (cs.getD 16 .nil))
/-- slots 0..15 as references -/
def collapseL (H : Bytes → Bytes) : List Node → Nat → List CNode
  | [], _ => []
  | c :: cs, i =>
    if i < 16 then
      (match c with
       | .nil => CNode.empty
       | c => if (enc H c).length < 32 then collapse H c else .hashRef (H (enc H c))) :: collapseL H cs (i + 1)
    else []
end

mutual
/-- the entries `Commit` inserts for the subtree: one per node that is hashed (`force` = root) -/
def storeOf (H : Bytes → Bytes) (force : Bool) : Node → List (Bytes × CNode)
  | .nil => []
  | .value _ => []
  | .short k v =>
    (if force || decide (32 ≤ (enc H (.short k v)).length) then [(H (enc H (.short k v)), collapse H (.short k v))] else [])
      ++ storeOf H false v
  | .full cs =>
    (if force || decide (32 ≤ (enc H (.full cs)).length) then [(H (enc H (.full cs)), collapse H (.full cs))] else [])
      ++ storeOfL H cs
def storeOfL (H : Bytes → Bytes) : List Node → List (Bytes × CNode)
  | [] => []
  | c :: cs => storeOf H false c ++ storeOfL H cs
end

/-- `Trie.Commit` on a fresh database: the entries written -/
def commitStore (H : Bytes → Bytes) (t : Node) : List (Bytes × CNode) := storeOf H true t

/-- `expandNode` with every hash reference resolved through the store (fuel: one unit per step) -/
def expand (st : List (Bytes × CNode)) : Nat → CNode → Option Node
  | 0, _ => none
  | _ + 1, .empty => some .nil
  | f + 1, .hashRef h => (st.lookup h).bind (expand st f)
  | _ + 1, .leaf ck v => (compactToHex ck).map (fun k => .short k (.value v))
  | f + 1, .ext ck c => (compactToHex ck).bind (fun k => (expand st f c).map (fun c' => .short k c'))
  | f + 1, .branch cs v =>
    (cs.mapM (expand st f)).map (fun cs' => .full (cs' ++ [if v.isEmpty then Node.nil else .value v]))

/-- `Commit` followed by `NewTrie(root, db)` and resolution of every node -/
def reload (H : Bytes → Bytes) (t : Node) : Option Node :=
  match t with
  | .nil => some .nil            -- NewTrie(emptyRoot): no database access
  | t => expand (commitStore H t) (2 * height t + 2) (.hashRef (H (enc H t)))

end Rangers.Trie
