import Rangers.Basic.Hex
/-
Model of go-rangers `src/storage/trie` (content layer): the in-memory
Merkle-Patricia trie with all nodes loaded.  Transcribed from
  trie.go      tryGet / insert / delete
  encoding.go  keybytesToHex / hexToCompact / compactToHex / prefixLen
  hasher.go    hashChildren / store      (hash function `H` is a parameter)
  node.go      EncodeRLP of fullNode / shortNode
  iterator.go  leaf iteration order (children 0..15, then the value slot 16)

Keys inside the trie are hex nibble lists (`List Nat`, nibble < 16) followed by
the terminator 16, exactly as `keybytesToHex` produces them.
`Node.full cs` has 17 slots like `fullNode.Children`.

Cache flags (`nodeFlag{hash,gen,dirty}`) carry no content: they decide only
*whether* a hash is recomputed, and a recomputed hash is a function of the node
(`enc`).  The unloaded form (`hashNode`) is the subject of `Model/TrieStore`.

Core Lean only (the driver is a compiled executable).
-/
namespace Rangers.Trie
open Rangers

/-- hex key: nibbles (0..15), optionally ended by the terminator 16 -/
abbrev Key := List Nat

inductive Node where
  | nil
  | value (b : Bytes)
  | short (k : Key) (v : Node)
  | full (cs : List Node)
deriving Repr, BEq, Inhabited

/-! ## encoding.go -/

/-- `keybytesToHex`: two nibbles per byte, then the terminator 16. -/
def hexOfBytes : Bytes → Key
  | [] => []
  | b :: bs => b.toNat / 16 :: b.toNat % 16 :: hexOfBytes bs

def keybytesToHex (str : Bytes) : Key := hexOfBytes str ++ [16]

/-- `hasTerm` -/
def hasTerm (s : Key) : Bool := s.getLast? == some 16

/-- `decodeNibbles`: pack pairs of nibbles into bytes (`nibbles[ni]<<4 | nibbles[ni+1]`;
    for nibbles < 16 that is `16*a+b`). A trailing odd nibble cannot occur (callers pass even lengths). -/
def decodeNibbles : Key → Bytes
  | a :: b :: r => UInt8.ofNat (a * 16 + b) :: decodeNibbles r
  | _ => []

/-- `hexToCompact` (hex-prefix encoding, Yellow Paper `HP`). -/
def hexToCompact (hex : Key) : Bytes :=
  let term := hasTerm hex
  let hex := if term then hex.dropLast else hex
  let flag : Nat := if term then 32 else 0
  if hex.length % 2 = 1 then
    UInt8.ofNat (flag + 16 + hex.headD 0) :: decodeNibbles hex.tail
  else
    UInt8.ofNat flag :: decodeNibbles hex

/-- `compactToHex`. `none` where the Go code would slice out of range (empty input). -/
def compactToHex (compact : Bytes) : Option Key :=
  match keybytesToHex compact with
  | [] => none
  | b0 :: rest =>
    let base := b0 :: rest
    let base := if b0 < 2 then base.dropLast else base
    let chop := 2 - b0 % 2
    if chop ≤ base.length then some (base.drop chop) else none

/-- `prefixLen` -/
def prefixLen : Key → Key → Nat
  | a :: as, b :: bs => if a = b then prefixLen as bs + 1 else 0
  | _, _ => 0

/-- `hexToKeybytes` (iterator `LeafKey`): drop the terminator, pack nibbles. -/
def hexToKeybytes (hex : Key) : Bytes :=
  decodeNibbles (if hasTerm hex then hex.dropLast else hex)

/-! ## trie.go -/

def emptyFull : List Node := List.replicate 17 .nil

/-- `insert(nil, prefix, key, value)` inlined: empty key returns the value node
    itself, otherwise a fresh short node. -/
def mkLeaf (key : Key) (value : Node) : Node :=
  if key.isEmpty then value else .short key value

mutual
/-- `Trie.tryGet` on a fully loaded trie. -/
def get : Node → Key → Option Bytes
  | .nil, _ => none
  | .value b, _ => some b
  | .short k v, key =>
    if k.length ≤ key.length ∧ key.take k.length = k then get v (key.drop k.length) else none
  | .full _, [] => none               -- Go: index out of range; unreachable for terminated keys (`Props.C02.get_total`)
  | .full cs, i :: rest => getAt cs i rest
def getAt : List Node → Nat → Key → Option Bytes
  | [], _, _ => none
  | c :: _, 0, rest => get c rest
  | _ :: cs, i + 1, rest => getAt cs i rest
end

mutual
/-- `Trie.insert(n, prefix, key, value)`; result = (dirty, new node). -/
def insert : Node → Key → Node → Bool × Node
  | .value v, [], value =>
    match value with
    | .value w => (v != w, value)
    | _ => (true, value)            -- Go: failed type assertion; unreachable (value is always a valueNode here)
  | _, [], value => (true, value)
  | .short k v, key, value =>
    let m := prefixLen key k
    if m = k.length then
      let r := insert v (key.drop m) value
      if !r.1 then (false, .short k v) else (true, .short k r.2)
    else
      let c1 := mkLeaf (k.drop (m + 1)) v
      let c2 := mkLeaf (key.drop (m + 1)) value
      let branch := Node.full ((emptyFull.set (k.getD m 0) c1).set (key.getD m 0) c2)
      if m = 0 then (true, branch) else (true, .short (key.take m) branch)
  | .full cs, i :: rest, value =>
    let r := insertAt cs i rest value
    if !r.1 then (false, .full cs) else (true, .full r.2)
  | .nil, key, value => (true, .short key value)
  | .value _, _ :: _, _ => (true, .nil)   -- Go: panics "invalid node"; unreachable
def insertAt : List Node → Nat → Key → Node → Bool × List Node
  | [], _, _, _ => (false, [])
  | c :: cs, 0, rest, value => let r := insert c rest value; (r.1, r.2 :: cs)
  | c :: cs, i + 1, rest, value => let r := insertAt cs i rest value; (r.1, c :: r.2)
end

def isNil : Node → Bool
  | .nil => true
  | _ => false

/-- the loop in `delete`: `some pos` iff exactly one slot is non-nil. -/
def soleChild (cs : List Node) : Option Nat :=
  let idx := (List.range cs.length).filter (fun i => !isNil (cs.getD i .nil))
  match idx with
  | [p] => some p
  | _ => none

mutual
/-- `Trie.delete(n, prefix, key)`; result = (dirty, new node). -/
def delete : Node → Key → Bool × Node
  | .short k v, key =>
    let m := prefixLen key k
    if m < k.length then (false, .short k v)
    else if m = key.length then (true, .nil)
    else
      let r := delete v (key.drop k.length)
      if !r.1 then (false, .short k v)
      else match r.2 with
        | .short ck cv => (true, .short (k ++ ck) cv)
        | child => (true, .short k child)
  | .full cs, [] => (false, .full cs)     -- Go: index out of range; unreachable for terminated keys
  | .full cs, i :: rest =>
    let r := deleteAt cs i rest
    if !r.1 then (false, .full cs)
    else
      let cs' := r.2
      match soleChild cs' with
      | some pos =>
        if pos != 16 then
          match cs'.getD pos .nil with
          | .short ck cv => (true, .short (pos :: ck) cv)
          | c => (true, .short [pos] c)
        else (true, .short [pos] (cs'.getD pos .nil))
      | none => (true, .full cs')
  | .value _, _ => (true, .nil)
  | .nil, _ => (false, .nil)
def deleteAt : List Node → Nat → Key → Bool × List Node
  | [], _, _ => (false, [])
  | c :: cs, 0, rest => let r := delete c rest; (r.1, r.2 :: cs)
  | c :: cs, i + 1, rest => let r := deleteAt cs i rest; (r.1, c :: r.2)
end

/-- `Trie.TryUpdate`: an empty value deletes. -/
def update (t : Node) (key value : Bytes) : Node :=
  let k := keybytesToHex key
  if value.length != 0 then (insert t k (.value value)).2 else (delete t k).2

/-- `Trie.TryDelete` -/
def remove (t : Node) (key : Bytes) : Node := (delete t (keybytesToHex key)).2

/-- `Trie.TryGet` -/
def lookup (t : Node) (key : Bytes) : Option Bytes := get t (keybytesToHex key)

/-! ## iterator.go — leaves in the order `nodeIterator` visits them
    (full node: slots 0..15 first, the value slot 16 last). Keys are hex paths
    relative to the node. -/

def prepend (p : Key) (l : List (Key × Bytes)) : List (Key × Bytes) := l.map (fun e => (p ++ e.1, e.2))

mutual
def iter : Node → List (Key × Bytes)
  | .nil => []
  | .value b => [([], b)]
  | .short k v => prepend k (iter v)
  | .full cs => iterL cs 0
def iterL : List Node → Nat → List (Key × Bytes)
  | [], _ => []
  | c :: cs, i => prepend [i] (iter c) ++ iterL cs (i + 1)
end

/-- lexicographic `bytes.Compare(a, b) <= 0` on hex paths -/
def keyLE : Key → Key → Bool
  | [], _ => true
  | _ :: _, [] => false
  | a :: as, b :: bs => if a < b then true else if a = b then keyLE as bs else false

/-- `NewIterator(t.NodeIterator(start))`: leaves whose path is `>=` the hex of
    `start` (no terminator) in path order, as (key bytes, value). -/
def iterFrom (t : Node) (start : Bytes) : List (Bytes × Bytes) :=
  ((iter t).filter (fun e => keyLE (hexOfBytes start) e.1)).map (fun e => (hexToKeybytes e.1, e.2))

/-! ## hasher.go / node.go — RLP of collapsed nodes -/

def rlpHead (off : Nat) (len : Nat) : Bytes :=
  if len < 56 then [UInt8.ofNat (off + len)]
  else let lb := natToBE len; UInt8.ofNat (off + 55 + lb.length) :: lb

/-- RLP of a byte string -/
def rlpString (b : Bytes) : Bytes :=
  match b with
  | [x] => if x < 0x80 then [x] else rlpHead 0x80 1 ++ [x]
  | _ => rlpHead 0x80 b.length ++ b

/-- RLP of a list whose already-encoded items are concatenated in `payload` -/
def rlpList (payload : Bytes) : Bytes := rlpHead 0xc0 payload.length ++ payload

/-- the 32-byte-rule of `hasher.store` (force = false): a node whose RLP is
    shorter than 32 bytes is embedded, otherwise replaced by (the RLP string of) its hash. -/
def embedOrHash (H : Bytes → Bytes) (e : Bytes) : Bytes :=
  if e.length < 32 then e else rlpString (H e)

mutual
/-- RLP of the collapsed node (`hashChildren` then `rlp.Encode`). -/
def enc (H : Bytes → Bytes) : Node → Bytes
  | .nil => [0x80]
  | .value b => rlpString b
  | .short k v =>
    rlpList (rlpString (hexToCompact k) ++
      (match v with
       | .value b => rlpString b           -- `if _, ok := n.Val.(valueNode); !ok {...}`: left as is
       | .nil => [0x80]
       | .short k' v' => embedOrHash H (enc H (.short k' v'))
       | .full cs' => embedOrHash H (enc H (.full cs'))))
  | .full cs => rlpList (encL H cs 0)
/-- slots i..16 of a full node: 0..15 go through `hasher.hash`, slot 16 is copied. -/
def encL (H : Bytes → Bytes) : List Node → Nat → Bytes
  | [], _ => []
  | c :: cs, i =>
    (match c with
     | .nil => [0x80]
     | c => if i < 16 then embedOrHash H (enc H c) else enc H c) ++ encL H cs (i + 1)
end

def emptyRoot : Bytes :=
  [0x56,0xe8,0x1f,0x17,0x1b,0xcc,0x55,0xa6,0xff,0x83,0x45,0xe6,0x92,0xc0,0xf8,0x6e,
   0x5b,0x48,0xe0,0x1b,0x99,0x6c,0xad,0xc0,0x01,0x62,0x2f,0xb5,0xe3,0x63,0xb4,0x21]

/-- `Trie.Hash()`: the root is always hashed (`force = true`), the empty trie has a constant root. -/
def rootHash (H : Bytes → Bytes) : Node → Bytes
  | .nil => emptyRoot
  | t => H (enc H t)

end Rangers.Trie
