import Rangers.Generated.TrieDbFacts
/-!
# TrieDB — the node cache / commit write-order layer of go-rangers (C03)

Model of `src/storage/trie/database.go` (`NodeDatabase`: `insert`, `reference`,
`Commit`/`commit`, `uncache`, `Node`) together with the leaf-reference rule of
`src/storage/account/accountdb.go:Commit`, over an abstract hash-addressed DAG.

What is *not* modelled here (given by Go-side observation instead): the content
of trie nodes.  A node is `(size, tag, inner, ext, need)`:

* `inner` – the hash children `gatherChildren` finds in the collapsed node, in order;
* `ext`   – the keys of `cachedNode.children` (external references added by
            `Reference`), in the order Go's map iteration happens to produce
            them (any order is possible; theorems hold for every order);
* `need`  – the hashes a *reader* of the persisted blob follows (hash children,
            and for an account leaf its storage root and code hash);
* `tag`   – an opaque identity of the blob bytes; `size` its length.

Core Lean only (this file is linked into the driver executable).
-/
namespace Rangers.Model.TrieDB
open Rangers.Generated

abbrev Hash := Nat

/-- `cachedNode` (database.go). -/
structure CNode where
  size : Nat
  tag : Nat
  inner : List Hash
  ext : List Hash
  need : List Hash
deriving Repr, DecidableEq

/-- what is stored on disk under a hash. -/
structure DNode where
  size : Nat
  tag : Nat
  need : List Hash
deriving Repr, DecidableEq

abbrev Cache := List (Hash × CNode)
abbrev Disk := List (Hash × DNode)

/-- `cachedNode.childs()`: external children first, then the node's own hash children. -/
def CNode.childs (n : CNode) : List Hash := n.ext ++ n.inner

/-- `cachedNode.rlp()` as it lands on disk. -/
def CNode.toD (n : CNode) : DNode := ⟨n.size, n.tag, n.need⟩

structure St where
  cache : Cache
  disk : Disk
deriving Repr

def St.empty : St := ⟨[], []⟩

/-! ## insert / reference / leaf callback -/

/-- `db.insert(hash, blob, node)`: "If the node's already cached, skip". -/
def insert (c : Cache) (h : Hash) (n : CNode) : Cache :=
  match c.lookup h with
  | some _ => c
  | none => (h, n) :: c

def CNode.addExt (n : CNode) (child : Hash) : CNode := { n with ext := n.ext ++ [child] }

/-- add `child` to the external children of `parent` (the `children` map). -/
def addExt (c : Cache) (parent child : Hash) : Cache :=
  c.map fun kn => if kn.1 == parent then (kn.1, kn.2.addExt child) else kn

/-- `db.reference(child, parent)` for a non-meta-root parent.
    * child not cached: "it's a node pulled from disk, skip";
    * parent not cached: Go dereferences a nil `*cachedNode` and panics → `none`;
    * reference already present: skip;
    * otherwise record it. -/
def reference (c : Cache) (child parent : Hash) : Option Cache :=
  match c.lookup child with
  | none => some c
  | some _ =>
    match c.lookup parent with
    | none => none
    | some p => if p.ext.contains child then some c else some (addExt c parent child)

/-- the leaf callback of `AccountDB.Commit`:
    `if account.Root != emptyData { Reference(account.Root, parent) }`,
    `if code != emptyCode { Reference(code, parent) }`. -/
def leafRefs (emptyData emptyCode : Hash) (c : Cache) (parent root code : Hash) : Option Cache :=
  match (if root != emptyData then reference c root parent else some c) with
  | none => none
  | some c1 => if code != emptyCode then reference c1 code parent else some c1

/-- `hasher.store` on a node that is persisted: `db.insert` and then, when the
    node holds an account leaf and a callback is installed, the callback. -/
def store (emptyData emptyCode : Hash) (c : Cache) (h : Hash) (n : CNode)
    (leaf : Option (Hash × Hash)) : Option Cache :=
  let c1 := insert c h n
  match leaf with
  | none => some c1
  | some (root, code) => leafRefs emptyData emptyCode c1 h root code

/-- What the driver verifies after every `store` of a node that was not cached
    (it answers `ok!pre` otherwise, which differs from the implementation's `ok`):
    the hash does not name a different blob on disk, and everything the node needs
    is on disk or is a cached child of the node as it now sits in the cache. -/
def storeCheck (disk : Disk) (c' : Cache) (h : Hash) (n : CNode) : Bool :=
  (match disk.lookup h with
   | none => true
   | some dn => decide (dn = n.toD)) &&
  (match c'.lookup h with
   | none => false
   | some n' => n.need.all fun r => (disk.lookup r).isSome || ((c'.lookup r).isSome && n'.childs.contains r))

/-! ## commit: the post-order walk -/

/-- all-or-nothing sequencing of optional results. -/
def allSome {α : Type} : List (Option α) → Option (List α)
  | [] => some []
  | none :: _ => none
  | some a :: rest => match allSome rest with
    | none => none
    | some as => some (a :: as)

/-- `NodeDatabase.commit(hash, batch)`: the sequence of `batch.Put` keys.
    "If the node does not exist, it's a previously committed node" → nothing;
    otherwise all `childs()` first (no visited set: a shared child is put
    again), then the node itself.  `none` = out of fuel, i.e. the Go recursion
    would not terminate on this (cyclic) cache. -/
def walk (c : Cache) : Nat → Hash → Option (List Hash)
  | 0, _ => none
  | f + 1, h =>
    match c.lookup h with
    | none => some []
    | some n =>
      match allSome (n.childs.map (walk c f)) with
      | none => none
      | some ts => some (ts.flatten ++ [h])

def sizeOf (c : Cache) (h : Hash) : Nat :=
  match c.lookup h with
  | some n => n.size
  | none => 0

/-- the flush test after each `batch.Put` in `commit`. -/
def flushNow (valueSize : Nat) : Bool :=
  if TrieDbFacts.commitFlushIsGe then valueSize ≥ TrieDbFacts.idealBatchSize
  else valueSize > TrieDbFacts.idealBatchSize

/-- split the Put sequence into the physical writes `Commit` issues: flush
    whenever the batch reached the ideal size, and one final `batch.Write()`
    (possibly of an empty batch). `cur` is the open batch in reverse. -/
def splitBatches (c : Cache) : List Hash → List Hash → Nat → List (List Hash)
  | [], cur, _ => [cur.reverse]
  | h :: rest, cur, sz =>
    let sz' := sz + sizeOf c h
    if flushNow sz' then (h :: cur).reverse :: splitBatches c rest [] 0
    else splitBatches c rest (h :: cur) sz'

/-! ### the batch object (`ldbBatch`, middleware/db/leveldb.go) and the loop written against it

`Put` appends the pair and adds `len(value)` to `size`; `ValueSize` returns `size`;
`Reset` clears both; `Write` hands the collected pairs to the store in one call. -/

structure BatchSt where
  items : List Hash
  size : Nat

def BatchSt.put (b : BatchSt) (c : Cache) (h : Hash) : BatchSt := ⟨b.items ++ [h], b.size + sizeOf c h⟩
def BatchSt.valueSize (b : BatchSt) : Nat := b.size
def BatchSt.reset (_ : BatchSt) : BatchSt := ⟨[], 0⟩

/-- the Put/flush loop of `commit` as the Go code has it: `batch.Put`; `if batch.ValueSize() >=
    IdealBatchSize { batch.Write(); batch.Reset() }`; at the end the final `batch.Write()`.
    `acc` collects the physical writes issued so far. -/
def commitLoop (c : Cache) : List Hash → BatchSt → List (List Hash) → List (List Hash)
  | [], b, acc => acc ++ [b.items]
  | h :: rest, b, acc =>
    let b1 := b.put c h
    if flushNow b1.valueSize then commitLoop c rest b1.reset (acc ++ [b1.items])
    else commitLoop c rest b1 acc

/-- `batch.Put(hash, node.rlp())` reaching the disk. -/
def putNode (c : Cache) (d : Disk) (h : Hash) : Disk :=
  match c.lookup h with
  | some n => (h, n.toD) :: d
  | none => d

def applyWrites (c : Cache) (d : Disk) (ws : List Hash) : Disk := ws.foldl (putNode c) d

def applyBatches (c : Cache) (d : Disk) (bs : List (List Hash)) : Disk := bs.foldl (applyWrites c) d

/-- `uncache(root)`: everything the walk visited leaves the cache. -/
def uncache (c : Cache) (ws : List Hash) : Cache := c.filter fun kn => !ws.contains kn.1

structure CommitOut where
  written : List (List Hash)
  ok : Bool
  st : St

/-- `NodeDatabase.Commit(root)` with the store refusing its `(k+1)`-th physical
    write when `failAt = some k` (`none`: no failure).  A failed write returns
    the error before `uncache`, so the cache is untouched; the writes already
    issued stay on disk.  Result `none` = the walk diverges. -/
def commit (s : St) (root : Hash) (failAt : Option Nat) (fuel : Nat) : Option CommitOut :=
  match walk s.cache fuel root with
  | none => none
  | some ws =>
    let bs := splitBatches s.cache ws [] 0
    match failAt with
    | none =>
      some ⟨bs, true, ⟨uncache s.cache ws, applyBatches s.cache s.disk bs⟩⟩
    | some k =>
      if k < bs.length then
        some ⟨bs.take k, false, ⟨s.cache, applyBatches s.cache s.disk (bs.take k)⟩⟩
      else
        some ⟨bs, true, ⟨uncache s.cache ws, applyBatches s.cache s.disk bs⟩⟩

/-- the part of `Commit` after the walk, for a given Put sequence `ws` -/
def commitWith (s : St) (failAt : Option Nat) (ws : List Hash) : CommitOut :=
  let bs := splitBatches s.cache ws [] 0
  match failAt with
  | none => ⟨bs, true, ⟨uncache s.cache ws, applyBatches s.cache s.disk bs⟩⟩
  | some k =>
    if k < bs.length then ⟨bs.take k, false, ⟨s.cache, applyBatches s.cache s.disk (bs.take k)⟩⟩
    else ⟨bs, true, ⟨uncache s.cache ws, applyBatches s.cache s.disk bs⟩⟩

/-! ### the walk with an iteration order of its own at every visit

Go randomises map iteration per `range` statement: `childs()` of one cached node
can list its external children in different orders on two visits within the same
commit.  `ords` is the sequence of orders the runtime picked, one entry per visit
of a cached node, in visit order; an entry that does not name the node being
visited or is not a re-ordering of its `ext` list is ignored (stored order used). -/

abbrev Ords := List (Hash × List Hash)

def sameMembers (a b : List Hash) : Bool :=
  a.length == b.length && a.all (fun x => b.contains x) && b.all (fun x => a.contains x)

/-- the order used for this visit of `h`, and the orders left for later visits -/
def pickOrder (h : Hash) (ext : List Hash) : Ords → List Hash × Ords
  | [] => (ext, [])
  | (k, o) :: rest => if k == h && sameMembers o ext then (o, rest) else (ext, (k, o) :: rest)

/-- children one after the other, threading the remaining orders -/
def foldKids (g : Hash → Ords → Option (List Hash × Ords)) : List Hash → Ords → Option (List Hash × Ords)
  | [], o => some ([], o)
  | x :: xs, o =>
    match g x o with
    | none => none
    | some (t, o1) =>
      match foldKids g xs o1 with
      | none => none
      | some (ts, o2) => some (t ++ ts, o2)

def walkO (c : Cache) : Nat → Hash → Ords → Option (List Hash × Ords)
  | 0, _, _ => none
  | f + 1, h, ords =>
    match c.lookup h with
    | none => some ([], ords)
    | some n =>
      let po := pickOrder h n.ext ords
      match foldKids (walkO c f) (po.1 ++ n.inner) po.2 with
      | none => none
      | some (ts, o') => some (ts ++ [h], o')

/-- `NodeDatabase.Commit(root)` when the runtime picked `ords` -/
def commitV (s : St) (root : Hash) (failAt : Option Nat) (fuel : Nat) (ords : Ords) : Option CommitOut :=
  match walkO s.cache fuel root ords with
  | none => none
  | some (ws, _) => some (commitWith s failAt ws)

/-- process death: caches are gone, the disk stays. -/
def die (s : St) : St := ⟨[], s.disk⟩

/-- Go's map iteration order is arbitrary: replace the `ext` list of `h` by a
    list with the same members and length (anything else is refused; `ext` has
    no duplicates because `reference` skips a reference that already exists). -/
def CNode.setExt (n : CNode) (ord : List Hash) : CNode := { n with ext := ord }

def reorderExt (c : Cache) (h : Hash) (ord : List Hash) : Cache :=
  c.map fun kn =>
    if kn.1 == h && sameMembers ord kn.2.ext then (kn.1, kn.2.setExt ord) else kn

/-! ## the state machine the driver executes -/

inductive Op where
  /-- `hasher.store` / `InsertBlob`: insert, then the leaf callback if the node holds an account leaf -/
  | store (h : Hash) (n : CNode) (leaf : Option (Hash × Hash))
  /-- `NodeDatabase.Reference(child, parent)` -/
  | ref (child parent : Hash)
  /-- the Go runtime picks an iteration order for `children` -/
  | reorder (h : Hash) (ord : List Hash)
  /-- `NodeDatabase.Commit(root)`; `failAt = some k`: the store refuses the (k+1)-th physical write -/
  | commit (root : Hash) (failAt : Option Nat)
  /-- the same with an iteration order of its own at every visit (what the driver executes) -/
  | commitV (root : Hash) (failAt : Option Nat) (ords : Ords)
  /-- process death -/
  | die

/-- one step; `none` = the Go code panics (nil parent in `reference`) or does not terminate (cyclic cache). -/
def step (emptyData emptyCode : Hash) (s : St) : Op → Option St
  | .store h n leaf => (store emptyData emptyCode s.cache h n leaf).map fun c => { s with cache := c }
  | .ref child parent => (reference s.cache child parent).map fun c => { s with cache := c }
  | .reorder h ord => some { s with cache := reorderExt s.cache h ord }
  | .commit root failAt => (commit s root failAt (s.cache.length + 1)).map fun o => o.st
  | .commitV root failAt ords => (commitV s root failAt (s.cache.length + 1) ords).map fun o => o.st
  | .die => some (die s)

/-! ## readers -/

/-- `NodeDatabase.Node(hash)`: memory cache first, then disk. -/
def liveLookup (s : St) (h : Hash) : Option DNode :=
  match s.cache.lookup h with
  | some n => some n.toD
  | none => s.disk.lookup h

inductive Res where
  | ok        -- fully resolvable
  | missing   -- some node on the way is absent
  | fuel      -- ran out of fuel (cyclic store): explicit error branch
deriving Repr, DecidableEq

def Res.and : Res → Res → Res
  | .missing, _ => .missing
  | _, .missing => .missing
  | .fuel, _ => .fuel
  | _, .fuel => .fuel
  | .ok, .ok => .ok

def Res.all : List Res → Res
  | [] => .ok
  | r :: rs => Res.and r (Res.all rs)

/-- can `h` be fully read through `get` (every needed hash present, recursively)? -/
def resolve (get : Hash → Option DNode) : Nat → Hash → Res
  | 0, _ => .fuel
  | f + 1, h =>
    match get h with
    | none => .missing
    | some n => Res.all (n.need.map (resolve get f))

/-- the tree a reader sees below `h`: number of node visits and sum of tags. -/
def view (get : Hash → Option DNode) : Nat → Hash → Option (Nat × Nat)
  | 0, _ => none
  | f + 1, h =>
    match get h with
    | none => none
    | some n =>
      match allSome (n.need.map (view get f)) with
      | none => none
      | some vs => some (vs.foldl (fun acc v => (acc.1 + v.1, acc.2 + v.2)) (1, n.tag))

def diskGet (d : Disk) (h : Hash) : Option DNode := d.lookup h

end Rangers.Model.TrieDB
