import Rangers.Model.TrieSpec
/-
Ethereum Yellow Paper, appendix D ("Modified Merkle Patricia Tree"), transcribed:
  HP(x, t)        hex-prefix encoding                         (eq. 186-187)
  TRIE(J)  = KEC(c(J, 0))                                     (eq. 190)
  n(J, i)  = () | c(J, i) if ‖c(J, i)‖ < 32 | KEC(c(J, i))     (eq. 192)
  c(J, i)  = leaf | extension | branch                        (eq. 193)
`J` is a list of (nibble key without terminator, value) pairs, `i` the number of key
nibbles already consumed. `H` stands for KEC. Core Lean only.
-/
namespace Rangers.Trie
open Rangers

/-- `HP(x, t)` -/
def HP (x : Key) (t : Bool) : Bytes :=
  let f : Nat := if t then 2 else 0
  if x.length % 2 = 0 then UInt8.ofNat (16 * f) :: decodeNibbles x
  else UInt8.ofNat (16 * (f + 1) + x.headD 0) :: decodeNibbles x.tail

/-- `c(J, i)`; the first argument is recursion fuel (one unit per trie level). -/
def ypC (H : Bytes → Bytes) : Nat → List (Key × Bytes) → Nat → Bytes
  | 0, _, _ => []
  | f + 1, J, i =>
    -- n(J', i')
    let n := fun (J' : List (Key × Bytes)) (i' : Nat) =>
      if J'.isEmpty then [0x80]
      else
        let c := ypC H f J' i'
        if c.length < 32 then c else rlpString (H c)
    match J with
    | [I] => rlpList (rlpString (HP (I.1.drop i) true) ++ rlpString I.2)
    | _ =>
      -- j = the length of the longest prefix all keys of J share
      let j := (lcpAll J).length
      if i ≠ j then rlpList (rlpString (HP ((lcpAll J).drop i) false) ++ n J j)
      else
        let u := fun (x : Nat) => n (J.filter (fun I => I.1[i]? == some x)) (i + 1)
        let v := match J.find? (fun I => I.1.length == i) with
          | some I => rlpString I.2
          | none => [0x80]
        rlpList ((List.range 16).flatMap u ++ v)

def maxKeyLen (J : List (Key × Bytes)) : Nat := J.foldl (fun m e => max m e.1.length) 0

/-- `TRIE(J)`; the empty trie has root `KEC(RLP(()))`. -/
def ypRoot (H : Bytes → Bytes) (J : List (Key × Bytes)) : Bytes :=
  if J.isEmpty then H [0x80] else H (ypC H (maxKeyLen J + 2) J 0)

end Rangers.Trie
