import Rangers.Model.Evm11Table
/-!
# C11 model, part 3: memory-size functions, memory fee, dynamic gas

Transcribed from `src/vm/common.go`, `memory_table.go`, `gas_table.go`, `gas.go`.
All arithmetic that is `uint64` in Go uses `wadd/wsub/wmul` (wrap-around visible).

The state the gas functions consult (`StateDB.Empty`, `GetBalance`, `HasSuicided`,
`AddressInAccessList`) is an *oracle*: the answers are read from a tape
(`Global.tape`) in call order, see `Evm11Interp`.  The theorems quantify over all
tapes, i.e. over every behaviour of the state database.
-/
namespace Rangers.Evm11

/-- the n-th word from the top of the stack (`Stack.Back(n)`); the stack is a list
    whose head is the top. The index exists whenever `stack.length ≥ minStack`
    (`Props.C11.table_args_in_range`). -/
def back (s : List Word) (n : Nat) : Word := s.getD n 0

/-- `calcMemSize64WithUint(off, length64)` -/
def calcMemSizeU (off : Word) (len64 : Nat) : Nat × Bool :=
  if len64 = 0 then (0, false)
  else if ¬ off < 2 ^ 64 then (0, true)
  else (wadd off len64, decide (wadd off len64 < off))

/-- `calcMemSize64(off, l)` -/
def calcMemSize (off l : Word) : Nat × Bool :=
  if ¬ l < 2 ^ 64 then (0, true) else calcMemSizeU off l

/-- the transcribed `memorySize` functions; `none` when the operation has none -/
def memSizeFn (f : MemFn) (s : List Word) : Option (Nat × Bool) :=
  match f with
  | .none => none
  | .unknown => none
  | .two o l => some (calcMemSize (back s o) (back s l))
  | .fixed o n => some (calcMemSizeU (back s o) n)
  | .mcopy =>
      let mStart := if back s 1 > back s 0 then back s 1 else back s 0
      some (calcMemSize mStart (back s 2))
  | .max2 o1 l1 o2 l2 =>
      let x := calcMemSize (back s o1) (back s l1)
      if x.2 then some (0, true) else
      let y := calcMemSize (back s o2) (back s l2)
      if y.2 then some (0, true) else
      some (if x.1 > y.1 then x.1 else y.1, false)

/-- EVM memory: the byte store and `lastGasCost` (memory.go) -/
structure Mem where
  data : BA
  lastGasCost : Nat
  deriving Inhabited

def Mem.empty : Mem := ⟨#[], 0⟩
def Mem.size (m : Mem) : Nat := m.data.size

/-- `Memory.Resize` -/
def Mem.resize (m : Mem) (size : Nat) : Mem :=
  if m.data.size < size then { m with data := m.data ++ Array.replicate (size - m.data.size) (0 : UInt8) } else m

def gasMagnification : Nat := 30

/-- the quadratic memory fee `3w + w²/512` in exact arithmetic -/
def cmem (w : Nat) : Nat := 3 * w + w * w / 512

/-- `memoryGasCost(mem, newMemSize)`; `none` = `ErrGasUintOverflow`.
    Returns the fee and the memory with `lastGasCost` updated. -/
def memoryGasCost (p26 : Bool) (m : Mem) (newMemSize : Nat) : Option (Nat × Mem) :=
  if newMemSize = 0 then some (0, m)
  else if newMemSize > 0x1FFFFFFFE0 then none
  else
    let words := toWordSize newMemSize
    let newSize := wmul words 32
    if newSize > m.size then
      let square := wmul words words
      let linCoef := wmul words 3
      let quadCoef := square / 512
      let newTotalFee := wadd linCoef quadCoef
      let fee := wsub newTotalFee m.lastGasCost
      let m' := { m with lastGasCost := newTotalFee }
      if p26 then some (wmul fee gasMagnification, m') else some (fee, m')
    else some (0, m)

/-- Proposal026 magnification of a dynamic cost with the overflow check of the
    `fix:` commit (`utility.SafeMul`); `none` = `ErrGasUintOverflow`. -/
def magnify (p26 : Bool) (gas : Nat) : Option Nat :=
  if p26 then
    let r := safeMul gas gasMagnification
    if r.2 then none else some r.1
  else some gas

/-- `callGas(isEip150 = true, availableGas, base, callCost)` of gas.go -/
def callGas (availableGas base : Nat) (callCost : Word) : Nat :=
  let avail := wsub availableGas base
  let gas := wsub avail (avail / 64)
  if ¬ callCost < 2 ^ 64 ∨ gas < callCost then gas else callCost

/-- `authCallGas(availableGas, base, callCost)` of gas.go -/
def authCallGas (availableGas base : Nat) (callCost : Word) : Nat :=
  let avail := wsub availableGas base
  let gas := wsub avail (avail / 64)
  if ¬ callCost < 2 ^ 64 ∨ callCost = 0 then gas
  else if gas < callCost then gas else callCost

/-- bit length of a word (`uint256.Int.BitLen`) -/
def bitLen (w : Nat) : Nat := if w = 0 then 0 else Nat.log2 w + 1

/-! ## the state oracle -/

/-- What the implementation's StateDB / precompile / block-hash callbacks were
    asked and answered, in call order: `(key, answer)`; the model replays it. -/
structure Global where
  tape : List (String × String)
  used : Nat
  rd : BA                    -- EVMInterpreter.returnData
  -- ghost observers of the run (compared with the real interpreter through hook H7-c11):
  steps : Nat := 0           -- iterations of the interpreter loop, all frames
  hwStack : Nat := 0         -- highest stack seen at an iteration head
  hwDepth : Nat := 0         -- deepest evm.depth at which a frame iterated
  deriving Inhabited

/-- a tape with nothing consumed yet -/
def Global.start (tape : List (String × String)) : Global := { tape := tape, used := 0, rd := #[] }

/-- consume the next tape entry, which must be the call `key`; its answer -/
def Global.ask (g : Global) (key : String) : Option (String × Global) :=
  match g.tape with
  | (k, a) :: t => if k == key then some (a, { g with tape := t, used := g.used + 1 }) else none
  | [] => none

def Global.tell (g : Global) (key : String) : Option Global :=
  match g.ask key with
  | some (_, g') => some g'
  | none => none

def Global.askBool (g : Global) (key : String) : Option (Bool × Global) :=
  match g.ask key with
  | some (a, g') => if a == "1" then some (true, g') else if a == "0" then some (false, g') else none
  | none => none

def hexToNat? (s : String) : Option Nat :=
  match unhex? s with
  | some b => some (beNat b)
  | none => none

def Global.askNat (g : Global) (key : String) : Option (Nat × Global) :=
  match g.ask key with
  | some (a, g') => match a.toNat? with
    | some n => some (n, g')
    | none => none
  | none => none

/-- answer is a hex byte string ("" = empty) read as a big-endian number -/
def Global.askHexNat (g : Global) (key : String) : Option (Nat × Global) :=
  match g.ask key with
  | some (a, g') => match hexToNat? a with
    | some n => some (n, g')
    | none => none
  | none => none

def Global.askBytes (g : Global) (key : String) : Option (BA × Global) :=
  match g.ask key with
  | some (a, g') => match unhex? a with
    | some b => some (b, g')
    | none => none
  | none => none

/-! ## dynamic gas -/

inductive DynRes
  | ok (cost : Nat) (m : Mem) (g : Global) (callGasTemp : Nat)
  | err (g : Global)          -- any error of a gas function becomes ErrOutOfGas in Run
  | desync (expected : String)

structure GasCfg where
  p15 : Bool
  p26 : Bool
  deriving Inhabited, Repr

/-- memory fee + per-word fee on the length operand at `pos`, then magnified
    (memoryCopierGas / gasSha3 / gasCreate2 share this shape) -/
def wordCopyGas (p26 : Bool) (m : Mem) (memorySize : Nat) (lenWord : Word) (perWord : Nat) : Option (Nat × Mem) :=
  match memoryGasCost p26 m memorySize with
  | none => none
  | some (gas, m') =>
    if ¬ lenWord < 2 ^ 64 then none else
    let w := safeMul (toWordSize lenWord) perWord
    if w.2 then none else
    let s := safeAdd gas w.1
    if s.2 then none else
    match magnify p26 s.1 with
    | none => none
    | some r => some (r, m')

def logGas (p26 : Bool) (n : Nat) (m : Mem) (memorySize : Nat) (requested : Word) : Option (Nat × Mem) :=
  if ¬ requested < 2 ^ 64 then none else
  match memoryGasCost p26 m memorySize with
  | none => none
  | some (gas, m') =>
    let a := safeAdd gas 375
    if a.2 then none else
    let b := safeAdd a.1 (wmul n 375)
    if b.2 then none else
    let c := safeMul requested 8
    if c.2 then none else
    let d := safeAdd b.1 c.1
    if d.2 then none else
    match magnify p26 d.1 with
    | none => none
    | some r => some (r, m')

def expGas (p26 : Bool) (perByte : Nat) (exponent : Word) : Option Nat :=
  let expByteLen := (bitLen (exponent % W256) + 7) / 8      -- a uint256 holds its value mod 2^256
  let gas := wmul expByteLen perByte
  let s := safeAdd gas 10
  if s.2 then none else
  if p26 then some (wmul s.1 gasMagnification) else some s.1

/-- finish a call-family gas function: 63/64 rule, then add the forwarded gas -/
def finishCall (contractGas base : Nat) (callCost : Word) (m : Mem) (g : Global) : DynRes :=
  let cgt := callGas contractGas base callCost
  let s := safeAdd base cgt
  if s.2 then .err g else .ok s.1 m g cgt

def dynGas (c : GasCfg) (f : DynFn) (s : List Word) (m : Mem) (memorySize : Nat)
    (contractGas : Nat) (self : Nat) (g : Global) : DynRes :=
  match f with
  | .none => .ok 0 m g 0
  | .unknown => .err g
  | .pureMem =>
    match memoryGasCost c.p26 m memorySize with
    | none => .err g
    | some (gas, m') => .ok gas m' g 0
  | .copier pos =>
    match wordCopyGas c.p26 m memorySize (back s pos) 3 with
    | none => .err g
    | some (gas, m') => .ok gas m' g 0
  | .sha3 =>
    match wordCopyGas c.p26 m memorySize (back s 1) 6 with
    | none => .err g
    | some (gas, m') => .ok gas m' g 0
  | .create2 =>
    match wordCopyGas c.p26 m memorySize (back s 2) 6 with
    | none => .err g
    | some (gas, m') => .ok gas m' g 0
  | .sstore | .sstore2200 =>
    if c.p26 then .ok (20000 * gasMagnification) m g 0
    else if c.p15 then .ok 20000 m g 0 else .ok 0 m g 0
  | .log n =>
    match logGas c.p26 n m memorySize (back s 1) with
    | none => .err g
    | some (gas, m') => .ok gas m' g 0
  | .expFrontier =>
    match expGas c.p26 10 (back s 1) with
    | none => .err g
    | some gas => .ok gas m g 0
  | .expEIP158 =>
    match expGas c.p26 50 (back s 1) with
    | none => .err g
    | some gas => .ok gas m g 0
  | .call =>
    let transfersValue := back s 2 ≠ 0
    let address := addrOf (back s 1)
    -- `transfersValue && evm.StateDB.Empty(address)` : Empty is asked only when value ≠ 0
    let r : Option (Nat × Global) :=
      if transfersValue then
        match g.askBool ("em:" ++ hexAddr address) with
        | some (e, g') => some ((if e then 25000 else 0) + 9000, g')
        | none => none
      else some (0, g)
    match r with
    | none => .desync ("em:" ++ hexAddr address)
    | some (gas, g') =>
      match memoryGasCost c.p26 m memorySize with
      | none => .err g'
      | some (memGas, m') =>
        let a := safeAdd gas memGas
        if a.2 then .err g' else finishCall contractGas a.1 (back s 0) m' g'
  | .callcode =>
    match memoryGasCost c.p26 m memorySize with
    | none => .err g
    | some (memGas, m') =>
      let gas := if back s 2 ≠ 0 then 9000 else 0
      let a := safeAdd gas memGas
      if a.2 then .err g else finishCall contractGas a.1 (back s 0) m' g
  | .delegatecall | .staticcall =>
    match memoryGasCost c.p26 m memorySize with
    | none => .err g
    | some (memGas, m') => finishCall contractGas memGas (back s 0) m' g
  | .selfdestruct =>
    let address := addrOf (back s 0)
    match g.askBool ("em:" ++ hexAddr address) with
    | none => .desync ("em:" ++ hexAddr address)
    | some (empty, g1) =>
      let r : Option (Nat × Global) :=
        if empty then
          match g1.askHexNat ("gb:" ++ hexAddr self) with
          | some (bal, g2) => some (if bal ≠ 0 then 5000 + 25000 else 5000, g2)
          | none => none
        else some (5000, g1)
      match r with
      | none => .desync ("gb:" ++ hexAddr self)
      | some (gas, g2) =>
        match g2.askBool ("hs:" ++ hexAddr self) with
        | none => .desync ("hs:" ++ hexAddr self)
        | some (suicided, g3) =>
          if suicided then .ok gas m g3 0
          else match g3.tell "ar:24000" with
            | none => .desync "ar:24000"
            | some g4 => .ok gas m g4 0
  | .authcall =>
    let transfersValue := back s 3 ≠ 0
    let address := addrOf (back s 2)
    match memoryGasCost c.p26 m memorySize with
    | none => .err g
    | some (memGas, m') =>
      match g.askBool ("ial:" ++ hexAddr address) with
      | none => .desync ("ial:" ++ hexAddr address)
      | some (inList, g1) =>
        let r1 : Option (Nat × Global) :=
          if inList then some (memGas, g1)
          else match g1.tell ("aal:" ++ hexAddr address) with
            | some g2 => some (wadd memGas 2500, g2)
            | none => none
        match r1 with
        | none => .desync ("aal:" ++ hexAddr address)
        | some (d1, g2) =>
          let r2 : Option (Nat × Global) :=
            if transfersValue then
              match g2.askBool ("em:" ++ hexAddr address) with
              | some (e, g3) => some (wadd (wadd d1 6700) (if e then 25000 else 0), g3)
              | none => none
            else some (d1, g2)
          match r2 with
          | none => .desync ("em:" ++ hexAddr address)
          | some (d2, g3) =>
            let cgt := authCallGas contractGas d2 (back s 1)
            let a := safeAdd d2 cgt
            if a.2 then .err g3 else .ok a.1 m' g3 cgt

end Rangers.Evm11
