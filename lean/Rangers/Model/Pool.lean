import Rangers.Basic.Hex
/-!
# Model of the go-rangers transaction pool (property C17)

Transcribes, as total computable core-Lean definitions,
`src/service/transaction_pool.go` (`TxPool`: add / AddTransaction / PackForCast /
checkNonce / MarkExecuted / UnMarkExecuted / GetTransaction / IsExisted / GetGateNonce),
`src/service/simple_container.go` (`simpleContainer`: push with limit, remove, growRing) and
`src/middleware/types/transaction.go` (`Transactions.Less` for every proposal set, with its
`panic("equal hash")` branch), plus `common.FromHex` / `common.HexToAddress` as far as
`Less` and `checkNonce` use them.

What is *code as it is* (defects included):
* `push` drops silently when the container is full, `add` still answers `ok`.
* `MarkExecuted` writes records only for receipts; a receipt whose hash has no transaction in
  the block's list makes `refreshGateNonce(nil)` panic after the record was put into the shared
  batch (it is then written by the next successful `MarkExecuted`).
* gate nonces put by `AddTransaction` stay in the shared batch until the next block is marked.
* the nonce walk is keyed by the `Source` *string* while the state nonce is read at
  `HexToAddress(Source)` (left-aligned copy for short inputs, last 20 bytes for long ones).
* expected nonce arithmetic is `uint64` (wraps).

`sort.Sort` is modelled by Go's insertion sort (`insertionSort` in package sort, used for
slices of at most 12 elements and the leaf case of pdqsort): element `i` moves left while
`Less(i, i-1)`. For longer slices the result of pdqsort coincides with it whenever `Less`
is a strict total order on the elements present; the driver answers `unmodelled` otherwise
(see `sortDetermined`). The theorems in `Props/C17.lean` that speak about order are stated
for *every* permutation of the pending list that is sorted w.r.t. `Less`, so they do not
depend on the algorithm.
-/
namespace Rangers.Pool
open Rangers

/-- Fork flags read by `PackForCast` (`IsProposal018`) and `Transactions.Less` (016/021/023). -/
structure Cfg where
  p016 : Bool
  p018 : Bool
  p021 : Bool
  p023 : Bool
  deriving DecidableEq, Repr

/-- The fields of `types.Transaction` the pool looks at. `tag` stands for the identity of the
Go object (the pool stores pointers); `gate` is `SubTransactions[0].Address` when there is
exactly one sub-transaction and 0 otherwise (what `refreshGateNonce` reads). -/
structure Tx where
  tag : Nat
  hash : Nat
  src : Bytes
  nonce : Nat
  req : Nat
  gate : Nat
  deriving DecidableEq, Repr

def u64 : Nat := 18446744073709551616

/-! ## common.FromHex / HexToAddress -/

def hexNib? (b : UInt8) : Option Nat :=
  let n := b.toNat
  if 48 ≤ n ∧ n ≤ 57 then some (n - 48)
  else if 97 ≤ n ∧ n ≤ 102 then some (n - 87)
  else if 65 ≤ n ∧ n ≤ 70 then some (n - 55)
  else none

/-- `hex.DecodeString` with the error dropped (`Hex2Bytes`): the bytes decoded before the
first invalid character. Input length is even at the only call site. -/
def decodePairs : List UInt8 → Bytes
  | a :: b :: rest =>
    match hexNib? a, hexNib? b with
    | some x, some y => UInt8.ofNat (x * 16 + y) :: decodePairs rest
    | _, _ => []
  | _ => []

def has0x (s : Bytes) : Bool :=
  match s with
  | a :: b :: _ => a == 48 && (b == 120 || b == 88)
  | _ => false

/-- `common.FromHex`. -/
def fromHex (s : Bytes) : Bytes :=
  if s.length > 1 then
    let s1 := if has0x s then s.drop 2 else s
    let s2 := if s1.length % 2 == 1 then (48 : UInt8) :: s1 else s1
    decodePairs s2
  else []

/-- `new(big.Int).SetBytes(common.FromHex(Source))`. -/
def srcVal (s : Bytes) : Nat := beToNat (fromHex s)

/-- `common.HexToAddress(Source)` as a number: `Address.SetBytes` keeps the last 20 bytes of a
longer input and copies a shorter one to the *front* of the zeroed array. -/
def addrOf (s : Bytes) : Nat :=
  let b := fromHex s
  if b.length > 20 then beToNat (b.drop (b.length - 20))
  else beToNat (b ++ List.replicate (20 - b.length) 0)

/-! ## Transactions.Less -/

/-- Outcome of one `Less(i, j)` call. -/
inductive Cmp where
  | lt      -- returned true
  | ge      -- returned false
  | panic   -- `panic("equal hash: …")`
  deriving DecidableEq, Repr

def Cmp.ofBool (b : Bool) : Cmp := if b then .lt else .ge

def lessRes (c : Cfg) (a b : Tx) : Cmp :=
  if a.req = 0 ∧ b.req = 0 then
    if c.p023 then
      if a.src = b.src then
        if a.nonce ≠ b.nonce then Cmp.ofBool (decide (a.nonce < b.nonce))
        else if a.hash = b.hash then .panic
        else Cmp.ofBool (decide (b.hash < a.hash))
      else Cmp.ofBool (decide (srcVal b.src < srcVal a.src))
    else if c.p021 then
      if a.src = b.src then Cmp.ofBool (decide (a.nonce < b.nonce))
      else Cmp.ofBool (decide (srcVal b.src < srcVal a.src))
    else if c.p016 ∧ a.src = b.src then Cmp.ofBool (decide (a.nonce < b.nonce))
    else Cmp.ofBool (decide (b.hash < a.hash))
  else Cmp.ofBool (decide (a.req < b.req))

/-- `Less` as a Boolean (panic counted as `false`; use only where `lessRes ≠ panic` is known). -/
def less (c : Cfg) (a b : Tx) : Bool := lessRes c a b == .lt

/-! ## sort.Sort (insertion sort of package sort) -/

/-- The sorted prefix is kept reversed (last element first); `x` moves left while `Less(x, y)`. -/
def insRev (c : Cfg) (x : Tx) : List Tx → Option (List Tx)
  | [] => some [x]
  | y :: ys =>
    match lessRes c x y with
    | .lt => (insRev c x ys).map (fun r => y :: r)
    | .ge => some (x :: y :: ys)
    | .panic => none

def sortRev (c : Cfg) : List Tx → List Tx → Option (List Tx)
  | [], acc => some acc
  | x :: xs, acc =>
    match insRev c x acc with
    | some acc' => sortRev c xs acc'
    | none => none

/-- `sort.Sort(types.Transactions(l))`; `none` = a comparison panicked. -/
def goSort (c : Cfg) (l : List Tx) : Option (List Tx) := (sortRev c l []).map List.reverse

/-- `l` is strictly increasing for `Less` on *every* pair (and `Less` is asymmetric on it): then
`Less` restricted to these elements is a strict total order and every correct comparison sort
returns exactly `l`. -/
def strictChain (c : Cfg) : List Tx → Bool
  | [] => true
  | x :: xs => xs.all (fun y => lessRes c x y == .lt && lessRes c y x == .ge) && strictChain c xs

/-- When does the model's sort determine what `sort.Sort` (pdqsort) returns? -/
def sortDetermined (c : Cfg) (input sorted : List Tx) : Bool :=
  decide (input.length ≤ 12) || strictChain c sorted

/-! ## checkNonce -/

abbrev NonceMap := List (Bytes × Nat)

def nmGet (m : NonceMap) (s : Bytes) : Option Nat :=
  match m with
  | [] => none
  | (k, v) :: r => if k = s then some v else nmGet r s

def nmSet (m : NonceMap) (s : Bytes) (v : Nat) : NonceMap :=
  match m with
  | [] => [(s, v)]
  | (k, w) :: r => if k = s then (k, v) :: r else (k, w) :: nmSet r s v

/-- `nonceMap[src]`, falling back to `stateDB.GetNonce(HexToAddress(src))`. -/
def expectedOf (σ : Nat → Nat) (m : NonceMap) (s : Bytes) : Nat :=
  match nmGet m s with
  | some e => e
  | none => σ (addrOf s)

/-- The loop of `checkNonce` over the sorted slice; first argument = how many more
transactions may be appended before `len(packedTxs) >= txCountPerBlock` breaks the loop. -/
def walk (σ : Nat → Nat) : Nat → NonceMap → List Tx → List Tx
  | _, _, [] => []
  | 0, _, _ :: _ => []
  | k + 1, m, t :: ts =>
    if t.req = 0 then
      let e := expectedOf σ m t.src
      let m1 := nmSet m t.src e
      if e < t.nonce then walk σ (k + 1) m1 ts
      else if e = t.nonce then t :: walk σ k (nmSet m1 t.src ((e + 1) % u64)) ts
      else t :: walk σ k m1 ts
    else t :: walk σ k m ts

/-! ## simpleContainer and TxPool state -/

structure Entry where
  tx : Tx
  ring : Nat
  deriving DecidableEq, Repr

/-- One pending operation of the shared `pool.batch`. -/
inductive BOp where
  | putTx (h : Nat) (tx : Option Tx) (z : Nat)  -- executed record for hash `h` (marshalled tx, `z` bytes of JSON)
  | putGate (n : Nat)                           -- 8 bytes
  deriving DecidableEq, Repr

structure Pool where
  limit : Nat
  pending : List Entry                 -- gmap.ListMap in insertion order (+ ring of txAnnualRingMap)
  executed : List (Nat × Option Tx)    -- LevelDB "tx": hash ↦ record
  gate : Nat                           -- value under key "tx" (0 = absent)
  batch : List BOp
  evicted : List Nat := []             -- `evictedTxs` LRU (hashicorp/golang-lru), most recently used first
  detached : Bool := false             -- `Clear()` ran: `executed` was replaced, `batch` still writes to the old store
  shared : Bool := false               -- `executed` is the prefixed store "tx" of the shared LevelDB (after `Clear()`)
  deriving Repr

def Pool.empty (limit : Nat) : Pool := { limit := limit, pending := [], executed := [], gate := 0, batch := [] }

def rcvTxPoolSize : Nat := 50000
def txCountPerBlock : Nat := 200
def expiredRing : Nat := 5
def txCacheSize : Nat := 1000
/-- `100*1024`: `MarkExecuted` writes the batch inside its loop once `ValueSize()` exceeds this. -/
def batchWriteThreshold : Nat := 102400

def Pool.hashes (s : Pool) : List Nat := s.pending.map (fun e => e.tx.hash)
def Pool.txs (s : Pool) : List Tx := s.pending.map (fun e => e.tx)
def Pool.execHashes (s : Pool) : List Nat := s.executed.map (fun r => r.1)

def Pool.contains (s : Pool) (h : Nat) : Bool := s.hashes.contains h
def Pool.isExecuted (s : Pool) (h : Nat) : Bool := s.execHashes.contains h
/-- `isTransactionExisted`. -/
def Pool.existed (s : Pool) (h : Nat) : Bool := s.contains h || s.isExecuted h

/-- `simpleContainer.push` for a hash that is not in the container (the only way `add` calls it). -/
def Pool.push (s : Pool) (tx : Tx) : Pool :=
  if s.pending.length < s.limit then { s with pending := s.pending ++ [⟨tx, 0⟩] } else s

inductive AddRes where
  | ok | exist
  deriving DecidableEq, Repr

/-- `TxPool.add` for a non-nil transaction. -/
def Pool.add (s : Pool) (tx : Tx) : Pool × AddRes :=
  if s.existed tx.hash then (s, .exist) else (s.push tx, .ok)

def Pool.refreshGate (s : Pool) (tx : Tx) : Pool :=
  if tx.gate ≠ 0 then { s with batch := s.batch ++ [.putGate tx.gate] } else s

/-- `TxPool.AddTransaction`. -/
def Pool.addTransaction (s : Pool) (tx : Tx) : Pool × AddRes :=
  match s.add tx with
  | (s', .ok) => (s'.refreshGate tx, .ok)
  | (s', .exist) => (s', .exist)

/-- `simpleContainer.remove`. -/
def Pool.removeHashes (s : Pool) (hs : List Nat) : Pool :=
  { s with pending := s.pending.filter (fun e => !hs.contains e.tx.hash) }

def execPut (ex : List (Nat × Option Tx)) (h : Nat) (v : Option Tx) : List (Nat × Option Tx) :=
  (h, v) :: ex.filter (fun r => r.1 != h)

def execDel (ex : List (Nat × Option Tx)) (h : Nat) : List (Nat × Option Tx) :=
  ex.filter (fun r => r.1 != h)

/-- One record of a physical batch write. After `Clear()` the batch is still bound to the store that
nobody reads any more: its writes are invisible. -/
def applyBOp (s : Pool) : BOp → Pool
  | .putTx h v _ => if s.detached then s else { s with executed := execPut s.executed h v }
  | .putGate n => if s.detached then s else { s with gate := n }

/-- `batch.Write(); batch.Reset()`. -/
def Pool.flush (s : Pool) : Pool :=
  { (s.batch.foldl applyBOp s) with batch := [] }

/-- `batch.ValueSize()`: bytes of values put since the last `Reset`. -/
def bsize : List BOp → Nat
  | [] => 0
  | .putTx _ _ z :: r => z + bsize r
  | .putGate _ :: r => 8 + bsize r

/-- `findTxInList(txs, hash, receiptIndex)`. -/
def findTx (txs : List Tx) (h : Nat) (i : Nat) : Option Tx :=
  match txs[i]? with
  | some t => if t.hash = h then some t else txs.find? (fun t => t.hash == h)
  | none => txs.find? (fun t => t.hash == h)

/-- How a `MarkExecuted` call ended. -/
inductive MarkRes where
  | ok
  | panic   -- receipt without transaction: nil dereference in `refreshGateNonce`
  | crash   -- process death right before a physical batch write (write gate of the harness)
  deriving DecidableEq, Repr

/-- The receipt loop of `MarkExecuted`. `rs` = (receipt hash, byte size of its JSON record); `i` = receipt
index; `ws` = number of records of each physical write done so far (newest first); `crashAt = some k`:
the process dies right before the `k`-th physical write of this call. -/
def markLoop (txs : List Tx) (crashAt : Option Nat) : List (Nat × Nat) → Nat → List Nat → Pool → Pool × List Nat × MarkRes
  | [], _, ws, s => (s, ws, .ok)
  | (h, z) :: rs, i, ws, s =>
    match findTx txs h i with
    | none => ({ s with batch := s.batch ++ [.putTx h none z] }, ws, .panic)
    | some t =>
      let s1 : Pool := { s with batch := s.batch ++ [.putTx h (some t) z] }
      if bsize s1.batch > batchWriteThreshold then
        if crashAt = some (ws.length + 1) then (s1, ws, .crash)
        else markLoop txs crashAt rs (i + 1) (s1.batch.length :: ws) (s1.flush.refreshGate t)
      else markLoop txs crashAt rs (i + 1) ws (s1.refreshGate t)

/-- `lru.Cache.Add`: an existing key moves to the front, a new one may push out the oldest. -/
def lruAdd (cap : Nat) (l : List Nat) (h : Nat) : List Nat :=
  let l' := h :: l.filter (fun x => x != h)
  if l'.length > cap then l'.dropLast else l'

def lruRemove (l : List Nat) (h : Nat) : List Nat := l.filter (fun x => x != h)

def Pool.evictAll (s : Pool) (hs : List Nat) : Pool :=
  { s with evicted := hs.foldl (lruAdd txCacheSize) s.evicted }

/-- `TxPool.MarkExecuted(header, receipts, txs, evicted)` in full: `rs` = the receipts' (tx hash, record size).
Returns the state, the record counts of the physical writes (oldest first) and how the call ended. -/
def Pool.markExecutedZ (s : Pool) (rs : List (Nat × Nat)) (txs : List Tx) (evicted : List Nat) (crashAt : Option Nat) :
    Pool × List Nat × MarkRes :=
  if rs = [] then ((s.evictAll evicted).removeHashes evicted, [], .ok)
  else
    match markLoop txs crashAt rs 0 [] s with
    | (s1, ws, .ok) =>
      if bsize s1.batch > 0 then
        if crashAt = some (ws.length + 1) then (s1, ws.reverse, .crash)
        else (((s1.flush).evictAll evicted).removeHashes (rs.map (·.1) ++ evicted), (s1.batch.length :: ws).reverse, .ok)
      else ((s1.evictAll evicted).removeHashes (rs.map (·.1) ++ evicted), ws.reverse, .ok)
    | (s1, ws, r) => (s1, ws.reverse, r)

/-- `MarkExecuted` without a crash, record sizes not given (taken as 1 byte: a JSON record is never empty).
The size-aware function agrees with it, for every choice of sizes, on everything but where inside the call
the writes happen (`Proofs/PoolInv.markExecutedZ_ok`). Second component: the call panicked. -/
def Pool.markExecuted (s : Pool) (receipts : List Nat) (txs : List Tx) (evicted : List Nat) : Pool × Bool :=
  match s.markExecutedZ (receipts.map (fun h => (h, 1))) txs evicted none with
  | (s', _, r) => (s', r != .ok)

/-- `MarkExecuted` when the end-of-block `batch.Write()` *returns an error* (store closed, disk full): the code
drops the error (generated fact `droppedErrors`), resets the batch and carries on with the removal. Modelled from
the source; there is no injection point on the real pool without a further hook, so the tie is the fact only. -/
def Pool.markExecutedWriteError (s : Pool) (rs : List (Nat × Nat)) (txs : List Tx) (evicted : List Nat) : Pool :=
  match markLoop txs none rs 0 [] s with
  | (s1, _, _) => ((({ s1 with batch := [] } : Pool)).evictAll evicted).removeHashes (rs.map (·.1) ++ evicted)

def Pool.delExec (s : Pool) (h : Nat) : Pool := { s with executed := execDel s.executed h }

/-- `TxPool.UnMarkExecuted(block)`: `txs` = `block.Transactions`, `evicted` = `header.EvictedTxs`. -/
def Pool.unmarkE (s : Pool) (txs : List Tx) (evicted : List Nat) : Pool :=
  if txs = [] then s
  else txs.foldl (fun s t => ((s.delExec t.hash).add t).1) { s with evicted := evicted.foldl lruRemove s.evicted }

/-- The part of `UnMarkExecuted` the property is about (executed records deleted, transactions re-added). -/
def Pool.unmark (s : Pool) (txs : List Tx) : Pool :=
  txs.foldl (fun s t => ((s.delExec t.hash).add t).1) s

/-- `TxPool.Clear()`: `db.NewDatabase("tx")` (a prefixed view of the node's shared LevelDB) replaces `executed`.
The first time this is an empty store, and the batch stays bound to the old one, so no record ever reaches
what the pool reads. A later `Clear()` opens the same shared store again. The batch is reset, the container renewed. -/
def Pool.clear (s : Pool) : Pool :=
  if s.shared then { s with batch := [], pending := [], limit := rcvTxPoolSize }
  else { s with executed := [], gate := 0, batch := [], pending := [], limit := rcvTxPoolSize, detached := true, shared := true }

/-- Process restart of the pool (`VerifC05RestartTxPool`): everything in memory is gone, the store stays. -/
def Pool.restart (s : Pool) : Pool :=
  { s with pending := [], batch := [], evicted := [], limit := rcvTxPoolSize, detached := false }

/-- `simpleContainer.growRing`. -/
def Pool.expire (s : Pool) : Pool :=
  let grown := s.pending.map (fun e => ({ e with ring := e.ring + 1 } : Entry))
  { s with pending := grown.filter (fun e => decide (e.ring < expiredRing)) }

/-- `PackForCast`: `none` = `sort.Sort` panicked inside `Less`. -/
def Pool.pack (c : Cfg) (σ : Nat → Nat) (s : Pool) : Option (List Tx) :=
  if c.p018 then
    match goSort c s.txs with
    | some sorted => some ((walk σ txCountPerBlock [] sorted).take txCountPerBlock)
    | none => none
  else some (s.txs.take txCountPerBlock)

inductive GetRes where
  | pending (t : Tx)
  | executed (t : Option Tx)
  | nil
  deriving DecidableEq, Repr

def execGet (ex : List (Nat × Option Tx)) (h : Nat) : Option (Option Tx) :=
  match ex with
  | [] => none
  | (k, v) :: r => if k = h then some v else execGet r h

/-- `GetTransaction(hash)`. -/
def Pool.get (s : Pool) (h : Nat) : GetRes :=
  match s.pending.find? (fun e => e.tx.hash == h) with
  | some e => .pending e.tx
  | none =>
    match execGet s.executed h with
    | some v => .executed v
    | none => .nil

end Rangers.Pool
