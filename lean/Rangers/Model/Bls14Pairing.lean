import Rangers.Model.Bls14G2
/-!
C14 model, part 7: the optimal-ate pairing of `bn256` as executable Lean — the tower
GF(p²) ⊂ GF(p⁶) ⊂ GF(p¹²) (`gfp2.go`, `gfp6.go`, `gfp12.go`), the line functions, `mulLine`, the
Miller loop over the NAF of `6u+2` with the two Frobenius corrections and the final exponentiation
(`optate.go`), `GT.Marshal`, and `PairIsEuqal`. All constants come from the translator
(Montgomery-decoded). With it the comparison `PairIsEuqal(Pair(σ,g₂), Pair(H(m),pk))` — the last
oracle field of `verify` lines — is computed by the model itself (`pairEqModel`), and every
layer is tied to the real code through the exported API (`Pair`, `Miller`, `GT.Add`,
`GT.ScalarMult`, `GT.Neg`, `GT.Finalize`, `GT.Unmarshal/Marshal`).
Values are the reduced residues; where the Go code uses Karatsuba / complex squaring the model uses
the same formulas or plain multiplication (equal as field elements, hence as reduced residues).
NOT proved: bilinearity / non-degeneracy (they remain hypotheses of `Props/C14U`).
-/
namespace Rangers.Model.Bls14
open Rangers
open Rangers.Generated.Bls14

namespace F2
def one : F2 := ⟨0, 1⟩
def conj (a : F2) : F2 := ⟨fneg a.x, a.y⟩
def mulScalar (a : F2) (b : Nat) : F2 := ⟨fmul a.x b, fmul a.y b⟩
/-- `MulXi`: multiply by ξ = i + 3. -/
def mulXi (a : F2) : F2 :=
  ⟨fadd (fadd (fadd a.x a.x) a.x) a.y, fsub (fadd (fadd a.y a.y) a.y) a.x⟩
def dbl (a : F2) : F2 := add a a
end F2

/-- GF(p⁶) element `x τ² + y τ + z`, τ³ = ξ. -/
structure F6 where
  x : F2
  y : F2
  z : F2
deriving DecidableEq, Repr, Inhabited

namespace F6
def zero : F6 := ⟨F2.zero, F2.zero, F2.zero⟩
def one : F6 := ⟨F2.zero, F2.zero, F2.one⟩
def neg (a : F6) : F6 := ⟨a.x.neg, a.y.neg, a.z.neg⟩
def add (a b : F6) : F6 := ⟨a.x.add b.x, a.y.add b.y, a.z.add b.z⟩
def sub (a b : F6) : F6 := ⟨a.x.sub b.x, a.y.sub b.y, a.z.sub b.z⟩
/-- `gfP6.Mul` (Karatsuba as in the code). -/
def mul (a b : F6) : F6 :=
  let v0 := a.z.mul b.z
  let v1 := a.y.mul b.y
  let v2 := a.x.mul b.x
  let tz := ((((a.x.add a.y).mul (b.x.add b.y)).sub v1).sub v2).mulXi.add v0
  let ty := ((((a.y.add a.z).mul (b.y.add b.z)).sub v0).sub v1).add v2.mulXi
  let tx := ((((a.x.add a.z).mul (b.x.add b.z)).sub v0).add v1).sub v2
  ⟨tx, ty, tz⟩
def sq (a : F6) : F6 := mul a a
def mulScalar (a : F6) (b : F2) : F6 := ⟨a.x.mul b, a.y.mul b, a.z.mul b⟩
def mulGFP (a : F6) (b : Nat) : F6 := ⟨a.x.mulScalar b, a.y.mulScalar b, a.z.mulScalar b⟩
def mulTau (a : F6) : F6 := ⟨a.y, a.z, a.x.mulXi⟩
def frobenius (a : F6) : F6 :=
  ⟨a.x.conj.mul ⟨xiTo2PMinus2Over3X, xiTo2PMinus2Over3Y⟩,
   a.y.conj.mul ⟨xiToPMinus1Over3X, xiToPMinus1Over3Y⟩, a.z.conj⟩
def frobeniusP2 (a : F6) : F6 :=
  ⟨a.x.mulScalar xiTo2PSquaredMinus2Over3, a.y.mulScalar xiToPSquaredMinus1Over3, a.z⟩
def frobeniusP4 (a : F6) : F6 :=
  ⟨a.x.mulScalar xiToPSquaredMinus1Over3, a.y.mulScalar xiTo2PSquaredMinus2Over3, a.z⟩
/-- `gfP6.Invert`. -/
def inv (a : F6) : F6 :=
  let A := a.z.sq.sub (a.x.mul a.y).mulXi
  let B := a.x.sq.mulXi.sub (a.y.mul a.z)
  let C := a.y.sq.sub (a.x.mul a.z)
  let F := (((C.mul a.y).mulXi).add (A.mul a.z)).add ((B.mul a.x).mulXi)
  let Fi := F.inv
  ⟨C.mul Fi, B.mul Fi, A.mul Fi⟩
end F6

/-- GF(p¹²) element `x ω + y`, ω² = τ. -/
structure F12 where
  x : F6
  y : F6
deriving DecidableEq, Repr, Inhabited

namespace F12
def one : F12 := ⟨F6.zero, F6.one⟩
def conj (a : F12) : F12 := ⟨a.x.neg, a.y⟩
def mul (a b : F12) : F12 :=
  ⟨(a.x.mul b.y).add (b.x.mul a.y), (a.y.mul b.y).add ((a.x.mul b.x).mulTau)⟩
def sq (a : F12) : F12 := mul a a
def frobenius (a : F12) : F12 :=
  ⟨a.x.frobenius.mulScalar ⟨xiToPMinus1Over6X, xiToPMinus1Over6Y⟩, a.y.frobenius⟩
def frobeniusP2 (a : F12) : F12 :=
  ⟨a.x.frobeniusP2.mulGFP xiToPSquaredMinus1Over6, a.y.frobeniusP2⟩
/-- `gfP12.Invert`. -/
def inv (a : F12) : F12 :=
  let t2 := (a.y.sq.sub a.x.sq.mulTau).inv
  ⟨a.x.neg.mul t2, a.y.mul t2⟩
/-- `gfP12.Exp`: MSB-first square-and-multiply. -/
def exp (a : F12) (k : Nat) : F12 :=
  (bitsLE 512 k).reverse.foldl (fun s b => if b then (sq s).mul a else sq s) one
/-- `GT.Marshal`: twelve 32-byte coordinates, x.x.x first. -/
def marshal (a : F12) : Bytes :=
  let f2 (v : F2) : Bytes := beFixed 32 v.x ++ beFixed 32 v.y
  let f6 (v : F6) : Bytes := f2 v.x ++ f2 v.y ++ f2 v.z
  f6 a.x ++ f6 a.y
end F12

/-- A twist point in the Jacobian form of `twistPoint` (`t = z²` maintained by the line functions). -/
structure TwJ where
  x : F2
  y : F2
  z : F2
  t : F2
deriving Repr, Inhabited

/-- `lineFunctionAdd(r, p, q, r2)`: mixed addition; `(a, b, c, rOut)`. `q = (qx, qy)` affine in G1. -/
def lineFunctionAdd (r : TwJ) (px py : F2) (qx qy : Nat) (r2 : F2) : F2 × F2 × F2 × TwJ :=
  let B := px.mul r.t
  let D := ((((py.add r.z).sq).sub r2).sub r.t).mul r.t
  let H := B.sub r.x
  let I := H.sq
  let E := (I.add I).dbl
  let J := H.mul E
  let L1 := (D.sub r.y).sub r.y
  let V := r.x.mul E
  let ox := ((L1.sq.sub J).sub V).sub V
  let oz := (((r.z.add H).sq).sub r.t).sub I
  let t := (V.sub ox).mul L1
  let t2 := (r.y.mul J).dbl
  let oy := t.sub t2
  let ot := oz.sq
  let t := (((py.add oz).sq).sub r2).sub ot
  let t2 := (L1.mul px).dbl
  let a := t2.sub t
  let c := (oz.mulScalar qy).dbl
  let b := (L1.neg.mulScalar qx).dbl
  (a, b, c, ⟨ox, oy, oz, ot⟩)

/-- `lineFunctionDouble(r, q)`. -/
def lineFunctionDouble (r : TwJ) (qx qy : Nat) : F2 × F2 × F2 × TwJ :=
  let A := r.x.sq
  let B := r.y.sq
  let C := B.sq
  let D := ((((r.x.add B).sq).sub A).sub C).dbl
  let E := (A.add A).add A
  let G := E.sq
  let ox := (G.sub D).sub D
  let oz := (((r.y.add r.z).sq).sub B).sub r.t
  let t := ((C.add C).dbl).dbl
  let oy := ((D.sub ox).mul E).sub t
  let ot := oz.sq
  let t := (E.mul r.t).dbl
  let b := t.neg.mulScalar qx
  let a := ((((r.x.add E).sq).sub A).sub G).sub ((B.add B).dbl)
  let c := ((oz.mul r.t).dbl).mulScalar qy
  (a, b, c, ⟨ox, oy, oz, ot⟩)

/-- `mulLine(ret, a, b, c)`. -/
def mulLine (ret : F12) (a b c : F2) : F12 :=
  let a2 := F6.mul ⟨F2.zero, a, b⟩ ret.x
  let t3 := ret.y.mulScalar c
  let t2 : F6 := ⟨F2.zero, a, b.add c⟩
  let rx := ret.x.add ret.y
  let ry := t3
  let rx := ((rx.mul t2).sub a2).sub ry
  ⟨rx, ry.add a2.mulTau⟩

/-- One iteration of the Miller loop for NAF digit `d` (`first`: no squaring before the first line). -/
def millerStep (ax ay : F2) (bx bY : Nat) (r2 : F2) (st : F12 × TwJ × Bool) (d : Int) : F12 × TwJ × Bool :=
  let (ret, r, first) := st
  let (a, b, c, newR) := lineFunctionDouble r bx bY
  let ret := if first then ret else ret.sq
  let ret := mulLine ret a b c
  let r := newR
  if d == 1 then
    let (a, b, c, newR) := lineFunctionAdd r ax ay bx bY r2
    (mulLine ret a b c, newR, false)
  else if d == -1 then
    let (a, b, c, newR) := lineFunctionAdd r ax ay.neg bx bY r2
    (mulLine ret a b c, newR, false)
  else (ret, r, false)

/-- `miller(q, p)` on the affine coordinates `(ax, ay)` of `q ∈ G2` and `(bx, by)` of `p ∈ G1`. -/
def miller (ax ay : F2) (bx bY : Nat) : F12 :=
  let r2 := ay.sq
  -- digits NAF[len-2], …, NAF[0]
  let digits := (sixuPlus2NAF.take (sixuPlus2NAF.length - 1)).reverse
  let (ret, r, _) := digits.foldl (millerStep ax ay bx bY r2) (F12.one, ⟨ax, ay, F2.one, F2.one⟩, true)
  let q1x := ax.conj.mul ⟨xiToPMinus1Over3X, xiToPMinus1Over3Y⟩
  let q1y := ay.conj.mul ⟨xiToPMinus1Over2X, xiToPMinus1Over2Y⟩
  let mq2x := ax.mulScalar xiToPSquaredMinus1Over3
  let mq2y := ay
  let (a, b, c, r) := lineFunctionAdd r q1x q1y bx bY q1y.sq
  let ret := mulLine ret a b c
  let (a, b, c, _) := lineFunctionAdd r mq2x mq2y bx bY mq2y.sq
  mulLine ret a b c

/-- `finalExponentiation`. -/
def finalExponentiation (inp : F12) : F12 :=
  let t1 := (F12.conj inp).mul inp.inv
  let t1 := t1.mul t1.frobeniusP2
  let fp := t1.frobenius
  let fp2 := t1.frobeniusP2
  let fp3 := fp2.frobenius
  let fu := t1.exp bnU
  let fu2 := fu.exp bnU
  let fu3 := fu2.exp bnU
  let y3 := fu.frobenius
  let fu2p := fu2.frobenius
  let fu3p := fu3.frobenius
  let y2 := fu2.frobeniusP2
  let y0 := (fp.mul fp2).mul fp3
  let y1 := t1.conj
  let y5 := fu2.conj
  let y3 := y3.conj
  let y4 := (fu.mul fu2p).conj
  let y6 := (fu3.mul fu3p).conj
  let t0 := (y6.sq.mul y4).mul y5
  let t1 := (y3.mul y5).mul t0
  let t0 := t0.mul y2
  let t1 := ((t1.sq).mul t0).sq
  let t0 := t1.mul y1
  let t1 := t1.mul y0
  t0.sq.mul t1

/-- `Pair(g1, g2)` = `optimalAte(g2.p, g1.p)`: one if either argument is infinity. -/
def pair (p : Pt) (q : Pt2) : F12 :=
  match p, q with
  | .aff bx bY, .aff ax ay => finalExponentiation (miller ax ay bx bY)
  | _, _ => F12.one

/-- `Miller(g1, g2)` for finite arguments. -/
def millerPt (p : Pt) (q : Pt2) : Option F12 :=
  match p, q with
  | .aff bx bY, .aff ax ay => some (miller ax ay bx bY)
  | _, _ => none

/-- `PairIsEuqal(Pair(s, q), Pair(h, k))` computed by the model: byte comparison of the marshalled
    values (= equality, all coordinates being reduced). -/
def pairEqModel : PairEq := fun s q h k => (pair s q).marshal == (pair h k).marshal

/-- `VerifySig` with nothing left to an oracle. -/
def verifyBytesFull (pkb sigb : Bytes) (hm : Pt) : Verdict := verifyBytes pairEqModel hm pkb sigb

end Rangers.Model.Bls14
