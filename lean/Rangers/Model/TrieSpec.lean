import Rangers.Model.Trie
/-
Specification-side definitions for the trie model: which keys the exported API
produces, the minimal-form invariant `WF` that `insert`/`delete` maintain, the
abstract content (`content`), histories (`Op`, `run`, `finalMap`), and the
canonical trie of a content list (`canon`).  Core Lean only.
-/
namespace Rangers.Trie
open Rangers

/-- all elements are nibbles -/
def Nibs (k : Key) : Prop := ∀ x ∈ k, x < 16

/-- a key as produced by `keybytesToHex`: nibbles then the terminator 16 -/
def ValidKey : Key → Prop
  | [] => False
  | [x] => x = 16
  | x :: y :: r => x < 16 ∧ ValidKey (y :: r)

/-- number of non-nil slots -/
def countNN : List Node → Nat
  | [] => 0
  | c :: cs => (if isNil c then 0 else 1) + countNN cs

mutual
/-- minimal form of a non-empty subtree that hangs below a nibble path:
    * a short node is a leaf (`key` ends with the terminator, child is a non-empty value) or an
      extension (nibble key, non-empty, child is a full node — never another short node);
    * a full node has 17 slots, slots 0..15 empty or well-formed subtrees, slot 16 empty or a
      non-empty value, and at least two occupied slots. -/
def WF : Node → Prop
  | .nil => False
  | .value _ => False
  | .short k v =>
    match v with
    | .value b => ValidKey k ∧ b ≠ []
    | .full cs => k ≠ [] ∧ Nibs k ∧ WF (.full cs)
    | _ => False
  | .full cs => cs.length = 17 ∧ WFslots cs 0 ∧ 2 ≤ countNN cs
def WFslots : List Node → Nat → Prop
  | [], _ => True
  | c :: cs, i => (c = .nil ∨ (if i = 16 then ∃ b, c = .value b ∧ b ≠ [] else WF c)) ∧ WFslots cs (i + 1)
end

/-- a trie root: empty or in minimal form -/
def WFRoot (t : Node) : Prop := t = .nil ∨ WF t

/-- abstract content: the value stored under a hex path -/
def content (t : Node) (k : Key) : Option Bytes := (iter t).lookup k

/-! ### histories -/

inductive Op where
  | upd (k v : Bytes)
  | del (k : Bytes)
  | get (k : Bytes)
  | hash | commit | reopen | dbcommit
  | cachelimit (n : Nat)
  | iter (start : Bytes)

/-- the model state after one op (what `Drive/C02.step` does to its state) -/
def applyOp (t : Node) : Op → Node
  | .upd k v => update t k v
  | .del k => remove t k
  | _ => t

def run (ops : List Op) : Node := ops.foldl applyOp .nil

/-- what the history says the content is: last write wins, delete and empty write remove -/
def specStep (m : Bytes → Option Bytes) : Op → (Bytes → Option Bytes)
  | .upd k v => fun k' => if k' = k then (if v = [] then none else some v) else m k'
  | .del k => fun k' => if k' = k then none else m k'
  | _ => m

def finalMap (ops : List Op) : Bytes → Option Bytes := ops.foldl specStep (fun _ => none)

/-! ### the canonical trie of a content list (Yellow Paper appendix D structure) -/

/-- longest common prefix of two keys -/
def lcp : Key → Key → Key
  | a :: as, b :: bs => if a = b then a :: lcp as bs else []
  | _, _ => []

def lcpAll : List (Key × Bytes) → Key
  | [] => []
  | [e] => e.1
  | e :: rest => lcp e.1 (lcpAll rest)

/-- the entries whose key starts with nibble `i`, with that nibble removed -/
def bucket (J : List (Key × Bytes)) (i : Nat) : List (Key × Bytes) :=
  J.filterMap (fun e => match e.1 with
    | x :: r => if x = i then some (r, e.2) else none
    | [] => none)

def dropKeys (n : Nat) (J : List (Key × Bytes)) : List (Key × Bytes) := J.map (fun e => (e.1.drop n, e.2))

/-- canonical node for the entries `J` (keys relative to the node, with terminator). -/
def canon : Nat → List (Key × Bytes) → Node
  | 0, _ => .nil
  | _ + 1, [] => .nil
  | _ + 1, [e] => if e.1 = [] then .value e.2 else .short e.1 (.value e.2)
  | f + 1, J =>
    let p := lcpAll J
    if p ≠ [] then .short p (canon f (dropKeys p.length J))
    else .full ((List.range 17).map (fun i => canon f (bucket J i)))

def height : Node → Nat
  | .nil => 0
  | .value _ => 1
  | .short _ v => height v + 1
  | .full cs => heightL cs + 1
where heightL : List Node → Nat
  | [] => 0
  | c :: cs => max (height c) (heightL cs)

end Rangers.Trie

namespace Rangers.Trie
open Rangers
/-! ### where the Go code would panic
The model functions are total; in the branches below the Go code indexes out of range,
fails a type assertion or hits `default: panic("invalid node")`.  `Props.C02.no_panic_*`
show these branches are unreachable for a minimal-form trie and a terminated key, so no
theorem about `get`/`insert`/`delete` holds thanks to a default value. -/

mutual
def getPanics : Node → Key → Bool
  | .nil, _ => false
  | .value _, _ => false
  | .short k v, key =>
    if k.length ≤ key.length ∧ key.take k.length = k then getPanics v (key.drop k.length) else false
  | .full _, [] => true                       -- key[pos] out of range
  | .full cs, i :: rest => getPanicsAt cs i rest
def getPanicsAt : List Node → Nat → Key → Bool
  | [], _, _ => true                          -- Children[i], i ≥ 17
  | c :: _, 0, rest => getPanics c rest
  | _ :: cs, i + 1, rest => getPanicsAt cs i rest
end

mutual
def insertPanics : Node → Key → Node → Bool
  | .value _, [], value =>
    match value with
    | .value _ => false
    | _ => true                                -- value.(valueNode)
  | _, [], _ => false
  | .short k v, key, value =>
    let m := prefixLen key k
    if m = k.length then insertPanics v (key.drop m) value
    else decide (key.length ≤ m) || decide (17 ≤ k.getD m 0) || decide (17 ≤ key.getD m 0)
  | .full cs, i :: rest, value => insertPanicsAt cs i rest value
  | .nil, _, _ => false
  | .value _, _ :: _, _ => true                -- default: panic("invalid node")
def insertPanicsAt : List Node → Nat → Key → Node → Bool
  | [], _, _, _ => true
  | c :: _, 0, rest, value => insertPanics c rest value
  | _ :: cs, i + 1, rest, value => insertPanicsAt cs i rest value
end

mutual
def deletePanics : Node → Key → Bool
  | .short k v, key =>
    let m := prefixLen key k
    if m < k.length then false
    else if m = key.length then false
    else deletePanics v (key.drop k.length)
  | .full _, [] => true
  | .full cs, i :: rest => deletePanicsAt cs i rest
  | .value _, _ => false
  | .nil, _ => false
def deletePanicsAt : List Node → Nat → Key → Bool
  | [], _, _ => true
  | c :: _, 0, rest => deletePanics c rest
  | _ :: cs, i + 1, rest => deletePanicsAt cs i rest
end

end Rangers.Trie
