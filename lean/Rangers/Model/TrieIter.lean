import Rangers.Model.Trie
/-
`nodeIterator` (iterator.go) as the stack machine it is, on a fully loaded trie
(resolution of hash nodes is `Model/TrieLive.expandFull`; the iterator resolves without
modifying the trie):  newNodeIterator / seek / peek / nextChild / push / pop / Next, and
`Iterator.Next` picking the leaves.  `Props/C02Iter` relates it to `Trie.iterFrom`.
Core Lean only.
-/
namespace Rangers.Trie
open Rangers

/-- `nodeIteratorState`; `next` = `index + 1` (the next child slot to look at) -/
structure Frame where
  node : Node
  next : Nat
  pathlen : Nat
deriving Inhabited

/-- `nodeIterator`: `stack` has the top first; `atEnd` = `err == errIteratorEnd` -/
structure NodeIt where
  root : Node
  stack : List Frame
  path : Key
  atEnd : Bool
deriving Inhabited

/-- first non-nil slot `i ≥ from` -/
def firstChild (cs : List Node) (frm : Nat) : Option (Nat × Node) :=
  ((List.range cs.length).filter (fun i => frm ≤ i && !isNil (cs.getD i .nil))).head?.map (fun i => (i, cs.getD i .nil))

/-- `nextChild(parent)`: (new state, new path, parent with its index set) -/
def nextChild (path : Key) (parent : Frame) : Option (Frame × Key × Frame) :=
  match parent.node with
  | .full cs =>
    (firstChild cs parent.next).map (fun r =>
      ({ node := r.2, next := 0, pathlen := path.length }, path ++ [r.1], { parent with next := r.1 }))
  | .short k v =>
    if parent.next = 0 then some ({ node := v, next := 0, pathlen := path.length }, path ++ k, parent)
    else none
  | _ => none

/-- `pop` -/
def NodeIt.pop (it : NodeIt) : NodeIt :=
  match it.stack with
  | [] => it
  | top :: rest => { it with path := it.path.take top.pathlen, stack := rest }

/-- the loop of `peek`: find the next child of the innermost frame that still has one -/
def peekLoop : Nat → NodeIt → Option (NodeIt × Frame × Key)
  | 0, _ => none
  | f + 1, it =>
    match it.stack with
    | [] => none
    | parent :: rest =>
      match nextChild it.path parent with
      | some r => some ({ it with stack := r.2.2 :: rest }, r.1, r.2.1)
      | none => peekLoop f it.pop

/-- `peek(descend)`: (iterator after the pops, new state, has a parent, new path); `none` = end -/
def NodeIt.peek (it : NodeIt) (descend : Bool) : Option (NodeIt × Frame × Bool × Key) :=
  match it.stack with
  | [] => some (it, { node := it.root, next := 0, pathlen := 0 }, false, [])
  | _ =>
    let it1 := if descend then it else it.pop
    (peekLoop (it1.stack.length + 1) it1).map (fun r => (r.1, r.2.1, true, r.2.2))

/-- `push(state, parentIndex, path)` -/
def NodeIt.push (it : NodeIt) (st : Frame) (hasParent : Bool) (path : Key) : NodeIt :=
  let stack := match it.stack, hasParent with
    | parent :: rest, true => { parent with next := parent.next + 1 } :: rest
    | s, _ => s
  { it with path := path, stack := st :: stack }

/-- lexicographic `bytes.Compare(a, b) >= 0` -/
def keyGE (a b : Key) : Bool := keyLE b a

/-- `seek(prefix)`: fuel bounds the number of pushes -/
def seekLoop (key : Key) : Nat → NodeIt → NodeIt
  | 0, it => it
  | f + 1, it =>
    match it.peek (key.take it.path.length == it.path && it.path.length ≤ key.length) with
    | none => { it with atEnd := true }
    | some r =>
      if keyGE r.2.2.2 key then r.1          -- stop just before the first path >= key
      else seekLoop key f (r.1.push r.2.1 r.2.2.1 r.2.2.2)

def nodeCount : Node → Nat
  | .nil => 1
  | .value _ => 1
  | .short _ v => nodeCount v + 1
  | .full cs => nodeCountL cs + 1
where nodeCountL : List Node → Nat
  | [] => 0
  | c :: cs => nodeCount c + nodeCountL cs

/-- `newNodeIterator(trie, start)` -/
def NodeIt.new (root : Node) (start : Bytes) : NodeIt :=
  seekLoop (hexOfBytes start) (nodeCount root + 2) { root := root, stack := [], path := [], atEnd := false }

/-- `nodeIterator.Next(true)` -/
def NodeIt.next (it : NodeIt) : NodeIt × Bool :=
  if it.atEnd then (it, false)
  else match it.peek true with
    | none => ({ it with atEnd := true }, false)
    | some r => (r.1.push r.2.1 r.2.2.1 r.2.2.2, true)

/-- `Iterator.Next` repeated: the (key, value) pairs in the order returned -/
def iterLoop : Nat → NodeIt → List (Bytes × Bytes)
  | 0, _ => []
  | f + 1, it =>
    let r := it.next
    if r.2 then
      let rest := iterLoop f r.1
      if hasTerm r.1.path then
        match r.1.stack with
        | top :: _ =>
          match top.node with
          | .value b => (hexToKeybytes r.1.path, b) :: rest
          | _ => rest           -- Go: LeafKey panics "not at leaf"; unreachable
        | [] => rest
      else rest
    else []

/-- `trie.NewIterator(t.NodeIterator(start))` drained -/
def iterMachine (root : Node) (start : Bytes) : List (Bytes × Bytes) :=
  iterLoop (nodeCount root + 2) (NodeIt.new root start)

end Rangers.Trie
