/-!
# Bit-exact IEEE-754 binary64 arithmetic for the reward formula (C01)

Non-negative finite doubles as `m · 2^e` with `m < 2^53` (normal: `2^52 ≤ m`).  Operations are the
correctly rounded (round-to-nearest, ties-to-even) ones the Go compiler emits on every supported
architecture for `float64(uint64)`, `*`, `/` — there is no fused multiply-add in the expressions of
`calculateRewardPerBlock` (`a / b * c`), so the results are the same bits everywhere.  The exponent
range is not enforced: the reward values are between 1e-9 and 1e8, far from overflow and from the
subnormal range.  `math.Pow` (inside `getTotalReward`) is *not* modelled: its result enters as a
bit pattern.  Core Lean only.
-/
namespace Rangers.Model.RewardFloat

structure F64 where
  m : Nat
  e : Int
  deriving Repr, DecidableEq, Inhabited

def two52 : Nat := 2 ^ 52
def two53 : Nat := 2 ^ 53

/-- round-half-even of `a / b` (`b > 0`) -/
def divRoundEven (a b : Nat) : Nat :=
  let q := a / b
  let r := a % b
  if 2 * r < b then q else if 2 * r > b then q + 1 else if q % 2 = 0 then q else q + 1

/-- scale a fraction by `2^(-k)`: numerator and denominator of `(a/b) / 2^k` -/
def scaled (a b : Nat) (k : Int) : Nat × Nat :=
  if k ≥ 0 then (a, b * 2 ^ k.toNat) else (a * 2 ^ (-k).toNat, b)

/-- the double nearest to the rational `a / b` (ties to even); `b > 0` -/
def roundRat (a b : Nat) : F64 :=
  if a = 0 ∨ b = 0 then ⟨0, 0⟩ else
  let k0 : Int := (Nat.log2 a : Int) - (Nat.log2 b : Int) - 52
  -- the integer part of (a/b)/2^k must land in [2^52, 2^53): k0 is off by at most one
  let pick := fun (k : Int) =>
    let (n, d) := scaled a b k
    let q := n / d
    decide (two52 ≤ q ∧ q < two53)
  let k : Int := if pick k0 then k0 else if pick (k0 - 1) then k0 - 1 else k0 + 1
  let (n, d) := scaled a b k
  let m := divRoundEven n d
  if m = two53 then ⟨two52, k + 1⟩ else ⟨m, k⟩

/-- value `n · 2^e` rounded to a double -/
def ofScaled (n : Nat) (e : Int) : F64 :=
  if e ≥ 0 then roundRat (n * 2 ^ e.toNat) 1 else roundRat n (2 ^ (-e).toNat)

/-- `float64(x)` for an unsigned integer -/
def ofNat (n : Nat) : F64 := roundRat n 1

def mul (x y : F64) : F64 := ofScaled (x.m * y.m) (x.e + y.e)

def div (x y : F64) : F64 :=
  let k := x.e - y.e
  if k ≥ 0 then roundRat (x.m * 2 ^ k.toNat) y.m else roundRat x.m (y.m * 2 ^ (-k).toNat)

/-- decode the bit pattern of a non-negative double -/
def ofBits (b : Nat) : F64 :=
  let expo := (b / two52) % 2048
  let frac := b % two52
  if expo = 0 then ⟨frac, -1074⟩ else ⟨two52 + frac, (expo : Int) - 1075⟩

/-- `⌊x · 10^k⌋` -/
def floorMulPow10 (x : F64) (k : Nat) : Nat :=
  if x.e ≥ 0 then x.m * 2 ^ x.e.toNat * 10 ^ k else x.m * 10 ^ k / 2 ^ (-x.e).toNat

/-- `utility.Float64ToBigInt`: big.Float (prec 512, exact here) times 10^18, truncated -/
def float64ToBigInt (x : F64) : Nat := floorMulPow10 x 18

/-- `math.Ceil` as an integer -/
def ceilNat (x : F64) : Nat :=
  if x.e ≥ 0 then x.m * 2 ^ x.e.toNat else
    let d := 2 ^ (-x.e).toNat
    (x.m + d - 1) / d

/-- typed float64 constants of constant_economy.go (exact constant arithmetic, then one rounding) -/
def proposerReward : F64 := roundRat 3 14
def allProposerReward : F64 := roundRat 1 2
def validatorsReward : F64 := roundRat 2 7

end Rangers.Model.RewardFloat
