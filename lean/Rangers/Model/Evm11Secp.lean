import Rangers.Model.Evm11Keccak
/-!
# C11 model: secp256k1 public-key recovery (for AUTH), executable, core Lean only.

Affine arithmetic over `Nat` with Fermat inverses; sampled against
`eth_crypto.Ecrecover` (libsecp256k1) through every AUTH the generators sign. No theorem
is about it (trusted/sampled base, like Keccak).
-/
namespace Rangers.Evm11.Secp

def P : Nat := 2 ^ 256 - 2 ^ 32 - 977
def N : Nat := 0xFFFFFFFFFFFFFFFFFFFFFFFFFFFFFFFEBAAEDCE6AF48A03BBFD25E8CD0364141
def Gx : Nat := 0x79BE667EF9DCBBAC55A06295CE870B07029BFCDB2DCE28D959F2815B16F81798
def Gy : Nat := 0x483ADA7726A3C4655DA4FBFC0E1108A8FD17B448A68554199C47D08FFB10D4B8

def modPow (b e m : Nat) : Nat :=
  let rec go (fuel : Nat) (b e acc : Nat) : Nat :=
    match fuel with
    | 0 => acc
    | f + 1 => if e = 0 then acc else go f (b * b % m) (e / 2) (if e % 2 = 1 then acc * b % m else acc)
  go 260 (b % m) e (1 % m)

def inv (a m : Nat) : Nat := modPow a (m - 2) m

abbrev Pt := Option (Nat × Nat)

def ptDouble (p : Pt) : Pt :=
  match p with
  | none => none
  | some (x, y) =>
    if y = 0 then none else
    let l := 3 * x * x % P * inv (2 * y % P) P % P
    let x3 := (l * l + 2 * P - 2 * x) % P
    let y3 := (l * ((x + P - x3) % P) + P - y) % P
    some (x3, y3)

def ptAdd (p q : Pt) : Pt :=
  match p, q with
  | none, q => q
  | p, none => p
  | some (x1, y1), some (x2, y2) =>
    if x1 = x2 then
      if (y1 + y2) % P = 0 then none else ptDouble (some (x1, y1))
    else
      let l := ((y2 + P - y1) % P) * inv ((x2 + P - x1) % P) P % P
      let x3 := (l * l + 2 * P - x1 - x2) % P
      let y3 := (l * ((x1 + P - x3) % P) + P - y1) % P
      some (x3, y3)

def ptMul (k : Nat) (p : Pt) : Pt :=
  let rec go (fuel : Nat) (k : Nat) (base acc : Pt) : Pt :=
    match fuel with
    | 0 => acc
    | f + 1 => if k = 0 then acc else go f (k / 2) (ptDouble base) (if k % 2 = 1 then ptAdd acc base else acc)
  go 257 (k % N) p none

/-- public key (x, y) recovered from a 32-byte message hash `z` and (r, s, recid ∈ {0,1}) -/
def recover (z r s : Nat) (recid : Nat) : Pt :=
  if r = 0 ∨ s = 0 ∨ r ≥ N ∨ s ≥ N then none else
  let x := r
  let rhs := (x * x % P * x + 7) % P
  let y0 := modPow rhs ((P + 1) / 4) P
  if y0 * y0 % P ≠ rhs then none else
  let y := if y0 % 2 = recid % 2 then y0 else (P - y0) % P
  let rinv := inv r N
  let u1 := (N - z % N) % N * rinv % N
  let u2 := s * rinv % N
  ptAdd (ptMul u1 (some (Gx, Gy))) (ptMul u2 (some (x, y)))

/-- address of the recovered key: last 20 bytes of keccak(x ‖ y) -/
def recoverAddress (z r s recid : Nat) : Option Nat :=
  match recover z r s recid with
  | none => none
  | some (x, y) => some (beNat ((Keccak.keccak256 (natBE 32 x ++ natBE 32 y)).extract 12 32))

end Rangers.Evm11.Secp
