import Rangers.Basic.Hex
/-!
Model of `src/core/groupchain.go` (+ `groupchain_sync.go`, the sqlite mirror of
`middleware/mysql/group_index.go`): the group chain as the node stores it.

The store is the prefixed LevelDB store `group`: RAW BYTE KEYS, exactly as in the
code — a group id, the 8-byte big-endian height, the ASCII keys `gcurrent` and
`gcount` all live in one key space (so an id that collides with an index key
behaves here as it does there). Every `Put`/`Delete` is one physical write; an
operation is described by the LIST of writes it performs, so that a crash point
is a prefix of that list. Core Lean only (the driver is a compiled executable).
-/
namespace Rangers.Model.GroupChain
open Rangers

/-- What C19 needs of `types.Group`: id, `Header.PreGroup`, `Header.Parent`,
    `GroupHeight`, and `Header.CreateHeight` as a payload that tells two groups
    with the same id apart. -/
structure Group where
  id : Bytes
  pre : Bytes
  parent : Bytes
  height : Nat
  create : Nat
  /-- `Header.DismissHeight` (block height at which the group stops working) -/
  dismiss : Nat := 0
  /-- `Members` (miner ids) -/
  members : List Bytes := []
  deriving DecidableEq, Repr, Inhabited

/-- A stored value: the JSON of a group, a group id (under `gcurrent` / a height
    key), or the 8-byte count. Reading one kind as another follows the code:
    id/count bytes are not JSON, so `getGroupById` yields nil on them. -/
inductive Val where
  | grp (g : Group)
  | ref (id : Bytes)
  | cnt (n : Nat)
  deriving DecidableEq, Repr, Inhabited

abbrev Store := List (Bytes × Val)

def sget : Store → Bytes → Option Val
  | [], _ => none
  | (k', v) :: t, k => if k' = k then some v else sget t k

def sdel (s : Store) (k : Bytes) : Store := s.filter (fun e => decide (e.1 ≠ k))

def sput (s : Store) (k : Bytes) (v : Val) : Store := (k, v) :: sdel s k

def shas (s : Store) (k : Bytes) : Bool := (sget s k).isSome

/-- One physical write. -/
inductive Write where
  | put (k : Bytes) (v : Val)
  | del (k : Bytes)
  deriving DecidableEq, Repr

def applyWrite (s : Store) : Write → Store
  | .put k v => sput s k v
  | .del k => sdel s k

def applyWrites (s : Store) (ws : List Write) : Store := ws.foldl applyWrite s

/-- The store after a crash that let only the first `k` writes through. -/
def applyPrefix (k : Nat) (s : Store) (ws : List Write) : Store := applyWrites s (ws.take k)

def u64 : Nat := 18446744073709551616

/-- `generateKey(i)` = `binary.BigEndian.PutUint64` (the argument is a uint64). -/
def hkey (n : Nat) : Bytes :=
  [UInt8.ofNat (n / 72057594037927936), UInt8.ofNat (n / 281474976710656),
   UInt8.ofNat (n / 1099511627776), UInt8.ofNat (n / 4294967296),
   UInt8.ofNat (n / 16777216), UInt8.ofNat (n / 65536), UInt8.ofNat (n / 256), UInt8.ofNat n]

/-- `"gcurrent"` -/
def curKey : Bytes := [0x67, 0x63, 0x75, 0x72, 0x72, 0x65, 0x6e, 0x74]
/-- `"gcount"` -/
def cntKey : Bytes := [0x67, 0x63, 0x6f, 0x75, 0x6e, 0x74]

/-- `groupChain.getGroupById`: nil when absent or when the bytes are not a group. -/
def getGroupById (d : Store) (id : Bytes) : Option Group :=
  match sget d id with
  | some (.grp g) => some g
  | _ => none

/-- The id a height slot yields. A slot that holds group JSON (only possible when an
    id collides with a height key) is used by the code as an id nobody stored. -/
def slotId (d : Store) (k : Bytes) : Option Bytes :=
  match sget d k with
  | some (.ref id) => some id
  | _ => none

/-- `groupChain.getGroupByHeight` -/
def getGroupByHeight (d : Store) (h : Nat) : Option Group :=
  match slotId d (hkey h) with
  | some id => getGroupById d id
  | none => none

/-- In-memory part of `groupChain` plus the store and the sqlite `groupIndex` mirror. -/
structure Chain where
  disk : Store
  count : Nat
  last : Group
  mirror : List Bytes
  deriving DecidableEq, Repr, Inhabited

inductive AddRes where
  | ok | exists_ | noParent | preMismatch
  /-- `save` returned the error of its batch write (only under an injected write fault) -/
  | writeErr
  /-- `consensusHelper.CheckGroup` refused the group (evaluated after the duplicate-id check) -/
  | checkFail
  deriving DecidableEq, Repr

def mirrorInsert (m : List Bytes) (id : Bytes) : List Bytes := if id ∈ m then m else id :: m
def mirrorDelete (m : List Bytes) (id : Bytes) : List Bytes := m.filter (fun x => decide (x ≠ id))

/-- The group as `save` stores it: `group.GroupHeight = chain.count`. -/
def stamped (count : Nat) (g : Group) : Group := { g with height := count }

/-- `groupChain.save`: the four `Put`s, in the order of the code. -/
def saveWrites (count : Nat) (g : Group) : List Write :=
  [ .put g.id (.grp (stamped count g)),
    .put curKey (.ref g.id),
    .put (hkey count) (.ref g.id),
    .put cntKey (.cnt ((count + 1) % u64)) ]

/-- The PHYSICAL writes of `save` (after "fix: groupChain.save writes gcurrent, the height slot and
    gcount in one atomic batch"): `Put(id, json)`, then one `NewBatch().Write()` with the three
    index entries. A crash point or a write fault falls between / on these two. -/
def saveGroups (count : Nat) (g : Group) : List (List Write) :=
  [(saveWrites count g).take 1, (saveWrites count g).drop 1]

def save (c : Chain) (g : Group) : Chain :=
  { disk := applyWrites c.disk (saveWrites c.count g),
    count := (c.count + 1) % u64,
    last := stamped c.count g,
    mirror := mirrorInsert c.mirror g.id }

/-- Which branch `AddGroup` takes (the stub consensus helper accepts every group). -/
def addCheck (c : Chain) (g : Group) : AddRes :=
  if shas c.disk g.id then .exists_
  else if !shas c.disk g.parent then .noParent
  else if c.last.id ≠ g.pre then .preMismatch
  else .ok

def addWrites (c : Chain) (g : Group) : List Write :=
  if addCheck c g = .ok then saveWrites c.count g else []

/-- `groupChain.AddGroup` -/
def addGroup (c : Chain) (g : Group) : AddRes × Chain :=
  match addCheck c g with
  | .ok => (.ok, save c g)
  | r => (r, c)

/-- `groupChain.remove`, the writes, given the predecessor that was read
    (`generateKey(chain.count - 1)` is uint64 arithmetic). -/
def removeWrites (count : Nat) (g pre : Group) : List Write :=
  [ .del g.id,
    .put curKey (.ref pre.id),
    .del (hkey ((count + u64 - 1) % u64)),
    .put cntKey (.cnt ((count + u64 - 1) % u64)) ]

def removeWritesOf (c : Chain) (g : Group) : List Write :=
  match getGroupById c.disk g.pre with
  | none => []
  | some pre => removeWrites c.count g pre

/-- `groupChain.remove(group)`; `false` (nothing written) when the predecessor is not stored. -/
def remove (c : Chain) (g : Group) : Bool × Chain :=
  match getGroupById c.disk g.pre with
  | none => (false, c)
  | some pre =>
    (true, { disk := applyWrites c.disk (removeWrites c.count g pre),
             count := (c.count + u64 - 1) % u64,
             last := pre,
             mirror := mirrorDelete c.mirror g.id })

/-- `chain.height()` of groupchain_sync.go -/
def topHeight (c : Chain) : Nat := if c.count > 1 then c.count - 1 else 0

/-- The loop of `removeFromCommonAncestor`: heights `t, t-1, …, h+1`, skipping nil slots. -/
def rmLoop (h : Nat) : Nat → Chain → Chain
  | 0, c => c
  | t + 1, c =>
    if t + 1 > h then
      match getGroupByHeight c.disk (t + 1) with
      | none => rmLoop h t c
      | some g => rmLoop h t (remove c g).2
    else c

/-- `removeFromCommonAncestor(ancestor)` with `ancestor.GroupHeight = h`. -/
def rmTo (c : Chain) (h : Nat) : Chain := rmLoop h (topHeight c) c

/-- Start-up result: a live chain, or the `panic("Unmarshal last group failed…")`. -/
inductive Boot where
  | alive (c : Chain)
  | dead
  deriving DecidableEq, Repr, Inhabited

/-- `refreshCache`: when the mirror's row count differs from `count`, re-insert every
    group reachable from `last` through predecessor links (nothing is deleted). -/
def refreshWalk (d : Store) : Nat → Group → List Bytes → List Bytes
  | 0, _, m => m
  | fuel + 1, g, m =>
    let m' := mirrorInsert m g.id
    match getGroupById d g.pre with
    | none => m'
    | some p => refreshWalk d fuel p m'

def refreshCache (d : Store) (count : Nat) (last : Group) (m : List Bytes) : List Bytes :=
  if m.length = count then m else refreshWalk d (d.length + 1) last m

/-- The stored count as `ByteToUInt64` reads it: absent → 0. `none` = a value this
    model does not interpret (group JSON under `gcount`; needs an id equal to "gcount"
    plus a crash) — the driver then answers `unmodelled`. -/
def readCount (d : Store) : Option Nat :=
  match sget d cntKey with
  | none => some 0
  | some (.cnt n) => some n
  | some _ => none

/-- `initGroupChain` on an existing store; `genesis` is what
    `consensusHelper.GenerateGenesisInfo()` returns. Outer `none` = not interpreted. -/
def restart (d : Store) (mirror : List Bytes) (genesis : List Group) : Option Boot :=
  match sget d curKey with
  | none =>
    match genesis with
    | [] => none
    | g0 :: gs =>
      let c0 : Chain := { disk := d, count := 0, last := g0, mirror := mirror }
      some (.alive ((g0 :: gs).foldl save c0))
  | some (.ref id) =>
    match getGroupById d id with
    | none => some .dead
    | some g =>
      match readCount d with
      | none => none
      | some n => some (.alive { disk := d, count := n, last := g, mirror := refreshCache d n g mirror })
  | some _ => none

/-- `Iterator()`: `Current()`, then `MovePre()` until nil. Fuel = number of stored
    entries + 1 (a longer walk has met some id twice, i.e. a cycle). -/
def iterWalk (d : Store) : Nat → Group → List Group
  | 0, _ => []
  | fuel + 1, g =>
    match getGroupById d g.pre with
    | none => [g]
    | some p => g :: iterWalk d fuel p

def iterList (c : Chain) : List Group := iterWalk c.disk (c.disk.length + 1) c.last

/-- `getSyncGroupsByHeight(height, limit)`: stops at the first empty slot; a slot whose
    id is no longer stored contributes a nil entry. -/
def syncFrom (d : Store) (h : Nat) : Nat → List (Option Group)
  | 0 => []
  | n + 1 =>
    match sget d (hkey h) with
    | some (.ref id) => getGroupById d id :: syncFrom d (h + 1) n
    | some _ => none :: syncFrom d (h + 1) n
    | none => []

/-- `GetSyncGroupsById(id)` -/
def syncById (d : Store) (id : Bytes) : List (Option Group) :=
  match getGroupById d id with
  | none => []
  | some g => syncFrom d ((g.height + 1) % u64) 5

/-! ### Crash points: the same operations when only `k` more physical writes get through -/

/-- Outcome of an operation under a write budget: completed (with the budget left), or
    the process died and only the store (and the sqlite mirror) survive. -/
inductive Run where
  | done (c : Chain) (left : Nat)
  | crashed (d : Store) (m : List Bytes)
  deriving DecidableEq, Repr, Inhabited

def saveB (c : Chain) (g : Group) (k : Nat) : Run :=
  let gs := saveGroups c.count g
  if k < gs.length then .crashed (applyWrites c.disk (gs.take k).flatten) c.mirror
  else .done (save c g) (k - gs.length)

def addB (c : Chain) (g : Group) (k : Nat) : AddRes × Run :=
  match addCheck c g with
  | .ok => (.ok, saveB c g k)
  | r => (r, .done c k)

def removeB (c : Chain) (g : Group) (k : Nat) : Bool × Run :=
  match getGroupById c.disk g.pre with
  | none => (false, .done c k)
  | some pre =>
    let ws := removeWrites c.count g pre
    if k < ws.length then (true, .crashed (applyPrefix k c.disk ws) c.mirror)
    else (true, .done (remove c g).2 (k - ws.length))

def rmLoopB (h : Nat) : Nat → Chain → Nat → Run
  | 0, c, k => .done c k
  | t + 1, c, k =>
    if t + 1 > h then
      match getGroupByHeight c.disk (t + 1) with
      | none => rmLoopB h t c k
      | some g =>
        match (removeB c g k).2 with
        | .done c' k' => rmLoopB h t c' k'
        | r => r
    else .done c k

def rmToB (c : Chain) (h : Nat) (k : Nat) : Run := rmLoopB h (topHeight c) c k

/-! ### Crash points during the very first start-up (the genesis groups being saved) -/

/-- The genesis loop of `initGroupChain` under a write budget. -/
def saveAllB : List Group → Chain → Nat → Run
  | [], c, k => .done c k
  | g :: t, c, k =>
    match saveB c g k with
    | .done c' k' => saveAllB t c' k'
    | r => r

/-- A (re-)run of the genesis branch on store `d` with budget `k`; `none` when `d` already has
    a last-group pointer (start-up then takes the other branch and writes nothing). -/
def firstBootB (d : Store) (m : List Bytes) (gs : List Group) (k : Nat) : Option Run :=
  match sget d curKey, gs with
  | none, g0 :: _ => some (saveAllB gs { disk := d, count := 0, last := g0, mirror := m } k)
  | _, _ => none

/-- `getFirstGroupBelowHeight(x)`: walk the iterator from `last`, return the first group whose
    `CreateHeight ≤ x` (the fork switch picks the common ancestor with it). -/
def firstBelowWalk (d : Store) (x : Nat) : Nat → Group → Option Group
  | 0, _ => none
  | fuel + 1, g =>
    if g.create ≤ x then some g
    else match getGroupById d g.pre with
      | none => none
      | some p => firstBelowWalk d x fuel p

def firstBelow (c : Chain) (x : Nat) : Option Group := firstBelowWalk c.disk x (c.disk.length + 1) c.last

/-! ### Write faults: one `Put`/`Delete` returns an error instead of being performed

`remove` ignores the error value of every store call, and `save` that of its first `Put`, so the
operation carries on: the remaining writes are performed, the in-memory mirror and sqlite are
updated, and the caller is told nothing. Only a failed batch write of `save` is returned. `j` = index (from 0) of the failing write among the writes still to come;
`none` = no fault (left). -/

/-- `save` with its `j`-th physical write failing. `j = 0`: `Put(id, json)` fails, its error is
    ignored, the batch is written and memory advances (the index then names a group that is not
    stored). `j = 1`: the batch fails, `save` returns the error BEFORE touching `count`/`lastGroup`
    and before the sqlite insert; only the (unreferenced) JSON is in the store. Result: the chain,
    whether the error surfaced, the fault index left. -/
def saveF (c : Chain) (g : Group) (j : Option Nat) : Chain × Bool × Option Nat :=
  match j with
  | some 0 => ({ save c g with disk := applyWrites c.disk ((saveWrites c.count g).drop 1) }, false, none)
  | some 1 => ({ c with disk := applyWrites c.disk ((saveWrites c.count g).take 1) }, true, none)
  | some (i + 2) => (save c g, false, some i)
  | none => (save c g, false, none)

def addGroupF (c : Chain) (g : Group) (j : Option Nat) : AddRes × Chain :=
  match addCheck c g with
  | .ok => let r := saveF c g j; (if r.2.1 then .writeErr else .ok, r.1)
  | r => (r, c)

def removeF (c : Chain) (g : Group) (j : Option Nat) : Bool × Chain × Option Nat :=
  match getGroupById c.disk g.pre with
  | none => (false, c, j)
  | some pre =>
    match j with
    | some i =>
      if i < 4 then
        (true, { (remove c g).2 with disk := applyWrites c.disk ((removeWrites c.count g pre).eraseIdx i) }, none)
      else (true, (remove c g).2, some (i - 4))
    | none => (true, (remove c g).2, none)

def rmLoopF (h : Nat) : Nat → Chain → Option Nat → Chain
  | 0, c, _ => c
  | t + 1, c, j =>
    if t + 1 > h then
      match getGroupByHeight c.disk (t + 1) with
      | none => rmLoopF h t c j
      | some g => let r := removeF c g j; rmLoopF h t r.2.1 r.2.2
    else c

def rmToF (c : Chain) (h : Nat) (j : Nat) : Chain := rmLoopF h (topHeight c) c (some j)

/-! ### Faults of the OTHER store: a statement on the sqlite `groupIndex` fails

`save` calls `mysql.InsertGroup(group)` and `remove` calls `mysql.DeleteGroup(group.Id)` AFTER the
LevelDB writes and the in-memory update, and `panic(err)` when the statement fails: the process
dies with store and memory already advanced and the mirror row not written / not removed. A fork
switch (`removeFromCommonAncestor`) is thereby cut after the removal whose statement failed. -/

inductive SqlKind where
  | ins | del
  deriving DecidableEq, Repr

/-- The statement that fails: an insert of / a delete for the row of group `id`. -/
structure SqlFault where
  kind : SqlKind
  id : Bytes
  deriving DecidableEq, Repr

/-- `save` under a failing insert: the chain as `save` leaves it, and whether it panicked. -/
def saveS (c : Chain) (g : Group) (f : SqlFault) : Chain × Bool :=
  if f.kind = .ins ∧ f.id = g.id then ({ save c g with mirror := c.mirror }, true) else (save c g, false)

def addGroupS (c : Chain) (g : Group) (f : SqlFault) : AddRes × Chain × Bool :=
  match addCheck c g with
  | .ok => let r := saveS c g f; (.ok, r.1, r.2)
  | r => (r, c, false)

/-- `remove` under a failing delete: (result, chain, panicked). -/
def removeS (c : Chain) (g : Group) (f : SqlFault) : Bool × Chain × Bool :=
  match getGroupById c.disk g.pre with
  | none => (false, c, false)
  | some _ =>
    if f.kind = .del ∧ f.id = g.id then (true, { (remove c g).2 with mirror := c.mirror }, true)
    else (true, (remove c g).2, false)

/-- The removal loop; stops at the removal that panics. -/
def rmLoopS (h : Nat) (f : SqlFault) : Nat → Chain → Chain × Bool
  | 0, c => (c, false)
  | t + 1, c =>
    if t + 1 > h then
      match getGroupByHeight c.disk (t + 1) with
      | none => rmLoopS h f t c
      | some g =>
        let r := removeS c g f
        if r.2.2 then (r.2.1, true) else rmLoopS h f t r.2.1
    else (c, false)

def rmToS (c : Chain) (h : Nat) (f : SqlFault) : Chain × Bool := rmLoopS h f (topHeight c) c

/-! ### The header rewrite of `AddGroup`, group availability, and the fork switch -/

/-- What `AddGroup` does to the header of an accepted group before `save`:
    `DismissHeight = CreateHeight + GetGroupWorkDuration()` (uint64). `dur` is that duration
    (a configuration value the harness reads from the node and passes in). The dismiss height
    a sender put into the group is overwritten; it does not even travel (`GroupToPbHeader`). -/
def prepare (dur : Nat) (g : Group) : Group := { g with dismiss := (g.create + dur) % u64 }

def addGroupD (dur : Nat) (c : Chain) (g : Group) : AddRes × Chain := addGroup c (prepare dur g)

/-- `availableGroupsAt(h)`: walk the iterator from `last`; a group whose `DismissHeight > h` is
    taken; at the FIRST group that is not, `GetGroupByHeight(0)` (the genesis group, possibly nil)
    is appended instead and the walk stops — older groups are not looked at. -/
def availWalk (d : Store) (h : Nat) : Nat → Group → List (Option Group)
  | 0, _ => []
  | fuel + 1, g =>
    if g.dismiss > h then
      some g :: (match getGroupById d g.pre with
                 | none => []
                 | some p => availWalk d h fuel p)
    else [getGroupByHeight d 0]

def availableAt (c : Chain) (h : Nat) : List (Option Group) :=
  availWalk c.disk h (c.disk.length + 1) c.last

/-- `GetAvailableGroupsByMinerId(h, m)`: the available groups that list `m` as a member
    (`none` = the real code dereferences a nil genesis group and panics). -/
def availableByMiner (c : Chain) (h : Nat) (m : Bytes) : Option (List Group) :=
  (availableAt c h).foldr (fun og acc =>
    match og, acc with
    | some g, some l => some (if m ∈ g.members then g :: l else l)
    | _, _ => none) (some [])

/-- `AddGroup` of each group in turn, stopping at the first one that is not accepted
    (the loop of `groupChainFork.triggerOnChain`). -/
def addAll (dur : Nat) : List Group → Chain → Chain × Bool
  | [], c => (c, true)
  | g :: t, c =>
    match addGroupD dur c g with
    | (.ok, c') => addAll dur t c'
    | (_, c') => (c', false)

/-- `groupChainFork.triggerOnChain` on a fresh fork: `removeFromCommonAncestor(ancestor)` with
    `ancestor.GroupHeight = h`, then `AddGroup` of the fork's groups in height order. -/
def forkSwitch (dur : Nat) (c : Chain) (h : Nat) (gs : List Group) : Chain × Bool :=
  addAll dur gs (rmTo c h)

/-- `AddGroup` of a group the consensus check refuses: `exists` wins over the refusal (the duplicate-id
    check comes first), nothing is written. `AddGroup(nil)` is refused before anything is read. -/
def addGroupRefused (c : Chain) (g : Group) : AddRes × Chain :=
  if shas c.disk g.id then (.exists_, c) else (.checkFail, c)

end Rangers.Model.GroupChain
