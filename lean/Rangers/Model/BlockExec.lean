import Rangers.Basic.Hex
import Rangers.Model.RewardFloat
import Rangers.Generated.NondetSites
import Rangers.Model.WireSha256
/-!
# Block execution (`core.VMExecutor.Execute`) as a pure function — property C01

Content-level model of what one block execution does to the ledger, written so
that every place where the Go code ranges over a `map` takes the iteration order
as an explicit parameter (`Orders`).  "The result does not depend on map order"
is then a theorem with a quantifier over `Orders` (see `Props/C01.lean`), not an
accident of the model.

Scope (what is interpreted): transaction sort (`types.Transactions.Less` under the
proposal flags + Go's insertion sort for ≤ 12 elements), the per-transaction loop
(nonce bookkeeping under p006/p007/p018/p021, `ProcessFee`, snapshot / revert,
receipts, evicted list), the operator-event executor (`service.ChangeAssets` after
the `fix:` commit — targets walked in sorted key order — plus the unfixed
in-map-order fold `changeAssetsIn` the fix replaced), `RefundManager.Add`,
`RefundManager.CheckAndMove`, the three reward loops of
`calculateRewardPerBlock` / `CalculateReward`, and `AccountDB.Finalise`.

Everything else an executor may do (EVM, miner operations) is the uninterpreted
deterministic function `Env.other`; float expressions of the reward formula are
the uninterpreted `RewardIn` numbers (DESIGN 6/C01 "not covered").

Core Lean only (this file is linked into the driver executable).
-/
namespace Rangers.Model.BlockExec
open Rangers

abbrev Addr := Nat

/-- point update of a total map -/
def upd (f : Nat → Nat) (k v : Nat) (a : Nat) : Nat := if a = k then v else f a

/-- one miner of the registry (storage of ProposerDBAddress / ValidatorDBAddress): the info JSON
    written at creation (`applyHeight`, `jsonStatus`; it is what the trie iterator enumerates, so
    only miners already in the parent state — `inParent` — are iterated) and the three keys read
    fresh: stake, account (`hasAccount = false`: key emptied), status. `alive = false`: the id key
    was emptied (`GetMiner` no longer finds it). -/
structure MinerRec where
  id : Nat
  typ : Nat            -- 0 validator, 1 proposer
  stake : Nat
  account : Addr
  hasAccount : Bool
  status : Nat
  jsonStatus : Nat
  applyHeight : Nat
  inParent : Bool
  alive : Bool
  deriving Repr, DecidableEq, Inhabited

/-- Ledger content: native balance, nonce, and the refund escrow
    (`storage(generateAddress(height))[id]`, big-endian amount, absent = 0), and the miner registry. -/
structure St where
  bal : Addr → Nat
  nonce : Addr → Nat
  escrow : Nat → Addr → Nat
  miners : List MinerRec
  diff : Nat → Nat := fun _ => 0     -- storage(DifficultyAddress)[castor id]: blocks proposed in the window
  working : Nat := 0                 -- storage(DifficultyAddress)[TotalWorkingMiners]

def St.empty : St := ⟨fun _ => 0, fun _ => 0, fun _ _ => 0, [], fun _ => 0, 0⟩

def addBal (s : St) (a : Addr) (v : Nat) : St := { s with bal := upd s.bal a (s.bal a + v) }
def subBal (s : St) (a : Addr) (v : Nat) : St := { s with bal := upd s.bal a (s.bal a - v) }
def setNonce (s : St) (a : Addr) (n : Nat) : St := { s with nonce := upd s.nonce a n }
def incNonce (s : St) (a : Addr) : St := setNonce s a (s.nonce a + 1)
def addEscrow (s : St) (h : Nat) (id : Addr) (v : Nat) : St :=
  { s with escrow := fun h' a => if h' = h ∧ a = id then s.escrow h id + v else s.escrow h' a }
def clearEscrow (s : St) (h : Nat) (id : Addr) : St :=
  { s with escrow := fun h' a => if h' = h ∧ a = id then 0 else s.escrow h' a }

/-! ## service.ChangeAssets / transferBalance -/

/-- `utility.StrToBigInt(value)` outcome as the executor sees it: `bad` = parse error or negative. -/
inductive Amt where
  | bad
  | val (n : Nat)
  deriving Repr, DecidableEq, Inhabited

/-- one entry of the user supplied JSON map: raw key bytes, `HexToAddress(key)`, amount -/
structure Target where
  key : Bytes
  addr : Addr
  amt : Amt
  deriving Repr, DecidableEq, Inhabited

/-- `transferBalance`: check, `AddBalance(target)`, `SubBalance(source)`. -/
def transferBalance (s : St) (src tgt : Addr) : Amt → Option St
  | .bad => none
  | .val v => if s.bal src < v then none else some (subBal (addBal s tgt v) src v)

/-- loop state of `ChangeAssets`: `none` once a transfer failed, else the ledger and
    `responseBalance` (`none` = "" , `some left`). -/
abbrev CA := Option (St × Option Nat)

def caStep (src : Addr) (acc : CA) (t : Target) : CA :=
  match acc with
  | none => none
  | some (s, _) =>
    match transferBalance s src t.addr t.amt with
    | none => none
    | some s' => some (s', some (s'.bal src))

/-- the loop body folded over the targets in the order given (the code before the fix
    used Go's map order here) -/
def changeAssetsIn (order : List Target) (s : St) (src : Addr) : CA :=
  order.foldl (caStep src) (some (s, none))

/-- byte-lexicographic `<` on Go strings (`sort.Strings`) -/
def bytesLt (a b : Bytes) : Bool := decide (a < b)

def insertKey (t : Target) : List Target → List Target
  | [] => [t]
  | u :: us => if bytesLt t.key u.key then t :: u :: us else u :: insertKey t us

def sortTargets : List Target → List Target
  | [] => []
  | t :: ts => insertKey t (sortTargets ts)

/-- `service.ChangeAssets` as it is now (keys collected, `sort.Strings`, then the loop). -/
def changeAssets (targets : List Target) (s : St) (src : Addr) : CA :=
  changeAssetsIn (sortTargets targets) s src

/-! ## text rendering (receipt messages are part of the property) -/

def asciiBytes (s : String) : Bytes := s.toList.map (fun c => UInt8.ofNat c.toNat)

def natDigits (n : Nat) : Bytes := asciiBytes (toString n)

/-- `utility.BigIntToStr` for a non-negative amount: 18 decimals, "0" for zero. -/
def bigIntToStr (n : Nat) : Bytes :=
  if n = 0 then asciiBytes "0" else
  let ds := natDigits n
  let len := ds.length
  if len ≤ 18 then asciiBytes "0." ++ List.replicate (18 - len) 48 ++ ds
  else ds.take (len - 18) ++ asciiBytes "." ++ ds.drop (len - 18)

def caMsg : CA → Bool × Bytes
  | none => (false, asciiBytes "Transfer Balance Failed")
  | some (_, none) => (true, asciiBytes "{}")
  | some (_, some left) => (true, asciiBytes "{\"balance\":\"" ++ bigIntToStr left ++ asciiBytes "\"}")

/-! ## transactions, flags, sort -/

structure Flags where
  p006 : Bool
  p007 : Bool
  p016 : Bool
  p018 : Bool
  p021 : Bool
  p023 : Bool
  deriving Repr, DecidableEq, Inhabited

inductive Body where
  | empty                       -- ExtraData == ""
  | badJson (data : Bytes)      -- json.Unmarshal failed
  | transfer (ts : List Target) -- the decoded map (keys pairwise distinct)
  | refund (amount : Option Nat) (minerId : Nat)  -- MinerRefundData: ParseUint(Amount) (none = error), FromHex(MinerId)
  | addStake (minerId : Nat) (delta : Nat)        -- types.Miner payload of a miner-add transaction: id, stake
  | apply (minerId typ stake : Nat) (hasPk hasVrf : Bool) (account : Option Addr)
      -- types.Miner payload of a miner-apply transaction (id present; account = none when absent)
  | changeAccount (minerId : Nat) (account : Option Addr)
  | observed (ok : Bool) (ev : Bool) (msg : Bytes) (sets : List (Addr × Nat × Nat))
      -- correspondence only: what an uninterpreted executor was observed to do (status, message,
      -- balance and nonce of the watched addresses afterwards)
  deriving Repr, DecidableEq, Inhabited

structure Tx where
  hash : Nat        -- big.Int of the 32 hash bytes
  reqId : Nat
  nonce : Nat
  typ : Nat
  srcStr : Bytes    -- the Source string
  src : Addr        -- common.HexToAddress(Source)
  feeAddr : Addr    -- common.HexStringToAddress(Source)  (ProcessFee)
  srcNum : Nat      -- big.Int(common.FromHex(Source))    (sort)
  body : Body
  deriving Repr, DecidableEq, Inhabited

def typOperatorEvent : Nat := 100
def typMinerRefund : Nat := 4
def typMinerAdd : Nat := 5
def typMinerApply : Nat := 2
def typMinerChangeAccount : Nat := 6
def typETHTX : Nat := 188
def typContract : Nat := 200
def isContractTx (t : Nat) : Bool := t == typETHTX || t == typContract
/-- transaction types with a registered executor that this model does not interpret -/
def isOpaqueTyp (t : Nat) : Bool := t == 7 || t == 188 || t == 200

/-- `types.Transactions.Less` (the `panic("equal hash")` branch is `false` here; the driver
    refuses such lists, see `hasEqualHashPair`). -/
def txLess (f : Flags) (a b : Tx) : Bool :=
  if a.reqId == 0 && b.reqId == 0 then
    if f.p023 then
      if a.srcStr == b.srcStr then
        if a.nonce != b.nonce then a.nonce < b.nonce else a.hash > b.hash
      else a.srcNum > b.srcNum
    else if f.p021 then
      if a.srcStr == b.srcStr then a.nonce < b.nonce else a.srcNum > b.srcNum
    else if f.p016 && a.srcStr == b.srcStr then a.nonce < b.nonce
    else a.hash > b.hash
  else a.reqId < b.reqId

/-- inner loop of Go's `insertionSort`: sink `x` into the already processed prefix, which
    is held reversed (nearest element first). -/
def sinkRev (lt : α → α → Bool) (x : α) : List α → List α
  | [] => [x]
  | y :: ys => if lt x y then y :: sinkRev lt x ys else x :: y :: ys

/-- `sort.Sort` for `n ≤ 12` (pdqsort falls back to insertion sort): stable insertion sort. -/
def insertionSort (lt : α → α → Bool) (l : List α) : List α :=
  (l.foldl (fun acc x => sinkRev lt x acc) []).reverse

def sortTxs (f : Flags) (txs : List Tx) : List Tx := insertionSort (txLess f) txs

/-- every earlier element is `Less` than every later one and not vice versa: on such a list
    `Less` is a strict total order, and *any* correct comparison sort returns this list -/
def strictSorted (lt : α → α → Bool) : List α → Bool
  | [] => true
  | a :: l => l.all (fun b => lt a b && !lt b a) && strictSorted lt l

/-- what `sort.Sort` returns, as far as the model can say: insertion sort for ≤ 12 elements (Go's
    own algorithm there); for longer lists only when `Less` is a strict total order on the list
    (then the result is unique, see `sort_result_unique_total`); `none` = not modelled (pdqsort on a
    non-total `Less`). -/
def sortTxsAny (f : Flags) (txs : List Tx) : Option (List Tx) :=
  let out := sortTxs f txs
  if txs.length ≤ 12 then some out
  else if strictSorted (txLess f) out then some out else none

/-- Go's post-condition of `sort.Sort` (`sort.IsSorted`): no adjacent inversion -/
def noAdjInv (lt : α → α → Bool) : List α → Prop
  | [] => True
  | [_] => True
  | a :: b :: l => lt b a = false ∧ noAdjInv lt (b :: l)

/-! ## the per transaction loop -/

/-- what an uninterpreted executor (EVM, miner ops) returns: new ledger, success, message,
    receipt extras (logs / contract address / gas as one opaque number), refunds it queued
    in `context["refund"]` -/
structure OpaqueOut where
  st : St
  ok : Bool
  msg : Bytes
  extra : Nat
  refunds : List (Nat × Addr × Nat)
  evicted : Bool := false   -- `Execute` (not `BeforeExecute`) failed while p018 is off

/-- environment: constants and the uninterpreted deterministic parts -/
structure Env where
  feeAccount : Addr
  fee : Nat
  other : Tx → Nat → St → OpaqueOut

structure Receipt where
  hash : Nat
  failed : Bool
  msg : Bytes
  extra : Nat

/-- loop state: ledger, queued refunds (context), receipts and evicted (both reversed) -/
structure Loop where
  st : St
  refunds : List (Nat × Addr × Nat)
  receipts : List Receipt
  evicted : List Nat

def nonceErrLow : Bytes := asciiBytes "nonce too low"
def nonceErrHigh : Bytes := asciiBytes "nonce too high"

/-- `validateNonce` -/
def validateNonce (f : Flags) (tx : Tx) (s : St) : Option Bytes :=
  if f.p021 && tx.typ != typETHTX then none
  else if f.p018 then
    if s.nonce tx.src > tx.nonce then some nonceErrLow
    else if s.nonce tx.src < tx.nonce then some nonceErrHigh else none
  else none

/-- `baseFeeExecutor.BeforeExecute` = `validateNonce` then `TxPool.ProcessFee`. -/
def beforeExecute (env : Env) (f : Flags) (tx : Tx) (s : St) : St × Bool × Bytes :=
  match validateNonce f tx s with
  | some e => (s, false, e)
  | none =>
    if s.bal tx.feeAddr < env.fee then
      (s, false, asciiBytes "not enough max, addr: " ++ tx.srcStr ++ asciiBytes ", balance: " ++ natDigits (s.bal tx.feeAddr))
    else (addBal (subBal s tx.feeAddr env.fee) env.feeAccount env.fee, true, [])

/-- `operatorExecutor.Execute` → `transfer` → `ChangeAssets`; result: ledger to keep, ok, msg -/
def execOperator (tx : Tx) (s : St) : St × Bool × Bytes :=
  match tx.body with
  | .empty => (s, true, [])
  | .badJson d => (s, false, asciiBytes "bad extraData: " ++ d)
  | .transfer ts =>
    let r := changeAssets ts s tx.src
    match r with
    | none => (s, (caMsg r).1, (caMsg r).2)          -- RevertToSnapshot
    | some (s', _) => (s', (caMsg r).1, (caMsg r).2)
  | _ => (s, false, [])                              -- not produced for operator transactions

/-- p007 epilogue: `SetNonce(source, GetNonce(source)+1)` unless a successful contract tx -/
def p007Bump (f : Flags) (tx : Tx) (ok : Bool) (s : St) : St :=
  if f.p007 && !(isContractTx tx.typ && ok) then incNonce s tx.src else s

def maxU64 : Nat := 18446744073709551615
def weiPerRpg : Nat := 1000000000000000000
def refundDelay : Nat := Rangers.Generated.NondetSites.cRefundHeight
def minStake (typ : Nat) : Nat :=
  if typ = 1 then Rangers.Generated.NondetSites.cProposerStake else Rangers.Generated.NondetSites.cValidatorStake

def updMiner (s : St) (id : Nat) (g : MinerRec → MinerRec) : St :=
  { s with miners := s.miners.map (fun m => if m.id = id ∧ m.alive then g m else m) }

/-- `minerRefundExecutor`'s bookkeeping in `context["refund"]`: the map value is a *copy* of the
    list header, so an id already present at that height is increased in place, a new height gets
    a new list, but a new id at an existing height is appended to the copy only and lost. -/
def queueRefund (q : List (Nat × Addr × Nat)) (e : Nat × Addr × Nat) : List (Nat × Addr × Nat) :=
  if q.any (fun x => x.1 == e.1) then
    (if q.any (fun x => x.1 == e.1 && x.2.1 == e.2.1) then q ++ [e] else q)
  else q ++ [e]

/-- `minerRefundExecutor.Execute` (signed tx, p012 active: refund height = now + 36000, miner
    accounts are not contracts) → `RefundManager.GetRefundStake`. Result: ledger, ok, queue. -/
def execRefund (height : Nat) (tx : Tx) (s : St) (q : List (Nat × Addr × Nat)) :
    St × Bool × List (Nat × Addr × Nat) :=
  match tx.body with
  | .refund (some value) mid =>
    match s.miners.find? (fun m => m.id == mid && m.alive) with
    | none => (s, false, q)                                  -- "miner not existed"
    | some m =>
      if !(m.hasAccount && m.account == tx.src) then (s, false, q)    -- auth error
      else
        let money := if value = maxU64 then m.stake else value
        if m.stake < money then (s, false, q)                -- "not enough stake"
        else
          let left := m.stake - money
          let s' :=
            if (m.typ = 1 ∨ m.typ = 0) ∧ left < minStake m.typ then
              (if left = 0 then
                 updMiner s mid (fun r => { r with stake := 0, hasAccount := false, status := r.jsonStatus, alive := false })
               else updMiner s mid (fun r => { r with stake := left, status := 1 }))   -- RemoveMiner
            else updMiner s mid (fun r => { r with stake := left })                      -- UpdateMiner
          (s', true, queueRefund q (height + refundDelay, m.account, money * weiPerRpg))
  | .refund none _ => (s, false, q)                          -- ParseUint failed
  | .badJson _ => (s, false, q)
  | _ => (s, false, q)

/-- `minerAddExecutor.Execute` → `MinerManager.AddStake`: the stake in wei is
    `Float64ToBigInt(float64(delta))` (bit-exact float), the miner is looked up as proposer first,
    then as validator, the uint64 stake sum wraps, a stake strictly above the minimum resets the
    status to normal, `UpdateMiner` rewrites stake / account / status. -/
def execAddStake (tx : Tx) (s : St) : St × Bool :=
  match tx.body with
  | .addStake mid delta =>
    if delta = 0 then (s, true) else
    let stakeWei := Rangers.Model.RewardFloat.float64ToBigInt (Rangers.Model.RewardFloat.ofNat delta)
    if s.bal tx.src < stakeWei then (s, false)
    else
      let pick := fun (t : Nat) => s.miners.find? (fun m => m.id == mid && m.typ == t && m.alive)
      match (pick 1).orElse (fun _ => pick 0) with
      | none => (s, false)
      | some m =>
        let st := (m.stake + delta) % 18446744073709551616
        let status := if (m.typ = 1 ∨ m.typ = 0) ∧ st > minStake m.typ then 0 else m.status
        let s1 := subBal s tx.src stakeWei
        ({ s1 with miners := s1.miners.map (fun r =>
            if r.id = mid ∧ r.typ = m.typ ∧ r.alive then { r with stake := st, status := status } else r) }, true)
  | _ => (s, false)

/-- `MinerManager.GetMinerIdByAccount`: the two trie iterators (validators, proposers) enumerate the
    entries of the parent state with their keys read fresh; is there one whose account bytes equal
    `account` (`none` = empty bytes, which equals an emptied account key)? -/
def accountOccupied (s : St) (account : Option Addr) : Bool :=
  s.miners.any (fun m => m.inParent &&
    (match account with
     | some a => m.hasAccount && m.account == a
     | none => !m.hasAccount))

/-- `GetMiner(id)`: proposer entry first, then validator entry; only ids whose info key is non-empty -/
def getMiner (s : St) (id : Nat) : Option MinerRec :=
  (s.miners.find? (fun m => m.id == id && m.typ == 1 && m.alive)).orElse
    (fun _ => s.miners.find? (fun m => m.id == id && m.typ == 0 && m.alive))

/-- `minerChangeAccountExecutor.Execute` (accounts are 20-byte values) -/
def execChangeAccount (tx : Tx) (s : St) : St × Bool :=
  match tx.body with
  | .changeAccount mid acct =>
    match getMiner s mid with
    | none => (s, false)                                        -- "fail to getMiner"
    | some cur =>
      let same := match acct with
        | some a => cur.hasAccount && cur.account == a
        | none => !cur.hasAccount
      if same then (s, false)                                   -- "no need to change"
      else if !(cur.hasAccount && cur.account == tx.src) then (s, false)   -- "fail to auth"
      else if accountOccupied s acct then (s, false)            -- "cannot use account … occupied"
      else
        ({ s with miners := s.miners.map (fun r =>
            if r.id = mid ∧ r.typ = cur.typ ∧ r.alive then
              (match acct with
               | some a => { r with account := a, hasAccount := true }
               | none => { r with hasAccount := false })
            else r) }, true)
  | _ => (s, false)

/-- `minerApplyExecutor.Execute` → `MinerManager.AddMiner` (not on mainnet; id present in the
    payload): type, minimum stake, both keys present, balance ≥ `Float64ToBigInt(float64(stake))`,
    id unused, account unused (among the parent-state entries); the new entry applies at
    height + HeightAfterStake and is not seen by the trie iterators of this block. -/
def execApply (height : Nat) (tx : Tx) (s : St) : St × Bool :=
  match tx.body with
  | .apply mid typ stake hasPk hasVrf acct =>
    if typ ≠ 0 ∧ typ ≠ 1 then (s, false)
    else if stake < minStake typ then (s, false)
    else if !(hasPk && hasVrf) then (s, false)
    else
      let stakeWei := Rangers.Model.RewardFloat.float64ToBigInt (Rangers.Model.RewardFloat.ofNat stake)
      let account : Addr := match acct with | some a => a | none => tx.src
      if s.bal tx.src < stakeWei then (s, false)
      else if (getMiner s mid).isSome then (s, false)
      else if accountOccupied s (some account) then (s, false)
      else
        let s1 := subBal s tx.src stakeWei
        ({ s1 with miners := s1.miners ++
            [⟨mid, typ, stake, account, true, 0, 0, height + Rangers.Generated.NondetSites.cHeightAfterStake, false, true⟩] }, true)
  | _ => (s, false)

/-- `core.deductGasFee` (Proposal027, failed contract transaction): the gas fee
    `gasUsed · DefaultGasPrice`, capped by the sender's balance, moves to the fee account -/
def deductGasFee (s : St) (src feeAccount gasUsed : Nat) : St :=
  let fee := gasUsed * Rangers.Generated.NondetSites.cGasPrice
  let paid := if s.bal src < fee then s.bal src else fee
  addBal (subBal s src paid) feeAccount paid

/-- the executors the model interprets; `none` for every other type -/
def execModelled (height : Nat) (tx : Tx) (s : St) (q : List (Nat × Addr × Nat)) :
    Option (St × Bool × Bytes × List (Nat × Addr × Nat)) :=
  if tx.typ = typOperatorEvent then
    let r := execOperator tx s
    some (r.1, r.2.1, r.2.2, q)
  else if tx.typ = typMinerRefund then
    let r := execRefund height tx s q
    some (r.1, r.2.1, [], r.2.2)       -- message text of miner transactions is not modelled
  else if tx.typ = typMinerAdd then
    let r := execAddStake tx s
    some (r.1, r.2, [], q)
  else if tx.typ = typMinerChangeAccount then
    let r := execChangeAccount tx s
    some (r.1, r.2, [], q)
  else if tx.typ = typMinerApply then
    let r := execApply height tx s
    some (r.1, r.2, [], q)
  else none

/-- one iteration of the loop in `VMExecutor.Execute` (situation ≠ "casting") -/
def stepTx (env : Env) (f : Flags) (height : Nat) (L : Loop) (tx : Tx) : Loop :=
  if tx.typ = 0 then L else
  let s0 := if f.p006 && !f.p007 then incNonce L.st tx.src else L.st
  if tx.typ = typOperatorEvent ∨ tx.typ = typMinerRefund ∨ tx.typ = typMinerAdd ∨ tx.typ = typMinerChangeAccount
      ∨ tx.typ = typMinerApply then
    let (s1, ok1, msg1) := beforeExecute env f tx s0
    if ok1 then
      match execModelled height tx s1 L.refunds with
      | some (s2, ok2, msg2, q2) =>
        let ev := if !ok2 && !f.p018 then tx.hash :: L.evicted else L.evicted
        let s3 := if ok2 && tx.srcStr != [] && !f.p006 then incNonce s2 tx.src else s2
        { st := p007Bump f tx ok2 s3, refunds := q2,
          receipts := ⟨tx.hash, !ok2, msg2, 0⟩ :: L.receipts, evicted := ev }
      | none => { L with st := s1, receipts := ⟨tx.hash, true, [], 0⟩ :: L.receipts }
    else
      { st := p007Bump f tx false s1, refunds := L.refunds,
        receipts := ⟨tx.hash, true, (if tx.typ = typOperatorEvent then msg1 else []), 0⟩ :: L.receipts, evicted := L.evicted }
  else if isOpaqueTyp tx.typ then
    let o : OpaqueOut := env.other tx height s0
    { st := o.st, refunds := L.refunds ++ o.refunds,
      receipts := ⟨tx.hash, !o.ok, o.msg, o.extra⟩ :: L.receipts,
      evicted := if o.evicted then tx.hash :: L.evicted else L.evicted }
  else
    -- no executor registered: `success` stays false, nothing else happens
    { L with st := s0, receipts := ⟨tx.hash, true, [], 0⟩ :: L.receipts }

/-! ## after(): refunds, reward, CheckAndMove -/

/-- `RefundManager.Add`: data = map height → list of (id, value); `order` is the order the
    runtime ranges the map in.  Inner list order is the slice order (fixed). -/
def refundAddList (h : Nat) (s : St) (l : List (Addr × Nat)) : St :=
  l.foldl (fun s e => addEscrow s h e.1 e.2) s

def refundAddIn (order : List (Nat × List (Addr × Nat))) (s : St) : St :=
  order.foldl (fun s e => refundAddList e.1 s e.2) s

/-- `RefundManager.CheckAndMove(height)`: `list` = the (addr, value) pairs `GetAllRefund`
    returned (read before the loop), `order` the order they are ranged in. -/
def cmStep (h : Nat) (s : St) (e : Addr × Nat) : St := clearEscrow (addBal s e.1 e.2) h e.1

def checkAndMoveIn (h : Nat) (order : List (Addr × Nat)) (s : St) : St :=
  order.foldl (cmStep h) s

/-- inputs of `calculateRewardPerBlock` after the float arithmetic (uninterpreted):
    the castor's account and share, per normal proposer (account, share), per validator
    account (already merged by `GetValidatorsStake`, keys distinct) its share;
    `validators = none` when the group is missing (the function returns nil). -/
structure RewardIn where
  castor : Addr × Nat
  proposers : List (Addr × Nat)
  validators : Option (List (Addr × Nat))
  nextHeight : Nat

/-- the `result` map of `calculateRewardPerBlock` as a total function (absent = 0) together
    with its key set as a list -/
structure RMap where
  val : Addr → Nat
  keys : List Addr

def RMap.addKey (m : RMap) (a : Addr) : List Addr := if m.keys.contains a then m.keys else a :: m.keys
/-- `addReward` -/
def RMap.add (m : RMap) (e : Addr × Nat) : RMap := ⟨upd m.val e.1 (m.val e.1 + e.2), m.addKey e.1⟩
/-- `result[addr] = x` -/
def RMap.assign (m : RMap) (e : Addr × Nat) : RMap := ⟨upd m.val e.1 e.2, m.addKey e.1⟩

def rewardMap (r : RewardIn) (ordP ordV : List (Addr × Nat)) : RMap :=
  let m0 : RMap := RMap.add ⟨fun _ => 0, []⟩ r.castor
  let m1 := ordP.foldl RMap.add m0
  ordV.foldl RMap.assign m1

/-! ### the reward inputs computed from the registry (bit-exact float64, `Model/RewardFloat.lean`) -/

open Rangers.Model.RewardFloat in
/-- header / chain facts the reward needs: `getTotalReward(height)` as a float64 bit pattern (the
    only float value not computed by the model: it contains `math.Pow`), `common.GetRewardBlocks()`,
    the castor id and the members of the signing group (`none`: no GroupId / group unknown). -/
structure RewardCfg where
  totalBits : Nat
  rewardBlocks : Nat
  castor : Nat
  group : Option (List Nat)
  deriving Repr, Inhabited

/-- `getMinerAccount(id, kind)` → `BytesToAddress` (an emptied / missing key gives the zero address) -/
def accountOf (s : St) (id typ : Nat) : Addr :=
  match s.miners.find? (fun m => m.id == id && m.typ == typ) with
  | some m => if m.hasAccount then m.account else 0
  | none => 0

/-- `getMinerStake(id, kind)` -/
def stakeOf (s : St) (id typ : Nat) : Nat :=
  match s.miners.find? (fun m => m.id == id && m.typ == typ) with
  | some m => m.stake
  | none => 0

/-- `membersDetail[addr] = stake + current` -/
def mergeStake (l : List (Addr × Nat)) (a : Addr) (v : Nat) : List (Addr × Nat) :=
  match l with
  | [] => [(a, v)]
  | (i, w) :: r => if i = a then (i, w + v) :: r else (i, w) :: mergeStake r a v

open Rangers.Model.RewardFloat in
/-- `calculateRewardPerBlock`'s inputs to its three loops, computed as the Go code does: the
    proposers the trie iterator yields (entries of the parent state, values read fresh, status
    normal, applied), `float64(stake) / float64(total) * otherReward` per entry, validators merged
    by account, `Float64ToBigInt` of every share; `NextRewardHeight` = ceil(h / n) · n. -/
def rewardInOf (c : RewardCfg) (height : Nat) (s : St) : RewardIn :=
  let total := ofBits c.totalBits
  let castorShare := float64ToBigInt (mul total proposerReward)
  let other := mul total allProposerReward
  let ps := s.miners.filter (fun m => m.inParent && m.typ == 1 && m.status == 0 && decide (m.applyHeight ≤ height))
  let tot : Nat := (ps.map (·.stake)).foldl (· + ·) 0
  let proposers := if tot = 0 then [] else
    ps.map (fun m => (accountOf s m.id 1, float64ToBigInt (mul (div (ofNat m.stake) (ofNat tot)) other)))
  let validators := c.group.map (fun members =>
    let merged : List (Addr × Nat) := members.foldl (fun acc id =>
      let st := stakeOf s id 0
      if st = 0 then acc else mergeStake acc (accountOf s id 0) st) []
    let vtot : Nat := (merged.map (·.2)).foldl (· + ·) 0
    let rv := mul total validatorsReward
    if vtot = 0 then [] else
      merged.map (fun e => (e.1, float64ToBigInt (mul (div (ofNat e.2) (ofNat vtot)) rv))))
  let next := ceilNat (div (ofNat height) (ofNat c.rewardBlocks)) * c.rewardBlocks
  ⟨(accountOf s c.castor 1, castorShare), proposers, validators, next⟩

/-- `CalculateReward` ranges `total` (order `ordT` of its keys) building the refund list, then
    `RefundManager.Add` of `{nextHeight: list}`. -/
def rewardAddIn (h : Nat) (m : RMap) (ordT : List Addr) (s : St) : St :=
  refundAddList h s (ordT.map (fun a => (a, m.val a)))

/-! ## Finalise / IntermediateRoot -/

/-- `AccountDB.Finalise(true)`: for each dirty address write (or delete) the account leaf.
    `leaf a` is the RLP of the finished object (`none` = suicided or empty → delete). -/
def finaliseIn (order : List Addr) (leaf : Addr → Option Nat) (trie : Addr → Option Nat) : Addr → Option Nat :=
  order.foldl (fun t a => fun x => if x = a then leaf a else t x) trie

/-! ## the orders the runtime picks, and the whole block -/

/-- one permutation per map-range site -/
structure Orders where
  refund : List (Nat × List (Addr × Nat)) → List (Nat × List (Addr × Nat))
  proposers : List (Addr × Nat) → List (Addr × Nat)
  validators : List (Addr × Nat) → List (Addr × Nat)
  total : List Addr → List Addr
  checkMove : List (Addr × Nat) → List (Addr × Nat)
  dirty : List Addr → List Addr

def Orders.id : Orders := ⟨fun l => l, fun l => l, fun l => l, fun l => l, fun l => l, fun l => l⟩
def Orders.rev : Orders := ⟨List.reverse, List.reverse, List.reverse, List.reverse, List.reverse, List.reverse⟩
def rotl : List α → List α
  | [] => []
  | a :: l => l ++ [a]
def Orders.rot : Orders := ⟨rotl, rotl, rotl, rotl, rotl, rotl⟩

/-- group queued refunds by height (what the `context["refund"]` map holds): first-seen
    height order, per height the ids in first-seen order with amounts summed. -/
def addRefundInfo (l : List (Addr × Nat)) (id : Addr) (v : Nat) : List (Addr × Nat) :=
  match l with
  | [] => [(id, v)]
  | (i, w) :: r => if i = id then (i, w + v) :: r else (i, w) :: addRefundInfo r id v

def groupRefunds : List (Nat × Addr × Nat) → List (Nat × List (Addr × Nat)) → List (Nat × List (Addr × Nat))
  | [], acc => acc
  | (h, id, v) :: rest, acc =>
    let rec ins : List (Nat × List (Addr × Nat)) → List (Nat × List (Addr × Nat))
      | [] => [(h, [(id, v)])]
      | (h', l) :: r => if h' = h then (h', addRefundInfo l id v) :: r else (h', l) :: ins r
    groupRefunds rest (ins acc)

structure Header where
  height : Nat
  p004Block : Nat
  p010Block : Nat := 0xFFFFFFFFFFFFFFFF
  p019Block : Nat := 0xFFFFFFFFFFFFFFFF
  p025Block : Nat := 0xFFFFFFFFFFFFFFFF
  castor : Nat := 0
  deriving Repr, DecidableEq, Inhabited

/-- what `GetAllRefund(generateAddress(h))` returns, as far as the model's escrow goes:
    the entries of the candidate ids with a non-zero amount. -/
def refundList (s : St) (h : Nat) (ids : List Addr) : List (Addr × Nat) :=
  (ids.filter (fun a => s.escrow h a != 0)).map (fun a => (a, s.escrow h a))

/-- `MinerManager.RemoveMiner(id, account, type, db, 0)` for an account that is not a contract:
    all four keys are emptied -/
def deleteMiner (s : St) (id typ : Nat) : St :=
  { s with miners := s.miners.map (fun m =>
      if m.id = id ∧ m.typ = typ ∧ m.alive then
        { m with stake := 0, hasAccount := false, status := m.jsonStatus, alive := false } else m) }

/-- `removeUnusedValidator` (height = Proposal010Block): the hard-coded ids (list regenerated from
    the source) that are validators are removed -/
def removeUnused010 (s : St) : St :=
  Rangers.Generated.NondetSites.unusedValidators010.foldl (fun s id =>
    if s.miners.any (fun m => m.id == id && m.typ == 0 && m.alive) then deleteMiner s id 0 else s) s

/-- `removeUnusedValidator1` → `MinerManager.RemoveUnusedValidator` (height = Proposal019Block):
    every validator the iterator yields with status normal that is not on the white list -/
def removeUnused019 (s : St) : St :=
  let unused := s.miners.filter (fun m => m.inParent && m.typ == 0 && m.status == 0
    && !(Rangers.Generated.NondetSites.whitelist019.contains m.id))
  unused.foldl (fun s m => deleteMiner s m.id 0) s

/-- `calcDifficulty`, first part (height < Proposal025Block + rewardBlocks; the second part needs
    the header `rewardBlocks` below and is not modelled) -/
def calcDifficulty (hd : Header) (s : St) : St :=
  if hd.height < hd.p025Block then s
  else if s.diff hd.castor = 0 then
    { s with diff := upd s.diff hd.castor 1, working := s.working + 1 }
  else { s with diff := upd s.diff hd.castor (s.diff hd.castor + 1) }

/-- what `Execute` does between the transaction loop and `after()` -/
def specialHeights (hd : Header) (s : St) : St :=
  let s1 := if hd.height = hd.p010Block then removeUnused010 s else s
  if hd.height = hd.p019Block then removeUnused019 s1 else s1

/-- the reward part of `after()`: `CalculateReward` + `RefundManager.Add` of its result -/
def rewardStepIn (ρ : Orders) (reward : Option RewardIn) (s : St) : St :=
  match reward with
  | none => s
  | some r =>
    match r.validators with
    | none => s                          -- calculateRewardPerBlock returned nil
    | some vs =>
      let m := rewardMap r (ρ.proposers r.proposers) (ρ.validators vs)
      rewardAddIn r.nextHeight m (ρ.total m.keys) s

/-- `after()` for situation ≠ "testing" on the main chain, height below Proposal025. -/
def afterIn (ρ : Orders) (hd : Header) (reward : St → Option RewardIn) (ids : List Addr)
    (refunds : List (Nat × Addr × Nat)) (s : St) : St :=
  let s1 := refundAddIn (ρ.refund (groupRefunds refunds [])) (calcDifficulty hd (specialHeights hd s))
  let s2 := rewardStepIn ρ (reward s1) s1
  let s3 := checkAndMoveIn hd.height (ρ.checkMove (refundList s2 hd.height ids)) s2
  if hd.p004Block = hd.height then checkAndMoveIn 0 (ρ.checkMove (refundList s3 0 ids)) s3 else s3

structure Result where
  st : St
  receipts : List Receipt
  evicted : List Nat

/-- `VMExecutor.Execute` for situation ∉ {"casting","testing"}. `reward` gives the reward inputs as
    a function of the ledger after the transactions (`rewardInOf` computes them from the registry;
    `fun _ => none` when `CalculateReward` returns nil). `ids` bounds the escrow ids
    looked at by `CheckAndMove` (the model's stand-in for iterating the storage trie). -/
def execBlock (ρ : Orders) (env : Env) (f : Flags) (hd : Header) (reward : St → Option RewardIn)
    (ids : List Addr) (s : St) (txs : List Tx) : Result :=
  let L := (sortTxs f txs).foldl (stepTx env f hd.height) ⟨s, [], [], []⟩
  ⟨afterIn ρ hd reward ids L.refunds L.st, L.receipts.reverse, L.evicted.reverse⟩

/-! ## calcReceiptsTree -/

def hexLower (bs : Bytes) : Bytes := asciiBytes (String.join (bs.map hexOfByte))

/-- `json.Marshal(receipt)` of a receipt without logs, contract address, gas and result (what every
    transaction the model interprets produces): field order of `types.Receipt`, `Msg` / `Source` are
    `json:"-"`, `result` and `gasUsed` are omitted when empty -/
def receiptJson (height : Nat) (r : Receipt) : Bytes :=
  asciiBytes "{\"status\":" ++ natDigits (if r.failed then 0 else 1)
    ++ asciiBytes ",\"cumulativeGasUsed\":0,\"height\":" ++ natDigits height
    ++ asciiBytes ",\"transactionHash\":\"0x" ++ hexLower (padLeft 32 (natToBE r.hash))
    ++ asciiBytes "\",\"contractAddress\":\"0x0000000000000000000000000000000000000000\",\"logs\":null}"

/-- what `calcReceiptsTree` hashes: the JSON encodings concatenated in list order -/
def receiptsPreimage (height : Nat) (rs : List Receipt) : Bytes :=
  (rs.map (receiptJson height)).flatten

/-- `calcReceiptsTree`: the zero hash for an empty list, else SHA-256 of the concatenation -/
def receiptsRoot (height : Nat) (rs : List Receipt) : Bytes :=
  if rs.isEmpty then List.replicate 32 0 else Rangers.WireSha.sha256 (receiptsPreimage height rs)

/-! ## casting mode -/

/-- `VMExecutor.Execute` for situation = "casting": no sort (the pool hands the list over in
    execution order), and the wall clock may make the loop `break` — the deadline is tested at the
    top of an iteration, before anything of that transaction has touched the ledger — so only the
    first `k` list entries are processed, for a `k` the model leaves arbitrary.  Returns the result
    and the transaction list the proposer packs into the block (the executed ones). -/
def castBlock (ρ : Orders) (env : Env) (f : Flags) (hd : Header) (reward : St → Option RewardIn)
    (ids : List Addr) (s : St) (txs : List Tx) (k : Nat) : Result × List Tx :=
  let run := txs.take k
  let L := run.foldl (stepTx env f hd.height) ⟨s, [], [], []⟩
  (⟨afterIn ρ hd reward ids L.refunds L.st, L.receipts.reverse, L.evicted.reverse⟩,
   run.filter (fun t => t.typ ≠ 0))

/-- `opBlockhash`: the node's chain index (`GetHash`) is asked only for heights in the window
    `lower ≤ n < BlockNumber` (`lower = BlockNumber − 256`, 0 below height 257) -/
def blockhashAsksChain (n cur : Nat) : Bool :=
  decide ((if cur < 257 then 0 else cur - 256) ≤ n ∧ n < cur)

/-- the state root: `trie.Hash()` after `Finalise` over the dirty set in runtime order -/
def rootIn (ρ : Orders) (hash : (Addr → Option Nat) → Nat) (dirty : List Addr)
    (leaf : Addr → Option Nat) (trie : Addr → Option Nat) : Nat :=
  hash (finaliseIn (ρ.dirty dirty) leaf trie)

/-! ## where the flags come from -/

/-- activation heights of the proposals the model looks at (`common.LocalChainConfig`) -/
structure ForkTable where
  p006 : Nat
  p007 : Nat
  p016 : Nat
  p018 : Nat
  p021 : Nat
  p023 : Nat
  deriving Repr, DecidableEq, Inhabited

/-- `common.IsProposalNNN()` = `isForked(base, common.GetBlockHeight())`: the flags are read from
    the *process-wide* chain height `g` (the node's own top), not from the header executed. -/
def flagsAt (t : ForkTable) (g : Nat) : Flags :=
  ⟨decide (g ≥ t.p006), decide (g ≥ t.p007), decide (g ≥ t.p016), decide (g ≥ t.p018), decide (g ≥ t.p021), decide (g ≥ t.p023)⟩

/-- block execution on a node whose chain top is `g` -/
def execBlockAt (ρ : Orders) (env : Env) (t : ForkTable) (g : Nat) (hd : Header) (reward : St → Option RewardIn)
    (ids : List Addr) (s : St) (txs : List Tx) : Result :=
  execBlock ρ env (flagsAt t g) hd reward ids s txs

/-- Go panics in `Less` when two zero-requestId txs of one source share nonce and hash. -/
def hasEqualHashPair (f : Flags) : List Tx → Bool
  | [] => false
  | a :: l => l.any (fun b => f.p023 && a.reqId == 0 && b.reqId == 0 && a.srcStr == b.srcStr
                              && a.nonce == b.nonce && a.hash == b.hash) || hasEqualHashPair f l

end Rangers.Model.BlockExec
