import Rangers.Model.TrieDB
/-!
The head record on top of the node database (`src/core/blockchain_add.go`):
`insertBlock` calls `saveStates` (= `state.Commit` then `trieDB.Commit(root)`),
returns `AddBlockFailed` if that failed, and only afterwards writes the head
record (`updateLastBlock`: `heightDB.Put(latestBlockKey, header)`).  `remove`
moves the head record back to the parent header.  The statement order is a
generated fact (`TrieDbFacts.insertBlockSkeleton`, `saveStatesSkeleton`,
`headRecordWriters`); the block store itself is C05's model.  Core Lean only.
-/
namespace Rangers.Model.TrieDB

structure ChainSt where
  st : St
  /-- state root named by the head record (`bcurrent`) -/
  head : Option Hash
  /-- state roots of every block that was ever recorded as head -/
  heads : List Hash

def ChainSt.empty : ChainSt := ⟨St.empty, none, []⟩

inductive ChainOp where
  /-- anything on the node database: the stores/references of `state.Commit`, map
      re-orderings, commits issued elsewhere (`fork_block.go:saveState`), process death -/
  | node (op : Op)
  /-- `insertBlock`: `saveStates` = node commit of `root` (refused at write `failAt`), and
      only if it reported success `updateLastBlock` (whose own `Put` may fail: `headWriteOk`) -/
  | insertBlock (root : Hash) (failAt : Option Nat) (headWriteOk : Bool)
  /-- `remove`: head record := parent header; the parent was recorded as head before -/
  | remove (prev : Hash)

def chainStep (eD eC : Hash) (cs : ChainSt) : ChainOp → Option ChainSt
  | .node op => (step eD eC cs.st op).map fun s => { cs with st := s }
  | .insertBlock root failAt headWriteOk =>
    match commit cs.st root failAt (cs.st.cache.length + 1) with
    | none => none
    | some out =>
      if out.ok && headWriteOk then some ⟨out.st, some root, root :: cs.heads⟩
      else some { cs with st := out.st }
  | .remove prev =>
    if cs.heads.contains prev then some { cs with head := some prev } else none

end Rangers.Model.TrieDB
