import Rangers.Model.Decimal
/-
Model (continued) of the code around the conversions, core Lean only:

* `eth_tx.ConvertTx`: the `types.ContractData` it writes (`convertTxData`), with
  `common.ToHex` (`toHex`);
* `contractExecutor.decodeContractData`: all three outputs (gas limit, transfer value,
  input) with their defaults, error cases and fork flags (`decodeContractData`), with
  `common.FromHex` / `Hex2Bytes` (`fromHex`: an invalid character silently ends the data);
* `utility.UInt64ToByte` / `ByteToUInt64` (the binding's decimal count travels through them),
  `BigIntBytesToStr`, `service.GetRawBalance`;
* the token layer of `AccountDB` (`GetERC20Binding` dispatch, the bound path of
  accountdb_tuntun.go and the unbound path of account_object_ft.go) as a small world of
  tokens × accounts (`World`, `wBind`, `wSet`, `wGet`, `wAdd`, `wSub`).

Bytes are `List Nat` (each < 256). JSON (un)marshalling of `ContractData` is outside the model.
-/
namespace Rangers.Decimal

/-! ### hex -/

/-- lower-case hex digit of `n < 16` -/
def hexDigitC (n : Nat) : Char := Nat.digitChar n

/-- `hex.EncodeToString` -/
def hexEncode : List Nat → Str
  | [] => []
  | b :: bs => hexDigitC (b / 16) :: hexDigitC (b % 16) :: hexEncode bs

/-- value of a hex digit in either case (`fromHexChar` of encoding/hex) -/
def hexValC (c : Char) : Option Nat :=
  if '0' ≤ c ∧ c ≤ '9' then some (c.toNat - 48)
  else if 'a' ≤ c ∧ c ≤ 'f' then some (c.toNat - 87)
  else if 'A' ≤ c ∧ c ≤ 'F' then some (c.toNat - 55)
  else none

/-- `common.Hex2Bytes` on an even-length string: `hex.DecodeString` with the error dropped —
    the bytes decoded before the first invalid character. -/
def hexDecode : Str → List Nat
  | a :: b :: rest =>
    match hexValC a, hexValC b with
    | some x, some y => (x * 16 + y) :: hexDecode rest
    | _, _ => []
  | _ => []

/-- `common.ToHex`: "0x" + hex, "0x0" for no bytes. -/
def toHex (b : List Nat) : Str :=
  if b = [] then ['0', 'x', '0'] else '0' :: 'x' :: hexEncode b

/-- `common.FromHex`: nil for fewer than 2 characters; an optional `0x`/`0X` is dropped, an
    odd number of digits gets a leading '0', then `Hex2Bytes`. -/
def fromHex (s : Str) : List Nat :=
  if s.length > 1 then
    let t := match s with
      | '0' :: 'x' :: r => r
      | '0' :: 'X' :: r => r
      | _ => s
    let t := if t.length % 2 = 1 then '0' :: t else t
    hexDecode t
  else []

/-! ### ConvertTx / decodeContractData -/

/-- `types.ContractData` -/
structure ContractData where
  gasPrice : Str
  gasLimit : Str
  transferValue : Str
  abiData : Str
  deriving DecidableEq, Repr

/-- the `ContractData` `eth_tx.ConvertTx` builds from a raw transaction
    (value, gas price, gas limit, payload). -/
def convertTxData (value gasPrice gas : Nat) (payload : List Nat) : ContractData :=
  { gasPrice := Nat.toDigits 10 gasPrice
    gasLimit := Nat.toDigits 10 gas
    transferValue := BigIntToStr (value : Int)
    abiData := toHex payload }

def defaultGasLimit : Nat := 6000000
def p017defaultGasLimit : Nat := 30000000

/-- `contractExecutor.decodeContractData` after the JSON has been unmarshalled:
    `none` = an error message is returned. `p005`, `p017` = `common.IsProposal005/017()`. -/
def decodeContractData (p005 p017 : Bool) (cd : ContractData) : Option (Nat × Int × List Nat) :=
  let gas : Option Nat :=
    if cd.gasLimit = [] || cd.gasLimit = ['0'] then some (if p017 then p017defaultGasLimit else defaultGasLimit)
    else parseUint64 cd.gasLimit
  match gas with
  | none => none
  | some g =>
    match StrToBigInt cd.transferValue with
    | .ok v =>
      let input : List Nat :=
        if p005 && (cd.abiData = [] || cd.abiData = ['0', 'x', '0']) then [] else fromHex cd.abiData
      some (g, v, input)
    | _ => none

/-! ### small helpers -/

/-- `utility.UInt64ToByte`: 8 bytes, big endian. -/
def uint64ToByte (n : Nat) : List Nat :=
  [n / 2 ^ 56 % 256, n / 2 ^ 48 % 256, n / 2 ^ 40 % 256, n / 2 ^ 32 % 256,
   n / 2 ^ 24 % 256, n / 2 ^ 16 % 256, n / 2 ^ 8 % 256, n % 256]

/-- big-endian value of a byte list -/
def beNat (b : List Nat) : Nat := b.foldl (fun a x => a * 256 + x) 0

/-- `utility.ByteToUInt64`: `binary.Read` of 8 bytes with the error ignored — fewer than 8
    bytes leave the result at 0, extra bytes are not read. -/
def byteToUInt64 (b : List Nat) : Nat := if b.length < 8 then 0 else beNat (b.take 8)

/-- `utility.BigIntBytesToStr` -/
def bigIntBytesToStr (b : List Nat) : Str := BigIntToStr (beNat b : Int)

/-! ### the token layer of AccountDB

Tokens and accounts are numbered. A token name is either bound to an ERC-20 contract with
a decimal count (`GetERC20Binding` finds the binding account) or not. Bound: the balance is
a storage slot of the contract in token units, re-scaled on the way in and out
(accountdb_tuntun.go). Unbound: the balance is a data entry of the account itself, stored
as `Bytes()` without re-scaling (account_object_ft.go); an empty entry reads as nil. -/

structure World where
  bind : List (Nat × Nat)            -- token → decimals (first entry wins)
  slot : List ((Nat × Nat) × Nat)    -- bound path: (token, account) → contract slot, token units
  raw : List ((Nat × Nat) × Nat)     -- unbound path: (token, account) → account data entry
  deriving DecidableEq, Repr

def World.empty : World := ⟨[], [], []⟩

def lookup2 (l : List ((Nat × Nat) × Nat)) (k : Nat × Nat) : Nat :=
  match l.find? (fun e => e.1 == k) with
  | some e => e.2
  | none => 0

def World.decimals (w : World) (t : Nat) : Option Nat :=
  match w.bind.find? (fun e => e.1 == t) with
  | some e => some e.2
  | none => none

/-- `AddERC20Binding`: refused (false) if the name is already bound. -/
def wBind (w : World) (t d : Nat) : World × Bool :=
  match w.decimals t with
  | some _ => (w, false)
  | none => ({ w with bind := w.bind ++ [(t, byteToUInt64 (uint64ToByte d))] }, true)

/-- `AccountDB.GetFT` -/
def wGet (w : World) (t a : Nat) : Res :=
  match w.decimals t with
  | some d => ftGet d (lookup2 w.slot (t, a))
  | none => .ok (lookup2 w.raw (t, a))

/-- `AccountDB.SetFT` (non-nil balance); `none` = nil dereference -/
def wSet (w : World) (t a : Nat) (n : Int) : Option World :=
  match w.decimals t with
  | some d =>
    match ftSet d n with
    | some v => some { w with slot := ((t, a), v) :: w.slot }
    | none => none
  | none => some { w with raw := ((t, a), n.natAbs) :: w.raw }

/-- `AccountDB.AddFT` (non-nil balance) -/
def wAdd (w : World) (t a : Nat) (n : Int) : Option World :=
  match w.decimals t with
  | some d =>
    match ftAdd d (lookup2 w.slot (t, a)) n with
    | some v => some { w with slot := ((t, a), v) :: w.slot }
    | none => none
  | none =>
    if n = 0 then some w
    else some { w with raw := ((t, a), ((lookup2 w.raw (t, a) : Int) + n).natAbs) :: w.raw }

/-- `AccountDB.SubFT` (non-nil balance): new world, success flag, returned integer
    (`err` = nil). -/
def wSub (w : World) (t a : Nat) (n : Int) : Option (World × Bool × Res) :=
  match w.decimals t with
  | some d =>
    match ftSub d (lookup2 w.slot (t, a)) n with
    | some (ok, v, r) => some ({ w with slot := ((t, a), v) :: w.slot }, ok, r)
    | none => none
  | none =>
    let cur := lookup2 w.raw (t, a)
    if n = 0 then some (w, true, .ok cur)
    else if cur = 0 || (cur : Int) < n then some (w, false, .err)
    else
      let left := (cur : Int) - n
      some ({ w with raw := ((t, a), left.natAbs) :: w.raw }, true, .ok left)

/-- `service.GetRawBalance`: the native balance in base units as a decimal string
    (the native token is bound with 18 decimals; slot content `bal`). -/
def rawBalanceStr (bal : Nat) : Str :=
  match ftGet 18 bal with
  | .ok v => (if v < 0 then ['-'] else []) ++ Nat.toDigits 10 v.natAbs
  | _ => ['0']

end Rangers.Decimal
