import Rangers.Basic.Hex
import Rangers.Generated.NondetSites
/-!
# What the contract executor decides before the EVM runs (C01)

`executor.IntrinsicGas`, the gas-limit part of `decodeContractData`, the gas limit
`contractExecutor.Execute` hands to the EVM, `preCheckContractFee`.  Pure functions of the
transaction payload, the sender's balance and the flags; the numeric constants are the generated
ones (`Rangers.Generated.NondetSites.c…`, re-read from the Go source on every run).
Core Lean only.
-/
namespace Rangers.Model.ContractPre
open Rangers Rangers.Generated.NondetSites

def maxU64 : Nat := 18446744073709551615

/-- `strconv.ParseUint(s, 10, 64)`: decimal digits only, non-empty, value ≤ 2^64−1 -/
def parseUint (s : Bytes) : Option Nat :=
  if s.isEmpty then none
  else if s.all (fun c => 48 ≤ c && c ≤ 57) then
    let v := s.foldl (fun acc c => acc * 10 + (c.toNat - 48)) 0
    if v ≤ maxU64 then some v else none
  else none

/-- `executor.IntrinsicGas(data, contractCreation)`; `none` = `ErrGasUintOverflow`.  The final
    `gas * GasMagnification` (Proposal026) is uint64 arithmetic and wraps. -/
def intrinsicGas (data : Bytes) (creation p026 : Bool) : Option Nat :=
  let base := if creation then cTxGasContractCreation else cTxGas
  let nz := (data.filter (fun b => b != 0)).length
  let z := data.length - nz
  let fin := fun (g : Nat) => if p026 then (g * cGasMagnification) % (maxU64 + 1) else g
  if data.isEmpty then some (fin base)
  else if (maxU64 - base) / cTxDataNonZeroGas < nz then none
  else
    let g1 := base + nz * cTxDataNonZeroGas
    if (maxU64 - g1) / cTxDataZeroGas < z then none
    else some (fin (g1 + z * cTxDataZeroGas))

/-- `decodeContractData`: the gas limit taken from the JSON field `gasLimit` -/
def rawGasLimit (field : Bytes) (p017 : Bool) : Option Nat :=
  if field.isEmpty || field == [48] then some (if p017 then cP017GasLimit else cDefaultGasLimit)
  else parseUint field

/-- the gas `contractExecutor.Execute` gives the EVM (`vmCtx.GasLimit`), `none` = "intrinsic gas too low" -/
def evmGasLimit (p015 p017 p026 : Bool) (raw intrinsic : Nat) : Option Nat :=
  if !p015 then some cDefaultGasLimit
  else if raw < intrinsic then none
  else
    let g1 := if p017 && raw > cP017GasLimit then cP017GasLimit else raw
    let g2 := if p026 then (if raw > cP026GasLimit then cP026GasLimit else raw) else g1
    some ((g2 + (maxU64 + 1) - intrinsic) % (maxU64 + 1))     -- uint64 subtraction

/-- `preCheckContractFee`: `true` = passes -/
def preCheckContractFee (p015 : Bool) (balance raw value : Nat) : Bool :=
  !p015 || decide (raw * cGasPrice + value ≤ balance)

end Rangers.Model.ContractPre
