import Rangers.Model.Decimal
/-
Model of the native-token ledger of go-rangers (property C06). Core Lean only.

What is transcribed (file:function of /repo in brackets):
 * the balance slot primitives            [storage/account/accountdb_tuntun.go: AddFT/SubFT/SetFT, ERC-20 branch,
                                           which is the only branch `SYSTEM-RPG` ever takes: GetERC20Binding
                                           answers `found` unconditionally for BLANCE_NAME]
 * amount strings                         [utility/data_convert.go: StrToBigInt] = C18's Model/Decimal.lean (exact big.Float)
 * `transferBalance`, `ChangeAssets`      [service/game.go]
 * `ProcessFee`                           [service/transaction_pool.go]
 * contract executor                      [executor/contract_executor.go: decodeContractData, preCheckContractFee,
                                           IntrinsicGas, Execute]
 * EVM frame skeleton                     [vm/evm.go: Call, CallCode, DelegateCall, StaticCall, create, AuthCall;
                                           vm/init.go: CanTransfer, Transfer; vm/instructions.go: opSuicide]
 * the per-transaction pipeline           [core/vmexecutor.go: Execute loop body, deductGasFee]
 * stake lock / refund move at ledger level [service/miner_manager.go: AddStake/AddMiner debit;
                                           service/refund_manager.go: CheckAndMove]

Fork configuration: every proposal up to 027 active except 025 (the `dev` chain config from height 12 on;
it equals main-net behaviour after Proposal027Block).

Balances are `Nat` (a storage slot holds `big.Int.Bytes()`, which has no sign); amounts travelling through
the code are `Int`, because `big.Int` amounts can be negative and the code stores the absolute value of a
negative sum.
-/
namespace Rangers.Ledger

abbrev Addr := Nat

/-- Association list; first occurrence of a key is the live one. No invariant is needed:
    `get`, `put`, `total` are consistent on any list. -/
abbrev Bal := List (Addr × Nat)

def get : Bal → Addr → Nat
  | [], _ => 0
  | (k, v) :: r, a => if k = a then v else get r a

def put : Bal → Addr → Nat → Bal
  | [], a, v => [(a, v)]
  | (k, x) :: r, a, v => if k = a then (k, v) :: r else (k, x) :: put r a v

def total : Bal → Nat
  | [] => 0
  | (_, v) :: r => v + total r

/-! ### Slot primitives -/

/-- `AccountDB.AddFT` (ERC-20 branch): `remain.Add(remain, amount); SetData(key, remain.Bytes())`.
    `Bytes()` is the absolute value, so a negative sum is stored as its magnitude. Always returns true. -/
def addBal (b : Bal) (a : Addr) (v : Int) : Bal :=
  put b a (((get b a : Nat) : Int) + v).natAbs

/-- `AccountDB.SubFT` (ERC-20 branch): refuses (no change, `false`) iff `remain < amount`;
    otherwise stores `(remain - amount).Bytes()`. A negative amount is never refused. -/
def subBal (b : Bal) (a : Addr) (v : Int) : Bal × Bool :=
  if ((get b a : Nat) : Int) < v then (b, false)
  else (put b a (((get b a : Nat) : Int) - v).natAbs, true)

/-- `vm.CanTransfer` (vm/init.go): refuses a negative amount (since the `fix:` commit recorded in
    known-findings.txt), otherwise `GetBalance(addr).Cmp(amount) >= 0`. -/
def canTransfer (b : Bal) (a : Addr) (v : Int) : Bool :=
  if v < 0 then false else decide (v ≤ ((get b a : Nat) : Int))

/-- `vm.Transfer` (vm/init.go): `SubBalance(sender)` (result dropped) then `AddBalance(recipient)`. -/
def vmTransfer (b : Bal) (src dst : Addr) (v : Int) : Bal :=
  addBal (subBal b src v).1 dst v

/-! ### Amount strings: `utility.StrToBigInt` -/

def isDigit (c : Char) : Bool := '0' ≤ c && c ≤ '9'

def digitsVal (cs : List Char) : Nat := cs.foldl (fun acc c => acc * 10 + (c.toNat - 48)) 0

/-- Result of `utility.StrToBigInt`: an error, or the `big.Int` value. -/
inductive Amount where
  | err
  | val (v : Int)
  deriving Repr, DecidableEq

/-- `utility.StrToBigInt` with the exact `big.ParseFloat(s, 10, 512, AwayFromZero)` / `Float.Mul` / `Float.Int`
    semantics of C18's model (`Rangers.Decimal.StrToBigInt`: every string, binary `p` exponents, exponent
    overflow, the two 512-bit roundings). `panic` (ErrNaN) is unreachable (`Props.C18.strToBigInt_never_panics`)
    and mapped to `err`. -/
def strToBigInt (s : String) : Amount :=
  match Rangers.Decimal.StrToBigInt s.toList with
  | .ok v => .val v
  | .err => .err
  | .panic => .err

/-! ### Constants (tied to the source by `Generated/LedgerFacts.lean`, see Props/C06) -/

def feeAccount : Addr := 0x3966eafd38c5f10cc91eaacaeff1b6682b83ced4
/-- `delta026 = StrToBigInt("0.001")` -/
def txFee : Nat := 1000000000000000
/-- `defaultGasPrice` / `types.DefaultGasPrice` -/
def gasPrice : Nat := 1000000000
/-- `defaultGasLimit` -/
def p015GasLimit : Nat := 6000000
def p017GasLimit : Nat := 30000000
def p026GasLimit : Nat := 900000000
def gasMagnification : Nat := 30
def txGas : Nat := 21000
def txGasCreate : Nat := 53000
def nonZeroByteGas : Nat := 16
def zeroByteGas : Nat := 4
def uint64Max : Nat := 18446744073709551615
def wei : Nat := 1000000000000000000

/-- `n * k`, written by recursion on `n`: proof checking then never multiplies a variable by a large literal `k`
    (the kernel would unfold `Nat.mul` along the literal). Compiled code uses the product (`scale_eq_mul`). -/
def scale (k : Nat) : Nat → Nat
  | 0 => 0
  | n + 1 => scale k n + k

theorem scale_eq (k n : Nat) : scale k n = n * k := by
  induction n with
  | zero => exact (Nat.zero_mul k).symm
  | succ m ih => rw [scale, ih, Nat.succ_mul]

def scaleMul (k n : Nat) : Nat := n * k

@[csimp] theorem scale_eq_mul : @scale = @scaleMul := by
  funext k n; exact scale_eq k n

/-- gas units to wei at the fixed gas price -/
def gasCost (gas : Nat) : Nat := scale gasPrice gas

/-! ### Fork configuration -/

/-- The proposal flags the ledger paths test (`common.IsProposalNNN()` at the block height):
    002 balance writes are journaled (`SetData`) instead of written through (`setData`);
    015 gas accounting of contract transactions (intrinsic gas, pre-check, gas fee);
    017 default gas limit 30M instead of 6M; 018 a transaction refused by `BeforeExecute` is evicted;
    026 transaction fee 0.001 instead of 0.0001 and gas magnification 30; 027 failed contract transactions pay gas.
    Default: everything on (the `dev` schedule, main-net after Proposal027Block). -/
structure Flags where
  p002 : Bool := true
  p015 : Bool := true
  p017 : Bool := true
  p018 : Bool := true
  p026 : Bool := true
  p027 : Bool := true
  /-- 014: the jump table has STAKE / UNSTAKE / UNSTAKEALL / AUTH / AUTHCALL -/
  p014 : Bool := true

/-- `delta = StrToBigInt("0.0001")` before Proposal026 -/
def txFeeOld : Nat := 100000000000000

def txFeeOf (fl : Flags) : Nat := if fl.p026 then txFee else txFeeOld

/-! ### Operator (asset transfer) transactions: service/game.go -/

/-- `transferBalance`: parse, sign test, balance test, credit target, debit source (result dropped).
    `none` = returned false (caller reverts). -/
def transferBalance (b : Bal) (src tgt : Addr) (amount : Amount) : Option Bal :=
  match amount with
  | .err => none
  | .val v =>
    if v < 0 then none
    else if ((get b src : Nat) : Int) < v then none
    else some (subBal (addBal b tgt v) src v).1

/-- `ChangeAssets`: ranges over the target map (order = list order; theorems quantify over every list,
    hence every iteration order); stops at the first failing transfer. -/
def changeAssets (b : Bal) (src : Addr) : List (Addr × Amount) → Option Bal
  | [] => some b
  | (t, a) :: rest =>
    match transferBalance b src t a with
    | none => none
    | some b' => changeAssets b' src rest

/-- `TxPool.ProcessFee` (Proposal026 fee): `none` = "not enough max" error, nothing changed. -/
def processFeeWith (fee : Nat) (b : Bal) (src : Addr) : Option Bal :=
  if get b src < fee then none
  else some (addBal (subBal b src fee).1 feeAccount fee)

def processFee (b : Bal) (src : Addr) : Option Bal := processFeeWith txFee b src

/-- `ChangeAssets` as far as it got: the balances when it stopped. Before Proposal002 nothing restores them. -/
def changeAssetsPartial (b : Bal) (src : Addr) : List (Addr × Amount) → Bal
  | [] => b
  | (t, a) :: rest =>
    match transferBalance b src t a with
    | none => b
    | some b' => changeAssetsPartial b' src rest

/-! ### EVM frame skeleton -/

inductive Action where
  | call (to : Addr) (value : Nat)
  | callcode (to : Addr) (value : Nat)
  | delegatecall (to : Addr)
  | staticcall (to : Addr)
  | create (value : Nat) (init : List Action)
  | suicide (beneficiary : Addr)
  | authcall (to : Addr) (value : Nat)
  | stake (value : Nat)
  | unstake (value : Nat)
  | unstakeAll
  | revert
  | invalid
  | stop

abbrev Script := List Action
abbrev Code := List (Addr × Script)

def codeAt : Code → Addr → Script
  | [], _ => []
  | (k, s) :: r, a => if k = a then s else codeAt r a

/-! ### Miner registry abstracted to the stake table the ledger needs -/

/-- One miner as far as the ledger is concerned (service/miner_manager.go: the slots `id`, `H id` = stake,
    `H (H id)` = account). `visible` = the miner's info record is already in the committed registry trie: the
    account iterator (`GetMinerIdByAccount`) walks the trie, which receives a block's writes only at its end. -/
structure MinerRec where
  id : Nat
  account : Addr
  stake : Nat        -- whole tokens (uint64)
  typ : Nat          -- 0 validator, 1 proposer
  visible : Bool

abbrev Reg := List MinerRec

def regGet : Reg → Nat → Option MinerRec
  | [], _ => none
  | m :: r, id => if m.id = id then some m else regGet r id

/-- `UpdateMiner`: overwrite the slots of that id (insert when new) -/
def regSet : Reg → MinerRec → Reg
  | [], x => [x]
  | m :: r, x => if m.id = x.id then x :: r else m :: regSet r x

def regDel : Reg → Nat → Reg
  | [], _ => []
  | m :: r, id => if m.id = id then r else m :: regDel r id

/-- `GetMinerIdByAccount`: first miner of the committed trie whose (live) account slot equals `a`.
    (With several miners on one account the code answers the first in trie-key order; the harness keeps
    accounts unique.) -/
def byAccount : Reg → Addr → Option MinerRec
  | [], _ => none
  | m :: r, a => if m.visible && m.account = a then some m else byAccount r a

/-- whole tokens to wei (`n * 10^18`); equals `utility.Float64ToBigInt(float64(n))` and `Uint64ToBigInt(n)` for
    n < 2^53. -/
def toWei (n : Nat) : Nat := scale wei n

theorem toWei_eq (n : Nat) : toWei n = n * wei := scale_eq wei n

def stakeSum : Reg → Nat
  | [] => 0
  | m :: r => toWei m.stake + stakeSum r

def minStake (typ : Nat) : Nat := if typ = 1 then 2000 else if typ = 0 then 400 else 0

/-- `RefundManager.GetRefundStake(now, id, account, money)` on the registry: `none` = error;
    otherwise the new registry, the tokens refunded and the miner's account.
    `money = MaxUint64` means "all". A miner left below the minimum stake is removed: deleted when nothing is
    left and its account is not a contract, else kept (status abort) with the remaining stake. -/
def getRefundStake (r : Reg) (hasCode : Addr → Bool) (id : Nat) (account : Addr) (money : Nat) :
    Option (Reg × Nat × Addr) :=
  match regGet r id with
  | none => none
  | some m =>
    if m.account ≠ account then none else
    let money := if money = uint64Max then m.stake else money
    if m.stake < money then none else
    let left := m.stake - money
    let r' := if left < minStake m.typ && left = 0 && !hasCode account then regDel r id
              else regSet r { m with stake := left }
    some (r', money, m.account)

/-! ### The refund / reward escrow -/

/-- The refund/reward escrow: (due height, beneficiary, amount). In the code: storage of the pseudo-accounts
    `sha256("refund" ++ height)`, written by `RefundManager.Add`, emptied by `CheckAndMove`. -/
abbrev Escrow := List (Nat × Addr × Nat)

def escrowTotal : Escrow → Nat
  | [] => 0
  | (_, _, v) :: r => v + escrowTotal r

/-- entries due at height `h`, as the list `CheckAndMove h` pays out -/
def dueAt : Escrow → Nat → List (Addr × Nat)
  | [], _ => []
  | (k, a, v) :: r, h => if k = h then (a, v) :: dueAt r h else dueAt r h

def notDueAt : Escrow → Nat → Escrow
  | [], _ => []
  | (k, a, v) :: r, h => if k = h then notDueAt r h else (k, a, v) :: notDueAt r h

/-- Ledger-relevant part of the account state while a block executes. `burned` is a ghost counter
    (value destroyed by SELFDESTRUCT naming the contract itself); nothing reads it. -/
structure St where
  bal : Bal
  dead : List Addr
  fresh : Nat
  burned : Nat
  reg : Reg := []
  escrow : Escrow := []
  /-- ghost: wei escrowed for refund by UNSTAKE beyond the stake it removed (known finding) -/
  excess : Nat := 0
  /-- height of the block being executed (constant during a block) -/
  height : Nat := 0
  /-- journal of `suicideChange` entries (contract, balance recorded by `Suicide`), newest first -/
  sj : List (Addr × Nat) := []
  /-- the jump table has the Proposal014 opcodes (STAKE, UNSTAKE, UNSTAKEALL, AUTH, AUTHCALL); constant during a block -/
  p014 : Bool := true

/-- Addresses handed to CREATE/CREATE2 frames: above the 160-bit range, so never one of the op-line addresses
    (in the code: keccak of (creator, nonce) / (creator, salt, code); collision with a live address is the
    hash assumption). -/
def freshAddr (n : Nat) : Addr := 2 ^ 160 + n

/-- `opSuicide`: credit the beneficiary with the contract's balance, mark suicided, zero the contract's slot. -/
def suicide (s : St) (self ben : Addr) : St :=
  let v := get s.bal self
  let b1 := addBal s.bal ben v
  { s with bal := put b1 self 0
           sj := (self, get b1 self) :: s.sj
           dead := self :: s.dead
           burned := s.burned + (if ben = self then v else 0) }

/-- A failed frame is reverted to the snapshot taken at frame entry; only the address counter survives. -/
def revertTo (snap after : St) : St := { snap with fresh := after.fresh }

/-- `suicideChange.undo` of the entries made since the snapshot, newest first: `setBalance(contract, prevbalance)` -/
def undoSuicides (b : Bal) : List (Addr × Nat) → Bal
  | [] => b
  | (a, p) :: r => undoSuicides (put b a p) r

/-- `RevertToSnapshot` under the fork flag 002. Journaled (`jr = true`): everything returns to the snapshot.
    Before Proposal002 balance slots are written with `setData`, which bypasses the journal: a revert leaves every
    balance as it is, except that `suicideChange.undo` writes back the balance `Suicide` recorded. Registry, escrow and
    the suicided marks are journaled in both regimes. -/
def revertToJ (jr : Bool) (snap after : St) : St :=
  if jr then revertTo snap after
  else { snap with fresh := after.fresh,
                   bal := undoSuicides after.bal (after.sj.take (after.sj.length - snap.sj.length)) }

def refundDelay : Nat := 36000

def hasCodeIn (code : Code) (a : Addr) : Bool := !(codeAt code a).isEmpty

/-- `opStake` (vm/instructions.go): `target = ParseUint(BigIntToStrWithoutDot(money))` whole tokens; the contract
    must be the account of a (visible) miner; `AddStake(this, miner, target)`: balance test, stake += target,
    `SubBalance(this, target tokens)`. Any failure pushes `false` and changes nothing. -/
def opStake (s : St) (self : Addr) (v : Nat) : St :=
  let t := v / wei
  if t > uint64Max then s else
  match byAccount s.reg self with
  | none => s
  | some m =>
    if t = 0 then s
    else if get s.bal self < toWei t then s
    else match regGet s.reg m.id with
      | none => s
      | some m' => { s with bal := (subBal s.bal self (toWei t)).1, reg := regSet s.reg { m' with stake := m'.stake + t } }

/-- `opUnStake`: `moneyWithoutDecimal, _ := ParseUint(...)` (a range error yields MaxUint64 = "all");
    `GetRefundStake` lowers the stake by that many whole tokens; then **the requested amount `v` itself** is
    escrowed for the transaction origin (plus `real - v` for the miner account when the removed stake exceeds `v`).
    Due height: now + 36000 (Proposal012). -/
def opUnStake (code : Code) (origin : Addr) (s : St) (self : Addr) (v : Nat) : St :=
  match byAccount s.reg self with
  | none => s
  | some m =>
    let mwd := if v / wei > uint64Max then uint64Max else v / wei
    match getRefundStake s.reg (hasCodeIn code) m.id self mwd with
    | none => s
    | some (r', refund, acct) =>
      let real := toWei refund
      let h := s.height + refundDelay
      let e1 := if v < real then s.escrow ++ [(h, acct, real - v)] else s.escrow
      { s with reg := r', escrow := e1 ++ [(h, origin, v)], excess := s.excess + (v - real) }

/-- `opUnStakeAll`: the whole stake is refunded to the miner account; an unknown miner or a refusal is an
    execution error of the frame (`none`). -/
def opUnStakeAll (code : Code) (s : St) (self : Addr) : Option St :=
  match byAccount s.reg self with
  | none => none
  | some m =>
    match getRefundStake s.reg (hasCodeIn code) m.id self uint64Max with
    | none => none
    | some (r', refund, acct) =>
      some { s with reg := r', escrow := s.escrow ++ [(s.height + refundDelay, acct, toWei refund)] }

/-- Executes the actions of one frame running as `self`. `fuel` is the gas bound: each action and each frame
    entry costs at least one unit, running out is the out-of-gas error of that frame.
    `ro` = static context (`interpreter.readOnly`). `origin` = `evm.Origin` (the AUTHCALL sponsor).
    Result: state and whether the frame ended without error. -/
def exec (code : Code) (origin : Addr) (jr : Bool) : Nat → Addr → Bool → Script → St → St × Bool
  | 0, _, _, _, s => (s, false)
  | _ + 1, _, _, [], s => (s, true)
  | f + 1, self, ro, a :: rest, s =>
    match a with
    | .stop => (s, true)
    | .revert => (s, false)
    | .invalid => (s, false)
    | .suicide ben => if ro then (s, false) else (suicide s self ben, true)
    | .call to v =>
      if ro && v != 0 then (s, false) else
      -- evm.Call
      let s1 :=
        if v != 0 && !canTransfer s.bal self v then s
        else
          let r := exec code origin jr f to ro (codeAt code to) { s with bal := vmTransfer s.bal self to v }
          if r.2 then r.1 else revertToJ jr s r.1
      exec code origin jr f self ro rest s1
    | .callcode to v =>
      -- evm.CallCode: balance test only, code of `to` runs as `self`
      let s1 :=
        if !canTransfer s.bal self v then s
        else
          let r := exec code origin jr f self ro (codeAt code to) s
          if r.2 then r.1 else revertToJ jr s r.1
      exec code origin jr f self ro rest s1
    | .delegatecall to =>
      let r := exec code origin jr f self ro (codeAt code to) s
      exec code origin jr f self ro rest (if r.2 then r.1 else revertToJ jr s r.1)
    | .staticcall to =>
      -- evm.StaticCall: AddBalance(addr, 0) touch, then run read-only
      let r := exec code origin jr f to true (codeAt code to) { s with bal := addBal s.bal to 0 }
      exec code origin jr f self ro rest (if r.2 then r.1 else revertToJ jr s r.1)
    | .create v init =>
      if ro then (s, false) else
      -- evm.create
      let s1 :=
        if !canTransfer s.bal self v then s
        else
          let na := freshAddr s.fresh
          let s0 : St := { s with fresh := s.fresh + 1 }
          let r := exec code origin jr f na false init { s0 with bal := vmTransfer s0.bal self na v }
          if r.2 then r.1 else revertToJ jr s0 r.1
      exec code origin jr f self ro rest s1
    | .stake v => if !s.p014 then (s, false) else exec code origin jr f self ro rest (opStake s self v)
    | .unstake v => if !s.p014 then (s, false) else exec code origin jr f self ro rest (opUnStake code origin s self v)
    | .unstakeAll =>
      if !s.p014 then (s, false) else
      match opUnStakeAll code s self with
      | none => (s, false)
      | some s1 => exec code origin jr f self ro rest s1
    | .authcall to v =>
      -- before Proposal014 AUTH / AUTHCALL are invalid opcodes: the frame fails
      if !s.p014 then (s, false) else
      -- evm.AuthCall with a valid authorisation: the sponsor (tx origin) pays the value
      let s1 :=
        if v != 0 && !canTransfer s.bal origin v then s
        else
          let r := exec code origin jr f to ro (codeAt code to) { s with bal := vmTransfer s.bal origin to v }
          if r.2 then r.1 else revertToJ jr s r.1
      exec code origin jr f self ro rest s1

/-- Top-level `evm.Call(origin, addr, input, gas, value)` as issued by the contract executor; `value` is the
    decoded `transferValue`, a `big.Int` that may be negative. -/
def evmCallTop (code : Code) (jr : Bool) (fuel : Nat) (origin addr : Addr) (v : Int) (s : St) : St × Bool :=
  if v != 0 && !canTransfer s.bal origin v then (s, false)
  else
    let r := exec code origin jr fuel addr false (codeAt code addr) { s with bal := vmTransfer s.bal origin addr v }
    if r.2 then r else (revertToJ jr s r.1, false)

/-- Top-level `evm.Create(origin, code, gas, value)`. -/
def evmCreateTop (code : Code) (jr : Bool) (fuel : Nat) (origin : Addr) (v : Int) (init : Script) (s : St) : St × Bool :=
  if !canTransfer s.bal origin v then (s, false)
  else
    let na := freshAddr s.fresh
    let s0 : St := { s with fresh := s.fresh + 1 }
    let r := exec code origin jr fuel na false init { s0 with bal := vmTransfer s0.bal origin na v }
    if r.2 then r else (revertToJ jr s0 r.1, false)

/-! ### Contract transactions: executor/contract_executor.go -/

/-- `strconv.ParseUint(s, 10, 64)` preceded by the `"" / "0"` default of `decodeContractData`. -/
def parseGasLimit (fl : Flags) (s : String) : Option Nat :=
  if s = "" || s = "0" then some (if fl.p017 then p017GasLimit else p015GasLimit)
  else
    let cs := s.toList
    if cs.all isDigit then
      let n := digitsVal cs
      if n ≤ uint64Max then some n else none
    else none

/-- `IntrinsicGas` under Proposal026 for `nz` non-zero and `z` zero input bytes (no uint64 overflow for
    inputs below 2^40 bytes; the driver refuses longer ones). -/
def intrinsicGas (fl : Flags) (create : Bool) (nz z : Nat) : Nat :=
  ((if create then txGasCreate else txGas) + nz * nonZeroByteGas + z * zeroByteGas) * (if fl.p026 then gasMagnification else 1)

/-- `executor.IntrinsicGas(data, creation)` byte for byte, in uint64 arithmetic: the two overflow guards
    (`(MaxUint64-gas)/perByte < count` → `ErrGasUintOverflow`, here `none`) and the **unchecked** multiplication by
    `GasMagnification` under Proposal026 (wraps modulo 2^64). `intrinsicGas` above is this function on the byte
    counts (`Props.C06.intrinsicGas_is_IntrinsicGas`: equal for every input below 2^40 bytes). -/
def intrinsicGasOf (fl : Flags) (create : Bool) (data : List Nat) : Option Nat :=
  let g0 := if create then txGasCreate else txGas
  let nz := (data.filter (fun b => b != 0)).length
  let z := data.length - nz
  if (uint64Max - g0) / nonZeroByteGas < nz then none else
  let g1 := g0 + nz * nonZeroByteGas
  if (uint64Max - g1) / zeroByteGas < z then none else
  let g2 := g1 + z * zeroByteGas
  some (if fl.p026 then (g2 * gasMagnification) % (uint64Max + 1) else g2)

/-- `MinerManager.RemoveMiner(id, account, type, db, left)`: the record is wiped when nothing is left and the account
    holds no code; otherwise the stake slot becomes `left` (and the status `abort`, which is not ledger state).
    `getRefundStake` inlines it (`Props.C06.getRefundStake_removes_by_removeMiner`). -/
def removeMiner (r : Reg) (hasCode : Addr → Bool) (m : MinerRec) (left : Nat) : Reg :=
  if left = 0 && !hasCode m.account then regDel r m.id else regSet r { m with stake := left }

structure ContractTx where
  src : Addr
  target : Option Addr        -- none = contract creation
  eth : Bool                  -- TransactionTypeETHTX (jsonrpc executor) rather than TransactionTypeContract
  nonceOk : Bool              -- outcome of validateNonce (only consulted for ETHTX), an input: nonces are not ledger state
  jsonOk : Bool               -- tx.Data unmarshals into types.ContractData
  gasLimit : String
  value : String
  nz : Nat
  z : Nat
  init : Script               -- behaviour of the creation code (ignored for calls)
  gasUsed : Nat               -- gasLimit - leftOverGas as reported by the interpreter (gas metering is C11's model)

inductive Status where
  | success | failed | evicted
  deriving Repr, DecidableEq

/-- Outcome of `BeforeExecute` of the contract / jsonrpc executor.
    `.inl status` = stop with that status; `.inr (bal, rawGasLimit, value)` = go on to Execute. -/
def contractBefore (fl : Flags) (b : Bal) (t : ContractTx) : (Status × Bal) ⊕ (Bal × Nat × Int) :=
  -- a transaction the jsonrpc executor reports as not addable is evicted from Proposal018 on, failed before
  let refused : Status := if t.eth && fl.p018 then .evicted else .failed
  if t.eth && !t.nonceOk then .inl (refused, b) else
  match processFeeWith (txFeeOf fl) b t.src with
  | none => .inl (refused, b)
  | some b1 =>
    if !t.jsonOk then .inl (.failed, b1) else
    match parseGasLimit fl t.gasLimit with
    | none => .inl (.failed, b1)
    | some raw =>
      match strToBigInt t.value with
      | .err => .inl (.failed, b1)
      | .val v =>
        -- preCheckContractFee (Proposal015): balance < gasLimit*price + value  →  ErrInsufficientFunds
        if fl.p015 && decide (((get b1 t.src : Nat) : Int) < ((gasCost raw : Nat) : Int) + v) then .inl (.failed, b1)
        else .inr (b1, raw, v)

/-- Charging a gas fee: clamp `gasUsed * price` to the balance, debit the sender, credit the fee account.
    Transcribes both `deductGasFee` (core/vmexecutor.go) and the fee step of `contractExecutor.Execute`. -/
def chargeGas (b : Bal) (src : Addr) (gasUsed : Nat) : Bal :=
  let want := gasCost gasUsed
  let fee := if get b src < want then get b src else want
  addBal (subBal b src fee).1 feeAccount fee

/-- `deductGasFee` (core/vmexecutor.go) -/
def deductGasFee (b : Bal) (src : Addr) (gasUsed : Nat) : Bal := chargeGas b src gasUsed

/-- `contractExecutor.Execute`. Returns the state, success flag, and the new `context["gasUsed"]`
    (`none` = this call did not assign it). -/
def contractExecute (fl : Flags) (code : Code) (fuel : Nat) (t : ContractTx) (raw : Nat) (v : Int) (s : St) :
    St × Bool × Option Nat :=
  let ig := intrinsicGas fl t.target.isNone t.nz t.z
  if fl.p015 && decide (raw < ig) then (s, false, none) else
  let r := match t.target with
    | none => evmCreateTop code fl.p002 fuel t.src v t.init s
    | some a => evmCallTop code fl.p002 fuel t.src a v s
  -- before Proposal015 there is no gas accounting at all
  if !fl.p015 then (r.1, r.2, none) else
  -- gasFeeUsed = gasUsed * price, clamped to the sender's balance (second `fix:` commit of
  -- known-findings.txt), SubBalance(source) — result dropped — and AddBalance(FeeAccount): the same three
  -- steps as `deductGasFee` in core/vmexecutor.go, hence the same model function
  let b2 := chargeGas r.1.bal t.src t.gasUsed
  ({ r.1 with bal := b2 }, r.2, some t.gasUsed)

/-! ### Miner transactions (executor/miner_executor.go, service/miner_manager.go, service/refund_manager.go) -/

/-- `minerApplyExecutor.Execute` → `MinerManager.AddMiner`: type, minimum stake, keys, balance, id not yet a miner,
    account not yet owning a (visible) miner; then `SubBalance(src, stake tokens)` and the new record.
    `none` = the executor answered false. -/
def minerApply (s : St) (src : Addr) (id typ stake : Nat) (account : Addr) (keysOk : Bool) : Option St :=
  if typ ≠ 0 && typ ≠ 1 then none
  else if stake < minStake typ then none
  else if !keysOk then none
  else if get s.bal src < toWei stake then none
  else if (regGet s.reg id).isSome then none
  else if (byAccount s.reg account).isSome then none
  else some { s with bal := (subBal s.bal src (toWei stake)).1,
                     reg := regSet s.reg { id := id, account := account, stake := stake, typ := typ, visible := false } }

/-- `minerAddExecutor.Execute` → `MinerManager.AddStake`. -/
def minerAdd (s : St) (src : Addr) (id delta : Nat) : Option St :=
  if delta = 0 then some s
  else if get s.bal src < toWei delta then none
  else match regGet s.reg id with
    | none => none
    | some m => some { s with bal := (subBal s.bal src (toWei delta)).1, reg := regSet s.reg { m with stake := m.stake + delta } }

/-- `minerRefundExecutor.Execute`: an unsigned transaction is a successful no-op; the amount must parse as uint64
    (`amount = none` otherwise); `GetRefundStake` with the sender as account; the refund (due now + 36000) is put
    into the executor context and reaches the escrow at the end of the block.
    (Two different accounts refunding into one height in one block: the second entry is dropped by the code —
    C20's subject; the harness keeps one refund per block.) -/
def minerRefund (code : Code) (s : St) (src : Addr) (id : Nat) (amount : Option Nat) (signed : Bool) :
    Option (St × Escrow) :=
  if !signed then some (s, []) else
  match amount with
  | none => none
  | some a =>
    match getRefundStake s.reg (hasCodeIn code) id src a with
    | none => none
    | some (r', refund, acct) => some ({ s with reg := r' }, [(s.height + refundDelay, acct, toWei refund)])

/-- `minerChangeAccountExecutor.Execute` (type 6): the miner must exist, the new account must differ from the current
    one, the sender must be the current account, and the new account must not own a (visible) miner. Only the
    registry changes. -/
def minerChange (s : St) (src : Addr) (id : Nat) (newAcct : Addr) : Option St :=
  match regGet s.reg id with
  | none => none
  | some m =>
    if m.account = newAcct then none
    else if m.account ≠ src then none
    else if (byAccount s.reg newAcct).isSome then none
    else some { s with reg := regSet s.reg { m with account := newAcct } }

/-- `ten = StrToBigInt("10")` of executor/miner_node_executor.go -/
def nodeFee : Nat := 10000000000000000000

/-- `minerNodeExecutor.Execute` (OperatorNode, type 7): balance test against 10 RPG, `SubBalance(owner, ten)` —
    credited to nobody —, the sender must own a (visible) miner, the main-node contract call must yield the new
    contract account (`mainOk`, `newAcct`: inputs), which replaces the miner's account. Any failure after the debit
    makes the caller revert. -/
def nodeTxWith (fee : Nat) (s : St) (src : Addr) (newAcct : Addr) (mainOk : Bool) : Option St :=
  if get s.bal src < fee then none
  else match byAccount s.reg src with
    | none => none
    | some m =>
      match regGet s.reg m.id with
      | none => none
      | some m' =>
        if !mainOk then none
        else some { s with bal := (subBal s.bal src fee).1, reg := regSet s.reg { m' with account := newAcct } }

def nodeTx (s : St) (src : Addr) (newAcct : Addr) (mainOk : Bool) : Option St := nodeTxWith nodeFee s src newAcct mainOk

/-- `RefundManager.CheckAndMove`: every (address, value) of the escrow list is credited. -/
def refundMove (b : Bal) : List (Addr × Nat) → Bal
  | [] => b
  | (a, v) :: r => refundMove (addBal b a v) r

/-! ### Transactions and the per-transaction pipeline of `VMExecutor.Execute` -/

inductive Tx where
  | operator (src : Addr) (dataOk : Bool) (targets : List (Addr × Amount))
  | contract (t : ContractTx)
  | apply (src : Addr) (id typ stake : Nat) (account : Addr) (keysOk : Bool)   -- MinerApply (type 2)
  | addStake (src : Addr) (id delta : Nat)                                     -- MinerAdd (type 5)
  | refund (src : Addr) (id : Nat) (amount : Option Nat) (signed : Bool)       -- MinerRefund (type 3)
  | node (src : Addr) (newAcct : Addr) (mainOk : Bool)                         -- OperatorNode (type 7)
  | changeAccount (src : Addr) (id : Nat) (newAcct : Addr)                     -- MinerChangeAccount (type 6)

/-- Block-scoped executor context: `context["gasUsed"]` is never cleared between transactions. -/
structure Ctx where
  gasUsed : Option Nat
  /-- `context["refund"]`: refunds of miner-refund transactions, added to the escrow by `after()` -/
  pending : Escrow := []

structure World where
  st : St
  code : Code
  ctx : Ctx
  fl : Flags := {}

def defaultFuel : Nat := 4096

/-- One iteration of the transaction loop under the fork flags `w.fl`. -/
def execTx (fuel : Nat) (w : World) : Tx → World × Status
  | .operator src dataOk targets =>
    match processFeeWith (txFeeOf w.fl) w.st.bal src with
    | none => (w, .failed)
    | some b1 =>
      -- snapshot; operatorExecutor.Execute; revert on failure
      if !dataOk then ({ w with st := { w.st with bal := b1 } }, .failed) else
      match changeAssets b1 src targets with
      | none =>
        -- before Proposal002 the revert does not restore the transfers already made
        ({ w with st := { w.st with bal := if w.fl.p002 then b1 else changeAssetsPartial b1 src targets } }, .failed)
      | some b2 => ({ w with st := { w.st with bal := b2 } }, .success)
  | .apply src id typ stake account keysOk =>
    match processFeeWith (txFeeOf w.fl) w.st.bal src with
    | none => (w, .failed)
    | some b1 =>
      match minerApply { w.st with bal := b1 } src id typ stake account keysOk with
      | none => ({ w with st := { w.st with bal := b1 } }, .failed)
      | some s2 => ({ w with st := s2 }, .success)
  | .addStake src id delta =>
    match processFeeWith (txFeeOf w.fl) w.st.bal src with
    | none => (w, .failed)
    | some b1 =>
      match minerAdd { w.st with bal := b1 } src id delta with
      | none => ({ w with st := { w.st with bal := b1 } }, .failed)
      | some s2 => ({ w with st := s2 }, .success)
  | .refund src id amount signed =>
    match processFeeWith (txFeeOf w.fl) w.st.bal src with
    | none => (w, .failed)
    | some b1 =>
      match minerRefund w.code { w.st with bal := b1 } src id amount signed with
      | none => ({ w with st := { w.st with bal := b1 } }, .failed)
      | some (s2, pend) => ({ w with st := s2, ctx := { w.ctx with pending := w.ctx.pending ++ pend } }, .success)
  | .node src newAcct mainOk =>
    match processFeeWith (txFeeOf w.fl) w.st.bal src with
    | none => (w, .failed)
    | some b1 =>
      match nodeTx { w.st with bal := b1 } src newAcct mainOk with
      | none =>
        -- the 10 RPG are debited before the registry steps; before Proposal002 a failure does not give them back
        ({ w with st := { w.st with bal := if w.fl.p002 || decide (get b1 src < nodeFee) then b1
                                            else (subBal b1 src nodeFee).1 } }, .failed)
      | some s2 => ({ w with st := s2 }, .success)
  | .changeAccount src id newAcct =>
    match processFeeWith (txFeeOf w.fl) w.st.bal src with
    | none => (w, .failed)
    | some b1 =>
      match minerChange { w.st with bal := b1 } src id newAcct with
      | none => ({ w with st := { w.st with bal := b1 } }, .failed)
      | some s2 => ({ w with st := s2 }, .success)
  | .contract t =>
    match contractBefore w.fl w.st.bal t with
    | .inl (status, b) => ({ w with st := { w.st with bal := b } }, status)
    | .inr (b1, raw, v) =>
      let s1 : St := { w.st with bal := b1 }
      let r := contractExecute w.fl w.code fuel t raw v s1
      let ctx' : Ctx := match r.2.2 with
        | some g => { w.ctx with gasUsed := some g }
        | none => w.ctx
      if r.2.1 then ({ w with st := r.1, ctx := ctx' }, .success)
      else
        -- RevertToSnapshot, then (Proposal027) deductGasFee with whatever context["gasUsed"] holds
        let s2 := revertToJ w.fl.p002 s1 r.1
        let b3 := match ctx'.gasUsed with
          | some g => if w.fl.p027 then deductGasFee s2.bal t.src g else s2.bal
          | none => s2.bal
        ({ w with st := { s2 with bal := b3 }, ctx := ctx' }, .failed)

/-- A block: fresh context, the transactions in order, then `IntermediateRoot(true)` drops suicided
    accounts (their code disappears; balances live in the token contract's storage and stay). -/
def dropCode : Code → List Addr → Code
  | [], _ => []
  | (k, s) :: r, dead => if dead.contains k then dropCode r dead else (k, s) :: dropCode r dead

def execTxs (fuel : Nat) : World → List Tx → World × List Status
  | w, [] => (w, [])
  | w, t :: ts =>
    let r := execTx fuel w t
    let r2 := execTxs fuel r.1 ts
    (r2.1, r.2 :: r2.2)

/-- `RefundManager.CheckAndMove(h)`: credit every entry due at `h`, remove it from the escrow. -/
def checkAndMove (b : Bal) (e : Escrow) (h : Nat) : Bal × Escrow :=
  (refundMove b (dueAt e h), notDueAt e h)

/-- `VMExecutor.after` at height `h`: `RefundManager.Add` of the context refunds and of the block reward
    (`rewards`: computed by `RewardCalculator.CalculateReward` — an input, its float arithmetic is C01's subject),
    then `CheckAndMove(h)`. -/
def afterBlock (b : Bal) (e : Escrow) (h : Nat) (added : Escrow) : Bal × Escrow :=
  checkAndMove b (e ++ added) h

def markVisible : Reg → Reg
  | [] => []
  | m :: r => { m with visible := true } :: markVisible r

/-- A whole block at height `h`: fresh executor context, the transactions in order, `after()` (context refunds and
    `rewards` into the escrow, pay what is due at `h`), then the commit: registry writes become visible to the
    account iterator, suicided accounts lose their code. -/
def execBlock (fuel : Nat) (w : World) (h : Nat) (txs : List Tx) (rewards : Escrow) : World × List Status :=
  let r := execTxs fuel { w with ctx := { gasUsed := none, pending := [] }, st := { w.st with height := h, p014 := w.fl.p014 } } txs
  let w' := r.1
  let a := afterBlock w'.st.bal w'.st.escrow h (w'.ctx.pending ++ rewards)
  ({ w' with code := dropCode w'.code w'.st.dead,
             st := { w'.st with dead := [], sj := [], bal := a.1, escrow := a.2, reg := markVisible w'.st.reg } }, r.2)

end Rangers.Ledger
