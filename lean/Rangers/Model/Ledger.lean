import Rangers.Model.Decimal
/-
Model of the native-token ledger of go-rangers (property C06). Core Lean only.

What is transcribed (file:function of /repo in brackets):
 * the balance slot primitives            [storage/account/accountdb_tuntun.go: AddFT/SubFT/SetFT, ERC-20 branch,
                                           which is the only branch `SYSTEM-RPG` ever takes: GetERC20Binding
                                           answers `found` unconditionally for BLANCE_NAME]
 * amount strings                         [utility/data_convert.go: StrToBigInt] = C18's Model/Decimal.lean (exact big.Float)
 * `transferBalance`, `ChangeAssets`      [service/game.go]
 * `ProcessFee`                           [service/transaction_pool.go]
 * contract executor                      [executor/contract_executor.go: decodeContractData, preCheckContractFee,
                                           IntrinsicGas, Execute]
 * EVM frame skeleton                     [vm/evm.go: Call, CallCode, DelegateCall, StaticCall, create, AuthCall;
                                           vm/init.go: CanTransfer, Transfer; vm/instructions.go: opSuicide]
 * the per-transaction pipeline           [core/vmexecutor.go: Execute loop body, deductGasFee]
 * stake lock / refund move at ledger level [service/miner_manager.go: AddStake/AddMiner debit;
                                           service/refund_manager.go: CheckAndMove]

Fork configuration: every proposal up to 027 active except 025 (the `dev` chain config from height 12 on;
it equals main-net behaviour after Proposal027Block).

Balances are `Nat` (a storage slot holds `big.Int.Bytes()`, which has no sign); amounts travelling through
the code are `Int`, because `big.Int` amounts can be negative and the code stores the absolute value of a
negative sum.
-/
namespace Rangers.Ledger

abbrev Addr := Nat

/-- Association list; first occurrence of a key is the live one. No invariant is needed:
    `get`, `put`, `total` are consistent on any list. -/
abbrev Bal := List (Addr × Nat)

def get : Bal → Addr → Nat
  | [], _ => 0
  | (k, v) :: r, a => if k = a then v else get r a

def put : Bal → Addr → Nat → Bal
  | [], a, v => [(a, v)]
  | (k, x) :: r, a, v => if k = a then (k, v) :: r else (k, x) :: put r a v

def total : Bal → Nat
  | [] => 0
  | (_, v) :: r => v + total r

/-! ### Slot primitives -/

/-- `AccountDB.AddFT` (ERC-20 branch): `remain.Add(remain, amount); SetData(key, remain.Bytes())`.
    `Bytes()` is the absolute value, so a negative sum is stored as its magnitude. Always returns true. -/
def addBal (b : Bal) (a : Addr) (v : Int) : Bal :=
  put b a (((get b a : Nat) : Int) + v).natAbs

/-- `AccountDB.SubFT` (ERC-20 branch): refuses (no change, `false`) iff `remain < amount`;
    otherwise stores `(remain - amount).Bytes()`. A negative amount is never refused. -/
def subBal (b : Bal) (a : Addr) (v : Int) : Bal × Bool :=
  if ((get b a : Nat) : Int) < v then (b, false)
  else (put b a (((get b a : Nat) : Int) - v).natAbs, true)

/-- `vm.CanTransfer` (vm/init.go): refuses a negative amount (since the `fix:` commit recorded in
    known-findings.txt), otherwise `GetBalance(addr).Cmp(amount) >= 0`. -/
def canTransfer (b : Bal) (a : Addr) (v : Int) : Bool :=
  if v < 0 then false else decide (v ≤ ((get b a : Nat) : Int))

/-- `vm.Transfer` (vm/init.go): `SubBalance(sender)` (result dropped) then `AddBalance(recipient)`. -/
def vmTransfer (b : Bal) (src dst : Addr) (v : Int) : Bal :=
  addBal (subBal b src v).1 dst v

/-! ### Amount strings: `utility.StrToBigInt` -/

def isDigit (c : Char) : Bool := '0' ≤ c && c ≤ '9'

def digitsVal (cs : List Char) : Nat := cs.foldl (fun acc c => acc * 10 + (c.toNat - 48)) 0

/-- Result of `utility.StrToBigInt`: an error, or the `big.Int` value. -/
inductive Amount where
  | err
  | val (v : Int)
  deriving Repr, DecidableEq

/-- `utility.StrToBigInt` with the exact `big.ParseFloat(s, 10, 512, AwayFromZero)` / `Float.Mul` / `Float.Int`
    semantics of C18's model (`Rangers.Decimal.StrToBigInt`: every string, binary `p` exponents, exponent
    overflow, the two 512-bit roundings). `panic` (ErrNaN) is unreachable (`Props.C18.strToBigInt_never_panics`)
    and mapped to `err`. -/
def strToBigInt (s : String) : Amount :=
  match Rangers.Decimal.StrToBigInt s.toList with
  | .ok v => .val v
  | .err => .err
  | .panic => .err

/-! ### Constants (tied to the source by `Generated/LedgerFacts.lean`, see Props/C06) -/

def feeAccount : Addr := 0x3966eafd38c5f10cc91eaacaeff1b6682b83ced4
/-- `delta026 = StrToBigInt("0.001")` -/
def txFee : Nat := 1000000000000000
/-- `defaultGasPrice` / `types.DefaultGasPrice` -/
def gasPrice : Nat := 1000000000
def p017GasLimit : Nat := 30000000
def p026GasLimit : Nat := 900000000
def gasMagnification : Nat := 30
def txGas : Nat := 21000
def txGasCreate : Nat := 53000
def nonZeroByteGas : Nat := 16
def zeroByteGas : Nat := 4
def uint64Max : Nat := 18446744073709551615
def wei : Nat := 1000000000000000000

/-! ### Operator (asset transfer) transactions: service/game.go -/

/-- `transferBalance`: parse, sign test, balance test, credit target, debit source (result dropped).
    `none` = returned false (caller reverts). -/
def transferBalance (b : Bal) (src tgt : Addr) (amount : Amount) : Option Bal :=
  match amount with
  | .err => none
  | .val v =>
    if v < 0 then none
    else if ((get b src : Nat) : Int) < v then none
    else some (subBal (addBal b tgt v) src v).1

/-- `ChangeAssets`: ranges over the target map (order = list order; theorems quantify over every list,
    hence every iteration order); stops at the first failing transfer. -/
def changeAssets (b : Bal) (src : Addr) : List (Addr × Amount) → Option Bal
  | [] => some b
  | (t, a) :: rest =>
    match transferBalance b src t a with
    | none => none
    | some b' => changeAssets b' src rest

/-- `TxPool.ProcessFee` (Proposal026 fee): `none` = "not enough max" error, nothing changed. -/
def processFee (b : Bal) (src : Addr) : Option Bal :=
  if get b src < txFee then none
  else some (addBal (subBal b src txFee).1 feeAccount txFee)

/-! ### EVM frame skeleton -/

inductive Action where
  | call (to : Addr) (value : Nat)
  | callcode (to : Addr) (value : Nat)
  | delegatecall (to : Addr)
  | staticcall (to : Addr)
  | create (value : Nat) (init : List Action)
  | suicide (beneficiary : Addr)
  | authcall (to : Addr) (value : Nat)
  | revert
  | invalid
  | stop

abbrev Script := List Action
abbrev Code := List (Addr × Script)

def codeAt : Code → Addr → Script
  | [], _ => []
  | (k, s) :: r, a => if k = a then s else codeAt r a

/-- Ledger-relevant part of the account state while a block executes. `burned` is a ghost counter
    (value destroyed by SELFDESTRUCT naming the contract itself); nothing reads it. -/
structure St where
  bal : Bal
  dead : List Addr
  fresh : Nat
  burned : Nat

/-- Addresses handed to CREATE/CREATE2 frames: above the 160-bit range, so never one of the op-line addresses
    (in the code: keccak of (creator, nonce) / (creator, salt, code); collision with a live address is the
    hash assumption). -/
def freshAddr (n : Nat) : Addr := 2 ^ 160 + n

/-- `opSuicide`: credit the beneficiary with the contract's balance, mark suicided, zero the contract's slot. -/
def suicide (s : St) (self ben : Addr) : St :=
  let v := get s.bal self
  let b1 := addBal s.bal ben v
  { s with bal := put b1 self 0
           dead := self :: s.dead
           burned := s.burned + (if ben = self then v else 0) }

/-- A failed frame is reverted to the snapshot taken at frame entry; only the address counter survives. -/
def revertTo (snap after : St) : St := { snap with fresh := after.fresh }

/-- Executes the actions of one frame running as `self`. `fuel` is the gas bound: each action and each frame
    entry costs at least one unit, running out is the out-of-gas error of that frame.
    `ro` = static context (`interpreter.readOnly`). `origin` = `evm.Origin` (the AUTHCALL sponsor).
    Result: state and whether the frame ended without error. -/
def exec (code : Code) (origin : Addr) : Nat → Addr → Bool → Script → St → St × Bool
  | 0, _, _, _, s => (s, false)
  | _ + 1, _, _, [], s => (s, true)
  | f + 1, self, ro, a :: rest, s =>
    match a with
    | .stop => (s, true)
    | .revert => (s, false)
    | .invalid => (s, false)
    | .suicide ben => if ro then (s, false) else (suicide s self ben, true)
    | .call to v =>
      if ro && v != 0 then (s, false) else
      -- evm.Call
      let s1 :=
        if v != 0 && !canTransfer s.bal self v then s
        else
          let r := exec code origin f to ro (codeAt code to) { s with bal := vmTransfer s.bal self to v }
          if r.2 then r.1 else revertTo s r.1
      exec code origin f self ro rest s1
    | .callcode to v =>
      -- evm.CallCode: balance test only, code of `to` runs as `self`
      let s1 :=
        if !canTransfer s.bal self v then s
        else
          let r := exec code origin f self ro (codeAt code to) s
          if r.2 then r.1 else revertTo s r.1
      exec code origin f self ro rest s1
    | .delegatecall to =>
      let r := exec code origin f self ro (codeAt code to) s
      exec code origin f self ro rest (if r.2 then r.1 else revertTo s r.1)
    | .staticcall to =>
      -- evm.StaticCall: AddBalance(addr, 0) touch, then run read-only
      let r := exec code origin f to true (codeAt code to) { s with bal := addBal s.bal to 0 }
      exec code origin f self ro rest (if r.2 then r.1 else revertTo s r.1)
    | .create v init =>
      if ro then (s, false) else
      -- evm.create
      let s1 :=
        if !canTransfer s.bal self v then s
        else
          let na := freshAddr s.fresh
          let s0 : St := { s with fresh := s.fresh + 1 }
          let r := exec code origin f na false init { s0 with bal := vmTransfer s0.bal self na v }
          if r.2 then r.1 else revertTo s0 r.1
      exec code origin f self ro rest s1
    | .authcall to v =>
      -- evm.AuthCall with a valid authorisation: the sponsor (tx origin) pays the value
      let s1 :=
        if v != 0 && !canTransfer s.bal origin v then s
        else
          let r := exec code origin f to ro (codeAt code to) { s with bal := vmTransfer s.bal origin to v }
          if r.2 then r.1 else revertTo s r.1
      exec code origin f self ro rest s1

/-- Top-level `evm.Call(origin, addr, input, gas, value)` as issued by the contract executor; `value` is the
    decoded `transferValue`, a `big.Int` that may be negative. -/
def evmCallTop (code : Code) (fuel : Nat) (origin addr : Addr) (v : Int) (s : St) : St × Bool :=
  if v != 0 && !canTransfer s.bal origin v then (s, false)
  else
    let r := exec code origin fuel addr false (codeAt code addr) { s with bal := vmTransfer s.bal origin addr v }
    if r.2 then r else (revertTo s r.1, false)

/-- Top-level `evm.Create(origin, code, gas, value)`. -/
def evmCreateTop (code : Code) (fuel : Nat) (origin : Addr) (v : Int) (init : Script) (s : St) : St × Bool :=
  if !canTransfer s.bal origin v then (s, false)
  else
    let na := freshAddr s.fresh
    let s0 : St := { s with fresh := s.fresh + 1 }
    let r := exec code origin fuel na false init { s0 with bal := vmTransfer s0.bal origin na v }
    if r.2 then r else (revertTo s0 r.1, false)

/-! ### Contract transactions: executor/contract_executor.go -/

/-- `strconv.ParseUint(s, 10, 64)` preceded by the `"" / "0"` default of `decodeContractData`. -/
def parseGasLimit (s : String) : Option Nat :=
  if s = "" || s = "0" then some p017GasLimit
  else
    let cs := s.toList
    if cs.all isDigit then
      let n := digitsVal cs
      if n ≤ uint64Max then some n else none
    else none

/-- `IntrinsicGas` under Proposal026 for `nz` non-zero and `z` zero input bytes (no uint64 overflow for
    inputs below 2^40 bytes; the driver refuses longer ones). -/
def intrinsicGas (create : Bool) (nz z : Nat) : Nat :=
  ((if create then txGasCreate else txGas) + nz * nonZeroByteGas + z * zeroByteGas) * gasMagnification

structure ContractTx where
  src : Addr
  target : Option Addr        -- none = contract creation
  eth : Bool                  -- TransactionTypeETHTX (jsonrpc executor) rather than TransactionTypeContract
  nonceOk : Bool              -- outcome of validateNonce (only consulted for ETHTX), an input: nonces are not ledger state
  jsonOk : Bool               -- tx.Data unmarshals into types.ContractData
  gasLimit : String
  value : String
  nz : Nat
  z : Nat
  init : Script               -- behaviour of the creation code (ignored for calls)
  gasUsed : Nat               -- gasLimit - leftOverGas as reported by the interpreter (gas metering is C11's model)

inductive Status where
  | success | failed | evicted
  deriving Repr, DecidableEq

/-- Outcome of `BeforeExecute` of the contract / jsonrpc executor.
    `.inl status` = stop with that status; `.inr (bal, rawGasLimit, value)` = go on to Execute. -/
def contractBefore (b : Bal) (t : ContractTx) : (Status × Bal) ⊕ (Bal × Nat × Int) :=
  if t.eth && !t.nonceOk then .inl (.evicted, b) else
  match processFee b t.src with
  | none => .inl ((if t.eth then .evicted else .failed), b)
  | some b1 =>
    if !t.jsonOk then .inl (.failed, b1) else
    match parseGasLimit t.gasLimit with
    | none => .inl (.failed, b1)
    | some raw =>
      match strToBigInt t.value with
      | .err => .inl (.failed, b1)
      | .val v =>
        -- preCheckContractFee: balance < gasLimit*price + value  →  ErrInsufficientFunds
        if ((get b1 t.src : Nat) : Int) < ((raw * gasPrice : Nat) : Int) + v then .inl (.failed, b1)
        else .inr (b1, raw, v)

/-- Charging a gas fee: clamp `gasUsed * price` to the balance, debit the sender, credit the fee account.
    Transcribes both `deductGasFee` (core/vmexecutor.go) and the fee step of `contractExecutor.Execute`. -/
def chargeGas (b : Bal) (src : Addr) (gasUsed : Nat) : Bal :=
  let want := gasUsed * gasPrice
  let fee := if get b src < want then get b src else want
  addBal (subBal b src fee).1 feeAccount fee

/-- `deductGasFee` (core/vmexecutor.go) -/
def deductGasFee (b : Bal) (src : Addr) (gasUsed : Nat) : Bal := chargeGas b src gasUsed

/-- `contractExecutor.Execute`. Returns the state, success flag, and the new `context["gasUsed"]`
    (`none` = this call did not assign it). -/
def contractExecute (code : Code) (fuel : Nat) (t : ContractTx) (raw : Nat) (v : Int) (s : St) :
    St × Bool × Option Nat :=
  let ig := intrinsicGas t.target.isNone t.nz t.z
  if raw < ig then (s, false, none) else
  let r := match t.target with
    | none => evmCreateTop code fuel t.src v t.init s
    | some a => evmCallTop code fuel t.src a v s
  -- gasFeeUsed = gasUsed * price, clamped to the sender's balance (second `fix:` commit of
  -- known-findings.txt), SubBalance(source) — result dropped — and AddBalance(FeeAccount): the same three
  -- steps as `deductGasFee` in core/vmexecutor.go, hence the same model function
  let b2 := chargeGas r.1.bal t.src t.gasUsed
  ({ r.1 with bal := b2 }, r.2, some t.gasUsed)

/-! ### Stake lock and refund at ledger level -/

/-- `utility.Float64ToBigInt(float64(n))` for a stake of `n` whole tokens: exact for n < 2^53
    (the driver refuses larger ones). -/
def stakeOf (n : Nat) : Nat := n * wei

/-- Ledger effect of `MinerManager.AddStake` / `AddMiner` for a stake of `stake` wei: balance test, then
    `SubBalance(addr, stake)`. `registryOk` stands for every non-ledger test of those functions (C20 models them). -/
def lockStake (b : Bal) (src : Addr) (stake : Nat) (registryOk : Bool) : Option Bal :=
  if get b src < stake then none
  else if !registryOk then none
  else some (subBal b src stake).1

/-- `ten = StrToBigInt("10")` of executor/miner_node_executor.go -/
def nodeFee : Nat := 10000000000000000000

/-- Ledger effect of `minerNodeExecutor.Execute` (OperatorNode, type 7): balance test against 10 RPG,
    `SubBalance(owner, ten)` — credited to nobody — then the registry / main-node-contract steps
    (`registryOk`); any later failure makes the caller revert. -/
def nodeTx (b : Bal) (src : Addr) (registryOk : Bool) : Option Bal :=
  if get b src < nodeFee then none
  else if !registryOk then none
  else some (subBal b src nodeFee).1

/-- `RefundManager.CheckAndMove`: every (address, value) of the escrow list is credited. -/
def refundMove (b : Bal) : List (Addr × Nat) → Bal
  | [] => b
  | (a, v) :: r => refundMove (addBal b a v) r

/-! ### Transactions and the per-transaction pipeline of `VMExecutor.Execute` -/

inductive Tx where
  | operator (src : Addr) (dataOk : Bool) (targets : List (Addr × Amount))
  | contract (t : ContractTx)
  | lock (src : Addr) (stake : Nat) (registryOk : Bool)  -- miner apply / add-stake transactions (stake in wei)
  | node (src : Addr) (registryOk : Bool)                -- OperatorNode transaction (type 7)

/-- Block-scoped executor context: `context["gasUsed"]` is never cleared between transactions. -/
structure Ctx where
  gasUsed : Option Nat

structure World where
  st : St
  code : Code
  ctx : Ctx

def defaultFuel : Nat := 4096

/-- One iteration of the transaction loop. -/
def execTx (fuel : Nat) (w : World) : Tx → World × Status
  | .operator src dataOk targets =>
    match processFee w.st.bal src with
    | none => (w, .failed)
    | some b1 =>
      -- snapshot; operatorExecutor.Execute; revert on failure
      if !dataOk then ({ w with st := { w.st with bal := b1 } }, .failed) else
      match changeAssets b1 src targets with
      | none => ({ w with st := { w.st with bal := b1 } }, .failed)
      | some b2 => ({ w with st := { w.st with bal := b2 } }, .success)
  | .lock src n registryOk =>
    match processFee w.st.bal src with
    | none => (w, .failed)
    | some b1 =>
      match lockStake b1 src n registryOk with
      | none => ({ w with st := { w.st with bal := b1 } }, .failed)
      | some b2 => ({ w with st := { w.st with bal := b2 } }, .success)
  | .node src registryOk =>
    match processFee w.st.bal src with
    | none => (w, .failed)
    | some b1 =>
      match nodeTx b1 src registryOk with
      | none => ({ w with st := { w.st with bal := b1 } }, .failed)
      | some b2 => ({ w with st := { w.st with bal := b2 } }, .success)
  | .contract t =>
    match contractBefore w.st.bal t with
    | .inl (status, b) => ({ w with st := { w.st with bal := b } }, status)
    | .inr (b1, raw, v) =>
      let s1 : St := { w.st with bal := b1 }
      let r := contractExecute w.code fuel t raw v s1
      let ctx' : Ctx := match r.2.2 with
        | some g => { gasUsed := some g }
        | none => w.ctx
      if r.2.1 then ({ w with st := r.1, ctx := ctx' }, .success)
      else
        -- RevertToSnapshot, then (Proposal027) deductGasFee with whatever context["gasUsed"] holds
        let s2 := revertTo s1 r.1
        let b3 := match ctx'.gasUsed with
          | some g => deductGasFee s2.bal t.src g
          | none => s2.bal
        ({ w with st := { s2 with bal := b3 }, ctx := ctx' }, .failed)

/-- A block: fresh context, the transactions in order, then `IntermediateRoot(true)` drops suicided
    accounts (their code disappears; balances live in the token contract's storage and stay). -/
def dropCode : Code → List Addr → Code
  | [], _ => []
  | (k, s) :: r, dead => if dead.contains k then dropCode r dead else (k, s) :: dropCode r dead

def execTxs (fuel : Nat) : World → List Tx → World × List Status
  | w, [] => (w, [])
  | w, t :: ts =>
    let r := execTx fuel w t
    let r2 := execTxs fuel r.1 ts
    (r2.1, r.2 :: r2.2)

def execBlock (fuel : Nat) (w : World) (txs : List Tx) : World × List Status :=
  let r := execTxs fuel { w with ctx := { gasUsed := none } } txs
  let w' := r.1
  ({ w' with code := dropCode w'.code w'.st.dead, st := { w'.st with dead := [] } }, r.2)

/-! ### End of block: reward escrow and the refund mover (`VMExecutor.after`) -/

/-- The refund/reward escrow: (due height, beneficiary, amount). In the code: storage of the pseudo-accounts
    `sha256("refund" ++ height)`, written by `RefundManager.Add`, emptied by `CheckAndMove`. -/
abbrev Escrow := List (Nat × Addr × Nat)

def escrowTotal : Escrow → Nat
  | [] => 0
  | (_, _, v) :: r => v + escrowTotal r

/-- entries due at height `h`, as the list `CheckAndMove h` pays out -/
def dueAt : Escrow → Nat → List (Addr × Nat)
  | [], _ => []
  | (k, a, v) :: r, h => if k = h then (a, v) :: dueAt r h else dueAt r h

def notDueAt : Escrow → Nat → Escrow
  | [], _ => []
  | (k, a, v) :: r, h => if k = h then notDueAt r h else (k, a, v) :: notDueAt r h

/-- `RefundManager.CheckAndMove(h)`: credit every entry due at `h`, remove it from the escrow. -/
def checkAndMove (b : Bal) (e : Escrow) (h : Nat) : Bal × Escrow :=
  (refundMove b (dueAt e h), notDueAt e h)

/-- `VMExecutor.after` at height `h`: `RefundManager.Add` of what the block produced (`added`: the block reward
    computed by `RewardCalculator.CalculateReward` — an input, its float arithmetic is C01's subject — and stake
    refunds), then `CheckAndMove(h)`. -/
def afterBlock (b : Bal) (e : Escrow) (h : Nat) (added : Escrow) : Bal × Escrow :=
  checkAndMove b (e ++ added) h

end Rangers.Ledger
