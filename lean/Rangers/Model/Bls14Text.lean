import Rangers.Model.Bls14G2
/-!
C14 model, part 8: the TEXTUAL encodings of keys, ids, signatures and public keys —
`GetHexString` / `SetHexString` / `MarshalJSON` / `UnmarshalJSON` of `groupsig`, with the helpers they
rest on (`big.Int.Text(16)`, `big.Int.SetString(·, 16)`, `common.Bytes2Hex`, `common.Hex2Bytes`,
`common.ToHex`), quirks included:
* `BnInt.getHexString` prints the value unpadded (`0x0` for zero, an ODD number of digits when the
  top nibble is zero); `BnInt.setHexString` parses with `SetString(·,16)` and ignores its verdict:
  no digits ↦ 0, junk after digits ↦ the digits before it, the empty digit string leaves the OLD value;
* `ID.GetHexString` is `ToHex(Serialize())` (64 digits), unlike `Seckey.GetHexString`;
* `common.Hex2Bytes` swallows the decoder's error: an invalid character or an odd trailing nibble
  ends the decoding silently with the bytes decoded so far;
* `Signature/Pubkey.SetHexString` discard `Unmarshal`'s error; `UnmarshalJSON` strips the first and
  the last byte whatever they are.
Strings are lists of characters (ASCII on the line protocol).
-/
namespace Rangers.Model.Bls14
open Rangers

/-- Digits of `n` in base 16, most significant first (`big.Int.Text(16)`): `"0"` for zero. -/
def natHexAux : Nat → Nat → List Char → List Char
  | 0, _, acc => acc
  | f + 1, n, acc => if n < 16 then hexDigit n :: acc else natHexAux f (n / 16) (hexDigit (n % 16) :: acc)

def natHex (n : Nat) : List Char := natHexAux (n + 1) n []

/-- The scanner of `SetString(·, 16)`: consume hex digits (either case) from the left;
    `(value, number of digits, rest)`. -/
def scanHex : List Char → Nat → Nat → Nat × Nat × List Char
  | [], acc, k => (acc, k, [])
  | c :: cs, acc, k =>
    match hexVal? c with
    | some d => scanHex cs (acc * 16 + d) (k + 1)
    | none => (acc, k, c :: cs)

inductive SetHexRes where
  | argFailed            -- "arg failed": no `0x` prefix; the receiver is untouched
  | ok (v : Nat)         -- nil error; the receiver now holds `v`
  | unmodelled           -- a sign character: negative / explicitly signed values are outside the model
deriving DecidableEq, Repr

/-- `BnInt.setHexString(s)` on a receiver holding `old`. -/
def bnSetHexString (old : Nat) (s : List Char) : SetHexRes :=
  match s with
  | '0' :: 'x' :: buf =>
    match buf with
    | [] => .ok old
    | '+' :: _ => .unmodelled
    | '-' :: _ => .unmodelled
    | _ => .ok (scanHex buf 0 0).1
  | _ => .argFailed

/-- `BnInt.getHexString()` = `"0x" + v.Text(16)` (`Seckey.GetHexString`). -/
def bnGetHexString (n : Nat) : List Char := '0' :: 'x' :: natHex n

/-- `common.Bytes2Hex`. -/
def bytes2Hex : Bytes → List Char
  | [] => []
  | b :: bs => hexDigit (b.toNat / 16) :: hexDigit (b.toNat % 16) :: bytes2Hex bs

/-- `common.Hex2Bytes`: `hex.DecodeString` with the error dropped — whole pairs are decoded until
    the first invalid character or the dangling last nibble. -/
def hex2Bytes : List Char → Bytes
  | a :: b :: rest =>
    match hexVal? a, hexVal? b with
    | some x, some y => UInt8.ofNat (x * 16 + y) :: hex2Bytes rest
    | _, _ => []
  | _ => []

/-- `common.ToHex`. -/
def toHex0x (b : Bytes) : List Char :=
  '0' :: 'x' :: (if b.isEmpty then ['0'] else bytes2Hex b)

/-- `ID.GetHexString()` = `ToHex(Serialize())`; `none` = the panic of `Serialize` for ids ≥ 2^256. -/
def idGetHexString (n : Nat) : Option (List Char) := (idSerialize n).map toHex0x

/-- `Signature.GetHexString()`: `Marshal` of a nil value is the all-zero encoding. -/
def sigGetHexString : Sig → List Char
  | .nil => '0' :: 'x' :: bytes2Hex (g1Marshal .inf)
  | .pt q => '0' :: 'x' :: bytes2Hex (g1Marshal q)

/-- `Signature.SetHexString(s)`: `(new receiver, "arg failed"?)`. -/
def sigSetHexString (old : Sig) (s : List Char) : Sig × Bool :=
  match s with
  | '0' :: 'x' :: buf => ((g1Unmarshal old (hex2Bytes buf)).1, false)
  | _ => (old, true)

def pubGetHexString (p : Pub) : List Char := '0' :: 'x' :: bytes2Hex (Pub.serialize p)

def pubSetHexString (old : Pub) (s : List Char) : Pub × Bool :=
  match s with
  | '0' :: 'x' :: buf => ((g2Unmarshal old (hex2Bytes buf)).1, false)
  | _ => (old, true)

/-- `MarshalJSON`: the hex string between double quotes. -/
def jsonQuote (s : List Char) : List Char := '"' :: s ++ ['"']

/-- `UnmarshalJSON(data)`: fewer than 2 bytes is an error; otherwise the first and the last byte are
    dropped (not checked to be quotes) and the rest goes to `SetHexString`. -/
def jsonStrip (data : List Char) : Option (List Char) :=
  if data.length < 2 then none else some ((data.drop 1).take (data.length - 2))

end Rangers.Model.Bls14
