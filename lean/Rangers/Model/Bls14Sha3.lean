import Rangers.Basic.Hex
/-!
Executable SHA3-256 for the C14 driver (`golang.org/x/crypto/sha3.Sum256`, used by
`NewIDFromPubkey` and `Pubkey.GetAddress`). The permutation is a copy of C10's
`Model/Evm10Keccak.lean` (own namespace, so the two checks stay independent); only the padding byte
differs (0x06 instead of the legacy 0x01) and the squeeze is written as a list comprehension.
-/
namespace Rangers.Model.Bls14.Sha3

def rc : Array UInt64 := #[
  0x0000000000000001, 0x0000000000008082, 0x800000000000808A, 0x8000000080008000,
  0x000000000000808B, 0x0000000080000001, 0x8000000080008081, 0x8000000000008009,
  0x000000000000008A, 0x0000000000000088, 0x0000000080008009, 0x000000008000000A,
  0x000000008000808B, 0x800000000000008B, 0x8000000000008089, 0x8000000000008003,
  0x8000000000008002, 0x8000000000000080, 0x000000000000800A, 0x800000008000000A,
  0x8000000080008081, 0x8000000000008080, 0x0000000080000001, 0x8000000080008008]

def rotc : Array Nat := #[1,3,6,10,15,21,28,36,45,55,2,14,27,41,56,8,25,43,62,18,39,61,20,44]
def piln : Array Nat := #[10,7,11,17,18,3,5,16,8,21,24,4,15,23,19,13,12,2,20,14,22,9,6,1]

def rotl (x : UInt64) (n : Nat) : UInt64 :=
  (x <<< (UInt64.ofNat n)) ||| (x >>> (UInt64.ofNat (64 - n)))

def round (st0 : Array UInt64) (r : Nat) : Array UInt64 := Id.run do
  let mut st := st0
  let mut bc : Array UInt64 := Array.replicate 5 0
  for i in [0:5] do
    bc := bc.set! i (st[i]! ^^^ st[i+5]! ^^^ st[i+10]! ^^^ st[i+15]! ^^^ st[i+20]!)
  for i in [0:5] do
    let t := bc[(i+4)%5]! ^^^ rotl bc[(i+1)%5]! 1
    for j in [0:5] do
      st := st.set! (j*5+i) (st[j*5+i]! ^^^ t)
  let mut t := st[1]!
  for i in [0:24] do
    let j := piln[i]!
    let b := st[j]!
    st := st.set! j (rotl t rotc[i]!)
    t := b
  for j in [0:5] do
    let row := #[st[j*5]!, st[j*5+1]!, st[j*5+2]!, st[j*5+3]!, st[j*5+4]!]
    for i in [0:5] do
      st := st.set! (j*5+i) (row[i]! ^^^ ((~~~ row[(i+1)%5]!) &&& row[(i+2)%5]!))
  st := st.set! 0 (st[0]! ^^^ rc[r]!)
  return st

def permute (st0 : Array UInt64) : Array UInt64 := Id.run do
  let mut st := st0
  for r in [0:24] do
    st := round st r
  return st

/-- XOR a 136-byte block (little-endian lanes) into the state and permute. -/
def absorbBlock (st0 : Array UInt64) (blk : Array UInt8) : Array UInt64 := Id.run do
  let mut st := st0
  for i in [0:17] do
    let mut lane : UInt64 := 0
    for k in [0:8] do
      lane := lane ||| ((blk[i*8+k]!).toUInt64 <<< (UInt64.ofNat (8*k)))
    st := st.set! i (st[i]! ^^^ lane)
  return permute st

/-- Keccak-f[1600] sponge with rate 136 and the given domain/padding byte; the state after
    absorbing the whole message. -/
def absorbAll (pad : UInt8) (msg : Bytes) : Array UInt64 := Id.run do
  let data := msg.toArray
  let n := data.size
  let mut st : Array UInt64 := Array.replicate 25 0
  let full := n / 136
  for b in [0:full] do
    st := absorbBlock st (data.extract (b*136) (b*136+136))
  let tail := data.extract (full*136) n
  let mut last : Array UInt8 := tail ++ Array.replicate (136 - tail.size) 0
  last := last.set! tail.size (last[tail.size]! ||| pad)
  last := last.set! 135 (last[135]! ||| 0x80)
  return absorbBlock st last

/-- The first 32 bytes of the state, little-endian lanes. -/
def squeeze32 (st : Array UInt64) : Bytes :=
  (List.range 4).flatMap (fun i => (List.range 8).map (fun k => (st[i]! >>> (UInt64.ofNat (8*k))).toUInt8))

/-- `sha3.Sum256` (NIST SHA3-256: domain byte 0x06). -/
def sha3_256 (msg : Bytes) : Bytes := squeeze32 (absorbAll 0x06 msg)

end Rangers.Model.Bls14.Sha3
