import Rangers.Basic.Hex
import Rangers.Model.VrfCurve
import Rangers.Model.Vrf
import Rangers.Model.VrfMsg
import Rangers.Model.Qn
import Rangers.Generated.C16Facts
/-!
The two ends of the VRF flow as the node runs them:

* key generation (`ed25519.GenerateKey` / `vrf.VRFGenerateKey`): 32-byte seed → (pk, sk = seed ‖ pk);
* the proposer (`vrfWorker.genProve`): message from the BASE block's random and the cast time, proof, then the
  qualification rule evaluated at the BASE block's height (`baseBH.Height` — not the height of the block
  being cast, which is what `verifyBlockVRF` uses: quirk, see `Props/C16Flow.lean`);
* `common.GetRewardBlocks()` and the fork threshold `Proposal025Block + GetRewardBlocks()`.
-/
namespace Rangers.Model.VrfFlow
open Rangers Rangers.Model

/-- `GenerateKey` over any interface: clamp the hashed seed, multiply the base point, encode. -/
def genKeyWith {P : Type} (o : Vrf.Ops P) (seed : Bytes) : Bytes × Bytes :=
  let pk := o.encode (o.smulBase (o.expandSecret seed).1)
  (pk, seed ++ pk)

/-- `ed25519.GenerateKey(rand)` for the 32 bytes read from `rand`. -/
def genKey (seed : Bytes) : Bytes × Bytes := genKeyWith Vrf.ed25519Ops seed

/-- `common.GetRewardBlocks()`: `rewardTime / GetCastingInterval()` (main chain: constants). -/
def rewardBlocks : Nat :=
  if Generated.C16Facts.castingInterval = 0 then 0
  else Generated.C16Facts.rewardTime / Generated.C16Facts.castingInterval

/-- `Proposal025Block + GetRewardBlocks()` for a network's `Proposal025Block`. -/
def threshold (proposal025Block : Nat) : Nat := (proposal025Block + rewardBlocks) % 2 ^ 64

inductive GenOut where
  | proveErr                      -- VRFGenProve failed (malformed key)
  | proofFail                     -- "proof fail": the rule says not qualified
  | panic
  | unmodelled
  | ok (prove : Bytes) (qn : Nat)
deriving Repr, DecidableEq

/-- `vrfWorker.genProve(castTime, totalStake)`: `ns = castTime − baseBH.CurTime`. -/
def genProve (P : Qn.Params) (thr : Nat) (sk baseRandom : Bytes) (ns : Int)
    (baseHeight workingMiners totalStake : Nat) : GenOut :=
  match VrfMsg.blockMsg baseRandom ns with
  | none => .unmodelled
  | some msg =>
    match Vrf.prove sk msg with
    | .error _ => .proveErr
    | .ok pi =>
      match Qn.validateProve P thr pi baseHeight workingMiners totalStake with
      | .panic => .panic
      | .res true (.val qn) => .ok pi qn
      | .res true .undefined => .unmodelled
      | _ => .proofFail

end Rangers.Model.VrfFlow
