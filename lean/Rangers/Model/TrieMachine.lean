import Rangers.Model.TrieLive
import Rangers.Model.TrieDecode
/-
The two machines the C02 theorems relate, as pure step functions over `Trie.Op`:
  `lstep`  the live trie (`LTrie`: flags, hash nodes, cache generations, node database)
           — this is what `Drive/C02.lean` executes;
  `nstep`  the fully loaded, flag-free trie (`Node`) — what `Props/C02.lean` is about.
`Props/C02Live.lean` proves that they make the same observations on every history.
-/
namespace Rangers.Trie
open Rangers

/-- what an operation answers -/
inductive Obs where
  | ok
  | value (v : Option Bytes)
  | root (h : Bytes)
  | pairs (l : List (Bytes × Bytes))
  | err                       -- missing node / panic / fuel exhausted
deriving Repr, BEq, DecidableEq

/-- `Commit` + `NewTrie(root, db)`; the caller re-applies the cache limit to the new trie -/
def LTrie.reopen (H : Bytes → Bytes) (t : LTrie) : LTrie × Obs :=
  let r := t.commit H
  match LTrie.open r.2.db r.1 with
  | some t' => ({ t' with limit := t.limit }, .root r.1)
  | none => (r.2, .err)

/-- `NewTrie(root, db)` after `NodeDatabase.Commit` flushed the memory cache: the root comes
    back from its disk blob through `decodeNode` -/
def LTrie.openDisk (db : Store) (root : Bytes) : Option LTrie :=
  if root == emptyRoot || root == List.replicate 32 0 then some { root := .nil, gen := 0, limit := 0, db := db }
  else (resolveHashDisk db 0 root).map (fun n => { root := n, gen := 0, limit := 0, db := db })

/-- `Commit` + `NodeDatabase.Commit` + `NewTrie(root, db)` -/
def LTrie.reopenDisk (H : Bytes → Bytes) (t : LTrie) : LTrie × Obs :=
  let r := t.commit H
  match LTrie.openDisk r.2.db r.1 with
  | some t' => ({ t' with limit := t.limit }, .root r.1)
  | none => (r.2, .err)

/-- one operation on the live trie; `F` is the fuel for full iteration -/
def lstep (H : Bytes → Bytes) (F : Nat) (t : LTrie) : Op → LTrie × Obs
  | .upd k v =>
    match t.update k v with
    | some t' => (t', .ok)
    | none => (t, .err)
  | .del k =>
    match t.remove k with
    | some t' => (t', .ok)
    | none => (t, .err)
  | .get k =>
    match t.get k with
    | some r => (r.2, .value r.1)
    | none => (t, .err)
  | .hash => let r := t.hash H; (r.2, .root r.1)
  | .commit => let r := t.commit H; (r.2, .root r.1)
  | .reopen => t.reopen H
  | .dbcommit => t.reopenDisk H
  | .cachelimit n => ({ t with limit := n }, .ok)
  | .iter start =>
    -- `newNodeIterator` calls `trie.Hash()` (caching hashes in the root), then walks the trie
    -- resolving hash nodes without touching it
    let t' := (t.hash H).2
    match expandFull t'.db F t'.root with
    | some n => (t', .pairs (iterFrom n start))
    | none => (t', .err)

/-- the same operation on the fully loaded trie -/
def nstep (H : Bytes → Bytes) (t : Node) : Op → Node × Obs
  | .upd k v => (update t k v, .ok)
  | .del k => (remove t k, .ok)
  | .get k => (t, .value (lookup t k))
  | .hash => (t, .root (rootHash H t))
  | .commit => (t, .root (rootHash H t))
  | .reopen => (t, .root (rootHash H t))
  | .dbcommit => (t, .root (rootHash H t))
  | .cachelimit _ => (t, .ok)
  | .iter start => (t, .pairs (iterFrom t start))

def lrun (H : Bytes → Bytes) (F : Nat) : LTrie → List Op → LTrie × List Obs
  | t, [] => (t, [])
  | t, op :: ops => let r := lstep H F t op; let rs := lrun H F r.1 ops; (rs.1, r.2 :: rs.2)

def nrun (H : Bytes → Bytes) : Node → List Op → Node × List Obs
  | t, [] => (t, [])
  | t, op :: ops => let r := nstep H t op; let rs := nrun H r.1 ops; (rs.1, r.2 :: rs.2)

end Rangers.Trie
