import Rangers.Model.Evm11Secp
/-!
# C11 model: the bodies of the precompiles whose `Run` is plain data handling or arithmetic

`ecrecover.Run` (0x01), `dataCopy.Run` (0x04), `bigModExp.Run` (0x05), `blake2F.Run` (0x09) of
`src/vm/contracts.go`, transcribed with their input slicing and padding.  The other precompiles
(SHA-256, RIPEMD-160, bn256, BLS12-381) stay opaque: only their `RequiredGas` and the input-length
gate of their `Run` are modelled (`Evm11Interp`).
-/
namespace Rangers.Evm11

/-- `utility.RightPadBytes(slice, l)` -/
def rightPad (b : BA) (l : Nat) : BA := if l ≤ b.size then b else b ++ Array.replicate (l - b.size) (0 : UInt8)

/-- `utility.LeftPadBytes(slice, l)` -/
def leftPad (b : BA) (l : Nat) : BA := if l ≤ b.size then b else Array.replicate (l - b.size) (0 : UInt8) ++ b

/-- `allZero` of common.go -/
def allZero (b : BA) : Bool := b.all (fun x => x == 0)

/-- minimal big-endian bytes of a number (`big.Int.Bytes()`) -/
def natBytes (n : Nat) : BA :=
  let rec len (fuel n acc : Nat) : Nat :=
    match fuel with
    | 0 => acc
    | f + 1 => if n = 0 then acc else len f (n / 256) (acc + 1)
  natBE (len (n + 1) n 0) n

/-- `ecrecover.Run`: input right-padded to 128 bytes is (hash, v, r, s); `v` is byte 63 minus 27
    (a byte subtraction, wraps), bytes 32..62 must be zero, (v, r, s) must be valid non-homestead
    signature values; output = the recovered address left-padded to 32 bytes, or nothing.
    Never an error. -/
def ecrecoverRun (input : BA) : BA :=
  let inp := rightPad input 128
  let r := beNat (inp.extract 64 96)
  let s := beNat (inp.extract 96 128)
  let v := ((inp.getD 63 0).toNat + 256 - 27) % 256
  let valid := r ≥ 1 ∧ s ≥ 1 ∧ r < Secp.N ∧ s < Secp.N ∧ (v = 0 ∨ v = 1)
  if ¬ allZero (inp.extract 32 63) ∨ ¬ valid then #[] else
  match Secp.recoverAddress (beNat (inp.extract 0 32)) r s v with
  | none => #[]
  | some a => natBE 32 a

/-- generic square-and-multiply on `Nat` (`big.Int.Exp(base, exp, mod)` for `mod > 0`) -/
def modPowNat (b e m : Nat) : Nat :=
  let rec go (fuel : Nat) (b e acc : Nat) : Nat :=
    match fuel with
    | 0 => acc
    | f + 1 => if e = 0 then acc else go f (b * b % m) (e / 2) (if e % 2 = 1 then acc * b % m else acc)
  go (e + 1) (b % m) e (1 % m)

/-- the number `bigModExp.Run` left-pads: `base^exp mod m` in minimal big-endian bytes, nothing for a zero modulus -/
def modExpBody (rest : BA) (baseLen expLen modLen : Nat) : BA :=
  let base := beNat (getData rest 0 baseLen)
  let exp := beNat (getData rest baseLen expLen)
  let md := beNat (getData rest (wadd baseLen expLen) modLen)
  if md = 0 then #[] else natBytes (modPowNat base exp md)

/-- `bigModExp.Run`: header lengths truncated to 64 bits, operands sliced zero-padded out of the
    rest of the input, result left-padded to `modLen`. -/
def modExpRun (input : BA) : BA :=
  let baseLen := beNat (getData input 0 32) % 2 ^ 64
  let expLen := beNat (getData input 32 32) % 2 ^ 64
  let modLen := beNat (getData input 64 32) % 2 ^ 64
  let rest := if input.size > 96 then input.extract 96 input.size else #[]
  if baseLen = 0 ∧ modLen = 0 then #[] else leftPad (modExpBody rest baseLen expLen modLen) modLen

/-! ## BLAKE2b compression function F (EIP-152) -/

namespace Blake2

def iv : Array UInt64 := #[0x6a09e667f3bcc908, 0xbb67ae8584caa73b, 0x3c6ef372fe94f82b, 0xa54ff53a5f1d36f1,
  0x510e527fade682d1, 0x9b05688c2b3e6c1f, 0x1f83d9abfb41bd6b, 0x5be0cd19137e2179]

def sigma : Array (Array Nat) := #[
  #[0, 1, 2, 3, 4, 5, 6, 7, 8, 9, 10, 11, 12, 13, 14, 15],
  #[14, 10, 4, 8, 9, 15, 13, 6, 1, 12, 0, 2, 11, 7, 5, 3],
  #[11, 8, 12, 0, 5, 2, 15, 13, 10, 14, 3, 6, 7, 1, 9, 4],
  #[7, 9, 3, 1, 13, 12, 11, 14, 2, 6, 5, 10, 4, 0, 15, 8],
  #[9, 0, 5, 7, 2, 4, 10, 15, 14, 1, 11, 12, 6, 8, 3, 13],
  #[2, 12, 6, 10, 0, 11, 8, 3, 4, 13, 7, 5, 15, 14, 1, 9],
  #[12, 5, 1, 15, 14, 13, 4, 10, 0, 7, 6, 3, 9, 2, 8, 11],
  #[13, 11, 7, 14, 12, 1, 3, 9, 5, 0, 15, 4, 8, 6, 2, 10],
  #[6, 15, 14, 9, 11, 3, 0, 8, 12, 2, 13, 7, 1, 4, 10, 5],
  #[10, 2, 8, 4, 7, 6, 1, 5, 15, 11, 9, 14, 3, 12, 13, 0]]

@[inline] def rotr (x : UInt64) (n : UInt64) : UInt64 := (x >>> n) ||| (x <<< (64 - n))

def g (v : Array UInt64) (a b c d : Nat) (x y : UInt64) : Array UInt64 :=
  let va := v[a]! + v[b]! + x
  let vd := rotr (v[d]! ^^^ va) 32
  let vc := v[c]! + vd
  let vb := rotr (v[b]! ^^^ vc) 24
  let va := va + vb + y
  let vd := rotr (vd ^^^ va) 16
  let vc := vc + vd
  let vb := rotr (vb ^^^ vc) 63
  (((v.set! a va).set! b vb).set! c vc).set! d vd

def round (v : Array UInt64) (m : Array UInt64) (r : Nat) : Array UInt64 :=
  let s := sigma[r % 10]!
  let v := g v 0 4 8 12 m[s[0]!]! m[s[1]!]!
  let v := g v 1 5 9 13 m[s[2]!]! m[s[3]!]!
  let v := g v 2 6 10 14 m[s[4]!]! m[s[5]!]!
  let v := g v 3 7 11 15 m[s[6]!]! m[s[7]!]!
  let v := g v 0 5 10 15 m[s[8]!]! m[s[9]!]!
  let v := g v 1 6 11 12 m[s[10]!]! m[s[11]!]!
  let v := g v 2 7 8 13 m[s[12]!]! m[s[13]!]!
  g v 3 4 9 14 m[s[14]!]! m[s[15]!]!

def f (h : Array UInt64) (m : Array UInt64) (t0 t1 : UInt64) (final : Bool) (rounds : Nat) : Array UInt64 :=
  let v := h ++ iv
  let v := v.set! 12 (v[12]! ^^^ t0)
  let v := v.set! 13 (v[13]! ^^^ t1)
  let v := if final then v.set! 14 (~~~ v[14]!) else v
  let v := (List.range rounds).foldl (fun v r => round v m r) v
  (Array.range 8).map (fun i => h[i]! ^^^ v[i]! ^^^ v[i + 8]!)

def le64 (b : BA) (off : Nat) : UInt64 :=
  (List.range 8).foldl (fun acc k => acc ||| ((b.getD (off + k) 0).toUInt64 <<< (8 * k).toUInt64)) 0

end Blake2

/-- `blake2F.Run`: `none` = error (wrong length or final flag not 0/1), else the 64-byte state -/
def blake2FRun (input : BA) : Option BA :=
  if input.size ≠ 213 then none else
  let flag := (input.getD 212 0).toNat
  if flag ≠ 0 ∧ flag ≠ 1 then none else
  let rounds := beNat (input.extract 0 4)
  let h := (Array.range 8).map (fun i => Blake2.le64 input (4 + i * 8))
  let m := (Array.range 16).map (fun i => Blake2.le64 input (68 + i * 8))
  let t0 := Blake2.le64 input 196
  let t1 := Blake2.le64 input 204
  let out := Blake2.f h m t0 t1 (flag == 1) rounds
  some (out.foldl (fun acc w => acc ++ (Array.range 8).map (fun k => (w >>> (8 * k).toUInt64).toUInt8)) #[])

/-- What the model knows about `Run` of precompile `addr`: `none` = body not modelled (opaque,
    answered by the oracle tape), `some none` = `Run` returns an error, `some (some out)` = output.
    MODEXP is only evaluated for operands up to 1024 bytes and BLAKE2 F up to 20000 rounds (the
    definitions above are total; the cut-off only bounds the work of the replay). -/
def precompileRunModel (addr : Nat) (input : BA) : Option (Option BA) :=
  match addr with
  | 1 => some (some (ecrecoverRun input))
  | 4 => some (some input)
  | 5 =>
    let b := beNat (getData input 0 32) % 2 ^ 64
    let e := beNat (getData input 32 32) % 2 ^ 64
    let m := beNat (getData input 64 32) % 2 ^ 64
    if b ≤ 1024 ∧ e ≤ 1024 ∧ m ≤ 1024 then some (some (modExpRun input)) else none
  | 9 =>
    if input.size = 213 ∧ beNat (input.extract 0 4) > 20000 then none else some (blake2FRun input)
  | _ => none

/-! ## what the contract executor hands to the EVM (executor/contract_executor.go) -/

/-- `executor.IntrinsicGas(data, contractCreation)`; `none` = `ErrGasUintOverflow`.
    The final Proposal026 magnification is an unchecked uint64 product in the code. -/
def intrinsicGas (p26 : Bool) (data : BA) (creation : Bool) : Option Nat :=
  let gas0 := if creation then 53000 else 21000
  let nz := data.foldl (fun n b => if b != 0 then n + 1 else n) 0
  if data.size = 0 then some (if p26 then wmul gas0 30 else gas0) else
  if (maxU64 - gas0) / 16 < nz then none else
  let gas1 := wadd gas0 (wmul nz 16)
  let z := data.size - nz
  if (maxU64 - gas1) / 4 < z then none else
  let gas2 := wadd gas1 (wmul z 4)
  some (if p26 then wmul gas2 30 else gas2)

/-- the gas `contractExecutor.Execute` passes to `evm.Call / Create` (`vmCtx.GasLimit`), given the
    transaction's gas limit (already checked `≥ intrinsic` when Proposal015 is active) -/
def executorVmGas (p15 p17 p26 : Bool) (gasLimit intrinsic : Nat) : Nat :=
  if p15 then
    let g1 := if p17 ∧ gasLimit > 30000000 then 30000000 else gasLimit
    let g2 := if p26 then (if gasLimit > 900000000 then 900000000 else gasLimit) else g1
    wsub g2 intrinsic
  else 6000000

end Rangers.Evm11
