import Rangers.Model.Evm12World
/-
Canonical text rendering of a `World` (what the Go harness prints from the real
`AccountDB` through its getters) and a 64-bit FNV-1a digest of it. Only the driver
uses this file; no theorem depends on it.
-/
namespace Rangers.Model.Evm12

def insertSorted (x : String) : List String → List String
  | [] => [x]
  | y :: ys => if x < y then x :: y :: ys else if x = y then y :: ys else y :: insertSorted x ys

def sortDedup (xs : List String) : List String := xs.foldl (fun acc x => insertSorted x acc) []

def dedupAddrs (xs : List Addr) : List Addr :=
  xs.foldl (fun acc a => if acc.contains a then acc else a :: acc) []

def joinWith (sep : String) : List String → String
  | [] => ""
  | [x] => x
  | x :: xs => x ++ sep ++ joinWith sep xs

/-- slots the harness observes for storage and transient storage -/
def slotUniverse : List Nat := [0, 1, 2, 3, 4, 5, 6, 7]

def World.addrUniverse (w : World) : List Addr :=
  dedupAddrs (w.exist.map (·.1) ++ w.nonce.map (·.1) ++ w.bal.map (·.1) ++ w.code.map (·.1)
    ++ w.sui.map (·.1) ++ w.stor.map (·.1.1) ++ w.transient.map (·.1.1) ++ w.access ++ w.stake.map (·.1))

def World.dumpAccount (w : World) (a : Addr) : String :=
  let st := slotUniverse.filterMap (fun k =>
    let v := w.getState a k
    if v = 0 then none else some (toString k ++ "=" ++ toString v))
  a.name ++ ":" ++ toString (w.getNonce a) ++ ":" ++ (w.getCode a).name ++ ":"
    ++ (if w.hasSuicided a then "1" else "0") ++ ":" ++ joinWith "," st

def World.dump (w : World) : String :=
  let u := w.addrUniverse
  let accts := sortDedup ((u.filter w.exists?).map w.dumpAccount)
  let bals := sortDedup (u.filterMap (fun a =>
    if w.getBalance a = 0 then none else some (a.name ++ "=" ++ toString (w.getBalance a))))
  let logs := w.logs.map Log.name
  let trans := sortDedup ((u.map (fun a => slotUniverse.filterMap (fun k =>
    let v := w.getTransient a k
    if v = 0 then none else some (a.name ++ "." ++ toString k ++ "=" ++ toString v)))).flatten)
  let acc := sortDedup (w.access.map Addr.name)
  let stakes := sortDedup ((dedupAddrs (w.stake.map (·.1))).map (fun a => a.name ++ "=" ++ toString (w.getStake a)))
  "A[" ++ joinWith ";" accts ++ "] B[" ++ joinWith ";" bals ++ "] L[" ++ joinWith ";" logs
    ++ "] M[" ++ joinWith ";" stakes ++ "] T[" ++ joinWith ";" trans ++ "] X[" ++ joinWith ";" acc
    ++ "] F=" ++ toString w.refund

/-- end-of-block answer of the real block loop stream: all logs, transient storage, access list -/
def World.dumpScratch (w : World) : String :=
  let u := w.addrUniverse
  let logs := w.logs.map Log.name
  let trans := sortDedup ((u.map (fun a => slotUniverse.filterMap (fun k =>
    let v := w.getTransient a k
    if v = 0 then none else some (a.name ++ "." ++ toString k ++ "=" ++ toString v)))).flatten)
  let acc := sortDedup (w.access.map Addr.name)
  "L[" ++ joinWith ";" logs ++ "] T[" ++ joinWith ";" trans ++ "] X[" ++ joinWith ";" acc ++ "]"

def fnv1a (s : String) : UInt64 :=
  s.toUTF8.foldl (fun h b => (h ^^^ b.toUInt64) * 1099511628211) 14695981039346656037

def World.digest (w : World) : String := toString (fnv1a w.dump).toNat

end Rangers.Model.Evm12
