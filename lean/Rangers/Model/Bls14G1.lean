import Rangers.Model.Bls14Field
/-!
C14 model, part 2: what `bn256.G1` / `bn256.G2` expose — affine points, the
on-curve tests, `Marshal` / `Unmarshal` with the exact length / zero / on-curve
logic of the Go code (including what it does NOT check: trailing bytes, the
range `< p` of a coordinate), affine group arithmetic on G1, hash-to-G1 by
try-and-increment.
-/
namespace Rangers.Model.Bls14
open Rangers

/-- `numBytes` of bn256.go. -/
abbrev NB : Nat := Generated.Bls14.numBytes

/-- Fixed-width big-endian encoding (`gfP.Marshal` after `montDecode`): the low `w` bytes of `n`. -/
def beFixed : Nat → Nat → Bytes
  | 0, _ => []
  | w + 1, n => beFixed w (n / 256) ++ [UInt8.ofNat (n % 256)]

/-- A G1 value as observable through the API: infinity (`z = 0`) or an affine pair.
    An `aff` pair is NOT necessarily on the curve (a failed `Unmarshal` leaves such a value behind). -/
inductive Pt where
  | inf : Pt
  | aff (x y : Nat) : Pt
deriving DecidableEq, Repr, Inhabited

/-- `y² = x³ + b` in GF(p) (`curvePoint.IsOnCurve` for `z = 1`). -/
def onCurveXY (x y : Nat) : Bool := (y * y) % P == (x * x * x + B) % P

/-- `curvePoint.IsOnCurve`: infinity counts as on the curve. -/
def Pt.onCurve : Pt → Bool
  | .inf => true
  | .aff x y => onCurveXY x y

/-- Coordinates fully reduced (always true of values held by the Go code). -/
def Pt.reduced : Pt → Bool
  | .inf => true
  | .aff x y => decide (x < P) && decide (y < P)

/-- `G1.Marshal`: 64 bytes, all zero for infinity. -/
def g1Marshal : Pt → Bytes
  | .inf => List.replicate (2 * NB) 0
  | .aff x y => beFixed NB x ++ beFixed NB y

/-- State of a `bn256.G1` struct: `p == nil` or a point. -/
inductive G1Val where
  | nil : G1Val
  | pt (q : Pt) : G1Val
deriving DecidableEq, Repr, Inhabited

inductive UnmStatus where
  | ok (rest : Bytes)   -- returned `m[2*numBytes:]`, nil error
  | short               -- "bn256: not enough data"
  | malformed           -- "bn256: malformed point"
deriving DecidableEq, Repr

/-- `G1.Unmarshal` on receiver state `recv`.
    * fewer than 64 bytes: error, receiver untouched (the allocation comes after the length check);
    * coordinates are the two 32-byte big-endian numbers **reduced mod p** (no range check);
    * both zero (after reduction) ↦ infinity;
    * else the on-curve test; on failure the receiver keeps the off-curve pair;
    * bytes after the first 64 are returned as `rest`, never inspected. -/
def g1Unmarshal (recv : G1Val) (m : Bytes) : G1Val × UnmStatus :=
  if m.length < 2 * NB then (recv, .short)
  else
    let x := beToNat (m.take NB) % P
    let y := beToNat ((m.drop NB).take NB) % P
    if x == 0 && y == 0 then (.pt .inf, .ok (m.drop (2 * NB)))
    else if onCurveXY x y then (.pt (.aff x y), .ok (m.drop (2 * NB)))
    else (.pt (.aff x y), .malformed)

/-! ### G1 arithmetic (affine chord-and-tangent; the Go code uses Jacobian formulas whose
    affine image is this; tied by the correspondence run) -/

def Pt.neg : Pt → Pt
  | .inf => .inf
  | .aff x y => .aff x (fneg y)

def Pt.double : Pt → Pt
  | .inf => .inf
  | .aff x y =>
    if y % P == 0 then .inf
    else
      let l := fmul (fmul 3 (fmul x x)) (finv (fmul 2 y))
      let x3 := fsub (fmul l l) (fmul 2 x)
      .aff x3 (fsub (fmul l (fsub x x3)) y)

def Pt.add : Pt → Pt → Pt
  | .inf, q => q
  | p, .inf => p
  | .aff x1 y1, .aff x2 y2 =>
    if x1 % P == x2 % P then
      (if y1 % P == y2 % P then Pt.double (.aff x1 y1) else .inf)
    else
      let l := fmul (fsub y2 y1) (finv (fsub x2 x1))
      let x3 := fsub (fsub (fmul l l) x1) x2
      .aff x3 (fsub (fmul l (fsub x1 x3)) y1)

/-- Bits of `k`, least significant first. -/
def bitsLE : Nat → Nat → List Bool
  | 0, _ => []
  | fuel + 1, k => if k = 0 then [] else (k % 2 == 1) :: bitsLE fuel (k / 2)

/-- `curvePoint.Mul`: double-and-add from the most significant bit (scalars `< 2^512`). -/
def Pt.mul (a : Pt) (k : Nat) : Pt :=
  (bitsLE 512 k).reverse.foldl (fun s b => if b then Pt.add (Pt.double s) a else Pt.double s) .inf

/-- `curveGen`. -/
def g1Gen : Pt := .aff Generated.Bls14.curveGenX Generated.Bls14.curveGenY

/-! ### hash to G1 (`G1.HashToPoint`, try-and-increment from the SHA-256 digest) -/

/-- `big.Int.ModSqrt(t, P)` for `P ≡ 3 (mod 4)`: `none` when the Jacobi symbol is −1. -/
def modSqrt (t : Nat) : Option Nat :=
  let t := t % P
  if t == 0 then some 0
  else if powMod t ((P - 1) / 2) P == 1 then some (powMod t ((P + 1) / 4) P)
  else none

/-- The loop of `hashToCurvePoint` starting at `x`; `none` = fuel exhausted (reported, never defaulted). -/
def hashLoop : Nat → Nat → Option Pt
  | 0, _ => none
  | fuel + 1, x =>
    match modSqrt (x * x * x + B) with
    | some y => some (.aff (x % P) y)
    | none => hashLoop fuel (x + 1)

/-- `hashToCurvePoint(m)` given `digest = SHA-256(m)`. -/
def hashToPoint (digest : Bytes) : Option Pt := hashLoop 512 (beToNat digest % P)

/-! ### G2 (twist `y² = x³ + 3/ξ` over GF(p²)) -/

inductive Pt2 where
  | inf : Pt2
  | aff (x y : F2) : Pt2
deriving DecidableEq, Repr, Inhabited

def onTwistXY (x y : F2) : Bool :=
  F2.sq y == F2.add (F2.mul (F2.sq x) x) (F2.reduce twistB)

def Pt2.onCurve : Pt2 → Bool
  | .inf => true
  | .aff x y => onTwistXY x y

inductive G2Val where
  | nil : G2Val
  | pt (q : Pt2) : G2Val
deriving DecidableEq, Repr, Inhabited

/-- `G2.Marshal`: ONE zero byte for infinity, else 128 bytes x.x ‖ x.y ‖ y.x ‖ y.y. -/
def g2Marshal : Pt2 → Bytes
  | .inf => [0]
  | .aff x y => beFixed NB x.x ++ beFixed NB x.y ++ beFixed NB y.x ++ beFixed NB y.y

def slice (m : Bytes) (i : Nat) : Bytes := (m.drop (i * NB)).take NB

/-- `G2.Unmarshal`. Unlike G1 the receiver is allocated BEFORE the length check, so a
    short input turns a nil receiver into the zero `twistPoint` (z = 0: infinity). -/
def g2Unmarshal (recv : G2Val) (m : Bytes) : G2Val × UnmStatus :=
  let recv' := match recv with
    | .nil => G2Val.pt .inf
    | r => r
  if m.length < 4 * NB then (recv', .short)
  else
    let x : F2 := ⟨beToNat (slice m 0) % P, beToNat (slice m 1) % P⟩
    let y : F2 := ⟨beToNat (slice m 2) % P, beToNat (slice m 3) % P⟩
    if x.isZero && y.isZero then (.pt .inf, .ok (m.drop (4 * NB)))
    else if onTwistXY x y then (.pt (.aff x y), .ok (m.drop (4 * NB)))
    else (.pt (.aff x y), .malformed)

def g2Gen : Pt2 :=
  .aff ⟨Generated.Bls14.twistGenXX, Generated.Bls14.twistGenXY⟩
       ⟨Generated.Bls14.twistGenYX, Generated.Bls14.twistGenYY⟩

end Rangers.Model.Bls14
