import Rangers.Basic.Hex
/-!
SHA-512 (FIPS 180-4), executable, core Lean only.

Used by the C16 VRF model in the places where go-rangers calls `crypto/sha512`
(`hashToCurve`, `hashPoints`, `expandSecret`, `vrfNonceGeneration`). The Go
standard library implementation is in the trusted base; the correspondence run
samples `sha512 <m>` against it.
-/
namespace Rangers.Model.VrfSha512
open Rangers

def kTable : Array UInt64 := #[
  0x428a2f98d728ae22, 0x7137449123ef65cd, 0xb5c0fbcfec4d3b2f, 0xe9b5dba58189dbbc, 0x3956c25bf348b538, 0x59f111f1b605d019, 0x923f82a4af194f9b, 0xab1c5ed5da6d8118, 0xd807aa98a3030242, 0x12835b0145706fbe, 0x243185be4ee4b28c, 0x550c7dc3d5ffb4e2, 0x72be5d74f27b896f, 0x80deb1fe3b1696b1, 0x9bdc06a725c71235, 0xc19bf174cf692694, 0xe49b69c19ef14ad2, 0xefbe4786384f25e3, 0x0fc19dc68b8cd5b5, 0x240ca1cc77ac9c65, 0x2de92c6f592b0275, 0x4a7484aa6ea6e483, 0x5cb0a9dcbd41fbd4, 0x76f988da831153b5, 0x983e5152ee66dfab, 0xa831c66d2db43210, 0xb00327c898fb213f, 0xbf597fc7beef0ee4, 0xc6e00bf33da88fc2, 0xd5a79147930aa725, 0x06ca6351e003826f, 0x142929670a0e6e70, 0x27b70a8546d22ffc, 0x2e1b21385c26c926, 0x4d2c6dfc5ac42aed, 0x53380d139d95b3df, 0x650a73548baf63de, 0x766a0abb3c77b2a8, 0x81c2c92e47edaee6, 0x92722c851482353b, 0xa2bfe8a14cf10364, 0xa81a664bbc423001, 0xc24b8b70d0f89791, 0xc76c51a30654be30, 0xd192e819d6ef5218, 0xd69906245565a910, 0xf40e35855771202a, 0x106aa07032bbd1b8, 0x19a4c116b8d2d0c8, 0x1e376c085141ab53, 0x2748774cdf8eeb99, 0x34b0bcb5e19b48a8, 0x391c0cb3c5c95a63, 0x4ed8aa4ae3418acb, 0x5b9cca4f7763e373, 0x682e6ff3d6b2b8a3, 0x748f82ee5defb2fc, 0x78a5636f43172f60, 0x84c87814a1f0ab72, 0x8cc702081a6439ec, 0x90befffa23631e28, 0xa4506cebde82bde9, 0xbef9a3f7b2c67915, 0xc67178f2e372532b, 0xca273eceea26619c, 0xd186b8c721c0c207, 0xeada7dd6cde0eb1e, 0xf57d4f7fee6ed178, 0x06f067aa72176fba, 0x0a637dc5a2c898a6, 0x113f9804bef90dae, 0x1b710b35131c471b, 0x28db77f523047d84, 0x32caab7b40c72493, 0x3c9ebe0a15c9bebc, 0x431d67c49c100d4c, 0x4cc5d4becb3e42b6, 0x597f299cfc657e2a, 0x5fcb6fab3ad6faec, 0x6c44198c4a475817]

def h0 : Array UInt64 := #[
  0x6a09e667f3bcc908, 0xbb67ae8584caa73b, 0x3c6ef372fe94f82b, 0xa54ff53a5f1d36f1,
  0x510e527fade682d1, 0x9b05688c2b3e6c1f, 0x1f83d9abfb41bd6b, 0x5be0cd19137e2179]

@[inline] def rotr (x : UInt64) (n : UInt64) : UInt64 := (x >>> n) ||| (x <<< (64 - n))

def bsig0 (x : UInt64) : UInt64 := rotr x 28 ^^^ rotr x 34 ^^^ rotr x 39
def bsig1 (x : UInt64) : UInt64 := rotr x 14 ^^^ rotr x 18 ^^^ rotr x 41
def ssig0 (x : UInt64) : UInt64 := rotr x 1 ^^^ rotr x 8 ^^^ (x >>> 7)
def ssig1 (x : UInt64) : UInt64 := rotr x 19 ^^^ rotr x 61 ^^^ (x >>> 6)

/-- Big-endian 64-bit word from 8 bytes (missing bytes read as 0). -/
def wordBE (bs : Bytes) : UInt64 :=
  (bs.take 8).foldl (fun acc b => (acc <<< 8) ||| b.toUInt64) 0

def u64BE (w : UInt64) : Bytes :=
  [(w >>> 56).toUInt8, (w >>> 48).toUInt8, (w >>> 40).toUInt8, (w >>> 32).toUInt8,
   (w >>> 24).toUInt8, (w >>> 16).toUInt8, (w >>> 8).toUInt8, w.toUInt8]

/-- Split a 128-byte block into 16 words. -/
def blockWords (blk : Bytes) : Array UInt64 :=
  (List.range 16).foldl (fun a i => a.push (wordBE (blk.drop (8 * i)))) #[]

def schedule (w16 : Array UInt64) : Array UInt64 :=
  (List.range 64).foldl (fun w j =>
    let t := j + 16
    w.push (ssig1 (w[t - 2]!) + w[t - 7]! + ssig0 (w[t - 15]!) + w[t - 16]!)) w16

structure St where
  a : UInt64
  b : UInt64
  c : UInt64
  d : UInt64
  e : UInt64
  f : UInt64
  g : UInt64
  h : UInt64

def round (w : Array UInt64) (s : St) (t : Nat) : St :=
  let ch := (s.e &&& s.f) ^^^ ((~~~ s.e) &&& s.g)
  let maj := (s.a &&& s.b) ^^^ (s.a &&& s.c) ^^^ (s.b &&& s.c)
  let t1 := s.h + bsig1 s.e + ch + kTable[t]! + w[t]!
  let t2 := bsig0 s.a + maj
  { a := t1 + t2, b := s.a, c := s.b, d := s.c, e := s.d + t1, f := s.e, g := s.f, h := s.g }

def compress (hs : Array UInt64) (blk : Bytes) : Array UInt64 :=
  let w := schedule (blockWords blk)
  let s0 : St := { a := hs[0]!, b := hs[1]!, c := hs[2]!, d := hs[3]!,
                   e := hs[4]!, f := hs[5]!, g := hs[6]!, h := hs[7]! }
  let s := (List.range 80).foldl (round w) s0
  #[hs[0]! + s.a, hs[1]! + s.b, hs[2]! + s.c, hs[3]! + s.d,
    hs[4]! + s.e, hs[5]! + s.f, hs[6]! + s.g, hs[7]! + s.h]

/-- Message padding: 0x80, zeros, 128-bit big-endian bit length. -/
def pad (m : Bytes) : Bytes :=
  let n := m.length
  let z := (128 - ((n + 17) % 128)) % 128
  m ++ [0x80] ++ List.replicate z 0 ++ List.replicate 8 0 ++ u64BE (UInt64.ofNat (n * 8))

def blocks : Nat → Bytes → Array UInt64 → Array UInt64
  | 0, _, hs => hs
  | fuel + 1, bs, hs =>
    if bs.length < 128 then hs else blocks fuel (bs.drop 128) (compress hs (bs.take 128))

def sha512 (m : Bytes) : Bytes :=
  let p := pad m
  let hs := blocks (p.length / 128 + 1) p h0
  hs.toList.flatMap u64BE

end Rangers.Model.VrfSha512
