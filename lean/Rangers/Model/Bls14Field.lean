import Rangers.Basic.Hex
import Rangers.Generated.Bls14Consts
/-!
C14 model, part 1: the base field GF(p) and the quadratic extension GF(p²) of
`src/consensus/groupsig/bn256` as plain `Nat` arithmetic mod `p`
(Montgomery-free: the Go code keeps every `gfP` in Montgomery form and fully
reduced; what is observable through `Marshal` is the reduced residue).
Core Lean only (the driver is linked without Mathlib).
-/
namespace Rangers.Model.Bls14
open Rangers

/-- Field modulus (`bn256.P`), re-read from the source by the translator. -/
abbrev P : Nat := Generated.Bls14.fieldP
/-- Group order (`bn256.Order`). -/
abbrev R : Nat := Generated.Bls14.groupOrder
/-- Curve constant `b` of `y² = x³ + b`. -/
abbrev B : Nat := Generated.Bls14.curveB

def fadd (a b : Nat) : Nat := (a + b) % P
def fmul (a b : Nat) : Nat := (a * b) % P
def fneg (a : Nat) : Nat := (P - a % P) % P
def fsub (a b : Nat) : Nat := (a + (P - b % P)) % P

/-- Square-and-multiply; `fuel` bounds the number of exponent bits. -/
def powModAux (m : Nat) : Nat → Nat → Nat → Nat → Nat
  | 0, _, _, acc => acc
  | fuel + 1, b, e, acc =>
    if e = 0 then acc
    else powModAux m fuel (b * b % m) (e / 2) (if e % 2 = 1 then acc * b % m else acc)

/-- `b ^ e mod m` for `e < 2^256` (all exponents used here are below `p`). -/
def powMod (b e m : Nat) : Nat := powModAux m 256 (b % m) e (1 % m)

/-- Inverse by Fermat, as `gfP.Invert` (`f^(p-2)`); `0 ↦ 0`. -/
def finv (a : Nat) : Nat := powMod a (P - 2) P

/-- GF(p²) element `x·i + y`, `i² = -1` (field order of `gfP2{x, y}`). -/
structure F2 where
  x : Nat
  y : Nat
deriving DecidableEq, Repr, Inhabited

namespace F2
def zero : F2 := ⟨0, 0⟩
def isZero (a : F2) : Bool := a.x == 0 && a.y == 0
def add (a b : F2) : F2 := ⟨fadd a.x b.x, fadd a.y b.y⟩
def sub (a b : F2) : F2 := ⟨fsub a.x b.x, fsub a.y b.y⟩
def neg (a : F2) : F2 := ⟨fneg a.x, fneg a.y⟩
/-- (a.x i + a.y)(b.x i + b.y) = (a.x b.y + a.y b.x) i + (a.y b.y − a.x b.x). -/
def mul (a b : F2) : F2 :=
  ⟨fadd (fmul a.x b.y) (fmul a.y b.x), fsub (fmul a.y b.y) (fmul a.x b.x)⟩
def sq (a : F2) : F2 := mul a a
def reduce (a : F2) : F2 := ⟨a.x % P, a.y % P⟩
end F2

/-- Twist constant `b' = 3/ξ`, ξ = i + 3 (`twistB`, Montgomery-decoded by the translator). -/
def twistB : F2 := ⟨Generated.Bls14.twistBX, Generated.Bls14.twistBY⟩

end Rangers.Model.Bls14
