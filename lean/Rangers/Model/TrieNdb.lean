import Rangers.Model.TrieDecode
/-
`NodeDatabase` (database.go) with its two layers: the memory cache `nodes`
(hash ↦ collapsed node or raw blob, plus explicitly referenced children) and the disk store.
Transcribed: insert / InsertBlob (first entry for a hash in the memory cache wins — the disk is
not consulted), reference, cachedNode.rlp / obj / childs, gatherChildren, Commit = commit
(post-order: children first, then the node itself, into the disk batch) + uncache (the
same walk, deleting from the memory cache), node / Node (memory cache first, then disk).
Not modelled: flush-list bookkeeping, sizes, preimages, `parents` counters, Dereference, Cap
(not called by the node; C03).  Core Lean only.
-/
namespace Rangers.Trie
open Rangers

/-- what `cachedNode.node` holds -/
inductive NVal where
  | cn (c : CNode)        -- simplified collapsed trie node
  | raw (b : Bytes)       -- `rawNode`: an opaque blob (`InsertBlob`)
deriving Inhabited

structure NEntry where
  val : NVal
  children : List Bytes   -- keys of `cachedNode.children` (explicit references)
deriving Inhabited

structure NDb where
  mem : List (Bytes × NEntry)    -- `db.nodes` in insertion order
  disk : List (Bytes × Bytes)    -- `db.diskdb`
deriving Inhabited

def NDb.empty : NDb := { mem := [], disk := [] }

/-- `db.insert(hash, blob, node)` -/
def NDb.insert (db : NDb) (h : Bytes) (v : NVal) : NDb :=
  if (db.mem.lookup h).isSome then db else { db with mem := db.mem ++ [(h, { val := v, children := [] })] }

/-- `db.reference(child, parent)` for a non-root parent: recorded once, and only if the child is in
    the memory cache; `none` = nil dereference in the Go code (parent not cached) -/
def NDb.reference (db : NDb) (child parent : Bytes) : Option NDb :=
  match db.mem.lookup child with
  | none => some db
  | some _ =>
    match db.mem.lookup parent with
    | none => none
    | some pe =>
      if pe.children.contains child then some db
      else some { db with mem := db.mem.map (fun x => if x.1 == parent then (x.1, { x.2 with children := x.2.children ++ [child] }) else x) }

/-- the `onleaf` callback the account layer passes to `Trie.Commit`, as the harness mimics it:
    a leaf whose value is 32 bytes long references that hash from the node that holds the leaf -/
def NDb.onleafAll (db : NDb) (es : List (Bytes × CNode)) : Option NDb :=
  es.foldl (fun d e => d.bind (fun d =>
    match e.2 with
    | .leaf _ v => if v.length = 32 then d.reference v e.1 else some d
    | _ => some d)) (some db)

/-- `gatherChildren`: the hash references inside a collapsed node (through embedded nodes) -/
def gatherC : CNode → List Bytes
  | .empty => []
  | .hashRef h => [h]
  | .leaf _ _ => []
  | .ext _ c => gatherC c
  | .branch cs _ => gatherCL cs 0
where gatherCL : List CNode → Nat → List Bytes
  | [], _ => []
  | c :: cs, i => (if i < 16 then gatherC c else []) ++ gatherCL cs (i + 1)

/-- `cachedNode.childs()` (the explicit ones come out of a Go map: their order is not fixed) -/
def NEntry.childs (e : NEntry) : List Bytes :=
  e.children ++ (match e.val with
    | .cn c => gatherC c
    | .raw _ => [])

/-- `cachedNode.rlp()` -/
def NEntry.rlp (e : NEntry) : Bytes :=
  match e.val with
  | .cn c => encC c
  | .raw b => b

/-- `diskdb.Put(k, v)`: the store is a map, an existing key is overwritten -/
def diskPut (disk : List (Bytes × Bytes)) (k v : Bytes) : List (Bytes × Bytes) :=
  disk.filter (fun e => e.1 != k) ++ [(k, v)]

mutual
/-- `db.commit(hash, batch)`: children first, then the node (fuel = depth bound) -/
def commitRec (mem : List (Bytes × NEntry)) : Nat → List (Bytes × Bytes) → Bytes → List (Bytes × Bytes)
  | 0, disk, _ => disk
  | f + 1, disk, h =>
    match mem.lookup h with
    | none => disk                       -- a previously committed node
    | some e => diskPut (commitList mem f disk e.childs) h e.rlp
def commitList (mem : List (Bytes × NEntry)) : Nat → List (Bytes × Bytes) → List Bytes → List (Bytes × Bytes)
  | _, disk, [] => disk
  | f, disk, c :: cs => commitList mem f (commitRec mem f disk c) cs
end

mutual
/-- `db.uncache(hash)`: the same walk, removing from the memory cache -/
def uncacheRec : Nat → List (Bytes × NEntry) → Bytes → List (Bytes × NEntry)
  | 0, mem, _ => mem
  | f + 1, mem, h =>
    match mem.lookup h with
    | none => mem
    | some e => (uncacheList f mem e.childs).filter (fun x => x.1 != h)
def uncacheList : Nat → List (Bytes × NEntry) → List Bytes → List (Bytes × NEntry)
  | _, mem, [] => mem
  | f, mem, c :: cs => uncacheList f (uncacheRec f mem c) cs
end

/-- `NodeDatabase.Commit(node)` (no write fault); `F` bounds the depth of the walk -/
def NDb.commit (db : NDb) (F : Nat) (root : Bytes) : NDb :=
  { mem := uncacheRec F db.mem root, disk := commitRec db.mem F db.disk root }

/-- `NodeDatabase.Node(hash)`: the blob, from the memory cache or from disk -/
def NDb.blob (db : NDb) (h : Bytes) : Option Bytes :=
  match db.mem.lookup h with
  | some e => some e.rlp
  | none => db.disk.lookup h

/-- `NodeDatabase.node(hash, cachegen)`: `obj` of the cached entry, else decode the disk blob -/
def NDb.node (db : NDb) (gen : Nat) (h : Bytes) : Option LNode :=
  match db.mem.lookup h with
  | some e =>
    match e.val with
    | .cn c => expandNode gen (some h) c
    | .raw b => decodeNode gen (20 * b.length + 20) (some h) b
  | none => (db.disk.lookup h).bind (fun b => decodeNode gen (20 * b.length + 20) (some h) b)

/-- what one `Trie.Commit` hands to `db.insert`, in order: the entries `hasher.store` inserts when
    run against an empty cache (the result of hashing does not depend on the cache) -/
def commitAttempts (H : Bytes → Bytes) (t : LTrie) : List (Bytes × CNode) :=
  match t.root with
  | .nil => []
  | root => (hashL H t.gen t.limit true root true []).2.2

def NDb.insertAll (db : NDb) (es : List (Bytes × CNode)) : NDb :=
  es.foldl (fun d e => d.insert e.1 (.cn e.2)) db

/-- order-independent digest of a key set: count and XOR -/
def xorBytes : Bytes → Bytes → Bytes
  | a :: as, b :: bs => (a ^^^ b) :: xorBytes as bs
  | [], bs => bs
  | as, [] => as

def keyDigest (ks : List Bytes) : String :=
  toString ks.length ++ ":" ++ toHex (ks.foldl xorBytes [])

end Rangers.Trie
