# Regenerates lean/Rangers/Proofs/C13Pratt.lean + Props/C13Prime.lean skeleton: Pratt certificate tree for bn256.Order.
# (Run once by the C13 builder; the Lean files are what is checked. Props/C13Prime.lean was edited by hand afterwards.)
import random, math, sys
sys.setrecursionlimit(10000)
def is_prime(n):
    if n < 2: return False
    for p in (2,3,5,7,11,13,17,19,23,29,31,37):
        if n % p == 0: return n == p
    d, s = n-1, 0
    while d % 2 == 0: d//=2; s+=1
    for a in (2,3,5,7,11,13,17,19,23,29,31,37):
        x = pow(a,d,n)
        if x in (1,n-1): continue
        for _ in range(s-1):
            x = x*x % n
            if x == n-1: break
        else: return False
    return True
def rho(n):
    if n % 2 == 0: return 2
    while True:
        c = random.randrange(1,n); x = y = random.randrange(n); d = 1
        while d == 1:
            x = (x*x+c)%n; y=(y*y+c)%n; y=(y*y+c)%n
            d = math.gcd(abs(x-y), n)
        if d != n: return d
def factor(n):
    if n == 1: return {}
    if is_prime(n): return {n:1}
    d = rho(n)
    f = factor(d)
    for p,e in factor(n//d).items(): f[p] = f.get(p,0)+e
    return f
cert = {}
def pratt(p):
    if p in cert or p < 100: return
    f = factor(p-1)
    # find witness
    a = 2
    while True:
        if pow(a,p-1,p)==1 and all(pow(a,(p-1)//q,p)!=1 for q in f): break
        a += 1
    cert[p] = (a, f)
    for q in f: pratt(q)
r=65000549695646603732796438742359905742570406053903786389881062969044166799969
pratt(r)
for p,(a,f) in sorted(cert.items()):
    print(p, a, f)

out = []
out.append('''import Mathlib.NumberTheory.LucasPrimality
import Mathlib.Tactic.ReduceModChar
import Mathlib.Tactic.NormNum.Prime
import Mathlib.Algebra.BigOperators.Associated
import Rangers.Generated.Bn256Consts
/-!
Pratt certificate for the bn256 group order `r` (`bn256.Order`, regenerated from the source into
`Generated.Bn256.order`): `r` is prime. Produced by a script (Pollard-rho factorisation of every
`q - 1` in the tree, least primitive root as witness); every modular power is re-evaluated by
`reduce_mod_char`, nothing is taken on trust. If the constant in `constants.go` changes, the last
theorem no longer type-checks.
-/
namespace Rangers.Props.C13Prime

/-- Lucas/Pratt step: `p` is prime if `a` has order `p-1` mod `p`, witnessed on the prime
    factors (listed with multiplicity) of `p-1`. -/
theorem pratt (p a : ℕ) (l : List ℕ) (hl : ∀ q ∈ l, q.Prime) (hprod : l.prod = p - 1)
    (ha : (a : ZMod p) ^ (p - 1) = 1) (hd : ∀ q ∈ l, (a : ZMod p) ^ ((p - 1) / q) ≠ 1) : p.Prime := by
  apply lucas_primality p a ha
  intro q hq hdvd
  rw [← hprod] at hdvd
  obtain ⟨x, hx, hqx⟩ := (Prime.dvd_prod_iff hq.prime).1 hdvd
  have := (Nat.prime_dvd_prime_iff_eq hq (hl x hx)).1 hqx
  subst this
  exact hd q hx
''')
def pname(p): return 'prime_%d' % p
for p,(a,f) in sorted(cert.items()):
    l = []
    for q,e in sorted(f.items()): l += [q]*e
    qs = sorted(f)
    hl_cases = ' | '.join(['rfl']*len(l)) if len(l) > 1 else 'rfl'
    def prf(q): return pname(q) if q in cert else '(by norm_num)'
    lines = []
    lines.append('theorem %s : Nat.Prime %d := by' % (pname(p), p))
    lines.append('  refine pratt %d %d %s ?_ (by norm_num) (by reduce_mod_char) ?_' % (p, a, '['+', '.join(map(str,l))+']'))
    lines.append('  · intro q hq')
    lines.append('    simp only [List.mem_cons, List.mem_nil_iff, or_false] at hq')
    if len(l) > 1:
        lines.append('    rcases hq with %s' % hl_cases)
        for q in l: lines.append('    · exact %s' % prf(q))
    else:
        lines.append('    subst hq; exact %s' % prf(l[0]))
    lines.append('  · intro q hq')
    lines.append('    simp only [List.mem_cons, List.mem_nil_iff, or_false] at hq')
    if len(l) > 1:
        lines.append('    rcases hq with %s <;> (reduce_mod_char; decide)' % hl_cases)
    else:
        lines.append('    subst hq; reduce_mod_char; decide')
    out.append('\n'.join(lines)+'\n')
out.append('''/-- **r_prime**: the group order read from `bn256/constants.go` is prime, so `ZMod r` is a field
    and every theorem of `Props/C13.lean` applies to the code's actual modulus. -/
theorem order_prime : Nat.Prime Rangers.Generated.Bn256.order := prime_%d

instance : Fact (Nat.Prime Rangers.Generated.Bn256.order) := ⟨order_prime⟩

end Rangers.Props.C13Prime
''' % r)
open('/work/v-c13/lean/Rangers/Props/C13Prime.lean','w').write('\n'.join(out))
