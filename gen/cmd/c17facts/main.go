// c17facts: translator (T-gen) for property C17.
//
// Re-extracts from the working tree, with go/parser only (no type checking):
//   * the constants the pool model uses (rcvTxPoolSize, txCountPerBlock, txCacheSize, expiredRing);
//   * for every function of src/service/transaction_pool.go, src/service/simple_container.go and
//     Transactions.Less: the ordered list of the calls that touch pool state or decide behaviour
//     (selector path without the root identifier, so renaming a local or the receiver changes nothing);
//   * every call site of the pool's mutating interface methods elsewhere in src/ (a new caller of
//     MarkExecuted / UnMarkExecuted / AddTransaction / PackForCast must be looked at);
//   * every function of package service that touches the pool's fields received/executed/batch/evictedTxs.
// Output: a Lean module on stdout (lean/Rangers/Generated/PoolFacts.lean). Props/C17B.lean states what
// the model was transcribed from; a difference breaks those obligations.
package main

import (
	"fmt"
	"go/ast"
	"go/parser"
	"go/token"
	"os"
	"path/filepath"
	"sort"
	"strconv"
	"strings"
)

var relevant = map[string]bool{
	"received.push": true, "received.remove": true, "received.contains": true, "received.get": true, "received.asSlice": true,
	"received.Len": true, "received.isFull": true, "received.Close": true,
	"executed.Has": true, "executed.Get": true, "executed.Delete": true, "executed.Put": true, "executed.NewBatch": true, "executed.Close": true,
	"batch.Put": true, "batch.Write": true, "batch.Reset": true, "batch.ValueSize": true,
	"lock.Lock": true, "lock.Unlock": true, "lock.RLock": true, "lock.RUnlock": true,
	"evictedTxs.Add": true, "evictedTxs.Remove": true, "evictedTxs.Contains": true,
	"add": true, "remove": true, "refreshGateNonce": true, "isTransactionExisted": true, "checkNonce": true, "findTxInList": true,
	"GetExecuted": true, "growRing": true, "loop": true, "push": true,
	"data.Set": true, "data.Removes": true, "data.Remove": true, "data.Contains": true, "data.Get": true, "data.Values": true, "data.Size": true, "data.Clear": true,
	"txAnnualRingMap.Store": true, "txAnnualRingMap.Delete": true, "txAnnualRingMap.Range": true, "txAnnualRingMap.Load": true,
	"sort.Sort": true, "sort.Stable": true, "GetNonce": true, "panic": true,
	"common.IsProposal016": true, "common.IsProposal018": true, "common.IsProposal021": true, "common.IsProposal023": true,
	"common.FromHex": true, "common.HexToAddress": true, "bytes.Compare": true, "Cmp": true,
	"newSimpleContainer": true, "newTransactionPool": true, "db.NewLDBDatabase": true, "db.NewDatabase": true, "lru.New": true,
	"types.MarshalTransaction": true, "types.UnMarshalTransaction": true, "json.Marshal": true, "json.Unmarshal": true,
}

func selPath(e ast.Expr) []string {
	switch x := e.(type) {
	case *ast.Ident:
		return []string{x.Name}
	case *ast.SelectorExpr:
		return append(selPath(x.X), x.Sel.Name)
	case *ast.CallExpr:
		return append(selPath(x.Fun), "()")
	case *ast.IndexExpr:
		return selPath(x.X)
	case *ast.ParenExpr:
		return selPath(x.X)
	case *ast.StarExpr:
		return selPath(x.X)
	}
	return []string{"?"}
}

// callName: selector path of the callee without its root identifier unless the root is an imported package.
func callName(c *ast.CallExpr, imports map[string]bool) string {
	p := selPath(c.Fun)
	if len(p) == 1 {
		return p[0]
	}
	if imports[p[0]] {
		return strings.Join(p, ".")
	}
	p = p[1:]
	if len(p) > 2 {
		p = p[len(p)-2:]
	}
	return strings.Join(p, ".")
}

func fileImports(f *ast.File) map[string]bool {
	m := map[string]bool{}
	for _, im := range f.Imports {
		path, _ := strconv.Unquote(im.Path.Value)
		name := path[strings.LastIndex(path, "/")+1:]
		if im.Name != nil {
			name = im.Name.Name
		}
		m[name] = true
	}
	return m
}

func funcName(fd *ast.FuncDecl) string {
	if fd.Recv != nil && len(fd.Recv.List) > 0 {
		t := fd.Recv.List[0].Type
		if s, ok := t.(*ast.StarExpr); ok {
			t = s.X
		}
		if id, ok := t.(*ast.Ident); ok {
			return id.Name + "." + fd.Name.Name
		}
	}
	return fd.Name.Name
}

func q(s string) string { return strconv.Quote(s) }

func main() {
	repo := "/repo"
	for _, a := range os.Args[1:] {
		if strings.HasPrefix(a, "repo=") {
			repo = a[5:]
		}
	}
	fset := token.NewFileSet()
	consts := map[string]string{}
	type fn struct {
		name  string
		calls []string
	}
	var fns []fn
	parse := func(rel string, only func(string) bool) {
		f, err := parser.ParseFile(fset, filepath.Join(repo, rel), nil, 0)
		if err != nil {
			fmt.Fprintln(os.Stderr, "parse:", err)
			os.Exit(1)
		}
		imps := fileImports(f)
		for _, d := range f.Decls {
			switch x := d.(type) {
			case *ast.GenDecl:
				if x.Tok != token.CONST {
					continue
				}
				for _, sp := range x.Specs {
					vs := sp.(*ast.ValueSpec)
					for i, n := range vs.Names {
						if i < len(vs.Values) {
							if bl, ok := vs.Values[i].(*ast.BasicLit); ok && bl.Kind == token.INT {
								consts[n.Name] = bl.Value
							}
						}
					}
				}
			case *ast.FuncDecl:
				name := funcName(x)
				if only != nil && !only(name) {
					continue
				}
				var calls []string
				if x.Body != nil {
					ast.Inspect(x.Body, func(n ast.Node) bool {
						if c, ok := n.(*ast.CallExpr); ok {
							cn := callName(c, imps)
							if relevant[cn] {
								calls = append(calls, cn)
							}
						}
						// guard clauses of mutators without a result (MarkExecuted, UnMarkExecuted, push, remove, …):
						// an early `return` decides which part of the bookkeeping is skipped
						if r, ok := n.(*ast.ReturnStmt); ok && x.Type.Results == nil && len(r.Results) == 0 {
							calls = append(calls, "return")
						}
						if g, ok := n.(*ast.GoStmt); ok {
							cn := callName(g.Call, imps)
							if relevant[cn] {
								calls = append(calls, "go")
							}
						}
						return true
					})
				}
				fns = append(fns, fn{name, calls})
			}
		}
	}
	parse("src/service/transaction_pool.go", func(n string) bool {
		if n == "TxPool.VerifyTransaction" || n == "TxPool.ProcessFee" {
			return false // authenticity and fees: properties C07 / C06
		}
		return strings.HasPrefix(n, "TxPool.") || n == "findTxInList" || n == "newTransactionPool"
	})
	parse("src/service/simple_container.go", nil)
	parse("src/middleware/types/transaction.go", func(n string) bool { return n == "Transactions.Less" })
	sort.Slice(fns, func(i, j int) bool { return fns[i].name < fns[j].name })

	// callers of the mutating interface elsewhere; users of the pool's fields inside package service
	iface := map[string]bool{"MarkExecuted": true, "UnMarkExecuted": true, "AddTransaction": true, "PackForCast": true, "Clear": true}
	fields := map[string]bool{"received": true, "executed": true, "batch": true, "evictedTxs": true, "txAnnualRingMap": true}
	var callers, touchers []string
	filepath.Walk(filepath.Join(repo, "src"), func(p string, info os.FileInfo, err error) error {
		if err != nil || info.IsDir() || !strings.HasSuffix(p, ".go") || strings.HasSuffix(p, "_test.go") {
			return nil
		}
		rel, _ := filepath.Rel(repo, p)
		f, err := parser.ParseFile(fset, p, nil, 0)
		if err != nil {
			return nil
		}
		verifOnly := false
		for _, cg := range f.Comments {
			if cg.Pos() < f.Package && strings.Contains(cg.Text(), "build verif") {
				verifOnly = true
			}
		}
		// go/parser drops //go:build from Comments unless ParseComments; re-read cheaply
		if b, e := os.ReadFile(p); e == nil && strings.Contains(string(b[:min(len(b), 200)]), "go:build verif") {
			verifOnly = true
		}
		if verifOnly {
			return nil
		}
		inService := filepath.Dir(rel) == "src/service"
		for _, d := range f.Decls {
			fd, ok := d.(*ast.FuncDecl)
			if !ok || fd.Body == nil {
				continue
			}
			name := funcName(fd)
			seenT := map[string]bool{}
			ast.Inspect(fd.Body, func(n ast.Node) bool {
				switch x := n.(type) {
				case *ast.CallExpr:
					if s, ok := x.Fun.(*ast.SelectorExpr); ok && iface[s.Sel.Name] {
						pth := selPath(s.X)
						joined := strings.Join(pth, ".")
						if strings.Contains(joined, "ransactionPool") || strings.Contains(joined, "pool") || strings.Contains(joined, "txpool") {
							callers = append(callers, rel+":"+name+":"+s.Sel.Name)
						}
					}
				case *ast.SelectorExpr:
					if inService && fields[x.Sel.Name] {
						k := rel + ":" + name + ":" + x.Sel.Name
						if !seenT[k] {
							seenT[k] = true
							touchers = append(touchers, k)
						}
					}
				}
				return true
			})
		}
		return nil
	})
	sort.Strings(callers)
	sort.Strings(touchers)

	// --- hardening facts -------------------------------------------------------------------------
	// (a) activation heights of the proposals on the pool's path in the mainnet and robin schedules
	schedules := map[string][]string{}
	if f, err := parser.ParseFile(fset, filepath.Join(repo, "src/common/version.go"), nil, 0); err == nil {
		ast.Inspect(f, func(n ast.Node) bool {
			vs, ok := n.(*ast.ValueSpec)
			if !ok || len(vs.Names) != 1 || len(vs.Values) != 1 {
				return true
			}
			name := vs.Names[0].Name
			if name != "mainNetChainConfig" && name != "robinChainConfig" {
				return true
			}
			cl, ok := vs.Values[0].(*ast.CompositeLit)
			if !ok {
				return true
			}
			vals := map[string]string{}
			for _, e := range cl.Elts {
				if kv, ok := e.(*ast.KeyValueExpr); ok {
					if k, ok := kv.Key.(*ast.Ident); ok {
						if bl, ok := kv.Value.(*ast.BasicLit); ok {
							vals[k.Name] = bl.Value
						}
					}
				}
			}
			for _, k := range []string{"Proposal016Block", "Proposal018Block", "Proposal021Block", "Proposal023Block"} {
				v, ok := vals[k]
				if !ok {
					v = "0"
				}
				schedules[name] = append(schedules[name], v)
			}
			return true
		})
	}
	// (b) writes to package-level variables and (c) store calls whose error result is dropped, in the tracked files
	var pkgWrites, dropped []string
	for _, rel := range []string{"src/service/transaction_pool.go", "src/service/simple_container.go", "src/middleware/types/transaction.go"} {
		dir := filepath.Dir(filepath.Join(repo, rel))
		pkgVars := map[string]bool{}
		ents, _ := os.ReadDir(dir)
		for _, e := range ents {
			if !strings.HasSuffix(e.Name(), ".go") || strings.HasSuffix(e.Name(), "_test.go") {
				continue
			}
			if f, err := parser.ParseFile(fset, filepath.Join(dir, e.Name()), nil, 0); err == nil {
				for _, d := range f.Decls {
					if gd, ok := d.(*ast.GenDecl); ok && gd.Tok == token.VAR {
						for _, sp := range gd.Specs {
							for _, n := range sp.(*ast.ValueSpec).Names {
								if n.Name != "_" {
									pkgVars[n.Name] = true
								}
							}
						}
					}
				}
			}
		}
		f, err := parser.ParseFile(fset, filepath.Join(repo, rel), nil, 0)
		if err != nil {
			continue
		}
		imps := fileImports(f)
		for _, d := range f.Decls {
			fd, ok := d.(*ast.FuncDecl)
			if !ok || fd.Body == nil {
				continue
			}
			name := funcName(fd)
			locals := map[string]bool{}
			if fd.Recv != nil {
				for _, fl := range fd.Recv.List {
					for _, n := range fl.Names {
						locals[n.Name] = true
					}
				}
			}
			if fd.Type.Params != nil {
				for _, fl := range fd.Type.Params.List {
					for _, n := range fl.Names {
						locals[n.Name] = true
					}
				}
			}
			ast.Inspect(fd.Body, func(n ast.Node) bool {
				switch x := n.(type) {
				case *ast.AssignStmt:
					for _, l := range x.Lhs {
						root := selPath(l)[0]
						if x.Tok == token.DEFINE {
							locals[root] = true
							continue
						}
						if pkgVars[root] && !locals[root] {
							pkgWrites = append(pkgWrites, rel+":"+name+":"+root)
						}
					}
				case *ast.IncDecStmt:
					root := selPath(x.X)[0]
					if pkgVars[root] && !locals[root] {
						pkgWrites = append(pkgWrites, rel+":"+name+":"+root)
					}
				case *ast.ExprStmt:
					if c, ok := x.X.(*ast.CallExpr); ok {
						cn := callName(c, imps)
						switch cn {
						case "batch.Write", "batch.Put", "executed.Delete", "executed.Put":
							dropped = append(dropped, name+":"+cn)
						}
					}
				}
				return true
			})
		}
	}
	sort.Strings(pkgWrites)

	// --- the chain's side (Model/PoolChain.lean): calls in source order and the comparisons that decide the fork choice
	chainRelevant := map[string]bool{
		"consensusVerify": true, "addBlockOnChain": true, "verifyBlock": true, "insertBlock": true, "removeFromCommonAncestor": true,
		"remove": true, "updateTxPool": true, "transactionPool.MarkExecuted": true, "transactionPool.UnMarkExecuted": true,
		"transactionPool.GetExecuted": true, "transactionPool.PackForCast": true, "HasBlockByHash": true, "hasPreBlock": true,
		"queryBlockHeaderByHash": true, "QueryBlockHeaderByHeight": true, "queryBlockByHash": true, "chainPvGreatThanRemote": true,
		"successOnChainCallBack": true, "futureBlocks.Add": true, "futureBlocks.Get": true, "verifiedBlocks.Contains": true, "verifiedBlocks.Add": true,
		"common.IsProposal008": true, "common.IsProposal018": true, "common.IsProposal020": true, "common.IsProposal023": true,
		"missTransaction": true, "checkStates": true, "saveStates": true, "updateLastBlock": true, "markAddBlock": true, "markRemoveBlock": true,
		"hashDB.Delete": true, "heightDB.Delete": true, "saveBlockByHash": true, "saveBlockByHeight": true, "Cmp": true, "sort.Sort": true,
		"runTransactions": true, "Execute": true, "append": true, "executor.GetTxExecutor": true, "BeforeExecute": true,
	}
	chainFuncs := map[string]map[string]bool{
		"src/core/blockchain_add.go":    {"blockChain.consensusVerify": true, "blockChain.addBlockOnChain": true, "blockChain.insertBlock": true, "blockChain.updateTxPool": true, "blockChain.successOnChainCallBack": true, "blockChain.removeFromCommonAncestor": true},
		"src/core/blockchain.go":        {"blockChain.AddBlockOnChain": true, "blockChain.remove": true, "blockChain.CastBlock": true, "blockChain.runTransactions": true},
		"src/core/blockchain_verify.go": {"blockChain.verifyBlock": true},
		"src/core/blockchain_sync.go":   {"chainPvGreatThanRemote": true},
	}
	type cfn struct {
		name  string
		calls []string
		cmps  []string
	}
	var cfns []cfn
	suffix := func(e ast.Expr) string {
		p := selPath(e)
		if len(p) > 2 {
			p = p[len(p)-2:]
		}
		if len(p) >= 1 && len(p) == len(selPath(e)) && len(p) > 1 {
			p = p[1:]
		}
		return strings.Join(p, ".")
	}
	interesting := func(x string) bool {
		for _, k := range []string{"TotalQN", "PreHash", "Hash", "Height", "ProveValue", "compareValue", "hashBigCompareValue"} {
			if strings.HasSuffix(x, k) {
				return true
			}
		}
		return false
	}
	var cfiles []string
	for k := range chainFuncs {
		cfiles = append(cfiles, k)
	}
	sort.Strings(cfiles)
	for _, rel := range cfiles {
		f, err := parser.ParseFile(fset, filepath.Join(repo, rel), nil, 0)
		if err != nil {
			fmt.Fprintln(os.Stderr, "parse:", err)
			os.Exit(1)
		}
		imps := fileImports(f)
		for _, d := range f.Decls {
			fd, ok := d.(*ast.FuncDecl)
			if !ok || fd.Body == nil || !chainFuncs[rel][funcName(fd)] {
				continue
			}
			c := cfn{name: funcName(fd)}
			ast.Inspect(fd.Body, func(n ast.Node) bool {
				switch x := n.(type) {
				case *ast.CallExpr:
					cn := callName(x, imps)
					if chainRelevant[cn] && cn != "append" {
						c.calls = append(c.calls, cn)
					}
				case *ast.BinaryExpr:
					switch x.Op {
					case token.LSS, token.GTR, token.LEQ, token.GEQ, token.EQL, token.NEQ:
						l, r := suffix(x.X), suffix(x.Y)
						if bl, ok := x.Y.(*ast.BasicLit); ok {
							r = bl.Value
						}
						if interesting(l) || interesting(r) {
							c.cmps = append(c.cmps, l+" "+x.Op.String()+" "+r)
						}
					}
				}
				return true
			})
			cfns = append(cfns, c)
		}
	}
	sort.Slice(cfns, func(i, j int) bool { return cfns[i].name < cfns[j].name })
	// VMExecutor.Execute: which statements decide that a transaction gets a receipt (appends and continues in order)
	var execShape []string
	if f, err := parser.ParseFile(fset, filepath.Join(repo, "src/core/vmexecutor.go"), nil, 0); err == nil {
		for _, d := range f.Decls {
			fd, ok := d.(*ast.FuncDecl)
			if !ok || fd.Body == nil || funcName(fd) != "VMExecutor.Execute" {
				continue
			}
			ast.Inspect(fd.Body, func(n ast.Node) bool {
				switch x := n.(type) {
				case *ast.BranchStmt:
					execShape = append(execShape, x.Tok.String())
				case *ast.AssignStmt:
					if len(x.Rhs) == 1 {
						if c, ok := x.Rhs[0].(*ast.CallExpr); ok {
							if id, ok := c.Fun.(*ast.Ident); ok && id.Name == "append" && len(x.Lhs) == 1 {
								if l, ok := x.Lhs[0].(*ast.Ident); ok {
									execShape = append(execShape, "append:"+l.Name)
								}
							}
						}
					}
				}
				return true
			})
		}
	}

	var sb strings.Builder
	sb.WriteString("/- GENERATED by gen/cmd/c17facts from the go-rangers working tree; do not edit. -/\n")
	sb.WriteString("namespace Rangers.Generated.PoolFacts\n\n")
	for _, k := range []string{"rcvTxPoolSize", "txCountPerBlock", "txCacheSize", "expiredRing"} {
		v, ok := consts[k]
		if !ok {
			v = "0 /- not found -/"
		}
		sb.WriteString(fmt.Sprintf("def %s : Nat := %s\n", k, v))
	}
	sb.WriteString("\n/-- per function: the state-relevant calls in source order -/\n")
	sb.WriteString("def calls : List (String × List String) := [\n")
	for i, f := range fns {
		qs := make([]string, len(f.calls))
		for j, c := range f.calls {
			qs[j] = q(c)
		}
		sep := ","
		if i == len(fns)-1 {
			sep = ""
		}
		sb.WriteString(fmt.Sprintf("  (%s, [%s])%s\n", q(f.name), strings.Join(qs, ", "), sep))
	}
	sb.WriteString("]\n\n/-- call sites of the pool's mutating interface methods in src/ (file:function:method) -/\n")
	list := func(name string, xs []string) {
		sb.WriteString("def " + name + " : List String := [\n")
		for i, c := range xs {
			sep := ","
			if i == len(xs)-1 {
				sep = ""
			}
			sb.WriteString("  " + q(c) + sep + "\n")
		}
		sb.WriteString("]\n\n")
	}
	list("interfaceCallers", callers)
	sb.WriteString("/-- functions of package service that touch the pool's fields (file:function:field) -/\n")
	list("fieldUsers", touchers)
	sb.WriteString("/-- activation heights of proposals 016, 018, 021, 023 in the mainnet and robin schedules -/\n")
	for _, k := range []string{"mainNetChainConfig", "robinChainConfig"} {
		v := schedules[k]
		if len(v) != 4 {
			v = []string{"0", "0", "0", "0"}
		}
		sb.WriteString(fmt.Sprintf("def %sSchedule : List Nat := [%s]\n", strings.TrimSuffix(k, "ChainConfig"), strings.Join(v, ", ")))
	}
	sb.WriteString("\n/-- assignments to package-level variables inside the tracked files (file:function:variable) -/\n")
	list("packageWrites", pkgWrites)
	sb.WriteString("/-- store calls whose error result is dropped (function:call), in source order -/\n")
	list("droppedErrors", dropped)
	sb.WriteString("/-- the chain's side: per function the calls that reach the pool or decide the fork choice, and its comparisons -/\n")
	sb.WriteString("def chainCalls : List (String × List String × List String) := [\n")
	for i, f := range cfns {
		qs := make([]string, len(f.calls))
		for j, c := range f.calls {
			qs[j] = q(c)
		}
		cs := make([]string, len(f.cmps))
		for j, c := range f.cmps {
			cs[j] = q(c)
		}
		sep := ","
		if i == len(cfns)-1 {
			sep = ""
		}
		sb.WriteString(fmt.Sprintf("  (%s, [%s], [%s])%s\n", q(f.name), strings.Join(qs, ", "), strings.Join(cs, ", "), sep))
	}
	sb.WriteString("]\n\n/-- VMExecutor.Execute: the appends and continue/break statements of its loop, in source order -/\n")
	list("executeShape", execShape)
	sb.WriteString("end Rangers.Generated.PoolFacts\n")
	fmt.Print(sb.String())
}

func min(a, b int) int {
	if a < b {
		return a
	}
	return b
}
