#!/usr/bin/env python3
"""Maintainer tool (NOT run by bin/check): rewrite lean/Rangers/Props/C14G.lean so that its
expected shapes equal the current lean/Rangers/Generated/Bls14Shape.lean.

Use ONLY after re-reading the changed Go function against Model/Bls14Verify.lean / Bls14G1.lean
and updating the model if its behaviour changed: the shape theorems are the tripwire that forces
that re-read.
"""
import os, re
root = os.path.join(os.path.dirname(os.path.abspath(__file__)), '..', '..', '..', 'lean', 'Rangers')
src = open(os.path.join(root, 'Generated', 'Bls14Shape.lean')).read()
defs = [(d, n, b if b is not None else '') for d, n, b in
        re.findall(r'/-- (.*?) -/\ndef (\w+) : List String := \[(?:\]|\n(.*?)\n\])', src, re.S)]
out = ['''import Rangers.Generated.Bls14Consts
import Rangers.Generated.Bls14Shape
import Rangers.Model.Bls14Verify
/-!
# C14, part 4 — translator facts (T-gen)

`gen/cmd/c14facts` re-reads `src/consensus/groupsig` on every run and regenerates
`Generated/Bls14Consts.lean` (numbers the whole model is parametrised by) and
`Generated/Bls14Shape.lean` (normalised bodies of `VerifySig` and of every wrapper the model
transcribes). Each theorem below pins one generated shape to the shape the model was written
against: a new / removed / re-ordered-with-effect guard, another callee, another argument or
another constant makes the corresponding obligation fail. Renaming a local or re-ordering
independent statements does not (the translator normalises those away).
(File produced by gen/cmd/c14facts/accept_shapes.py; see there before editing.)
-/
namespace Rangers.Props.C14
open Rangers Rangers.Model.Bls14
open Rangers.Generated.Bls14
''']
for doc, name, body in defs:
    lit = '[\n%s\n]' % body if body else '[]'
    out.append('/-- %s is what `Model/Bls14Verify.lean` / `Bls14G1.lean` transcribes. -/\ntheorem shape_%s : Shape.%s = %s := rfl\n' % (doc, name, name, lit))
out.append('''/-- The constants are mutually consistent and are the ones the byte-level proofs rely on:
    `p2` spells `P`, `P ≡ 3 (mod 4)` (square roots by one exponentiation), `P` fits in
    `numBytes` bytes but `2P` does not (so `x + p` is the only alias), `Order < P`. -/
theorem consts_consistent :
    fieldPWords = fieldP ∧ fieldP % 4 = 3 ∧ groupOrder < fieldP ∧ numBytes = 32 ∧ idLength = 32 ∧
    fieldP < 256 ^ numBytes ∧ 256 ^ numBytes < 2 * fieldP ∧ curveB = 3 := by decide

/-- Both generators satisfy their curve equations, and `twistB · (i + 3) = 3`. -/
theorem generators_on_curve :
    g1Gen.onCurve = true ∧ g1Gen.reduced = true ∧ g2Gen.onCurve = true ∧
    F2.mul twistB ⟨1, 3⟩ = ⟨0, 3⟩ := by decide

end Rangers.Props.C14
''')
open(os.path.join(root, 'Props', 'C14G.lean'), 'w').write('\n'.join(out))
print('rewrote Props/C14G.lean with', len(defs), 'shapes')
