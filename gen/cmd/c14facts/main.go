// c14facts: translator (T-gen) for property C14.
//
// Reads the go-rangers working tree in the current directory with go/ast and writes Lean source to
// stdout (two files separated by "-----FILE <name>" lines):
//
//	Bls14Consts.lean  numeric constants of bn256 / groupsig (P, Order, curve and twist constants
//	                  Montgomery-decoded, generators, numBytes, ID_LENGTH)
//	Bls14Shape.lean   normalised shapes of VerifySig and of the wrappers it relies on: guards as
//	                  sets, single-assignment locals inlined, receiver/parameters alpha-renamed —
//	                  so renaming a local or re-ordering independent statements changes nothing,
//	                  while a new/removed guard, another callee or another argument does.
package main

import (
	"bytes"
	"fmt"
	"go/ast"
	"go/parser"
	"go/printer"
	"go/token"
	"math/big"
	"os"
	"sort"
	"strconv"
	"strings"
)

const dir = "src/consensus/groupsig/"

var fset = token.NewFileSet()

func parse(path string) *ast.File {
	f, err := parser.ParseFile(fset, path, nil, 0)
	if err != nil {
		fail("parse " + path + ": " + err.Error())
	}
	return f
}

func fail(msg string) {
	fmt.Fprintln(os.Stderr, "c14facts: "+msg)
	os.Exit(1)
}

// ---------------------------------------------------------------- constants

func topValue(f *ast.File, name string) ast.Expr {
	for _, d := range f.Decls {
		g, ok := d.(*ast.GenDecl)
		if !ok {
			continue
		}
		for _, s := range g.Specs {
			v, ok := s.(*ast.ValueSpec)
			if !ok {
				continue
			}
			for i, n := range v.Names {
				if n.Name == name && i < len(v.Values) {
					return v.Values[i]
				}
			}
		}
	}
	fail("no top-level value " + name)
	return nil
}

func base10Arg(e ast.Expr) *big.Int {
	c, ok := e.(*ast.CallExpr)
	if !ok || len(c.Args) != 1 {
		fail("expected bigFromBase10(\"…\")")
	}
	l, ok := c.Args[0].(*ast.BasicLit)
	if !ok {
		fail("expected string literal")
	}
	s, _ := strconv.Unquote(l.Value)
	n, ok := new(big.Int).SetString(s, 10)
	if !ok {
		fail("bad number " + s)
	}
	return n
}

func unwrap(e ast.Expr) ast.Expr {
	for {
		switch x := e.(type) {
		case *ast.UnaryExpr:
			e = x.X
		case *ast.ParenExpr:
			e = x.X
		case *ast.StarExpr:
			e = x.X
		default:
			return e
		}
	}
}

// little-endian 64-bit words of a composite literal gfP{…} / [4]uint64{…}
func words(e ast.Expr) *big.Int {
	c, ok := unwrap(e).(*ast.CompositeLit)
	if !ok {
		fail("expected composite literal of words")
	}
	v := new(big.Int)
	for i, el := range c.Elts {
		l, ok := el.(*ast.BasicLit)
		if !ok {
			fail("expected integer literal word")
		}
		w, ok := new(big.Int).SetString(l.Value, 0)
		if !ok {
			fail("bad word " + l.Value)
		}
		v.Add(v, w.Lsh(w, uint(64*i)))
	}
	return v
}

// argument of newGFp(k), reduced mod p
func newGFpArg(e ast.Expr, p *big.Int) *big.Int {
	c, ok := unwrap(e).(*ast.CallExpr)
	if !ok || len(c.Args) != 1 {
		fail("expected newGFp(k)")
	}
	if id, ok := c.Fun.(*ast.Ident); !ok || id.Name != "newGFp" {
		fail("expected newGFp")
	}
	var buf bytes.Buffer
	printer.Fprint(&buf, fset, c.Args[0])
	n, ok := new(big.Int).SetString(strings.ReplaceAll(buf.String(), " ", ""), 10)
	if !ok {
		fail("bad newGFp argument " + buf.String())
	}
	return n.Mod(n, p)
}

func fields(e ast.Expr) []ast.Expr {
	c, ok := unwrap(e).(*ast.CompositeLit)
	if !ok {
		fail("expected composite literal")
	}
	var out []ast.Expr
	for _, el := range c.Elts {
		if kv, ok := el.(*ast.KeyValueExpr); ok {
			out = append(out, kv.Value)
		} else {
			out = append(out, el)
		}
	}
	return out
}

// every `const numBytes = <expr>` inside function bodies must evaluate to the same number
func numBytes(f *ast.File) int {
	val := -1
	ast.Inspect(f, func(n ast.Node) bool {
		v, ok := n.(*ast.ValueSpec)
		if !ok {
			return true
		}
		for i, nm := range v.Names {
			if nm.Name != "numBytes" || i >= len(v.Values) {
				continue
			}
			b, ok := v.Values[i].(*ast.BinaryExpr)
			if !ok {
				fail("numBytes: unexpected expression")
			}
			x, _ := strconv.Atoi(b.X.(*ast.BasicLit).Value)
			y, _ := strconv.Atoi(b.Y.(*ast.BasicLit).Value)
			r := 0
			switch b.Op {
			case token.QUO:
				r = x / y
			case token.MUL:
				r = x * y
			default:
				fail("numBytes: unexpected operator")
			}
			if val >= 0 && val != r {
				fail("numBytes differs between functions")
			}
			val = r
		}
		return true
	})
	if val < 0 {
		fail("numBytes not found")
	}
	return val
}

// ---------------------------------------------------------------- shapes

type env struct {
	names map[string]string // identifier -> replacement
}

func render(e ast.Expr, en *env) string {
	switch x := e.(type) {
	case nil:
		return ""
	case *ast.Ident:
		if r, ok := en.names[x.Name]; ok {
			return r
		}
		return x.Name
	case *ast.BasicLit:
		return x.Value
	case *ast.ParenExpr:
		return "(" + render(x.X, en) + ")"
	case *ast.SelectorExpr:
		return render(x.X, en) + "." + x.Sel.Name
	case *ast.StarExpr:
		return "*" + render(x.X, en)
	case *ast.UnaryExpr:
		return x.Op.String() + render(x.X, en)
	case *ast.BinaryExpr:
		return render(x.X, en) + " " + x.Op.String() + " " + render(x.Y, en)
	case *ast.CallExpr:
		var as []string
		for _, a := range x.Args {
			as = append(as, render(a, en))
		}
		return render(x.Fun, en) + "(" + strings.Join(as, ", ") + ")"
	case *ast.IndexExpr:
		return render(x.X, en) + "[" + render(x.Index, en) + "]"
	case *ast.SliceExpr:
		return render(x.X, en) + "[" + render(x.Low, en) + ":" + render(x.High, en) + "]"
	case *ast.CompositeLit:
		var as []string
		for _, a := range x.Elts {
			as = append(as, render(a, en))
		}
		return render(x.Type, en) + "{" + strings.Join(as, ", ") + "}"
	case *ast.KeyValueExpr:
		return render(x.Key, en) + ": " + render(x.Value, en)
	case *ast.ArrayType:
		return "[" + render(x.Len, en) + "]" + render(x.Elt, en)
	}
	var buf bytes.Buffer
	printer.Fprint(&buf, fset, e)
	return "?" + buf.String()
}

func renderList(es []ast.Expr, en *env) string {
	var as []string
	for _, a := range es {
		as = append(as, render(a, en))
	}
	return strings.Join(as, ", ")
}

func findFunc(f *ast.File, recv, name string) *ast.FuncDecl {
	for _, d := range f.Decls {
		fd, ok := d.(*ast.FuncDecl)
		if !ok || fd.Name.Name != name {
			continue
		}
		r := ""
		if fd.Recv != nil && len(fd.Recv.List) == 1 {
			t := fd.Recv.List[0].Type
			if s, ok := t.(*ast.StarExpr); ok {
				t = s.X
			}
			r = t.(*ast.Ident).Name
		}
		if r == recv {
			return fd
		}
	}
	fail("function " + recv + "." + name + " not found")
	return nil
}

// shape of a straight-line function: steps, where a run of adjacent guards is sorted
func shape(fd *ast.FuncDecl) []string {
	en := &env{names: map[string]string{}}
	if fd.Recv != nil && len(fd.Recv.List) == 1 && len(fd.Recv.List[0].Names) == 1 {
		en.names[fd.Recv.List[0].Names[0].Name] = "$r"
	}
	i := 0
	for _, p := range fd.Type.Params.List {
		for _, n := range p.Names {
			en.names[n.Name] = "$" + strconv.Itoa(i)
			i++
		}
	}
	if fd.Type.Results != nil {
		for _, p := range fd.Type.Results.List {
			for _, n := range p.Names {
				en.names[n.Name] = "$out:" + n.Name
			}
		}
	}
	nloc := 0
	var steps, guards []string
	flush := func() {
		sort.Strings(guards)
		steps = append(steps, guards...)
		guards = nil
	}
	for _, st := range fd.Body.List {
		switch s := st.(type) {
		case *ast.IfStmt:
			if s.Init == nil && s.Else == nil && len(s.Body.List) == 1 {
				switch b := s.Body.List[0].(type) {
				case *ast.ReturnStmt:
					guards = append(guards, "guard["+render(s.Cond, en)+"] -> return "+renderList(b.Results, en))
					continue
				case *ast.ExprStmt:
					if c, ok := b.X.(*ast.CallExpr); ok {
						if id, ok := c.Fun.(*ast.Ident); ok && id.Name == "panic" {
							guards = append(guards, "guard["+render(s.Cond, en)+"] -> panic")
							continue
						}
					}
				}
			}
			if s.Init != nil && s.Else == nil && len(s.Body.List) == 1 {
				if a, ok := s.Init.(*ast.AssignStmt); ok {
					if b, ok := s.Body.List[0].(*ast.ReturnStmt); ok {
						flush()
						en2 := &env{names: map[string]string{}}
						for k, v := range en.names {
							en2.names[k] = v
						}
						for _, l := range a.Lhs {
							if id, ok := l.(*ast.Ident); ok && id.Name != "_" {
								en2.names[id.Name] = "$e"
							}
						}
						steps = append(steps, "if $e := "+renderList(a.Rhs, en)+"; "+render(s.Cond, en2)+" -> return "+renderList(b.Results, en2))
						continue
					}
				}
			}
			flush()
			var buf bytes.Buffer
			printer.Fprint(&buf, fset, s)
			steps = append(steps, "unrecognised-if: "+strings.Join(strings.Fields(buf.String()), " "))
		case *ast.AssignStmt:
			if s.Tok == token.DEFINE && len(s.Lhs) == 1 && len(s.Rhs) == 1 {
				if id, ok := s.Lhs[0].(*ast.Ident); ok {
					en.names[id.Name] = render(s.Rhs[0], en) // single-assignment local: inline
					continue
				}
			}
			flush()
			steps = append(steps, "do "+renderList(s.Lhs, en)+" "+s.Tok.String()+" "+renderList(s.Rhs, en))
		case *ast.DeclStmt:
			g := s.Decl.(*ast.GenDecl)
			for _, sp := range g.Specs {
				if v, ok := sp.(*ast.ValueSpec); ok {
					for _, n := range v.Names {
						en.names[n.Name] = "$L" + strconv.Itoa(nloc) + ":" + render(v.Type, en)
						nloc++
					}
				}
			}
		case *ast.ExprStmt:
			flush()
			steps = append(steps, "do "+render(s.X, en))
		case *ast.ReturnStmt:
			flush()
			steps = append(steps, "return "+renderList(s.Results, en))
		default:
			flush()
			var buf bytes.Buffer
			printer.Fprint(&buf, fset, st)
			steps = append(steps, fmt.Sprintf("stmt %T: %s", st, strings.Join(strings.Fields(buf.String()), " ")))
		}
	}
	flush()
	return steps
}

// error exits of an Unmarshal: every `return nil, errors.New("msg")` with the chain of enclosing
// conditions, plus the successful return expression
func errorExits(fd *ast.FuncDecl) []string {
	en := &env{names: map[string]string{}}
	if fd.Recv != nil && len(fd.Recv.List[0].Names) == 1 {
		en.names[fd.Recv.List[0].Names[0].Name] = "$r"
	}
	i := 0
	for _, p := range fd.Type.Params.List {
		for _, n := range p.Names {
			en.names[n.Name] = "$" + strconv.Itoa(i)
			i++
		}
	}
	var out []string
	var walk func(list []ast.Stmt, path string)
	walk = func(list []ast.Stmt, path string) {
		for _, st := range list {
			switch s := st.(type) {
			case *ast.IfStmt:
				c := render(s.Cond, en)
				walk(s.Body.List, path+"["+c+"]")
				if s.Else != nil {
					if b, ok := s.Else.(*ast.BlockStmt); ok {
						walk(b.List, path+"[!("+c+")]")
					} else if ei, ok := s.Else.(*ast.IfStmt); ok {
						walk([]ast.Stmt{ei}, path+"[!("+c+")]")
					}
				}
			case *ast.AssignStmt:
				// single-assignment local (e.g. `zero := gfP{0}`): inline, so its name is irrelevant
				if s.Tok == token.DEFINE && len(s.Lhs) == 1 && len(s.Rhs) == 1 {
					if id, ok := s.Lhs[0].(*ast.Ident); ok {
						en.names[id.Name] = render(s.Rhs[0], en)
					}
				}
			case *ast.ReturnStmt:
				out = append(out, path+" -> return "+renderList(s.Results, en))
			}
		}
	}
	walk(fd.Body.List, "")
	return out
}

// package-level `var` names of every non-test file of a package directory
func packageVars(pkgdir string) map[string]bool {
	out := map[string]bool{}
	ents, err := os.ReadDir(pkgdir)
	if err != nil {
		fail(err.Error())
	}
	for _, e := range ents {
		n := e.Name()
		if e.IsDir() || !strings.HasSuffix(n, ".go") || strings.HasSuffix(n, "_test.go") {
			continue
		}
		f := parse(pkgdir + n)
		for _, d := range f.Decls {
			g, ok := d.(*ast.GenDecl)
			if !ok || g.Tok != token.VAR {
				continue
			}
			for _, sp := range g.Specs {
				for _, nm := range sp.(*ast.ValueSpec).Names {
					out[nm.Name] = true
				}
			}
		}
	}
	return out
}

// hash path facts: which package-level variables (state!) a function reads or writes, and the
// set of callees. A cache / memo table / counter consulted by the hash-to-curve path shows up in
// the first list, a new helper on the path in the second.
func stateAndCalls(fd *ast.FuncDecl, vars map[string]bool) (globals, calls []string) {
	local := map[string]bool{}
	if fd.Recv != nil {
		for _, f := range fd.Recv.List {
			for _, n := range f.Names {
				local[n.Name] = true
			}
		}
	}
	for _, f := range fd.Type.Params.List {
		for _, n := range f.Names {
			local[n.Name] = true
		}
	}
	gs, cs := map[string]bool{}, map[string]bool{}
	en := &env{names: map[string]string{}}
	ast.Inspect(fd.Body, func(n ast.Node) bool {
		switch x := n.(type) {
		case *ast.AssignStmt:
			if x.Tok == token.DEFINE {
				for _, l := range x.Lhs {
					if id, ok := l.(*ast.Ident); ok {
						local[id.Name] = true
					}
				}
			}
		case *ast.SelectorExpr:
			// only the root of a selector can be a package-level variable
			if id, ok := x.X.(*ast.Ident); ok && vars[id.Name] && !local[id.Name] {
				gs[id.Name] = true
			}
			return false
		case *ast.Ident:
			if vars[x.Name] && !local[x.Name] {
				gs[x.Name] = true
			}
		case *ast.CallExpr:
			switch f := x.Fun.(type) {
			case *ast.Ident:
				cs[f.Name] = true
			case *ast.SelectorExpr:
				cs["."+f.Sel.Name] = true
				if id, ok := f.X.(*ast.Ident); ok && !local[id.Name] {
					cs[render(f, en)] = true
					delete(cs, "."+f.Sel.Name)
				}
			}
		}
		return true
	})
	for k := range gs {
		globals = append(globals, k)
	}
	for k := range cs {
		calls = append(calls, k)
	}
	sort.Strings(globals)
	sort.Strings(calls)
	return
}

func rootIdent(e ast.Expr) *ast.Ident {
	for {
		switch x := e.(type) {
		case *ast.Ident:
			return x
		case *ast.SelectorExpr:
			e = x.X
		case *ast.IndexExpr:
			e = x.X
		case *ast.StarExpr:
			e = x.X
		case *ast.ParenExpr:
			e = x.X
		default:
			return nil
		}
	}
}

func funcLabel(fd *ast.FuncDecl) string {
	if fd.Recv != nil && len(fd.Recv.List) == 1 {
		t := fd.Recv.List[0].Type
		if st, ok := t.(*ast.StarExpr); ok {
			t = st.X
		}
		if id, ok := t.(*ast.Ident); ok {
			return id.Name + "." + fd.Name.Name
		}
	}
	return fd.Name.Name
}

func localNames(fd *ast.FuncDecl) map[string]bool {
	local := map[string]bool{}
	addFields := func(fl *ast.FieldList) {
		if fl == nil {
			return
		}
		for _, f := range fl.List {
			for _, n := range f.Names {
				local[n.Name] = true
			}
		}
	}
	addFields(fd.Recv)
	addFields(fd.Type.Params)
	addFields(fd.Type.Results)
	ast.Inspect(fd.Body, func(n ast.Node) bool {
		switch x := n.(type) {
		case *ast.AssignStmt:
			if x.Tok == token.DEFINE {
				for _, l := range x.Lhs {
					if id, ok := l.(*ast.Ident); ok {
						local[id.Name] = true
					}
				}
			}
		case *ast.ValueSpec:
			for _, nm := range x.Names {
				local[nm.Name] = true
			}
		case *ast.RangeStmt:
			if x.Tok == token.DEFINE {
				for _, e := range []ast.Expr{x.Key, x.Value} {
					if id, ok := e.(*ast.Ident); ok {
						local[id.Name] = true
					}
				}
			}
		}
		return true
	})
	return local
}

// packageState: every place inside a function body of the package where a package-level variable
// can be written or handed out for writing: assignment / inc-dec with such a variable at the root of
// the left-hand side, `&v` of it, and method calls with it as the receiver (a pointer-receiver method
// may write it; go/ast cannot tell, so all are listed and the list is pinned). Shared mutable
// state on the pairing path (scratch buffers, caches, counters) shows up here.
func packageState(pkgdir string) []string {
	vars := packageVars(pkgdir)
	set := map[string]bool{}
	ents, _ := os.ReadDir(pkgdir)
	for _, e := range ents {
		n := e.Name()
		if e.IsDir() || !strings.HasSuffix(n, ".go") || strings.HasSuffix(n, "_test.go") {
			continue
		}
		f := parse(pkgdir + n)
		for _, d := range f.Decls {
			fd, ok := d.(*ast.FuncDecl)
			if !ok || fd.Body == nil {
				continue
			}
			local := localNames(fd)
			isVar := func(e ast.Expr) (string, bool) {
				id := rootIdent(e)
				if id != nil && vars[id.Name] && !local[id.Name] {
					return id.Name, true
				}
				return "", false
			}
			lab := funcLabel(fd)
			ast.Inspect(fd.Body, func(nd ast.Node) bool {
				switch x := nd.(type) {
				case *ast.AssignStmt:
					if x.Tok != token.DEFINE {
						for _, l := range x.Lhs {
							if v, ok := isVar(l); ok {
								set[lab+": assign "+v] = true
							}
						}
					}
				case *ast.IncDecStmt:
					if v, ok := isVar(x.X); ok {
						set[lab+": incdec "+v] = true
					}
				case *ast.UnaryExpr:
					if x.Op == token.AND {
						if v, ok := isVar(x.X); ok {
							set[lab+": addr &"+v] = true
						}
					}
				case *ast.CallExpr:
					if sel, ok := x.Fun.(*ast.SelectorExpr); ok {
						if v, ok := isVar(sel.X); ok {
							set[lab+": call "+v+"."+sel.Sel.Name] = true
						}
					}
				}
				return true
			})
		}
	}
	var out []string
	for k := range set {
		out = append(out, k)
	}
	sort.Strings(out)
	return out
}

// valueFieldUses: in the groupsig wrappers, every method invoked on — and every address taken of —
// the `.value` field (a bn256.G1/G2 holding a POINTER) of a receiver or parameter. A struct copy of
// Signature / Pubkey shares that pointer, so a mutating method here changes the caller's object.
func valueFieldUses(files ...*ast.File) []string {
	set := map[string]bool{}
	for _, f := range files {
		for _, d := range f.Decls {
			fd, ok := d.(*ast.FuncDecl)
			if !ok || fd.Body == nil {
				continue
			}
			params := map[string]bool{}
			for _, fl := range []*ast.FieldList{fd.Recv, fd.Type.Params} {
				if fl == nil {
					continue
				}
				for _, fld := range fl.List {
					for _, n := range fld.Names {
						params[n.Name] = true
					}
				}
			}
			isVal := func(e ast.Expr) (string, bool) {
				sel, ok := e.(*ast.SelectorExpr)
				if !ok || sel.Sel.Name != "value" {
					return "", false
				}
				id, ok := sel.X.(*ast.Ident)
				if !ok || !params[id.Name] {
					return "", false
				}
				return "arg.value", true
			}
			lab := funcLabel(fd)
			ast.Inspect(fd.Body, func(nd ast.Node) bool {
				switch x := nd.(type) {
				case *ast.CallExpr:
					if sel, ok := x.Fun.(*ast.SelectorExpr); ok {
						if v, ok := isVal(sel.X); ok {
							set[lab+": "+v+"."+sel.Sel.Name+"()"] = true
						}
					}
				case *ast.UnaryExpr:
					if x.Op == token.AND {
						if v, ok := isVal(x.X); ok {
							set[lab+": &"+v] = true
						}
					}
				}
				return true
			})
		}
	}
	var out []string
	for k := range set {
		out = append(out, k)
	}
	sort.Strings(out)
	return out
}

// externalUses: every selector `pkg.Name` on an imported go-rangers package (import path containing
// "com.tuntun.rangers/node/") used anywhere in the non-test files of a package directory. The
// groupsig path reads no chain configuration: a fork flag (common.IsProposalNNN, LocalChainConfig,
// block height) or any other node state consulted by verification shows up here.
func externalUses(pkgdir string) []string {
	set := map[string]bool{}
	ents, _ := os.ReadDir(pkgdir)
	for _, e := range ents {
		n := e.Name()
		if e.IsDir() || !strings.HasSuffix(n, ".go") || strings.HasSuffix(n, "_test.go") {
			continue
		}
		f := parse(pkgdir + n)
		names := map[string]string{}
		for _, im := range f.Imports {
			path, _ := strconv.Unquote(im.Path.Value)
			if !strings.Contains(path, "com.tuntun.rangers/node/") || strings.HasSuffix(path, "/groupsig/bn256") {
				continue
			}
			nm := path[strings.LastIndex(path, "/")+1:]
			if im.Name != nil {
				nm = im.Name.Name
			}
			names[nm] = path[strings.Index(path, "node/")+5:]
		}
		ast.Inspect(f, func(nd ast.Node) bool {
			if sel, ok := nd.(*ast.SelectorExpr); ok {
				if id, ok := sel.X.(*ast.Ident); ok {
					if p, ok := names[id.Name]; ok {
						set[p+"."+sel.Sel.Name] = true
					}
				}
			}
			return true
		})
	}
	var out []string
	for k := range set {
		out = append(out, k)
	}
	sort.Strings(out)
	return out
}

// loopFacts: for every `for` statement directly in the function body: whether it is bounded
// (init / condition / post present), how many `return`s sit inside it, and how many statements
// follow it. An unbounded search loop that can only be left by `return <found>` has the shape
// "for: init=- cond=- post=- returns-inside=1 statements-after=0".
func loopFacts(fd *ast.FuncDecl) []string {
	var out []string
	for i, st := range fd.Body.List {
		fs, ok := st.(*ast.ForStmt)
		if !ok {
			continue
		}
		pres := func(b bool) string {
			if b {
				return "+"
			}
			return "-"
		}
		rets := 0
		ast.Inspect(fs.Body, func(n ast.Node) bool {
			if _, ok := n.(*ast.ReturnStmt); ok {
				rets++
			}
			return true
		})
		out = append(out, fmt.Sprintf("for: init=%s cond=%s post=%s returns-inside=%d statements-after=%d",
			pres(fs.Init != nil), pres(fs.Cond != nil), pres(fs.Post != nil), rets, len(fd.Body.List)-1-i))
	}
	return out
}

func leanStr(s string) string {
	s = strings.ReplaceAll(s, "\\", "\\\\")
	s = strings.ReplaceAll(s, "\"", "\\\"")
	return "\"" + s + "\""
}

func leanList(name, doc string, xs []string) string {
	var sb strings.Builder
	if len(xs) == 0 {
		return "/-- " + doc + " -/\ndef " + name + " : List String := []\n\n"
	}
	sb.WriteString("/-- " + doc + " -/\ndef " + name + " : List String := [\n")
	for i, x := range xs {
		sb.WriteString("  " + leanStr(x))
		if i+1 < len(xs) {
			sb.WriteString(",")
		}
		sb.WriteString("\n")
	}
	sb.WriteString("]\n\n")
	return sb.String()
}

func main() {
	cst := parse(dir + "bn256/constants.go")
	crv := parse(dir + "bn256/curve.go")
	tw := parse(dir + "bn256/twist.go")
	bnf := parse(dir + "bn256/bn256.go")
	idf := parse(dir + "id.go")
	sigf := parse(dir + "sig.go")
	pkf := parse(dir + "pubkey.go")

	P := base10Arg(topValue(cst, "P"))
	Order := base10Arg(topValue(cst, "Order"))
	p2 := words(topValue(cst, "p2"))
	Rinv := new(big.Int).ModInverse(new(big.Int).Lsh(big.NewInt(1), 256), P)
	dec := func(e ast.Expr) *big.Int {
		v := words(e)
		v.Mul(v, Rinv)
		return v.Mod(v, P)
	}
	curveB := newGFpArg(topValue(crv, "curveB"), P)
	cg := fields(topValue(crv, "curveGen"))
	tb := fields(topValue(tw, "twistB"))
	tg := fields(topValue(tw, "twistGen"))
	tgx, tgy := fields(tg[0]), fields(tg[1])
	nb := numBytes(bnf)
	idl := topValue(idf, "ID_LENGTH").(*ast.BasicLit).Value

	var c strings.Builder
	c.WriteString("-- GENERATED by gen/cmd/c14facts from src/consensus/groupsig (do not edit; rewritten on every check run).\n")
	c.WriteString("namespace Rangers.Generated.Bls14\n\n")
	w := func(doc, name string, v fmt.Stringer) {
		c.WriteString("/-- " + doc + " -/\ndef " + name + " : Nat := " + v.String() + "\n")
	}
	w("bn256/constants.go: `P`.", "fieldP", P)
	w("bn256/constants.go: `Order`.", "groupOrder", Order)
	w("bn256/constants.go: `p2` (little-endian words) as a number; must equal `P`.", "fieldPWords", p2)
	w("bn256/curve.go: `curveB = newGFp(_)`.", "curveB", curveB)
	w("bn256/curve.go: `curveGen.x` (argument of newGFp, reduced mod P).", "curveGenX", newGFpArg(cg[0], P))
	w("bn256/curve.go: `curveGen.y`.", "curveGenY", newGFpArg(cg[1], P))
	w("bn256/twist.go: `twistB.x` Montgomery-decoded (value is x*i + y).", "twistBX", dec(tb[0]))
	w("bn256/twist.go: `twistB.y`.", "twistBY", dec(tb[1]))
	w("bn256/twist.go: `twistGen` x.x Montgomery-decoded.", "twistGenXX", dec(tgx[0]))
	w("bn256/twist.go: `twistGen` x.y.", "twistGenXY", dec(tgx[1]))
	w("bn256/twist.go: `twistGen` y.x.", "twistGenYX", dec(tgy[0]))
	w("bn256/twist.go: `twistGen` y.y.", "twistGenYY", dec(tgy[1]))
	// pairing constants (Montgomery-decoded), the BN parameter u and the NAF of 6u+2
	for _, nm := range []string{"xiToPMinus1Over6", "xiToPMinus1Over3", "xiToPMinus1Over2", "xiTo2PMinus2Over3"} {
		fs := fields(topValue(cst, nm))
		w("bn256/constants.go: `"+nm+"`.x (Montgomery-decoded).", nm+"X", dec(fs[0]))
		w("bn256/constants.go: `"+nm+"`.y.", nm+"Y", dec(fs[1]))
	}
	for _, nm := range []string{"xiToPSquaredMinus1Over3", "xiTo2PSquaredMinus2Over3", "xiToPSquaredMinus1Over6"} {
		w("bn256/constants.go: `"+nm+"` (Montgomery-decoded).", nm, dec(topValue(cst, nm)))
	}
	w("bn256/constants.go: `u`.", "bnU", base10Arg(topValue(cst, "u")))
	{
		opt := parse(dir + "bn256/optate.go")
		var ds []string
		for _, el := range unwrap(topValue(opt, "sixuPlus2NAF")).(*ast.CompositeLit).Elts {
			var buf bytes.Buffer
			printer.Fprint(&buf, fset, el)
			ds = append(ds, strings.ReplaceAll(buf.String(), " ", ""))
		}
		c.WriteString("/-- bn256/optate.go: `sixuPlus2NAF`. -/\ndef sixuPlus2NAF : List Int := [" + strings.Join(ds, ", ") + "]\n")
	}
	c.WriteString("/-- bn256.go: `numBytes` in every Marshal/Unmarshal. -/\ndef numBytes : Nat := " + strconv.Itoa(nb) + "\n")
	c.WriteString("/-- groupsig/id.go: `ID_LENGTH`. -/\ndef idLength : Nat := " + idl + "\n")
	c.WriteString("\nend Rangers.Generated.Bls14\n")

	var s strings.Builder
	s.WriteString("-- GENERATED by gen/cmd/c14facts from src/consensus/groupsig (do not edit; rewritten on every check run).\n")
	s.WriteString("-- Shapes: $r receiver, $0.. parameters, single-assignment locals inlined, adjacent guards sorted.\n")
	s.WriteString("namespace Rangers.Generated.Bls14.Shape\n\n")
	s.WriteString(leanList("verifySig", "sig.go: VerifySig", shape(findFunc(sigf, "", "VerifySig"))))
	s.WriteString(leanList("sigIsValid", "sig.go: Signature.IsValid", shape(findFunc(sigf, "Signature", "IsValid"))))
	s.WriteString(leanList("sigIsNil", "sig.go: Signature.IsNil", shape(findFunc(sigf, "Signature", "IsNil"))))
	s.WriteString(leanList("sigSerialize", "sig.go: Signature.Serialize", shape(findFunc(sigf, "Signature", "Serialize"))))
	s.WriteString(leanList("sigDeserialize", "sig.go: Signature.Deserialize", shape(findFunc(sigf, "Signature", "Deserialize"))))
	s.WriteString(leanList("deserializeSign", "sig.go: DeserializeSign", shape(findFunc(sigf, "", "DeserializeSign"))))
	s.WriteString(leanList("sign", "sig.go: Sign", shape(findFunc(sigf, "", "Sign"))))
	s.WriteString(leanList("pubIsValid", "pubkey.go: Pubkey.IsValid", shape(findFunc(pkf, "Pubkey", "IsValid"))))
	s.WriteString(leanList("pubIsEmpty", "pubkey.go: Pubkey.IsEmpty", shape(findFunc(pkf, "Pubkey", "IsEmpty"))))
	s.WriteString(leanList("pubSerialize", "pubkey.go: Pubkey.Serialize", shape(findFunc(pkf, "Pubkey", "Serialize"))))
	s.WriteString(leanList("pubDeserialize", "pubkey.go: Pubkey.Deserialize", shape(findFunc(pkf, "Pubkey", "Deserialize"))))
	s.WriteString(leanList("byteToPublicKey", "pubkey.go: ByteToPublicKey", shape(findFunc(pkf, "", "ByteToPublicKey"))))
	s.WriteString(leanList("idSerialize", "id.go: ID.Serialize", shape(findFunc(idf, "ID", "Serialize"))))
	s.WriteString(leanList("g1IsValid", "bn256.go: G1.IsValid", shape(findFunc(bnf, "G1", "IsValid"))))
	s.WriteString(leanList("g1IsNil", "bn256.go: G1.IsNil", shape(findFunc(bnf, "G1", "IsNil"))))
	s.WriteString(leanList("g2IsEmpty", "bn256.go: G2.IsEmpty", shape(findFunc(bnf, "G2", "IsEmpty"))))
	s.WriteString(leanList("pairIsEqual", "bn256.go: PairIsEuqal", shape(findFunc(bnf, "", "PairIsEuqal"))))
	s.WriteString(leanList("g1UnmarshalExits", "bn256.go: exits of G1.Unmarshal with their path conditions", errorExits(findFunc(bnf, "G1", "Unmarshal"))))
	s.WriteString(leanList("g2UnmarshalExits", "bn256.go: exits of G2.Unmarshal with their path conditions", errorExits(findFunc(bnf, "G2", "Unmarshal"))))
	s.WriteString(leanList("curveIsOnCurve", "curve.go: curvePoint.IsOnCurve exits", errorExits(findFunc(crv, "curvePoint", "IsOnCurve"))))
	bcf := parse(dir + "bn_curve.go")
	gvars := packageVars(dir)
	bvars := packageVars(dir + "bn256/")
	g1, c1 := stateAndCalls(findFunc(bcf, "", "hashToG1"), gvars)
	g2, c2 := stateAndCalls(findFunc(bnf, "G1", "HashToPoint"), bvars)
	g3, c3 := stateAndCalls(findFunc(bnf, "", "hashToCurvePoint"), bvars)
	s.WriteString(leanList("hashToG1", "bn_curve.go: hashToG1", shape(findFunc(bcf, "", "hashToG1"))))
	s.WriteString(leanList("hashToCurvePointLoop", "bn256.go: the try-and-increment loop of hashToCurvePoint is unbounded and is left only by returning a point", loopFacts(findFunc(bnf, "", "hashToCurvePoint"))))
	s.WriteString(leanList("hashToCurvePoint", "bn256.go: hashToCurvePoint", shape(findFunc(bnf, "", "hashToCurvePoint"))))
	s.WriteString(leanList("hashToPoint", "bn256.go: G1.HashToPoint", shape(findFunc(bnf, "G1", "HashToPoint"))))
	s.WriteString(leanList("hashToG1State", "bn_curve.go: package-level variables hashToG1 touches (must stay empty: no cache, no state)", g1))
	s.WriteString(leanList("hashToG1Calls", "bn_curve.go: callees of hashToG1", c1))
	s.WriteString(leanList("hashToPointState", "bn256.go: package-level variables G1.HashToPoint touches", g2))
	s.WriteString(leanList("hashToPointCalls", "bn256.go: callees of G1.HashToPoint", c2))
	s.WriteString(leanList("hashToCurvePointState", "bn256.go: package-level variables hashToCurvePoint touches (only the modulus)", g3))
	s.WriteString(leanList("hashToCurvePointCalls", "bn256.go: callees of hashToCurvePoint", c3))
	s.WriteString(leanList("bn256PackageState", "bn256/*.go: every write-capable use of a package-level variable inside a function body (assign / incdec / &v / method call with v as receiver)", packageState(dir+"bn256/")))
	s.WriteString(leanList("groupsigValueUses", "sig.go, pubkey.go: methods invoked on / addresses taken of the shared-pointer field `.value` of a receiver or parameter", valueFieldUses(sigf, pkf)))
	cmb := parse("src/common/bytes.go")
	s.WriteString(leanList("bnIntGetHexString", "bn_curve.go: BnInt.getHexString", shape(findFunc(bcf, "BnInt", "getHexString"))))
	s.WriteString(leanList("bnIntSetHexString", "bn_curve.go: BnInt.setHexString", shape(findFunc(bcf, "BnInt", "setHexString"))))
	s.WriteString(leanList("sigGetHexString", "sig.go: Signature.GetHexString", shape(findFunc(sigf, "Signature", "GetHexString"))))
	s.WriteString(leanList("sigSetHexString", "sig.go: Signature.SetHexString", shape(findFunc(sigf, "Signature", "SetHexString"))))
	s.WriteString(leanList("pubGetHexString", "pubkey.go: Pubkey.GetHexString", shape(findFunc(pkf, "Pubkey", "GetHexString"))))
	s.WriteString(leanList("pubSetHexString", "pubkey.go: Pubkey.SetHexString", shape(findFunc(pkf, "Pubkey", "SetHexString"))))
	s.WriteString(leanList("pubUnmarshalJSON", "pubkey.go: Pubkey.UnmarshalJSON", shape(findFunc(pkf, "Pubkey", "UnmarshalJSON"))))
	s.WriteString(leanList("idGetHexString", "id.go: ID.GetHexString", shape(findFunc(idf, "ID", "GetHexString"))))
	s.WriteString(leanList("idSetHexString", "id.go: ID.SetHexString", shape(findFunc(idf, "ID", "SetHexString"))))
	s.WriteString(leanList("idUnmarshalJSON", "id.go: ID.UnmarshalJSON", shape(findFunc(idf, "ID", "UnmarshalJSON"))))
	s.WriteString(leanList("commonHex2Bytes", "common/bytes.go: Hex2Bytes", shape(findFunc(cmb, "", "Hex2Bytes"))))
	s.WriteString(leanList("commonBytes2Hex", "common/bytes.go: Bytes2Hex", shape(findFunc(cmb, "", "Bytes2Hex"))))
	s.WriteString(leanList("commonToHex", "common/bytes.go: ToHex", shape(findFunc(cmb, "", "ToHex"))))
	skf := parse(dir + "seckey.go")
	cty := parse("src/common/types.go")
	cut := parse("src/common/utils.go")
	s.WriteString(leanList("sigIsEqual", "sig.go: Signature.IsEqual", shape(findFunc(sigf, "Signature", "IsEqual"))))
	s.WriteString(leanList("pubIsEqual", "pubkey.go: Pubkey.IsEqual", shape(findFunc(pkf, "Pubkey", "IsEqual"))))
	s.WriteString(leanList("pubGetAddress", "pubkey.go: Pubkey.GetAddress", shape(findFunc(pkf, "Pubkey", "GetAddress"))))
	s.WriteString(leanList("aggregatePubkeys", "pubkey.go: AggregatePubkeys", shape(findFunc(pkf, "", "AggregatePubkeys"))))
	s.WriteString(leanList("generatePubkey", "pubkey.go: GeneratePubkey", shape(findFunc(pkf, "", "GeneratePubkey"))))
	s.WriteString(leanList("seckeyIsValid", "seckey.go: Seckey.IsValid", shape(findFunc(skf, "Seckey", "IsValid"))))
	s.WriteString(leanList("seckeyIsEqual", "seckey.go: Seckey.IsEqual", shape(findFunc(skf, "Seckey", "IsEqual"))))
	s.WriteString(leanList("aggregateSeckeys", "seckey.go: AggregateSeckeys", shape(findFunc(skf, "", "AggregateSeckeys"))))
	s.WriteString(leanList("newSeckeyFromByte", "seckey.go: newSeckeyFromByte", shape(findFunc(skf, "", "newSeckeyFromByte"))))
	s.WriteString(leanList("newSeckeyFromRand", "seckey.go: NewSeckeyFromRand", shape(findFunc(skf, "", "NewSeckeyFromRand"))))
	s.WriteString(leanList("newSeckeyFromBigInt", "seckey.go: NewSeckeyFromBigInt", shape(findFunc(skf, "", "NewSeckeyFromBigInt"))))
	s.WriteString(leanList("idIsValid", "id.go: ID.IsValid", shape(findFunc(idf, "ID", "IsValid"))))
	s.WriteString(leanList("idToAddress", "id.go: ID.ToAddress", shape(findFunc(idf, "ID", "ToAddress"))))
	s.WriteString(leanList("newIDFromPubkey", "id.go: NewIDFromPubkey", shape(findFunc(idf, "", "NewIDFromPubkey"))))
	s.WriteString(leanList("addressSetBytes", "common/types.go: Address.SetBytes", shape(findFunc(cty, "Address", "SetBytes"))))
	s.WriteString(leanList("shortHex12", "common/utils.go: ShortHex12", shape(findFunc(cut, "", "ShortHex12"))))
	s.WriteString(leanList("bnIntMod", "bn_curve.go: BnInt.mod", shape(findFunc(bcf, "BnInt", "mod"))))
	s.WriteString(leanList("bnIntAdd", "bn_curve.go: BnInt.add", shape(findFunc(bcf, "BnInt", "add"))))
	s.WriteString(leanList("groupsigExternalUses", "groupsig/*.go: everything used from other go-rangers packages (no chain configuration, no fork flags, no block height)", externalUses(dir)))
	s.WriteString(leanList("bn256ExternalUses", "bn256/*.go: everything used from other go-rangers packages (nothing)", externalUses(dir+"bn256/")))
	s.WriteString("end Rangers.Generated.Bls14.Shape\n")

	fmt.Println("-----FILE Bls14Consts.lean")
	fmt.Print(c.String())
	fmt.Println("-----FILE Bls14Shape.lean")
	fmt.Print(s.String())
}
