// c06facts: translator for property C06. Re-extracts from the go-rangers working tree
//   - every call site of the ledger primitives (AddBalance/SubBalance/SetBalance/AddFT/SubFT/SetFT/Transfer),
//     with its enclosing function and whether the call's result is used,
//   - for the functions the model transcribes, the ordered sequence of ledger-relevant calls,
//   - the constants the model uses,
//
// and prints lean/Rangers/Generated/LedgerFacts.lean on stdout. go/ast only, no type checking.
package main

import (
	"fmt"
	"go/ast"
	"go/parser"
	"go/token"
	"os"
	"path/filepath"
	"sort"
	"strconv"
	"strings"
)

var prims = map[string]bool{"AddBalance": true, "SubBalance": true, "SetBalance": true, "AddFT": true, "SubFT": true,
	"SetFT": true, "Transfer": true}

// calls whose order inside a transcribed function matters
var orderCalls = map[string]bool{"GetBalance": true, "Cmp": true, "Sign": true, "AddBalance": true, "SubBalance": true,
	"CanTransfer": true, "Transfer": true, "Snapshot": true, "RevertToSnapshot": true, "AddFT": true, "SubFT": true,
	"SetFT": true, "SetData": true, "setData": true, "setBalance": true, "Suicide": true, "ProcessFee": true,
	"StrToBigInt": true, "deductGasFee": true, "Create": true, "Call": true, "Execute": true, "BeforeExecute": true,
	"preCheckContractFee": true, "decodeContractData": true, "validateNonce": true, "transferBalance": true,
	"IntrinsicGas": true, "GetMinerIdByAccount": true, "AddStake": true, "AddMiner": true, "GetRefundStake": true,
	"AddRefundInfo": true, "Add": true, "ParseUint": true, "RemoveMiner": true, "UpdateMiner": true, "GetMiner": true,
	"GetMinerById": true, "CheckAndMove": true, "CalculateReward": true, "IsContract": true}

var orderFuncs = map[string]bool{
	"src/service/game.go:transferBalance":                              true,
	"src/service/game.go:ChangeAssets":                                 true,
	"src/service/transaction_pool.go:TxPool.ProcessFee":                true,
	"src/executor/contract_executor.go:contractExecutor.Execute":       true,
	"src/executor/contract_executor.go:contractExecutor.BeforeExecute": true,
	"src/executor/contract_executor.go:preCheckContractFee":            true,
	"src/executor/jsonrpc_executor.go:jsonrpcExecutor.BeforeExecute":   true,
	"src/executor/base_executor.go:baseFeeExecutor.BeforeExecute":      true,
	"src/core/vmexecutor.go:deductGasFee":                              true,
	"src/core/vmexecutor.go:VMExecutor.Execute":                        true,
	"src/vm/init.go:CanTransfer":                                       true,
	"src/vm/init.go:Transfer":                                          true,
	"src/vm/evm.go:EVM.Call":                                           true,
	"src/vm/evm.go:EVM.CallCode":                                       true,
	"src/vm/evm.go:EVM.DelegateCall":                                   true,
	"src/vm/evm.go:EVM.StaticCall":                                     true,
	"src/vm/evm.go:EVM.create":                                         true,
	"src/vm/evm.go:EVM.AuthCall":                                       true,
	"src/vm/instructions.go:opSuicide":                                 true,
	"src/storage/account/accountdb_tuntun.go:AccountDB.AddFT":          true,
	"src/storage/account/accountdb_tuntun.go:AccountDB.SubFT":          true,
	"src/storage/account/accountdb.go:AccountDB.Suicide":               true,
	"src/service/refund_manager.go:RefundManager.CheckAndMove":         true,
	"src/service/miner_manager.go:MinerManager.AddStake":               true,
	"src/service/miner_manager.go:MinerManager.AddMiner":               true,
	"src/service/miner_manager.go:MinerManager.RemoveMiner":            true,
	"src/service/refund_manager.go:RefundManager.GetRefundStake":       true,
	"src/executor/miner_executor.go:minerRefundExecutor.Execute":       true,
	"src/executor/miner_executor.go:minerApplyExecutor.Execute":        true,
	"src/executor/miner_executor.go:minerAddExecutor.Execute":          true,
	"src/executor/miner_node_executor.go:minerNodeExecutor.Execute":    true,
	"src/vm/instructions.go:opStake":                                   true,
	"src/vm/instructions.go:opUnStake":                                 true,
	"src/vm/instructions.go:opUnStakeAll":                              true,
	"src/core/vmexecutor.go:VMExecutor.after":                          true,
}

// fork tests per transcribed function (a multiset: where in the function they stand does not matter)
var flagReads map[string][]string

// numeric conversions an amount passes through, per function, in source order (callee names only: renaming a
// variable changes nothing, dropping / adding / swapping a conversion does)
var convCalls = map[string]bool{"FormatDecimalForERC20": true, "FormatDecimalForRocket": true, "Float64ToBigInt": true,
	"Uint64ToBigInt": true, "BigIntToStrWithoutDot": true, "BigIntToStr": true, "StrToBigInt": true, "strToBigInt": true,
	"bigIntToStr": true, "ParseUint": true, "SetUint64": true}
var convFuncs = map[string]bool{
	"src/storage/account/accountdb_tuntun.go:AccountDB.AddFT":    true,
	"src/storage/account/accountdb_tuntun.go:AccountDB.SubFT":    true,
	"src/storage/account/accountdb_tuntun.go:AccountDB.SetFT":    true,
	"src/storage/account/accountdb_tuntun.go:AccountDB.GetFT":    true,
	"src/service/miner_manager.go:MinerManager.AddStake":         true,
	"src/service/miner_manager.go:MinerManager.AddMiner":         true,
	"src/service/refund_manager.go:RefundManager.GetRefundStake": true,
	"src/vm/instructions.go:opStake":                             true,
	"src/vm/instructions.go:opUnStake":                           true,
	"src/vm/instructions.go:opUnStakeAll":                        true,
	"src/utility/data_convert.go:FormatDecimalForERC20":          true,
	"src/utility/data_convert.go:FormatDecimalForRocket":         true,
	"src/utility/data_convert.go:BigIntToStrWithoutDot":          true,
	"src/utility/data_convert.go:Uint64ToBigInt":                 true,
	"src/service/game.go:transferBalance":                        true,
	"src/executor/miner_executor.go:minerRefundExecutor.Execute": true,
}
var conversions = map[string][]string{}

// comparisons against zero of a Cmp / Sign result, per transcribed function, in source order: "Cmp<0", "Sign>=0", ...
var compares = map[string][]string{}

// (function:callee, account and amount expressions) of the balance guard and the transfer in the EVM entry points
var guardArgs [][2]string

type site struct {
	file, fn, callee string
	used             bool
}

func recvName(fd *ast.FuncDecl) string {
	if fd.Recv == nil || len(fd.Recv.List) == 0 {
		return fd.Name.Name
	}
	t := fd.Recv.List[0].Type
	if s, ok := t.(*ast.StarExpr); ok {
		t = s.X
	}
	if id, ok := t.(*ast.Ident); ok {
		return id.Name + "." + fd.Name.Name
	}
	return fd.Name.Name
}

func calleeName(c *ast.CallExpr) string {
	switch f := c.Fun.(type) {
	case *ast.SelectorExpr:
		return f.Sel.Name
	case *ast.Ident:
		return f.Name
	}
	return ""
}

func q(s string) string { return strconv.Quote(s) }

// ---- package-level state written on the ledger path (class "shared mutable state")

var ledgerFiles = map[string]bool{
	"src/service/game.go": true, "src/service/transaction_pool.go": true, "src/service/miner_manager.go": true,
	"src/service/refund_manager.go": true, "src/service/reward_calculator.go": true,
	"src/executor/base_executor.go": true, "src/executor/contract_executor.go": true, "src/executor/jsonrpc_executor.go": true,
	"src/executor/miner_executor.go": true, "src/executor/miner_node_executor.go": true, "src/executor/operator_executor.go": true,
	"src/core/vmexecutor.go": true, "src/vm/init.go": true, "src/vm/evm.go": true, "src/vm/instructions.go": true,
	"src/storage/account/accountdb_tuntun.go": true, "src/storage/account/account_object_ft.go": true,
	"src/storage/account/accountdb_eth.go": true, "src/utility/data_convert.go": true,
}

var bigMutators = map[string]bool{"Add": true, "Sub": true, "Mul": true, "Div": true, "Mod": true, "Quo": true, "Rem": true, "Set": true,
	"SetBytes": true, "SetInt64": true, "SetUint64": true, "SetString": true, "Neg": true, "Abs": true, "Exp": true, "Lsh": true, "Rsh": true,
	"DivMod": true, "QuoRem": true, "And": true, "Or": true, "Xor": true, "Not": true, "Sqrt": true, "SetBit": true, "SetInt": true,
	"SetFloat64": true, "SetPrec": true, "SetMode": true, "Clear": true, "SetOne": true}

type gwrite struct{ file, fn, what string }

func rootIdent(e ast.Expr) *ast.Ident {
	for {
		switch v := e.(type) {
		case *ast.Ident:
			return v
		case *ast.SelectorExpr:
			e = v.X
		case *ast.IndexExpr:
			e = v.X
		case *ast.StarExpr:
			e = v.X
		case *ast.ParenExpr:
			e = v.X
		default:
			return nil
		}
	}
}

// isPkgLevel: the identifier names a package-level variable of its package (declared in this or another file)
// and is not shadowed by a local declaration inside the function.
func isPkgLevel(id *ast.Ident, pkgVars map[string]bool, fd *ast.FuncDecl) bool {
	if id == nil || id.Name == "_" || !pkgVars[id.Name] {
		return false
	}
	if id.Obj == nil {
		return true // unresolved in this file: declared in another file of the package
	}
	if n, ok := id.Obj.Decl.(ast.Node); ok {
		return n.Pos() < fd.Pos() || n.Pos() > fd.End()
	}
	return false
}

func collectGlobalWrites(root string) []gwrite {
	fset := token.NewFileSet()
	var out []gwrite
	dirs := map[string]bool{}
	for f := range ledgerFiles {
		dirs[filepath.Dir(f)] = true
	}
	for d := range dirs {
		pkgs, err := parser.ParseDir(fset, filepath.Join(root, d), func(fi os.FileInfo) bool {
			return !strings.HasSuffix(fi.Name(), "_test.go") && !strings.Contains(fi.Name(), "verif")
		}, 0)
		if err != nil {
			continue
		}
		for _, pkg := range pkgs {
			pkgVars := map[string]bool{}
			for _, f := range pkg.Files {
				for _, dcl := range f.Decls {
					if gd, ok := dcl.(*ast.GenDecl); ok && gd.Tok == token.VAR {
						for _, sp := range gd.Specs {
							for _, n := range sp.(*ast.ValueSpec).Names {
								pkgVars[n.Name] = true
							}
						}
					}
				}
			}
			for fname, f := range pkg.Files {
				rel, _ := filepath.Rel(root, fname)
				rel = filepath.ToSlash(rel)
				if !ledgerFiles[rel] {
					continue
				}
				for _, dcl := range f.Decls {
					fd, ok := dcl.(*ast.FuncDecl)
					if !ok || fd.Body == nil {
						continue
					}
					fn := recvName(fd)
					ast.Inspect(fd.Body, func(n ast.Node) bool {
						switch v := n.(type) {
						case *ast.AssignStmt:
							if v.Tok == token.DEFINE {
								return true
							}
							for _, l := range v.Lhs {
								if id := rootIdent(l); isPkgLevel(id, pkgVars, fd) {
									out = append(out, gwrite{rel, fn, "assign " + id.Name})
								}
							}
						case *ast.IncDecStmt:
							if id := rootIdent(v.X); isPkgLevel(id, pkgVars, fd) {
								out = append(out, gwrite{rel, fn, "incdec " + id.Name})
							}
						case *ast.CallExpr:
							if sel, ok := v.Fun.(*ast.SelectorExpr); ok && bigMutators[sel.Sel.Name] {
								if id, ok := sel.X.(*ast.Ident); ok && isPkgLevel(id, pkgVars, fd) {
									out = append(out, gwrite{rel, fn, "mutate " + id.Name + "." + sel.Sel.Name})
								}
							}
						}
						return true
					})
				}
			}
		}
	}
	sort.Slice(out, func(i, j int) bool {
		a, b := out[i], out[j]
		if a.file != b.file {
			return a.file < b.file
		}
		if a.fn != b.fn {
			return a.fn < b.fn
		}
		return a.what < b.what
	})
	return out
}

func main() {
	root := "."
	if len(os.Args) > 1 {
		root = os.Args[1]
	}
	var sites []site
	order := map[string][]string{}
	flagReads = map[string][]string{}
	consts := map[string]string{}
	fset := token.NewFileSet()
	err := filepath.Walk(filepath.Join(root, "src"), func(p string, info os.FileInfo, err error) error {
		if err != nil {
			return err
		}
		if info.IsDir() {
			return nil
		}
		base := filepath.Base(p)
		if !strings.HasSuffix(base, ".go") || strings.HasSuffix(base, "_test.go") || strings.Contains(base, "verif") {
			return nil
		}
		rel, _ := filepath.Rel(root, p)
		rel = filepath.ToSlash(rel)
		f, perr := parser.ParseFile(fset, p, nil, parser.ParseComments)
		if perr != nil {
			return fmt.Errorf("%s: %v", rel, perr)
		}
		// skip files compiled only under the verif tag
		for _, cg := range f.Comments {
			for _, c := range cg.List {
				if strings.HasPrefix(c.Text, "//go:build") && strings.Contains(c.Text, "verif") && !strings.Contains(c.Text, "!verif") {
					return nil
				}
			}
		}
		collectConsts(rel, f, consts)
		for _, d := range f.Decls {
			fd, ok := d.(*ast.FuncDecl)
			if !ok || fd.Body == nil {
				continue
			}
			fn := recvName(fd)
			key := rel + ":" + fn
			unused := map[*ast.CallExpr]bool{}
			ast.Inspect(fd.Body, func(n ast.Node) bool {
				switch s := n.(type) {
				case *ast.ExprStmt:
					if c, ok := s.X.(*ast.CallExpr); ok {
						unused[c] = true
					}
				case *ast.AssignStmt:
					// `left, _ = adb.SubFT(...)` : result partly used; `_ , _ =` / `_ =` : unused
					all := true
					for _, l := range s.Lhs {
						if id, ok := l.(*ast.Ident); !ok || id.Name != "_" {
							all = false
						}
					}
					if all && len(s.Rhs) == 1 {
						if c, ok := s.Rhs[0].(*ast.CallExpr); ok {
							unused[c] = true
						}
					}
				}
				return true
			})
			ast.Inspect(fd.Body, func(n ast.Node) bool {
				c, ok := n.(*ast.CallExpr)
				if !ok {
					return true
				}
				name := calleeName(c)
				if prims[name] {
					// `Transfer` is also the name of unrelated methods; keep only ledger-shaped ones (>= 3 args)
					if name != "Transfer" || len(c.Args) >= 3 {
						sites = append(sites, site{rel, fn, name, !unused[c]})
					}
				}
				return true
			})
			if convFuncs[key] {
				type item struct {
					pos  token.Pos
					name string
				}
				var items []item
				ast.Inspect(fd.Body, func(n ast.Node) bool {
					if x, ok := n.(*ast.CallExpr); ok && convCalls[calleeName(x)] {
						items = append(items, item{x.Pos(), calleeName(x)})
					}
					return true
				})
				sort.SliceStable(items, func(i, j int) bool { return items[i].pos < items[j].pos })
				seq := []string{}
				for _, it := range items {
					seq = append(seq, it.name)
				}
				conversions[key] = seq
			}
			if orderFuncs[key] || convFuncs[key] {
				type item struct {
					pos  token.Pos
					name string
				}
				var items []item
				ast.Inspect(fd.Body, func(n ast.Node) bool {
					b, ok := n.(*ast.BinaryExpr)
					if !ok {
						return true
					}
					side := func(call, lit ast.Expr, flip bool) {
						c, ok := call.(*ast.CallExpr)
						if !ok {
							return
						}
						nm := calleeName(c)
						if nm != "Cmp" && nm != "Sign" && nm != "CmpAbs" {
							return
						}
						neg := ""
						if u, ok := lit.(*ast.UnaryExpr); ok && u.Op == token.SUB {
							neg = "-"
							lit = u.X
						}
						l, ok := lit.(*ast.BasicLit)
						if !ok {
							return
						}
						op := b.Op.String()
						if flip {
							op = map[string]string{"<": ">", ">": "<", "<=": ">=", ">=": "<=", "==": "==", "!=": "!="}[op]
						}
						items = append(items, item{b.Pos(), nm + op + neg + l.Value})
					}
					side(b.X, b.Y, false)
					side(b.Y, b.X, true)
					return true
				})
				sort.SliceStable(items, func(i, j int) bool { return items[i].pos < items[j].pos })
				seq := []string{}
				for _, it := range items {
					seq = append(seq, it.name)
				}
				compares[key] = seq
			}
			if orderFuncs[key] {
				// ledger-relevant calls and every `return`, in source order: an early return slipped in
				// between two ledger steps (or before a balance is zeroed) changes the sequence
				type item struct {
					pos  token.Pos
					name string
				}
				var items []item
				ast.Inspect(fd.Body, func(n ast.Node) bool {
					switch x := n.(type) {
					case *ast.CallExpr:
						if orderCalls[calleeName(x)] {
							items = append(items, item{x.Pos(), calleeName(x)})
						}
						if (calleeName(x) == "CanTransfer" || calleeName(x) == "Transfer") && strings.HasPrefix(key, "src/vm/evm.go:") && len(x.Args) >= 3 {
							var as []string
							for _, a := range x.Args[1:] {
								as = append(as, fullText(a))
							}
							guardArgs = append(guardArgs, [2]string{key + ":" + calleeName(x), strings.Join(as, " | ")})
						}
						if strings.HasPrefix(calleeName(x), "IsProposal") {
							flagReads[key] = append(flagReads[key], calleeName(x))
						}
					case *ast.ReturnStmt:
						items = append(items, item{x.Pos(), "return"})
					}
					return true
				})
				sort.SliceStable(items, func(i, j int) bool { return items[i].pos < items[j].pos })
				seq := []string{}
				for _, it := range items {
					seq = append(seq, it.name)
				}
				order[key] = seq
			}
		}
		return nil
	})
	if err != nil {
		fmt.Fprintln(os.Stderr, err)
		os.Exit(1)
	}
	sort.Slice(sites, func(i, j int) bool {
		a, b := sites[i], sites[j]
		if a.file != b.file {
			return a.file < b.file
		}
		if a.fn != b.fn {
			return a.fn < b.fn
		}
		return a.callee < b.callee
	})
	var sb strings.Builder
	sb.WriteString("/- GENERATED by gen/cmd/c06facts from the go-rangers working tree; do not edit. -/\n")
	sb.WriteString("namespace Rangers.Generated.LedgerFacts\n\n")
	sb.WriteString("/-- (file, enclosing function, primitive, result used) for every call of a ledger primitive in src/ -/\n")
	sb.WriteString("def sites : List (String × String × String × Bool) := [\n")
	for i, s := range sites {
		sep := ","
		if i == len(sites)-1 {
			sep = ""
		}
		fmt.Fprintf(&sb, "  (%s, %s, %s, %v)%s\n", q(s.file), q(s.fn), q(s.callee), s.used, sep)
	}
	sb.WriteString("]\n\n")
	sb.WriteString("/-- ordered ledger-relevant calls inside each function the model transcribes -/\n")
	sb.WriteString("def order : List (String × List String) := [\n")
	keys := make([]string, 0, len(orderFuncs))
	for k := range orderFuncs {
		keys = append(keys, k)
	}
	sort.Strings(keys)
	for i, k := range keys {
		sep := ","
		if i == len(keys)-1 {
			sep = ""
		}
		var qs []string
		for _, x := range order[k] {
			qs = append(qs, q(x))
		}
		missing := ""
		if _, ok := order[k]; !ok {
			missing = " -- FUNCTION NOT FOUND"
			qs = []string{q("<missing>")}
		}
		fmt.Fprintf(&sb, "  (%s, [%s])%s%s\n", q(k), strings.Join(qs, ", "), sep, missing)
	}
	sb.WriteString("]\n\n")
	ck := make([]string, 0, len(consts))
	for k := range consts {
		ck = append(ck, k)
	}
	sort.Strings(ck)
	sb.WriteString("/-- constants (name, source text of the value) -/\n")
	sb.WriteString("def consts : List (String × String) := [\n")
	for i, k := range ck {
		sep := ","
		if i == len(ck)-1 {
			sep = ""
		}
		fmt.Fprintf(&sb, "  (%s, %s)%s\n", q(k), q(consts[k]), sep)
	}
	sb.WriteString("]\n\n")
	sb.WriteString("/-- the flag inventory: the fork tests `IsProposalNNN()` inside each transcribed function, sorted -/\n")
	sb.WriteString("def flagReads : List (String × List String) := [\n")
	fk := make([]string, 0, len(flagReads))
	for k := range flagReads {
		fk = append(fk, k)
	}
	sort.Strings(fk)
	for i, k := range fk {
		sep := ","
		if i == len(fk)-1 {
			sep = ""
		}
		v := append([]string{}, flagReads[k]...)
		sort.Strings(v)
		var qs []string
		for _, x := range v {
			qs = append(qs, q(x))
		}
		fmt.Fprintf(&sb, "  (%s, [%s])%s\n", q(k), strings.Join(qs, ", "), sep)
	}
	sb.WriteString("]\n\n")
	sb.WriteString("/-- which account and amount expressions the EVM entry points pass to CanTransfer (the guard) and Transfer (the debit / credit) -/\n")
	sb.WriteString("def guardArgs : List (String × String) := [\n")
	sort.Slice(guardArgs, func(i, j int) bool { return guardArgs[i][0]+guardArgs[i][1] < guardArgs[j][0]+guardArgs[j][1] })
	for i, g := range guardArgs {
		sep := ","
		if i == len(guardArgs)-1 {
			sep = ""
		}
		fmt.Fprintf(&sb, "  (%s, %s)%s\n", q(g[0]), q(g[1]), sep)
	}
	sb.WriteString("]\n\n")
	emitMap := func(doc, name string, m map[string][]string) {
		sb.WriteString("/-- " + doc + " -/\n")
		sb.WriteString("def " + name + " : List (String × List String) := [\n")
		ks := []string{}
		for k := range m {
			ks = append(ks, k)
		}
		sort.Strings(ks)
		for i, k := range ks {
			sep := ","
			if i == len(ks)-1 {
				sep = ""
			}
			var qs []string
			for _, x := range m[k] {
				qs = append(qs, q(x))
			}
			fmt.Fprintf(&sb, "  (%s, [%s])%s\n", q(k), strings.Join(qs, ", "), sep)
		}
		sb.WriteString("]\n\n")
	}
	emitMap("the numeric conversions an amount passes through inside each function (callee names, source order)", "conversions", conversions)
	emitMap("every comparison of a Cmp / Sign result with a literal inside each transcribed function (source order)", "compares", compares)
	sb.WriteString("/-- writes to package-level state inside the files of the ledger path: assignments to, and in-place big.Int/Float\n    mutation of, package-level variables (file, function, what) -/\n")
	sb.WriteString("def globalWrites : List (String × String × String) := [\n")
	gw := collectGlobalWrites(root)
	for i, g := range gw {
		sep := ","
		if i == len(gw)-1 {
			sep = ""
		}
		fmt.Fprintf(&sb, "  (%s, %s, %s)%s\n", q(g.file), q(g.fn), q(g.what), sep)
	}
	sb.WriteString("]\n\nend Rangers.Generated.LedgerFacts\n")
	fmt.Print(sb.String())
}

var wantConst = map[string]map[string]bool{
	"src/common/constant_economy.go":      {"FeeAccount": true, "BLANCE_NAME": true},
	"src/common/constant.go":              {"GasMagnification": true},
	"src/service/transaction_pool.go":     {"delta": true, "delta026": true},
	"src/executor/contract_executor.go":   {"defaultGasLimit": true, "p017defaultGasLimit": true, "p026defaultGasLimit": true, "defaultGasPrice": true},
	"src/middleware/types/transaction.go": {"DefaultGasPrice": true},
	"src/vm/param.go":                     {"TxGas": true, "TxGasContractCreation": true, "TxDataNonZeroGasEIP2028": true, "TxDataZeroGas": true, "CallCreateDepth": true},
	"src/executor/miner_node_executor.go": {"ten": true},
}

// fullText renders an expression with its selectors (`caller.Address()`, `evm.StateDB`).
func fullText(e ast.Expr) string {
	switch v := e.(type) {
	case *ast.BasicLit:
		return v.Value
	case *ast.Ident:
		return v.Name
	case *ast.SelectorExpr:
		return fullText(v.X) + "." + v.Sel.Name
	case *ast.CallExpr:
		var as []string
		for _, a := range v.Args {
			as = append(as, fullText(a))
		}
		return fullText(v.Fun) + "(" + strings.Join(as, ",") + ")"
	case *ast.StarExpr:
		return "*" + fullText(v.X)
	case *ast.UnaryExpr:
		return v.Op.String() + fullText(v.X)
	case *ast.ParenExpr:
		return "(" + fullText(v.X) + ")"
	}
	return "?"
}

func exprText(e ast.Expr) string {
	switch v := e.(type) {
	case *ast.BasicLit:
		return v.Value
	case *ast.CallExpr:
		var as []string
		for _, a := range v.Args {
			as = append(as, exprText(a))
		}
		return calleeName(v) + "(" + strings.Join(as, ",") + ")"
	case *ast.Ident:
		return v.Name
	case *ast.BinaryExpr:
		return exprText(v.X) + v.Op.String() + exprText(v.Y)
	}
	return "?"
}

func collectConsts(rel string, f *ast.File, out map[string]string) {
	want := wantConst[rel]
	if want == nil {
		return
	}
	for _, d := range f.Decls {
		gd, ok := d.(*ast.GenDecl)
		if !ok {
			continue
		}
		for _, sp := range gd.Specs {
			vs, ok := sp.(*ast.ValueSpec)
			if !ok {
				continue
			}
			for i, n := range vs.Names {
				if !want[n.Name] {
					continue
				}
				val := "?"
				if i < len(vs.Values) {
					val = exprText(vs.Values[i])
				} else if len(vs.Values) == 1 {
					val = exprText(vs.Values[0])
				}
				out[rel+":"+n.Name] = val
			}
		}
	}
}
