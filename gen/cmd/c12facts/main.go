// c12facts: translator (T-gen) for property C12.
//
// Reads the go-rangers working tree (cwd = repo root, or repo=<dir>) with go/ast and
// prints lean/Rangers/Generated/C12Facts.lean on stdout:
//
//   - opFacts: for every entry of the live jump table (newInstructionSet + doProposal014 +
//     doProposal022 in src/vm/jump_table.go, eips.go): the execute function, the writes /
//     halts / reverts flags, whether the execute function's body tests interpreter.readOnly,
//     which state mutators it reaches through package-vm helpers, which frame entry points it calls;
//   - frameSeq: for Call, CallCode, DelegateCall, StaticCall, create, AuthCall of src/vm/evm.go the
//     source-order sequence of state accesses / run / RevertToSnapshot (with its guarding condition);
//   - readOnlyGuard: the write-protection test of EVMInterpreter.Run;
//   - prepareAssigns: the fields AccountDB.Prepare assigns;
//   - vmexecFacts: where VMExecutor.Execute calls Prepare / GetLogs and under which condition;
//     the order of nonce bump, Create/Call and context["logs"] in contractExecutor.Execute.
//
// Nothing is interpreted here; the Lean side compares these facts with what the model
// transcribes (Props/C12Facts theorems) and looks `writes` up in opFacts.
package main

import (
	"bytes"
	"fmt"
	"go/ast"
	"go/parser"
	"go/printer"
	"go/token"
	"os"
	"path/filepath"
	"sort"
	"strings"
)

var fset = token.NewFileSet()

type fn struct {
	name string // "opSstore", "EVM.Call"
	decl *ast.FuncDecl
}

func parseDir(dir string) map[string]*fn {
	pkgs, err := parser.ParseDir(fset, dir, func(fi os.FileInfo) bool {
		return !strings.HasSuffix(fi.Name(), "_test.go") && !strings.Contains(fi.Name(), "verif")
	}, parser.ParseComments)
	if err != nil {
		fail("parse " + dir + ": " + err.Error())
	}
	out := map[string]*fn{}
	for _, p := range pkgs {
		for _, f := range p.Files {
			for _, d := range f.Decls {
				fd, ok := d.(*ast.FuncDecl)
				if !ok || fd.Body == nil {
					continue
				}
				name := fd.Name.Name
				if fd.Recv != nil && len(fd.Recv.List) == 1 {
					name = recvName(fd.Recv.List[0].Type) + "." + name
				}
				out[name] = &fn{name, fd}
			}
		}
	}
	return out
}

func recvName(e ast.Expr) string {
	switch t := e.(type) {
	case *ast.StarExpr:
		return recvName(t.X)
	case *ast.Ident:
		return t.Name
	}
	return "?"
}

func fail(msg string) {
	fmt.Fprintln(os.Stderr, "c12facts: "+msg)
	os.Exit(1)
}

func src(n ast.Node) string {
	var b bytes.Buffer
	printer.Fprint(&b, fset, n)
	return strings.Join(strings.Fields(b.String()), " ")
}

// selector path as dotted text: interpreter.evm.StateDB.SetState
func selPath(e ast.Expr) string {
	switch t := e.(type) {
	case *ast.SelectorExpr:
		return selPath(t.X) + "." + t.Sel.Name
	case *ast.Ident:
		return t.Name
	case *ast.CallExpr:
		return selPath(t.Fun) + "()"
	case *ast.ParenExpr:
		return selPath(t.X)
	case *ast.StarExpr:
		return selPath(t.X)
	case *ast.TypeAssertExpr:
		return selPath(t.X)
	case *ast.IndexExpr:
		return selPath(t.X) + "[]"
	}
	return "?"
}

func last2(p string) string {
	parts := strings.Split(p, ".")
	if len(parts) >= 2 {
		return parts[len(parts)-2] + "." + parts[len(parts)-1]
	}
	return p
}

var stateMutators = map[string]bool{
	"CreateAccount": true, "SubBalance": true, "AddBalance": true, "SetBalance": true, "SetNonce": true,
	"IncreaseNonce": true, "SetCode": true, "SetState": true, "SetData": true, "RemoveData": true,
	"SetTransientState": true, "Suicide": true, "AddLog": true, "AddRefund": true, "SubRefund": true,
	"AddAddressToAccessList": true, "AddSlotToAccessList": true, "SetFT": true, "AddFT": true, "SubFT": true,
	"Transfer": true,
}
var frameEntries = map[string]bool{"Call": true, "CallCode": true, "DelegateCall": true, "StaticCall": true,
	"Create": true, "Create2": true, "AuthCall": true}

// service-layer calls that write the account database (judged by name; every call into
// MinerManagerImpl / RefundManagerImpl that is not a Get*/Is* query counts as a mutator)
func serviceMutator(path string) (string, bool) {
	for _, mgr := range []string{"MinerManagerImpl", "RefundManagerImpl"} {
		if i := strings.Index(path, mgr+"."); i >= 0 {
			m := path[i+len(mgr)+1:]
			if strings.HasPrefix(m, "GetMiner") || strings.HasPrefix(m, "Is") || m == "GetMiner" {
				return "", false
			}
			return mgr + "." + m, true
		}
	}
	return "", false
}

type effects struct {
	mut    map[string]bool
	frames map[string]bool
	ro     bool
}

func collect(fns map[string]*fn, body ast.Node, eff *effects, seen map[string]bool) {
	ast.Inspect(body, func(n ast.Node) bool {
		switch t := n.(type) {
		case *ast.SelectorExpr:
			if t.Sel.Name == "readOnly" {
				eff.ro = true
			}
		case *ast.CallExpr:
			switch f := t.Fun.(type) {
			case *ast.SelectorExpr:
				p := selPath(f)
				parts := strings.Split(p, ".")
				m := parts[len(parts)-1]
				if s, ok := serviceMutator(p); ok {
					eff.mut[s] = true
				} else if len(parts) >= 2 && (parts[len(parts)-2] == "StateDB" || parts[len(parts)-2] == "accountDB" || parts[len(parts)-2] == "accountdb") && stateMutators[m] {
					eff.mut[m] = true
				} else if len(parts) >= 2 && parts[len(parts)-2] == "evm" && frameEntries[m] {
					eff.frames[m] = true
				} else if len(parts) >= 2 && parts[len(parts)-2] == "evm" && m == "Transfer" {
					eff.mut["Transfer"] = true
				}
			case *ast.Ident:
				if g, ok := fns[f.Name]; ok && !seen[f.Name] {
					seen[f.Name] = true
					collect(fns, g.decl.Body, eff, seen)
				}
			}
		}
		return true
	})
}

type opEntry struct {
	name, exec                    string
	writes, halts, reverts, retns bool
	order                         int
}

func boolLit(e ast.Expr) bool {
	id, ok := e.(*ast.Ident)
	return ok && id.Name == "true"
}

func execName(e ast.Expr) string {
	switch t := e.(type) {
	case *ast.Ident:
		return t.Name
	case *ast.CallExpr:
		return selPath(t.Fun) // makeLog, makePush, …
	}
	return src(e)
}

func fillOp(op *opEntry, lit *ast.CompositeLit) {
	for _, el := range lit.Elts {
		kv, ok := el.(*ast.KeyValueExpr)
		if !ok {
			continue
		}
		k, _ := kv.Key.(*ast.Ident)
		if k == nil {
			continue
		}
		switch k.Name {
		case "execute":
			op.exec = execName(kv.Value)
		case "writes":
			op.writes = boolLit(kv.Value)
		case "halts":
			op.halts = boolLit(kv.Value)
		case "reverts":
			op.reverts = boolLit(kv.Value)
		case "returns":
			op.retns = boolLit(kv.Value)
		}
	}
}

// jump table entries from one table-building function, in source order
func tableEntries(f *fn, ops map[string]*opEntry, counter *int) {
	ast.Inspect(f.decl.Body, func(n ast.Node) bool {
		switch t := n.(type) {
		case *ast.CompositeLit:
			if id, ok := t.Type.(*ast.Ident); ok && id.Name == "JumpTable" {
				for _, el := range t.Elts {
					kv, ok := el.(*ast.KeyValueExpr)
					if !ok {
						continue
					}
					k, _ := kv.Key.(*ast.Ident)
					lit, _ := kv.Value.(*ast.CompositeLit)
					if k == nil || lit == nil {
						continue
					}
					op := &opEntry{name: k.Name, order: *counter}
					*counter++
					fillOp(op, lit)
					ops[k.Name] = op
				}
				return false
			}
		case *ast.AssignStmt:
			if len(t.Lhs) != 1 || len(t.Rhs) != 1 {
				return true
			}
			// X[OP] = &operation{…}
			if ix, ok := t.Lhs[0].(*ast.IndexExpr); ok {
				k, _ := ix.Index.(*ast.Ident)
				if u, ok := t.Rhs[0].(*ast.UnaryExpr); ok && k != nil {
					if lit, ok := u.X.(*ast.CompositeLit); ok {
						op := &opEntry{name: k.Name, order: *counter}
						*counter++
						fillOp(op, lit)
						ops[k.Name] = op
					}
				}
			}
			// X[OP].field = value
			if se, ok := t.Lhs[0].(*ast.SelectorExpr); ok {
				if ix, ok := se.X.(*ast.IndexExpr); ok {
					k, _ := ix.Index.(*ast.Ident)
					if k != nil && ops[k.Name] != nil {
						op := ops[k.Name]
						switch se.Sel.Name {
						case "execute":
							op.exec = execName(t.Rhs[0])
						case "writes":
							op.writes = boolLit(t.Rhs[0])
						case "halts":
							op.halts = boolLit(t.Rhs[0])
						case "reverts":
							op.reverts = boolLit(t.Rhs[0])
						}
					}
				}
			}
		}
		return true
	})
}

func enclosingConds(root ast.Node, target ast.Node) []string {
	// conditions of the if-statements whose *body* (not else) contains target, outermost first
	var out []string
	var walk func(n ast.Node) bool
	contains := func(n ast.Node) bool { return n.Pos() <= target.Pos() && target.End() <= n.End() }
	walk = func(n ast.Node) bool {
		if n == nil || !contains(n) {
			return false
		}
		if is, ok := n.(*ast.IfStmt); ok {
			if contains(is.Body) {
				out = append(out, src(is.Cond))
			} else if is.Else != nil && contains(is.Else) {
				out = append(out, "!("+src(is.Cond)+")")
			}
		}
		return true
	}
	ast.Inspect(root, walk)
	return out
}

var seqInteresting = map[string]bool{
	"Snapshot": true, "RevertToSnapshot": true, "Exist": true, "CreateAccount": true, "AddBalance": true,
	"SubBalance": true, "SetNonce": true, "GetNonce": true, "SetCode": true, "GetCode": true, "GetCodeHash": true,
	"AddAddressToAccessList": true, "CanTransfer": true, "Transfer": true,
	"RunPrecompiledContract": true, "run": true, "UseGas": true, "GetData": true,
}

func frameSequence(f *fn) []string {
	var out []string
	ast.Inspect(f.decl.Body, func(n ast.Node) bool {
		if is, ok := n.(*ast.IfStmt); ok && strings.Contains(src(is.Cond), "evm.depth") {
			out = append(out, "if("+src(is.Cond)+")")
			return true
		}
		ce, ok := n.(*ast.CallExpr)
		if !ok {
			return true
		}
		p := selPath(ce.Fun)
		parts := strings.Split(p, ".")
		m := parts[len(parts)-1]
		if !seqInteresting[m] {
			return true
		}
		item := m
		if m == "RevertToSnapshot" {
			item += "[" + strings.Join(enclosingConds(f.decl.Body, ce), " && ") + "]"
		}
		if m == "run" && len(ce.Args) == 4 {
			item += "(readOnly=" + src(ce.Args[3]) + ")"
		}
		if m == "AddBalance" || m == "SetNonce" {
			var as []string
			for _, a := range ce.Args {
				as = append(as, src(a))
			}
			item += "(" + strings.Join(as, ",") + ")"
			if c := enclosingConds(f.decl.Body, ce); len(c) > 0 {
				item += "[" + strings.Join(c, " && ") + "]"
			}
		}
		if m == "CanTransfer" {
			// the pre-check is the condition of an if statement: print that condition
			ast.Inspect(f.decl.Body, func(n2 ast.Node) bool {
				if is, ok := n2.(*ast.IfStmt); ok && is.Cond.Pos() <= ce.Pos() && ce.End() <= is.Cond.End() {
					item = "if(" + src(is.Cond) + ")"
				}
				return true
			})
		}
		out = append(out, item)
		return true
	})
	return out
}

func leanStr(s string) string {
	s = strings.ReplaceAll(s, "\\", "\\\\")
	s = strings.ReplaceAll(s, "\"", "\\\"")
	return "\"" + s + "\""
}

func leanList(xs []string) string {
	q := make([]string, len(xs))
	for i, x := range xs {
		q[i] = leanStr(x)
	}
	return "[" + strings.Join(q, ", ") + "]"
}

func leanBool(b bool) string {
	if b {
		return "true"
	}
	return "false"
}

func keys(m map[string]bool) []string {
	var ks []string
	for k := range m {
		ks = append(ks, k)
	}
	sort.Strings(ks)
	return ks
}

func main() {
	repo := "."
	for _, a := range os.Args[1:] {
		if strings.HasPrefix(a, "repo=") {
			repo = a[5:]
		}
	}
	vm := parseDir(filepath.Join(repo, "src", "vm"))
	acct := parseDir(filepath.Join(repo, "src", "storage", "account"))
	core := parseDir(filepath.Join(repo, "src", "core"))
	exe := parseDir(filepath.Join(repo, "src", "executor"))

	// ---- jump table
	ops := map[string]*opEntry{}
	cnt := 0
	for _, tf := range []string{"newInstructionSet", "doProposal014", "doProposal022"} {
		f := vm[tf]
		if f == nil {
			fail("table function " + tf + " not found")
		}
		tableEntries(f, ops, &cnt)
	}
	var opl []*opEntry
	for _, o := range ops {
		opl = append(opl, o)
	}
	sort.Slice(opl, func(i, j int) bool { return opl[i].name < opl[j].name })

	var b strings.Builder
	b.WriteString("/-\nGENERATED by gen/cmd/c12facts from the go-rangers working tree; do not edit.\n-/\nnamespace Rangers.Generated.C12\n\n")
	b.WriteString("structure OpFact where\n  name : String\n  exec : String\n  writes : Bool\n  halts : Bool\n  reverts : Bool\n  checksReadOnly : Bool\n  mutators : List String\n  frames : List String\n  deriving DecidableEq, Repr\n\n")
	b.WriteString("def opFacts : List OpFact := [\n")
	for i, o := range opl {
		eff := &effects{mut: map[string]bool{}, frames: map[string]bool{}}
		if g, ok := vm[o.exec]; ok {
			collect(vm, g.decl.Body, eff, map[string]bool{o.exec: true})
		} else if o.exec == "" {
			fail("no execute function for " + o.name)
		}
		sep := ","
		if i == len(opl)-1 {
			sep = ""
		}
		fmt.Fprintf(&b, "  { name := %s, exec := %s, writes := %s, halts := %s, reverts := %s, checksReadOnly := %s,\n    mutators := %s, frames := %s }%s\n",
			leanStr(o.name), leanStr(o.exec), leanBool(o.writes), leanBool(o.halts), leanBool(o.reverts), leanBool(eff.ro),
			leanList(keys(eff.mut)), leanList(keys(eff.frames)), sep)
	}
	b.WriteString("]\n\n")

	// ---- frame entry points
	b.WriteString("def frameSeq : List (String × List String) := [\n")
	fe := []string{"EVM.Call", "EVM.CallCode", "EVM.DelegateCall", "EVM.StaticCall", "EVM.create", "EVM.AuthCall"}
	for i, name := range fe {
		f := vm[name]
		if f == nil {
			fail("frame entry point " + name + " not found")
		}
		sep := ","
		if i == len(fe)-1 {
			sep = ""
		}
		fmt.Fprintf(&b, "  (%s, %s)%s\n", leanStr(strings.TrimPrefix(name, "EVM.")), leanList(frameSequence(f)), sep)
	}
	b.WriteString("]\n\n")

	// every return statement between Snapshot() and the revert block, and after the revert block:
	// a path that leaves an entry point after its snapshot without passing the revert block shows up here
	b.WriteString("def returnPaths : List (String × List String) := [\n")
	for i, name := range fe {
		f := vm[name]
		var snapPos, revPos, revEnd token.Pos
		ast.Inspect(f.decl.Body, func(n ast.Node) bool {
			switch t := n.(type) {
			case *ast.CallExpr:
				if strings.HasSuffix(selPath(t.Fun), ".Snapshot") && snapPos == 0 {
					snapPos = t.Pos()
				}
			case *ast.IfStmt:
				has := false
				ast.Inspect(t.Body, func(m ast.Node) bool {
					if ce, ok := m.(*ast.CallExpr); ok && strings.HasSuffix(selPath(ce.Fun), ".RevertToSnapshot") {
						has = true
					}
					return true
				})
				if has && revPos == 0 {
					revPos, revEnd = t.Pos(), t.End()
				}
			}
			return true
		})
		if snapPos == 0 || revPos == 0 {
			fail("no Snapshot()/revert block in " + name)
		}
		var items []string
		ast.Inspect(f.decl.Body, func(n ast.Node) bool {
			r, ok := n.(*ast.ReturnStmt)
			if !ok || r.Pos() < snapPos {
				return true
			}
			where := "after-revert-block"
			if r.Pos() < revPos {
				where = "before-revert-block"
			} else if r.Pos() < revEnd {
				where = "inside-revert-block"
			}
			items = append(items, where+": "+src(r)+" ["+strings.Join(enclosingConds(f.decl.Body, r), " && ")+"]")
			return true
		})
		sep := ","
		if i == len(fe)-1 {
			sep = ""
		}
		fmt.Fprintf(&b, "  (%s, %s)%s\n", leanStr(strings.TrimPrefix(name, "EVM.")), leanList(items), sep)
	}
	b.WriteString("]\n\n")

	// create's revert condition separately (also inside frameSeq)
	createCond := ""
	ast.Inspect(vm["EVM.create"].decl.Body, func(n ast.Node) bool {
		if ce, ok := n.(*ast.CallExpr); ok && strings.HasSuffix(selPath(ce.Fun), ".RevertToSnapshot") {
			createCond = strings.Join(enclosingConds(vm["EVM.create"].decl.Body, ce), " && ")
		}
		return true
	})
	fmt.Fprintf(&b, "def createRevertCond : String := %s\n\n", leanStr(createCond))
	// the size test of create (boundary: a return of exactly MaxCodeSize bytes is allowed)
	sizeTest := ""
	ast.Inspect(vm["EVM.create"].decl.Body, func(n ast.Node) bool {
		if as, ok := n.(*ast.AssignStmt); ok && len(as.Lhs) == 1 && src(as.Lhs[0]) == "maxCodeSizeExceeded" {
			sizeTest = src(as)
		}
		return true
	})
	fmt.Fprintf(&b, "def createSizeTest : String := %s\n\n", leanStr(sizeTest))

	// ---- read-only guard of Run
	guard := ""
	if f := vm["EVMInterpreter.Run"]; f != nil {
		ast.Inspect(f.decl.Body, func(n ast.Node) bool {
			is, ok := n.(*ast.IfStmt)
			if !ok || src(is.Cond) != "in.readOnly" {
				return true
			}
			for _, st := range is.Body.List {
				if inner, ok := st.(*ast.IfStmt); ok {
					ret := ""
					for _, s2 := range inner.Body.List {
						if r, ok := s2.(*ast.ReturnStmt); ok && len(r.Results) > 0 {
							ret = src(r.Results[len(r.Results)-1])
						}
					}
					guard = "in.readOnly && (" + src(inner.Cond) + ") -> " + ret
				}
			}
			return false
		})
	} else {
		fail("EVMInterpreter.Run not found")
	}
	fmt.Fprintf(&b, "def readOnlyGuard : String := %s\n\n", leanStr(guard))

	// how Run sets the sticky read-only flag
	sticky := ""
	ast.Inspect(vm["EVMInterpreter.Run"].decl.Body, func(n ast.Node) bool {
		is, ok := n.(*ast.IfStmt)
		if !ok || sticky != "" {
			return true
		}
		assigns := false
		var stmts []string
		for _, st := range is.Body.List {
			if as, ok := st.(*ast.AssignStmt); ok && len(as.Lhs) == 1 && src(as.Lhs[0]) == "in.readOnly" {
				assigns = true
			}
			stmts = append(stmts, src(st))
		}
		if assigns {
			sticky = "if " + src(is.Cond) + " { " + strings.Join(stmts, "; ") + " }"
		}
		return true
	})
	fmt.Fprintf(&b, "def readOnlySticky : String := %s\n\n", leanStr(sticky))

	// ---- AccountDB.Prepare
	var assigns []string
	if f := acct["AccountDB.Prepare"]; f != nil {
		for _, st := range f.decl.Body.List {
			if as, ok := st.(*ast.AssignStmt); ok {
				for _, l := range as.Lhs {
					p := strings.Split(selPath(l), ".")
					assigns = append(assigns, p[len(p)-1])
				}
			} else {
				assigns = append(assigns, "stmt:"+src(st))
			}
		}
	} else {
		fail("AccountDB.Prepare not found")
	}
	sort.Strings(assigns) // the order of the assignments is immaterial
	fmt.Fprintf(&b, "def prepareAssigns : List String := %s\n\n", leanList(assigns))

	// ---- VMExecutor.Execute and contractExecutor.Execute
	var vf []string
	if f := core["VMExecutor.Execute"]; f != nil {
		ast.Inspect(f.decl.Body, func(n ast.Node) bool {
			switch t := n.(type) {
			case *ast.CallExpr:
				p := selPath(t.Fun)
				for _, want := range []string{"accountdb.Prepare", "accountdb.Snapshot", "txExecutor.Execute", "accountdb.RevertToSnapshot", "accountdb.GetLogs"} {
					if strings.HasSuffix(p, want) {
						var as []string
						for _, a := range t.Args {
							as = append(as, src(a))
						}
						item := want
						if want == "accountdb.Prepare" || want == "accountdb.GetLogs" {
							item += "(" + strings.Join(as, ",") + ")"
						}
						if want != "accountdb.Snapshot" && want != "txExecutor.Execute" {
							conds := enclosingConds(f.decl.Body, t)
							item += "[" + conds[len(conds)-1] + "]"
						}
						vf = append(vf, item)
					}
				}
			case *ast.AssignStmt:
				if len(t.Lhs) == 1 && src(t.Lhs[0]) == "receipt.Logs" {
					vf = append(vf, "receipt.Logs="+src(t.Rhs[0]))
				}
			}
			return true
		})
	} else {
		fail("VMExecutor.Execute not found")
	}
	if f := exe["contractExecutor.Execute"]; f != nil {
		ast.Inspect(f.decl.Body, func(n ast.Node) bool {
			switch t := n.(type) {
			case *ast.CallExpr:
				p := selPath(t.Fun)
				for _, want := range []string{"accountdb.SetNonce", "vmInstance.Create", "vmInstance.Call"} {
					if p == want {
						item := "exec:" + want
						if want == "accountdb.SetNonce" {
							conds := enclosingConds(f.decl.Body, t)
							item += "[" + strings.Join(conds, " && ") + "]"
						}
						vf = append(vf, item)
					}
				}
			case *ast.AssignStmt:
				if len(t.Lhs) == 1 && src(t.Lhs[0]) == "context[\"logs\"]" {
					vf = append(vf, "exec:context[logs]="+src(t.Rhs[0]))
				}
			}
			return true
		})
	} else {
		fail("contractExecutor.Execute not found")
	}
	fmt.Fprintf(&b, "def vmexecFacts : List String := %s\n\n", leanList(vf))

	// ---- the journal undo of AddLog (the block-wide log counter must go back with every rolled-back log)
	undoLog := ""
	if f := acct["addLogChange.undo"]; f != nil {
		var st []string
		for _, x := range f.decl.Body.List {
			st = append(st, src(x))
		}
		undoLog = strings.Join(st, " ; ")
	} else {
		fail("addLogChange.undo not found")
	}
	fmt.Fprintf(&b, "def addLogUndo : String := %s\n\n", leanStr(undoLog))

	// ---- fork-flag reads on the C12 path: which function consults which proposal flag
	flagSet := map[string]bool{}
	scanFlags := func(pkg string, fns map[string]*fn, only string) {
		for name, f := range fns {
			if only != "" && !strings.HasPrefix(name, only) {
				continue
			}
			ast.Inspect(f.decl.Body, func(n ast.Node) bool {
				se, ok := n.(*ast.SelectorExpr)
				if !ok {
					return true
				}
				if strings.HasPrefix(se.Sel.Name, "IsProposal") || (strings.HasPrefix(se.Sel.Name, "Proposal") && strings.HasSuffix(se.Sel.Name, "Block")) {
					flagSet[pkg+"."+name+":"+se.Sel.Name] = true
				}
				return true
			})
		}
	}
	scanFlags("vm", vm, "")
	scanFlags("account", acct, "")
	scanFlags("core", core, "VMExecutor.Execute")
	scanFlags("executor", exe, "contractExecutor.")
	fmt.Fprintf(&b, "def flagReads : List String := %s\n\n", leanList(keys(flagSet)))

	// ---- writes to package-level variables from function bodies (shared mutable state on the path)
	globalWrites := map[string]bool{}
	scanGlobals := func(pkg, dir string, fns map[string]*fn) {
		vars := map[string]bool{}
		pk, _ := parser.ParseDir(fset, dir, func(fi os.FileInfo) bool {
			return !strings.HasSuffix(fi.Name(), "_test.go") && !strings.Contains(fi.Name(), "verif")
		}, 0)
		for _, p := range pk {
			for _, f := range p.Files {
				for _, d := range f.Decls {
					if gd, ok := d.(*ast.GenDecl); ok && gd.Tok == token.VAR {
						for _, sp := range gd.Specs {
							for _, nm := range sp.(*ast.ValueSpec).Names {
								vars[nm.Name] = true
							}
						}
					}
				}
			}
		}
		root := func(e ast.Expr) string {
			for {
				switch t := e.(type) {
				case *ast.SelectorExpr:
					e = t.X
				case *ast.IndexExpr:
					e = t.X
				case *ast.StarExpr:
					e = t.X
				case *ast.ParenExpr:
					e = t.X
				case *ast.Ident:
					return t.Name
				default:
					return ""
				}
			}
		}
		for name, f := range fns {
			locals := map[string]bool{}
			if f.decl.Type.Params != nil {
				for _, fl := range f.decl.Type.Params.List {
					for _, nm := range fl.Names {
						locals[nm.Name] = true
					}
				}
			}
			if f.decl.Recv != nil {
				for _, fl := range f.decl.Recv.List {
					for _, nm := range fl.Names {
						locals[nm.Name] = true
					}
				}
			}
			ast.Inspect(f.decl.Body, func(n ast.Node) bool {
				switch t := n.(type) {
				case *ast.AssignStmt:
					if t.Tok == token.DEFINE {
						for _, l := range t.Lhs {
							if id, ok := l.(*ast.Ident); ok {
								locals[id.Name] = true
							}
						}
						return true
					}
					for _, l := range t.Lhs {
						if r := root(l); r != "" && vars[r] && !locals[r] {
							globalWrites[pkg+"."+name+":"+r] = true
						}
					}
				case *ast.IncDecStmt:
					if r := root(t.X); r != "" && vars[r] && !locals[r] {
						globalWrites[pkg+"."+name+":"+r] = true
					}
				case *ast.DeclStmt:
					if gd, ok := t.Decl.(*ast.GenDecl); ok {
						for _, sp := range gd.Specs {
							if vs, ok := sp.(*ast.ValueSpec); ok {
								for _, nm := range vs.Names {
									locals[nm.Name] = true
								}
							}
						}
					}
				}
				return true
			})
		}
	}
	scanGlobals("vm", filepath.Join(repo, "src", "vm"), vm)
	scanGlobals("account", filepath.Join(repo, "src", "storage", "account"), acct)
	fmt.Fprintf(&b, "def globalWrites : List String := %s\n\n", leanList(keys(globalWrites)))

	// ---- constants of package vm the model relies on
	consts := map[string]string{}
	pkgs, _ := parser.ParseDir(fset, filepath.Join(repo, "src", "vm"), func(fi os.FileInfo) bool {
		return !strings.HasSuffix(fi.Name(), "_test.go")
	}, 0)
	for _, pk := range pkgs {
		for _, f := range pk.Files {
			for _, d := range f.Decls {
				gd, ok := d.(*ast.GenDecl)
				if !ok {
					continue
				}
				for _, sp := range gd.Specs {
					vs, ok := sp.(*ast.ValueSpec)
					if !ok {
						continue
					}
					for i, nm := range vs.Names {
						if i < len(vs.Values) && (nm.Name == "MaxCodeSize" || nm.Name == "CallCreateDepth" || nm.Name == "CreateDataGas") {
							consts[nm.Name] = src(vs.Values[i])
						}
					}
				}
			}
		}
	}
	var cl []string
	for _, k := range []string{"CallCreateDepth", "CreateDataGas", "MaxCodeSize"} {
		v, ok := consts[k]
		if !ok {
			fail("constant " + k + " not found")
		}
		cl = append(cl, k+"="+v)
	}
	fmt.Fprintf(&b, "def vmConstants : List String := %s\n\n", leanList(cl))
	b.WriteString("end Rangers.Generated.C12\n")
	fmt.Print(b.String())
}
