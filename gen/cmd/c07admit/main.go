// c07admit: T-gen translator for the admission paths of property C07.
// Scans every non-test, non-verif-tagged Go file under <repo>/src (go/ast) for
//   - calls of `.received.push(`           (the only physical insertion into the pool),
//   - calls of `.add(` on a TxPool          (callers of the insertion),
//   - calls of `.AddTransaction(`           (the public admission entry),
//   - calls of functions that forward to AddTransaction without checking (found by fixpoint),
// and records for each call site whether it is dominated, in its own function, by a
// successful `VerifyTransaction`:  "if-ok"  = inside `if err := …VerifyTransaction(…); nil == err {`
//                                  "early-return" = after `if err := …VerifyTransaction(…); err != nil { …; return }`
//                                  "none".
// Props/C07Facts.lean pins the list and proves from it that every path into the pool is verified.
package main

import (
	"fmt"
	"go/ast"
	"go/parser"
	"go/token"
	"os"
	"path/filepath"
	"sort"
	"strings"
)

type site struct {
	file, fn, callee, guard string
}

func render(e ast.Expr) string {
	switch x := e.(type) {
	case *ast.Ident:
		return x.Name
	case *ast.SelectorExpr:
		return render(x.X) + "." + x.Sel.Name
	case *ast.CallExpr:
		return render(x.Fun) + "()"
	case *ast.StarExpr:
		return render(x.X)
	case *ast.ParenExpr:
		return render(x.X)
	case *ast.TypeAssertExpr:
		return render(x.X)
	}
	return "_"
}

func containsVerify(n ast.Node) bool {
	found := false
	ast.Inspect(n, func(m ast.Node) bool {
		if c, ok := m.(*ast.CallExpr); ok {
			if s, ok := c.Fun.(*ast.SelectorExpr); ok && s.Sel.Name == "VerifyTransaction" {
				found = true
			}
		}
		return true
	})
	return found
}

func isErrCmp(e ast.Expr, op token.Token) bool {
	b, ok := e.(*ast.BinaryExpr)
	if !ok || b.Op != op {
		return false
	}
	l, r := render(b.X), render(b.Y)
	return (l == "err" && r == "nil") || (l == "nil" && r == "err")
}

func endsWithReturn(b *ast.BlockStmt) bool {
	if b == nil || len(b.List) == 0 {
		return false
	}
	_, ok := b.List[len(b.List)-1].(*ast.ReturnStmt)
	return ok
}

type walker struct {
	file, fn string
	track    map[string]bool // callee selector names we record
	out      *[]site
}

// calls in a leaf node
func (w *walker) leaf(n ast.Node, guard string) {
	if n == nil {
		return
	}
	ast.Inspect(n, func(m ast.Node) bool {
		c, ok := m.(*ast.CallExpr)
		if !ok {
			return true
		}
		name := ""
		switch f := c.Fun.(type) {
		case *ast.SelectorExpr:
			name = f.Sel.Name
			if name == "push" && !strings.HasSuffix(render(f.X), "received") {
				return true
			}
			if name == "add" && render(f.X) != "pool" {
				return true
			}
		case *ast.Ident:
			name = f.Name
			if name == "push" || name == "add" || name == "AddTransaction" {
				return true // only method calls on the pool count for these names
			}
		}
		if w.track[name] {
			*w.out = append(*w.out, site{w.file, w.fn, name, guard})
		}
		return true
	})
}

func (w *walker) block(list []ast.Stmt, guard string) {
	for _, st := range list {
		guard = w.stmt(st, guard)
	}
}

// stmt walks one statement and returns the guard in force for the following siblings.
func (w *walker) stmt(st ast.Stmt, guard string) string {
	switch x := st.(type) {
	case *ast.BlockStmt:
		w.block(x.List, guard)
	case *ast.IfStmt:
		verify := x.Init != nil && containsVerify(x.Init)
		w.leaf(x.Init, guard)
		w.leaf(x.Cond, guard)
		switch {
		case verify && isErrCmp(x.Cond, token.EQL):
			w.block(x.Body.List, "if-ok")
			if x.Else != nil {
				w.stmt(x.Else, guard)
			}
		case verify && isErrCmp(x.Cond, token.NEQ) && endsWithReturn(x.Body):
			w.block(x.Body.List, guard)
			if x.Else != nil {
				w.stmt(x.Else, "early-return")
			}
			return "early-return"
		default:
			w.block(x.Body.List, guard)
			if x.Else != nil {
				w.stmt(x.Else, guard)
			}
		}
	case *ast.ForStmt:
		w.leaf(x.Init, guard)
		w.leaf(x.Cond, guard)
		w.leaf(x.Post, guard)
		w.block(x.Body.List, guard)
	case *ast.RangeStmt:
		w.leaf(x.X, guard)
		w.block(x.Body.List, guard)
	case *ast.SwitchStmt:
		w.leaf(x.Init, guard)
		w.leaf(x.Tag, guard)
		w.block(x.Body.List, guard)
	case *ast.TypeSwitchStmt:
		w.leaf(x.Init, guard)
		w.leaf(x.Assign, guard)
		w.block(x.Body.List, guard)
	case *ast.SelectStmt:
		w.block(x.Body.List, guard)
	case *ast.CaseClause:
		for _, e := range x.List {
			w.leaf(e, guard)
		}
		w.block(x.Body, guard)
	case *ast.CommClause:
		w.leaf(x.Comm, guard)
		w.block(x.Body, guard)
	case *ast.LabeledStmt:
		return w.stmt(x.Stmt, guard)
	default:
		w.leaf(st, guard)
	}
	return guard
}

func recvName(fd *ast.FuncDecl) string {
	if fd.Recv == nil || len(fd.Recv.List) == 0 {
		return fd.Name.Name
	}
	t := fd.Recv.List[0].Type
	if s, ok := t.(*ast.StarExpr); ok {
		t = s.X
	}
	return render(t) + "." + fd.Name.Name
}

func main() {
	repo := "."
	for _, a := range os.Args[1:] {
		if strings.HasPrefix(a, "repo=") {
			repo = a[5:]
		}
	}
	var files []string
	filepath.Walk(filepath.Join(repo, "src"), func(p string, info os.FileInfo, err error) error {
		if err != nil || info.IsDir() || !strings.HasSuffix(p, ".go") || strings.HasSuffix(p, "_test.go") {
			return nil
		}
		b, err := os.ReadFile(p)
		if err != nil {
			return nil
		}
		head := string(b)
		if len(head) > 400 {
			head = head[:400]
		}
		if strings.Contains(head, "go:build verif") || strings.Contains(head, "+build verif") {
			return nil // instrumentation hooks of the verification framework, not node code
		}
		files = append(files, p)
		return nil
	})
	sort.Strings(files)
	fs := token.NewFileSet()
	parsed := map[string]*ast.File{}
	for _, p := range files {
		f, err := parser.ParseFile(fs, p, nil, 0)
		if err != nil {
			fmt.Fprintln(os.Stderr, "c07admit: parse", p, err)
			os.Exit(1)
		}
		parsed[p] = f
	}
	track := map[string]bool{"push": true, "add": true, "AddTransaction": true}
	var sites []site
	for round := 0; round < 6; round++ {
		sites = nil
		for _, p := range files {
			rel, _ := filepath.Rel(repo, p)
			for _, d := range parsed[p].Decls {
				fd, ok := d.(*ast.FuncDecl)
				if !ok || fd.Body == nil {
					continue
				}
				w := &walker{file: rel, fn: recvName(fd), track: track, out: &sites}
				w.block(fd.Body.List, "none")
			}
		}
		// forwarders: functions outside the pool that reach AddTransaction (or another forwarder) unguarded
		grew := false
		for _, s := range sites {
			if s.guard == "none" && (s.callee == "AddTransaction" || (s.callee != "push" && s.callee != "add")) {
				name := s.fn
				if i := strings.LastIndexByte(name, '.'); i >= 0 {
					name = name[i+1:]
				}
				if !track[name] && !strings.HasPrefix(s.file, "src/service/transaction_pool.go") {
					track[name] = true
					grew = true
				}
			}
		}
		if !grew {
			break
		}
	}
	var rows []string
	for _, s := range sites {
		rows = append(rows, s.file+" "+s.fn+" "+s.callee+" "+s.guard)
	}
	sort.Strings(rows)
	fmt.Println("/- GENERATED by gen/cmd/c07admit from every non-test Go file under src/; do not edit. -/")
	fmt.Println("namespace Rangers.Generated.C07")
	fmt.Println()
	fmt.Println("/-- every call site that can put a transaction into the pool: file, function, its bare name, callee,")
	fmt.Println("    and how a successful `VerifyTransaction` dominates it in that function -/")
	fmt.Println("def admissionSites : List (String × String × String × String × String) := [")
	for i, s := range sites {
		_ = s
		_ = i
	}
	sort.Slice(sites, func(i, j int) bool {
		a, b := sites[i], sites[j]
		return a.file+" "+a.fn+" "+a.callee+" "+a.guard < b.file+" "+b.fn+" "+b.callee+" "+b.guard
	})
	for i, s := range sites {
		sep := ","
		if i+1 == len(sites) {
			sep = ""
		}
		base := s.fn
		if k := strings.LastIndexByte(base, '.'); k >= 0 {
			base = base[k+1:]
		}
		fmt.Printf("  (%q, %q, %q, %q, %q)%s\n", s.file, s.fn, base, s.callee, s.guard, sep)
	}
	fmt.Println("]")
	// admission functions outside the pool: does any of them verify or insert inside a goroutine /
	// function literal (where a captured loop variable or a lost ordering could detach the verdict
	// from the element it belongs to)?
	fmt.Println("\n/-- (file, function, what) for every `go` statement or function literal inside an admission")
	fmt.Println("    function that contains a VerifyTransaction / AddTransaction / forwarder call -/")
	fmt.Println("def admissionGoroutines : List (String × String × String) := [")
	var gos []string
	adm := map[string]bool{}
	for _, s := range sites {
		if !strings.HasPrefix(s.file, "src/service/transaction_pool.go") {
			adm[s.file+" "+s.fn] = true
		}
	}
	for _, p := range files {
		rel, _ := filepath.Rel(repo, p)
		for _, d := range parsed[p].Decls {
			fd, ok := d.(*ast.FuncDecl)
			if !ok || fd.Body == nil || !adm[rel+" "+recvName(fd)] {
				continue
			}
			ast.Inspect(fd.Body, func(n ast.Node) bool {
				var inner ast.Node
				what := ""
				switch x := n.(type) {
				case *ast.GoStmt:
					inner, what = x.Call, "go"
				case *ast.FuncLit:
					inner, what = x.Body, "func-literal"
				}
				if inner == nil {
					return true
				}
				hit := false
				ast.Inspect(inner, func(m ast.Node) bool {
					if c, ok := m.(*ast.CallExpr); ok {
						nm := ""
						switch f := c.Fun.(type) {
						case *ast.SelectorExpr:
							nm = f.Sel.Name
						case *ast.Ident:
							nm = f.Name
						}
						if nm == "VerifyTransaction" || (track[nm] && nm != "push" && nm != "add") {
							hit = true
						}
					}
					return true
				})
				if hit {
					gos = append(gos, fmt.Sprintf("  (%q, %q, %q)", rel, recvName(fd), what))
				}
				return true
			})
		}
	}
	fmt.Println(strings.Join(gos, ",\n"))
	fmt.Println("]")
	// package-level state around the admission handlers: every package-level variable of the files
	// that contain an admission function, and every use of an own-package-level variable inside an
	// admission function (assignment, or a method call on it — a cache, a set, a counter)
	admFiles := map[string]bool{}
	for k := range adm {
		admFiles[strings.SplitN(k, " ", 2)[0]] = true
	}
	var admFileList []string
	for f := range admFiles {
		admFileList = append(admFileList, f)
	}
	sort.Strings(admFileList)
	fmt.Println("\n/-- package-level variables declared in the files of the admission functions -/")
	fmt.Println("def admissionFileVars : List (String × String) := [")
	var fv []string
	pkgVarsOfDir := map[string]map[string]bool{}
	for _, p := range files {
		rel, _ := filepath.Rel(repo, p)
		dir := filepath.Dir(rel)
		if pkgVarsOfDir[dir] == nil {
			pkgVarsOfDir[dir] = map[string]bool{}
		}
		for _, d := range parsed[p].Decls {
			gd, ok := d.(*ast.GenDecl)
			if !ok || gd.Tok != token.VAR {
				continue
			}
			for _, sp := range gd.Specs {
				for _, n := range sp.(*ast.ValueSpec).Names {
					if n.Name == "_" {
						continue
					}
					pkgVarsOfDir[dir][n.Name] = true
					if admFiles[rel] {
						fv = append(fv, fmt.Sprintf("  (%q, %q)", rel, n.Name))
					}
				}
			}
		}
	}
	sort.Strings(fv)
	fmt.Println(strings.Join(fv, ",\n"))
	fmt.Println("]")
	fmt.Println("\n/-- (file, admission function, use) for every assignment to, or method call on, a package-level")
	fmt.Println("    variable of the function's own package inside an admission function -/")
	fmt.Println("def admissionStateUses : List (String × String × String) := [")
	var su []string
	for _, p := range files {
		rel, _ := filepath.Rel(repo, p)
		vars := pkgVarsOfDir[filepath.Dir(rel)]
		for _, d := range parsed[p].Decls {
			fd, ok := d.(*ast.FuncDecl)
			if !ok || fd.Body == nil || !adm[rel+" "+recvName(fd)] {
				continue
			}
			seenUse := map[string]bool{}
			rootOf := func(e ast.Expr) string {
				for {
					switch x := e.(type) {
					case *ast.SelectorExpr:
						e = x.X
					case *ast.IndexExpr:
						e = x.X
					case *ast.StarExpr:
						e = x.X
					case *ast.ParenExpr:
						e = x.X
					case *ast.Ident:
						return x.Name
					default:
						return ""
					}
				}
			}
			ast.Inspect(fd.Body, func(n ast.Node) bool {
				switch x := n.(type) {
				case *ast.AssignStmt:
					if x.Tok != token.DEFINE {
						for _, l := range x.Lhs {
							if r := rootOf(l); vars[r] {
								seenUse["assign "+render(l)] = true
							}
						}
					}
				case *ast.IncDecStmt:
					if r := rootOf(x.X); vars[r] {
						seenUse["incdec "+render(x.X)] = true
					}
				case *ast.CallExpr:
					if se, ok := x.Fun.(*ast.SelectorExpr); ok {
						if id, ok := se.X.(*ast.Ident); ok && vars[id.Name] && !(id.Obj != nil && id.Obj.Pos() >= fd.Pos() && id.Obj.Pos() <= fd.End()) {
							seenUse["call "+id.Name+"."+se.Sel.Name] = true
						}
					}
				}
				return true
			})
			var us []string
			for u := range seenUse {
				us = append(us, u)
			}
			sort.Strings(us)
			for _, u := range us {
				su = append(su, fmt.Sprintf("  (%q, %q, %q)", rel, recvName(fd), u))
			}
		}
	}
	fmt.Println(strings.Join(su, ",\n"))
	fmt.Println("]")
	fmt.Printf("\n/-- number of Go files scanned -/\ndef admissionFilesScanned : Nat := %d\n", len(files))
	fmt.Println("\nend Rangers.Generated.C07")
	_ = rows
}
