#!/usr/bin/env python3
"""Maintainer tool (NOT run by bin/check): rewrite lean/Rangers/Props/C01Sites.lean from the current
lean/Rangers/Generated/NondetSites.lean and the classification table below.  Run it after a reviewed,
intended change of the inventory; a site that matches no rule is reported and left out, so
`sites_accounted` keeps failing until somebody classifies it."""
import os, re, sys
root = os.path.join(os.path.dirname(os.path.abspath(__file__)), '..', '..', '..', 'lean', 'Rangers')
src = open(os.path.join(root, 'Generated', 'NondetSites.lean')).read()
sites = re.findall(r'⟨(\d+), "([^"]*)", "([^"]*)", "([^"]*)", "([^"]*)"⟩', src)

# (kind, func[, detail-prefix]) -> (list, note)
M, I, O = 'modelled', 'provedIrrelevant', 'outOfPath'
FM, FF, FO = 'flagsModelled', 'flagsHeldFixed', 'flagsInUninterpreted'
PS = 'processLocalAccounted'
PF = 'pinnedFacts'
rules = [
 (('maprange', 'ChangeAssets'), M, 'keys collected, then sort.Strings (fix:) — changeAssets_order_irrelevant'),
 (('maprange', 'RefundManager.Add'), M, 'refund_add_order_irrelevant'),
 (('maprange', 'RefundManager.CheckAndMove'), M, 'checkAndMove_order_irrelevant'),
 (('maprange', 'RewardCalculator.CalculateReward'), M, 'reward_order_irrelevant (ρ.total)'),
 (('maprange', 'RewardCalculator.calculateRewardPerBlock'), M, 'reward_map_order_irrelevant'),
 (('maprange', 'AccountDB.Finalise'), M, 'finalise_order_irrelevant / root_deterministic'),
 (('maprange', 'accountObject.updateTrie'), I, 'one trie write per distinct storage key: same shape as Finalise (finalise_order_irrelevant)'),
 (('maprange', 'accountObject.getAllRefund'), I, 'assignment into a fresh map keyed by BytesToAddress(key); keys distinct for 20-byte ids; its result is ranged by CheckAndMove (modelled)'),
 (('syncrange', 'AccountDB.Commit'), I, 'per-address trie write after execution, same shape as Finalise'),
 (('maprange', 'Storage.Copy'), I, 'copy into a fresh map (pointwise)'),
 (('maprange', 'accessList.Copy'), I, 'copy into a fresh map (pointwise)'),
 (('maprange', 'transientStorage.Copy'), I, 'copy into a fresh map (pointwise)'),
 (('maprange', 'AccountDB.SetStorage'), I, 'SetData per distinct key (pointwise)'),
 (('clock', 'VMExecutor.Execute', 'utility.GetTime guard=casting'), I, 'reading used only under situation == "casting" (excluded by hypothesis)'),
 (('clock', 'VMExecutor.Execute', 'utility.GetTime guard=none in=log'), I, 'argument of the perf log line only'),
 (('float', 'RewardCalculator.calculateRewardPerBlock'), I, 'bit-exact model Model/RewardFloat.lean (mul, div, uint64→float64, Float64ToBigInt)'),
 (('float', 'getTotalReward'), I, 'math.Pow result enters the model as a float64 bit pattern (the remaining float assumption)'),
 (('float', 'RewardCalculator.NextRewardHeight'), I, 'ceil(float64(h)/float64(n)): modelled exactly (nextRewardHeight)'),
 (('float', 'MinerManager.AddMiner'), I, 'Float64ToBigInt(float64(stake)) = stake·10^18 exactly (stake < 2^53)'),
 (('float', 'MinerManager.AddStake'), I, 'idem'),
 (('maprange', 'Storage.String'), O, 'debug printing only'),
 (('go', 'TxPool.MarkExecuted'), O, 'after the block is executed and accepted (log export)'),
 (('float', 'Receipt.Size'), O, 'cache size accounting'),
 (('maprange', 'init'), O, 'vm.PrecompiledAddresses is never read (ActivePrecompiles has no caller)'),
 (('clock', 'setDefaults'), O, 'test helper'),
 (('flag', 'TxPool.PackForCast'), O, 'packing for casting, not execution'),
 # proposal flag reads
 (('flag', 'VMExecutor.Execute', 'IsProposal006'), FM, 'Flags.p006'),
 (('flag', 'VMExecutor.Execute', 'IsProposal007'), FM, 'Flags.p007'),
 (('flag', 'VMExecutor.Execute', 'IsProposal018'), FM, 'Flags.p018'),
 (('flag', 'validateNonce', 'IsProposal018'), FM, 'Flags.p018'),
 (('flag', 'validateNonce', 'IsProposal021'), FM, 'Flags.p021'),
 (('flag', 'Transactions.Less', 'IsProposal016'), FM, 'Flags.p016'),
 (('flag', 'Transactions.Less', 'IsProposal021'), FM, 'Flags.p021'),
 (('flag', 'Transactions.Less', 'IsProposal023'), FM, 'Flags.p023'),
 (('flag', 'VMExecutor.Execute', 'IsProposal013'), FF, 'where receipt logs come from; held at the dev value (active) — same read of the process height'),
 (('flag', 'VMExecutor.Execute', 'IsProposal015'), FF, 'receipt.GasUsed; held active'),
 (('flag', 'VMExecutor.Execute', 'IsProposal027'), FF, 'gas fee of failed contract tx; inside the uninterpreted step'),
 (('flag', 'TxPool.ProcessFee', 'IsProposal026'), FF, 'fee constant = Env.fee, passed per block'),
 (('flag', 'RefundManager.getRefundHeight'), FF, 'p012 active / p004 active in the modelled miner refund (refund height = now + 36000)'),
 (('flag', 'MinerManager.UpdateMiner', 'IsProposal003'), FF, 'status byte written (active)'),
 (('flag', 'AccountDB.AddFT', 'IsProposal002'), FF, 'journaled vs raw write in the ERC20-binding path; same content'),
 (('flag', 'AccountDB.SubFT', 'IsProposal002'), FF, 'idem'),

 # process-local state on the execution path (second pass: functions reachable from VMExecutor.Execute)
 (('global', None, 'common.LocalChainConfig'), PS, 'fork table / chain config fixed at start-up; together with localChainInfo it yields the flags (known finding flags-from-process-chain-height)'),
 (('global', None, 'common.localChainInfo'), PS, 'process-wide chain height behind every IsProposalNNN: the recorded known finding (Props/C01B)'),
 (('global', None, 'common.Genesis'), PS, 'sub-chain configuration read once from genesis.json at start-up; nil on the main chain'),
 (('global', None, 'common.rewardBlocks'), PS, 'memoised constant rewardTime / castingInterval'),
 (('global', None, 'common.refundBlocks'), PS, 'memoised constant'),
 (('global', None, 'common.epochBlocks'), PS, 'memoised constant'),
 (('global', None, 'service.MinerManagerImpl'), PS, 'singleton handle assigned at start-up; its mutable side store is listed as store sites (pkCache)'),
 (('global', None, 'service.RewardCalculatorImpl'), PS, 'singleton handle; holds chain helpers only'),
 (('global', None, 'service.RefundManagerImpl'), PS, 'singleton handle; holds chain helpers only'),
 (('global', None, 'service.txpoolInstance'), PS, 'singleton handle; ProcessFee touches only the AccountDB passed in'),
 (('global', None, 'executor.txExecutorsImpl'), PS, 'static executor registry built by InitExecutors'),
 (('global', None, 'middleware.AccountDBManagerInstance'), PS, 'reached only through nil-accountdb fall-backs (GetLatestStateDB) that the executor never takes: it always passes its AccountDB'),
 (('global', None, 'core.blockChainImpl'), PS, 'context["chain"] (BLOCKHASH) and calcDifficulty second part: chain data below the block = part of the parent history, not modelled'),
 (('global', None, 'core.groupChainImpl'), PS, 'group lookup for the reward: replicated group-chain data (model input RewardCfg.group)'),
 (('global', None, 'core.SyncProcessor'), PS, 'fork-path chain helper (same data, other handle)'),
 (('global', None, 'account.rpgContractAddress'), PS, 'cache of the RPG ERC20 binding, a genesis-time constant of the state (AddERC20Binding is only called by genesis); re-read while zero'),
 (('store', None, 'mm.pkCache.Put'), PS, 'write-only on the execution path: no function reachable from Execute reads pkCache (a read would be a new store site)'),
 (('store', None, 'chain.heightDB.Get'), PS, 'QueryBlockHeaderByHeight in calcDifficulty second part: header of an ancestor block (chain history, not modelled part)'),
 (('store', None, 'chain.topBlocks.Get'), PS, 'idem (LRU in front of heightDB)'),
 (('store', None, 'fork.db.Get'), PS, 'fork-path lookup of ancestor blocks / groups: same replicated data through the fork store'),
 (('store', None, 'chain.groups.Get'), PS, 'group chain lookup for the reward (RewardCfg.group)'),
 (('store', None, 'txExecutorsImpl.executors[]'), PS, 'static executor registry'),
 (('ctx', None, 'write refund'), PS, 'prepare(): context["refund"] reset at the start of every execution (Loop.refunds starts empty)'),
 (('ctx', None, 'read refund'), PS, 'set by prepare() in this execution'),
 (('ctx', None, 'read chain'), PS, 'set by newVMExecutor'),
 (('ctx', None, 'read situation'), PS, 'set by newVMExecutor; only selects which group helper answers'),
 (('ctx', None, 'write contractData'), PS, 'BeforeExecute of the same transaction'),
 (('ctx', None, 'read contractData'), PS, 'written by BeforeExecute of the same transaction'),
 (('ctx', None, 'write logs'), PS, 'executor output of this transaction'),
 (('ctx', None, 'read logs'), PS, 'pre-Proposal013 receipts; deleted after every transaction'),
 (('ctx', None, 'delete logs'), PS, 'idem'),
 (('ctx', None, 'write contractAddress'), PS, 'executor output'),
 (('ctx', None, 'read contractAddress'), PS, 'deleted after use'),
 (('ctx', None, 'delete contractAddress'), PS, 'idem'),
 (('ctx', None, 'write gasUsed'), PS, 'executor output'),
 (('ctx', None, 'read gasUsed'), PS, 'never deleted: a later transaction of the SAME block sees the previous value (deterministic: the context map is new per execution; part of OpaqueOut.extra)'),

 (('gwrite', None, 'common.epochBlocks'), PS, 'memoisation of a constant (epoch / castingInterval): idempotent write'),
 (('gwrite', None, 'common.refundBlocks'), PS, 'idem'),
 (('gwrite', None, 'common.rewardBlocks'), PS, 'idem'),
 (('gwrite', None, 'account.rpgContractAddress'), PS, 'cache fill from the state (genesis-time constant binding); the only writes to package-level state on the execution path'),

 (('order', 'VMExecutor.Execute', 'prepare,Sort,continue,Prepare,DEADLINE,break,IncreaseNonce,GetTxExecutor,BeforeExecute,continue,Snapshot,Execute,RevertToSnapshot,deductGasFee,IncreaseNonce,SetNonce,NewReceipt,GetLogs,removeUnusedValidator,removeUnusedValidator1,after,IntermediateRoot'), PF,
   'call order of Execute: the cast deadline is tested (and the loop left) before IncreaseNonce / BeforeExecute / Execute of that transaction touch the ledger — what castBlock models and cast_cutoff_consistent uses; sort before the loop, clean-ups and after() before IntermediateRoot'),
 (('bound', 'opBlockhash', 'GetHash iff num64 >= lower && num64 < upper'), PF,
   'BLOCKHASH asks the node chain index only for lower <= n < BlockNumber: strictly below the executing height (Model.blockhashAsksChain, blockhash_reads_only_ancestors)'),
 (('chainread', 'opBlockhash'), PS, 'GetHash callback = context["chain"].GetBlockHash: the node own block index; admissible arguments are ancestors only (pinned fact bound), which every replica executing on this parent stores identically'),
 (('chainread', 'getBlockHashFn'), PS, 'the GetHash callback handed to the EVM'),
 (('chainread', 'blockChain.GetBlockHash'), PS, 'main-chain index lookup behind GetHash (ancestors only, see bound)'),
 (('chainread', 'syncProcessor.GetBlockHash'), PS, 'fork-path lookup behind GetHash (fork store, then main chain below the fork point)'),
 (('chainread', 'syncProcessor.GetBlockHeader'), PS, 'idem'),
 (('chainread', 'VMExecutor.calcDifficulty'), PS, 'header rewardBlocks below the executing height (second part of calcDifficulty, not modelled)'),
]
def classify(s):
    k, kind, f, fn, det = s
    for key, lst, note in rules:
        if key[0] == kind and (key[1] is None or key[1] == fn) and (len(key) < 3 or det.startswith(key[2])):
            return lst, note
    if kind == 'fields':
        return PF, 'field list of ' + fn + ': a state handle (AccountDB on a root) owns its trie and objects; storageDB keeps no cache of tries, so handles opened on the same root never share a mutable trie'
    if kind == 'guards':
        return PF, 'branch conditions (locals blanked) of ' + fn + ' in source order, as followed by the model'
    if kind == 'flag' and (f.startswith('src/vm/') or f.endswith('contract_executor.go')):
        return FO, 'inside Env.other (EVM / contract executor): part of the uninterpreted deterministic step, which therefore also depends on the process height'
    return None, None

lists = {M: [], I: [], O: [], FM: [], FF: [], FO: [], PS: [], PF: []}
missing = []
for s in sites:
    lst, note = classify(s)
    if lst is None:
        missing.append(s)
        continue
    k, kind, f, fn, det = s
    lists[lst].append((k, '%s %s %s [%s] — %s' % (kind, f, fn, det.split(' calls=')[0], note)))
docs = {
 M: 'sites that are a fold over an explicit iteration order in `Model/BlockExec.lean`, with an order-irrelevance theorem in `Props/C01.lean`',
 I: 'sites whose loop body is a pointwise write per distinct key (the shape proved order-irrelevant for Finalise / the assign loop), whose value is excluded by a stated hypothesis, or float code that is modelled bit-exactly',
 O: 'sites in the scanned files that block execution never reaches',
 FM: 'proposal-flag reads that are fields of `Flags` (quantified in every theorem; `flagsAt` derives them from the process-wide height, see Props/C01B)',
 FF: 'proposal-flag reads in interpreted code whose value the model holds fixed (stated assumption of the correspondence: harness runs them active)',
 FO: 'proposal-flag reads inside the uninterpreted executors',
 PF: 'facts about statement order / bounds the model relies on, pinned verbatim: a re-ordered statement or a changed bound changes the key',
 PS: 'process-local state touched by functions reachable from VMExecutor.Execute (run-time-assigned package variables, side stores in struct fields of core/service/executor/middleware types, context entries), each with the reason it cannot make two replicas differ — or the recorded finding it belongs to',
}
def block(name):
    rows = lists[name]
    s = '/-- %s -/\ndef %s : List Nat := [\n' % (docs[name], name)
    for i, (k, c) in enumerate(rows):
        s += '  %s%s  -- %s\n' % (k, ',' if i < len(rows) - 1 else '', c)
    return s + ']\n\n'
txt = '''import Rangers.Generated.NondetSites
/-!
# C01 — every source of nondeterminism the translator finds is accounted for

`Rangers.Generated.NondetSites` is rewritten from the go-rangers working tree by
`gen/cmd/c01facts` on every run.  A site key encodes kind, file, function, the ranged
expression and the *shape* of the loop body (set of callees, early exit), the guard of a clock
reading, or the name of the proposal flag read.  A new range-over-map, clock/rand call, go
statement, float use, `IsProposalNNN` / `GetBlockHeight` read on the execution path, or a new call
inside one of the known loop bodies, produces a key that is in none of the lists below, and
`sites_accounted` stops checking.  (This file is produced by gen/cmd/c01facts/mkprops.py from the
reviewed classification table; it is never rewritten by bin/check.)
-/
namespace Rangers.Props.C01Sites
open Rangers.Generated.NondetSites

set_option maxRecDepth 20000

''' + ''.join(block(n) for n in (M, I, O, FM, FF, FO, PS, PF)) + '''def accounted : List Nat := modelled ++ provedIrrelevant ++ outOfPath ++ flagsModelled ++ flagsHeldFixed ++ flagsInUninterpreted ++ processLocalAccounted ++ pinnedFacts

theorem sites_accounted_bool : siteKeys.all (fun k => accounted.contains k) = true := by
  decide

theorem sites_accounted : ∀ k ∈ siteKeys, k ∈ accounted := by
  intro k hk
  have := List.all_eq_true.mp sites_accounted_bool k hk
  simpa using this

/-- the sites the model folds over still exist in the source (a vanished site means a stale model) -/
theorem modelled_sites_exist : (modelled ++ flagsModelled).all (fun k => siteKeys.contains k) = true := by
  decide

/-- the generated key list is the key column of the generated table -/
theorem siteKeys_eq : siteKeys = sites.map (·.key) := by
  decide

/-- every proposal-flag read on the path is pinned: the flag reads found are exactly the classified ones -/
theorem flag_reads_pinned :
    ((sites.filter (fun s => s.kind == "flag")).map (·.key)).all
      (fun k => (flagsModelled ++ flagsHeldFixed ++ flagsInUninterpreted ++ outOfPath).contains k) = true := by
  decide

/-- every process-local state access found on the execution path is one of the classified ones -/
theorem process_local_reads_pinned :
    ((sites.filter (fun s => s.kind == "global" || s.kind == "store" || s.kind == "ctx" || s.kind == "gwrite" || s.kind == "chainread")).map (·.key)).all
      (fun k => processLocalAccounted.contains k) = true := by
  decide

/-- the statement-order fact of `VMExecutor.Execute` and the BLOCKHASH window are exactly the pinned ones -/
theorem order_and_bounds_pinned :
    ((sites.filter (fun s => s.kind == "order" || s.kind == "bound" || s.kind == "guards" || s.kind == "fields")).map (·.key)) = pinnedFacts := by
  decide

example : processLocalAccounted ≠ [] := by decide
example : siteKeys ≠ [] := by decide
example : flagsModelled ≠ [] := by decide

end Rangers.Props.C01Sites
'''
open(os.path.join(root, 'Props', 'C01Sites.lean'), 'w').write(txt)
for m in missing:
    print('UNCLASSIFIED', m)
print('sites', len(sites), {k: len(v) for k, v in lists.items()})
