// c01facts: inventory of the places where block execution could pick up
// non-determinism, re-extracted from the working tree on every run (T-gen of C01).
//
// For the packages on the executor path it lists
//   maprange  every `range` over a map (go/types decides what is a map) with a *shape* of the
//             loop body: the sorted set of functions called in it and whether it can leave
//             the loop early (return / break / panic) — renaming locals or reordering
//             independent statements does not change the shape, a new call does
//   syncrange every (*sync.Map).Range call
//   clock     every call of time.Now / time.Since / utility.GetTime
//   rand      every use of math/rand, crypto/rand, base.NewRand
//   go        every go statement
//   float     every function that does float64 arithmetic or conversion
//   flag      every read of a proposal flag common.IsProposalNNN() (they read the process-wide chain height)
//   chainheight every direct common.GetBlockHeight / SetBlockHeight call
// and prints Rangers/Generated/NondetSites.lean on stdout.
package main

import (
	"fmt"
	"go/ast"
	"go/importer"
	"go/parser"
	"go/token"
	"go/types"
	"math/big"
	"os"
	"path/filepath"
	"sort"
	"strings"
)

// hard-coded validator ids of removeUnusedValidator (Proposal010) / removeUnusedValidator1 (Proposal019 whitelist)
var idLists = map[string][]string{}

type site struct {
	kind, file, fn, detail string
}

// scope: directories (whole package is type-checked; only listed files are inventoried, "" = all)
var scope = []struct {
	dir   string
	files []string
}{
	{"src/core", []string{"vmexecutor.go", "blockchain_verify.go"}},
	{"src/executor", nil},
	{"src/service", []string{"game.go", "refund_manager.go", "reward_calculator.go", "miner_manager.go", "miner_iterator.go", "transaction_pool.go", "subchain.go"}},
	{"src/storage/account", nil},
	{"src/middleware/types", []string{"transaction.go", "refund.go", "receipt.go"}},
	{"src/vm", nil},
}

func fnv(s string) uint64 {
	var h uint64 = 1469598103934665603
	for _, c := range []byte(s) {
		h = (h ^ uint64(c)) * 1099511628211
	}
	return h >> 12 // 52 bits: comfortably a small Nat literal
}

func exprString(fset *token.FileSet, e ast.Expr) string {
	switch x := e.(type) {
	case *ast.Ident:
		return x.Name
	case *ast.SelectorExpr:
		return exprString(fset, x.X) + "." + x.Sel.Name
	case *ast.CallExpr:
		return exprString(fset, x.Fun) + "()"
	case *ast.StarExpr:
		return "*" + exprString(fset, x.X)
	case *ast.IndexExpr:
		return exprString(fset, x.X) + "[]"
	case *ast.ParenExpr:
		return exprString(fset, x.X)
	}
	return fmt.Sprintf("%T", e)
}

func calleeName(e ast.Expr) string {
	switch x := e.(type) {
	case *ast.Ident:
		return x.Name
	case *ast.SelectorExpr:
		return x.Sel.Name
	case *ast.ParenExpr:
		return calleeName(x.X)
	}
	return "?"
}

// bodyShape: sorted set of callees (logging excluded: log text is never compared) + early exit flag
func bodyShape(body *ast.BlockStmt) string {
	calls := map[string]bool{}
	exits := false
	ast.Inspect(body, func(n ast.Node) bool {
		switch x := n.(type) {
		case *ast.CallExpr:
			name := calleeName(x.Fun)
			switch name {
			case "Debugf", "Infof", "Warnf", "Errorf", "Tracef", "Debug", "Info", "Warn", "Error", "Sprintf", "String":
			case "panic":
				exits = true
			default:
				calls[name] = true
			}
		case *ast.ReturnStmt:
			exits = true
		case *ast.BranchStmt:
			if x.Tok == token.BREAK || x.Tok == token.GOTO {
				exits = true
			}
		case *ast.FuncLit:
			return false
		}
		return true
	})
	l := make([]string, 0, len(calls))
	for c := range calls {
		l = append(l, c)
	}
	sort.Strings(l)
	e := "0"
	if exits {
		e = "1"
	}
	return "calls=" + strings.Join(l, ",") + " exits=" + e
}

// clockContext says what confines a clock reading: an enclosing condition that mentions the
// "casting" situation, and/or being an argument of a logging call.
func clockContext(stack []ast.Node) string {
	mentionsCasting := func(e ast.Expr) bool {
		found := false
		ast.Inspect(e, func(n ast.Node) bool {
			if bl, ok := n.(*ast.BasicLit); ok && bl.Value == "\"casting\"" {
				found = true
			}
			return true
		})
		return found
	}
	guard, inLog := "none", false
	for i := len(stack) - 2; i >= 0; i-- {
		switch x := stack[i].(type) {
		case *ast.IfStmt:
			if mentionsCasting(x.Cond) {
				guard = "casting"
			}
		case *ast.BinaryExpr:
			if x.Op == token.LAND && mentionsCasting(x) {
				guard = "casting"
			}
		case *ast.CallExpr:
			switch calleeName(x.Fun) {
			case "Debugf", "Infof", "Warnf", "Errorf", "Tracef":
				inLog = true
			}
		}
	}
	if inLog {
		return "guard=" + guard + " in=log"
	}
	return "guard=" + guard
}

func main() {
	repo := "."
	for _, a := range os.Args[1:] {
		if strings.HasPrefix(a, "repo=") {
			repo = a[5:]
		}
	}
	if err := os.Chdir(repo); err != nil {
		fmt.Fprintln(os.Stderr, err)
		os.Exit(1)
	}
	fset := token.NewFileSet()
	imp := importer.ForCompiler(fset, "source", nil)
	var sites []site
	for _, sc := range scope {
		pkgs, err := parser.ParseDir(fset, sc.dir, func(fi os.FileInfo) bool {
			return !strings.HasSuffix(fi.Name(), "_test.go") && !strings.Contains(fi.Name(), "verif")
		}, 0)
		if err != nil {
			fmt.Fprintln(os.Stderr, "parse", sc.dir, err)
			os.Exit(1)
		}
		for _, pkg := range pkgs {
			var files []*ast.File
			var names []string
			for n := range pkg.Files {
				names = append(names, n)
			}
			sort.Strings(names)
			for _, n := range names {
				files = append(files, pkg.Files[n])
			}
			info := &types.Info{Types: map[ast.Expr]types.TypeAndValue{}, Uses: map[*ast.Ident]types.Object{}, Selections: map[*ast.SelectorExpr]*types.Selection{}}
			conf := types.Config{Importer: imp, FakeImportC: true, Error: func(err error) {}}
			conf.Check("com.tuntun.rangers/node/"+sc.dir, fset, files, info)
			want := map[string]bool{}
			for _, f := range sc.files {
				want[f] = true
			}
			for i, f := range files {
				base := filepath.Base(names[i])
				if len(want) > 0 && !want[base] {
					continue
				}
				rel := sc.dir + "/" + base
				for _, d := range f.Decls {
					fd, ok := d.(*ast.FuncDecl)
					if !ok || fd.Body == nil {
						continue
					}
					fn := fd.Name.Name
					if rel == "src/core/vmexecutor.go" && (fn == "removeUnusedValidator" || fn == "removeUnusedValidator1") {
						ast.Inspect(fd.Body, func(n ast.Node) bool {
							if bl, ok := n.(*ast.BasicLit); ok && bl.Kind == token.STRING && strings.HasPrefix(bl.Value, "\"0x") {
								idLists[fn] = append(idLists[fn], strings.Trim(bl.Value, "\"")[2:])
							}
							return true
						})
					}
					if fd.Recv != nil && len(fd.Recv.List) > 0 {
						fn = strings.TrimPrefix(exprString(fset, fd.Recv.List[0].Type), "*") + "." + fn
					}
					usesFloat := false
					var stack []ast.Node
					ast.Inspect(fd.Body, func(n ast.Node) bool {
						if n == nil {
							stack = stack[:len(stack)-1]
							return true
						}
						stack = append(stack, n)
						switch x := n.(type) {
						case *ast.RangeStmt:
							tv, ok := info.Types[x.X]
							if !ok || tv.Type == nil {
								sites = append(sites, site{"unknownrange", rel, fn, exprString(fset, x.X) + " " + bodyShape(x.Body)})
							} else if _, isMap := tv.Type.Underlying().(*types.Map); isMap {
								sites = append(sites, site{"maprange", rel, fn, exprString(fset, x.X) + " " + bodyShape(x.Body)})
							}
						case *ast.GoStmt:
							sites = append(sites, site{"go", rel, fn, exprString(fset, x.Call.Fun)})
						case *ast.CallExpr:
							if se, ok := x.Fun.(*ast.SelectorExpr); ok {
								full := exprString(fset, se)
								switch {
								case full == "time.Now" || full == "time.Since" || full == "utility.GetTime":
									sites = append(sites, site{"clock", rel, fn, full + " " + clockContext(stack)})
								case strings.HasPrefix(full, "rand.") || full == "base.NewRand":
									sites = append(sites, site{"rand", rel, fn, full})
								case se.Sel.Name == "Range":
									if sel := info.Selections[se]; sel != nil && strings.Contains(sel.Recv().String(), "sync.Map") {
										sites = append(sites, site{"syncrange", rel, fn, exprString(fset, se.X)})
									}
								}
							}
							if se, ok := x.Fun.(*ast.SelectorExpr); ok && strings.HasPrefix(se.Sel.Name, "IsProposal") {
								if pk, ok := se.X.(*ast.Ident); ok && pk.Name == "common" {
									sites = append(sites, site{"flag", rel, fn, se.Sel.Name})
								}
							}
							if se, ok := x.Fun.(*ast.SelectorExpr); ok && (se.Sel.Name == "GetBlockHeight" || se.Sel.Name == "SetBlockHeight") {
								if pk, ok := se.X.(*ast.Ident); ok && pk.Name == "common" {
									sites = append(sites, site{"chainheight", rel, fn, se.Sel.Name})
								}
							}
							if id, ok := x.Fun.(*ast.Ident); ok && id.Name == "float64" {
								usesFloat = true
							}
						case *ast.BinaryExpr:
							if tv, ok := info.Types[x]; ok && tv.Type != nil {
								if b, ok := tv.Type.Underlying().(*types.Basic); ok && b.Info()&types.IsFloat != 0 {
									usesFloat = true
								}
							}
						}
						return true
					})
					if usesFloat {
						sites = append(sites, site{"float", rel, fn, "float64 arithmetic"})
					}
				}
			}
		}
	}
	// stable order, ordinal for repeated identical descriptions
	sort.SliceStable(sites, func(i, j int) bool {
		a, b := sites[i], sites[j]
		if a.file != b.file {
			return a.file < b.file
		}
		if a.fn != b.fn {
			return a.fn < b.fn
		}
		if a.kind != b.kind {
			return a.kind < b.kind
		}
		return a.detail < b.detail
	})
	seen := map[string]int{}
	var sb strings.Builder
	sb.WriteString("/- GENERATED by gen/cmd/c01facts from the go-rangers working tree; do not edit.\n")
	sb.WriteString("   Inventory of range-over-map / sync.Map.Range / clock / rand / go / float sites on the\n")
	sb.WriteString("   block-execution path. key = FNV-1a(kind|file|func|detail|ordinal) >> 12. -/\n")
	sb.WriteString("namespace Rangers.Generated.NondetSites\n\n")
	sb.WriteString("structure Site where\n  key : Nat\n  kind : String\n  file : String\n  func : String\n  detail : String\n  deriving Repr\n\n")
	sb.WriteString("def sites : List Site := [\n")
	var keys []string
	for i, s := range sites {
		id := s.kind + "|" + s.file + "|" + s.fn + "|" + s.detail
		ord := seen[id]
		seen[id]++
		k := fnv(fmt.Sprintf("%s|%d", id, ord))
		keys = append(keys, fmt.Sprint(k))
		sep := ","
		if i == len(sites)-1 {
			sep = ""
		}
		fmt.Fprintf(&sb, "  ⟨%d, %q, %q, %q, %q⟩%s\n", k, s.kind, s.file, s.fn, s.detail, sep)
	}
	sb.WriteString("]\n\n")
	sb.WriteString("def siteKeys : List Nat := [" + strings.Join(keys, ", ") + "]\n\n")
	for _, nm := range []struct{ fn, def string }{{"removeUnusedValidator", "unusedValidators010"}, {"removeUnusedValidator1", "whitelist019"}} {
		var nums []string
		for _, h := range idLists[nm.fn] {
			v, ok := new(big.Int).SetString(h, 16)
			if ok {
				nums = append(nums, v.String())
			}
		}
		fmt.Fprintf(&sb, "/-- validator ids hard-coded in core.%s (as numbers) -/\ndef %s : List Nat := [%s]\n\n", nm.fn, nm.def, strings.Join(nums, ", "))
	}
	sb.WriteString("end Rangers.Generated.NondetSites\n")
	fmt.Print(sb.String())
}
