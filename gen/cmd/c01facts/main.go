// c01facts: inventory of the places where block execution could pick up
// non-determinism, re-extracted from the working tree on every run (T-gen of C01).
//
// For the packages on the executor path it lists
//   maprange  every `range` over a map (go/types decides what is a map) with a *shape* of the
//             loop body: the sorted set of functions called in it and whether it can leave
//             the loop early (return / break / panic) — renaming locals or reordering
//             independent statements does not change the shape, a new call does
//   syncrange every (*sync.Map).Range call
//   clock     every call of time.Now / time.Since / utility.GetTime
//   rand      every use of math/rand, crypto/rand, base.NewRand
//   go        every go statement
//   float     every function that does float64 arithmetic or conversion
//   flag      every read of a proposal flag common.IsProposalNNN() (they read the process-wide chain height)
//   chainheight every direct common.GetBlockHeight / SetBlockHeight call
//   global / store / ctx  process-local state touched in functions reachable from VMExecutor.Execute (second pass)
// and prints Rangers/Generated/NondetSites.lean on stdout.
package main

import (
	"fmt"
	"go/ast"
	"go/importer"
	"go/parser"
	"go/token"
	"go/types"
	"math/big"
	"os"
	"path/filepath"
	"sort"
	"strings"
)

// hard-coded validator ids of removeUnusedValidator (Proposal010) / removeUnusedValidator1 (Proposal019 whitelist)
var idLists = map[string][]string{}

type site struct {
	kind, file, fn, detail string
}

// scope: directories (whole package is type-checked; only listed files are inventoried, "" = all)
var scope = []struct {
	dir   string
	files []string
}{
	{"src/core", []string{"vmexecutor.go", "blockchain_verify.go"}},
	{"src/executor", nil},
	{"src/service", []string{"game.go", "refund_manager.go", "reward_calculator.go", "miner_manager.go", "miner_iterator.go", "transaction_pool.go", "subchain.go"}},
	{"src/storage/account", nil},
	{"src/middleware/types", []string{"transaction.go", "refund.go", "receipt.go"}},
	{"src/vm", nil},
}

func fnv(s string) uint64 {
	var h uint64 = 1469598103934665603
	for _, c := range []byte(s) {
		h = (h ^ uint64(c)) * 1099511628211
	}
	return h >> 12 // 52 bits: comfortably a small Nat literal
}

func exprString(fset *token.FileSet, e ast.Expr) string {
	switch x := e.(type) {
	case *ast.Ident:
		return x.Name
	case *ast.SelectorExpr:
		return exprString(fset, x.X) + "." + x.Sel.Name
	case *ast.CallExpr:
		return exprString(fset, x.Fun) + "()"
	case *ast.StarExpr:
		return "*" + exprString(fset, x.X)
	case *ast.IndexExpr:
		return exprString(fset, x.X) + "[]"
	case *ast.ParenExpr:
		return exprString(fset, x.X)
	}
	return fmt.Sprintf("%T", e)
}

func calleeName(e ast.Expr) string {
	switch x := e.(type) {
	case *ast.Ident:
		return x.Name
	case *ast.SelectorExpr:
		return x.Sel.Name
	case *ast.ParenExpr:
		return calleeName(x.X)
	}
	return "?"
}

// bodyShape: sorted set of callees (logging excluded: log text is never compared) + early exit flag
func bodyShape(body *ast.BlockStmt) string {
	calls := map[string]bool{}
	exits := false
	ast.Inspect(body, func(n ast.Node) bool {
		switch x := n.(type) {
		case *ast.CallExpr:
			name := calleeName(x.Fun)
			switch name {
			case "Debugf", "Infof", "Warnf", "Errorf", "Tracef", "Debug", "Info", "Warn", "Error", "Sprintf", "String":
			case "panic":
				exits = true
			default:
				calls[name] = true
			}
		case *ast.ReturnStmt:
			exits = true
		case *ast.BranchStmt:
			if x.Tok == token.BREAK || x.Tok == token.GOTO {
				exits = true
			}
		case *ast.FuncLit:
			return false
		}
		return true
	})
	l := make([]string, 0, len(calls))
	for c := range calls {
		l = append(l, c)
	}
	sort.Strings(l)
	e := "0"
	if exits {
		e = "1"
	}
	return "calls=" + strings.Join(l, ",") + " exits=" + e
}


// callOrder: the order (source order = execution order inside the loop body) in which
// VMExecutor.Execute reaches the calls that touch the ledger or read the clock.  The cast deadline
// (a clock read compared with MaxCastBlockTime) must come before anything of the transaction has
// touched the state: "…,Prepare,DEADLINE,IncreaseNonce,GetTxExecutor,BeforeExecute,…".
func callOrder(body *ast.BlockStmt) string {
	watch := map[string]bool{"prepare": true, "Sort": true, "Prepare": true, "IncreaseNonce": true, "GetTxExecutor": true, "BeforeExecute": true,
		"Snapshot": true, "Execute": true, "RevertToSnapshot": true, "deductGasFee": true, "SetNonce": true, "GetLogs": true, "NewReceipt": true,
		"removeUnusedValidator": true, "removeUnusedValidator1": true, "after": true, "IntermediateRoot": true}
	var seq []string
	ast.Inspect(body, func(n ast.Node) bool {
		switch x := n.(type) {
		case *ast.BinaryExpr:
			// the deadline comparison
			if x.Op == token.GTR {
				if id, ok := x.Y.(*ast.Ident); ok && id.Name == "MaxCastBlockTime" {
					seq = append(seq, "DEADLINE")
				}
			}
		case *ast.BranchStmt:
			seq = append(seq, strings.ToLower(x.Tok.String()))
		case *ast.CallExpr:
			if name := calleeName(x.Fun); watch[name] {
				seq = append(seq, name)
			}
		}
		return true
	})
	return strings.Join(seq, ",")
}

// hashWindow: the condition under which opBlockhash asks the node's chain index (GetHash): the
// admissible heights are lower <= n < BlockNumber — strictly below the block being executed
func hashWindow(fset *token.FileSet, body *ast.BlockStmt) string {
	res := "no-GetHash-call"
	ast.Inspect(body, func(n ast.Node) bool {
		ifs, ok := n.(*ast.IfStmt)
		if !ok {
			return true
		}
		calls := false
		ast.Inspect(ifs.Body, func(m ast.Node) bool {
			if c, ok := m.(*ast.CallExpr); ok && calleeName(c.Fun) == "GetHash" {
				calls = true
			}
			return true
		})
		if calls {
			res = "GetHash iff " + condString(ifs.Cond)
		}
		return true
	})
	return res
}

func condString(e ast.Expr) string {
	switch x := e.(type) {
	case *ast.BinaryExpr:
		return condString(x.X) + " " + x.Op.String() + " " + condString(x.Y)
	case *ast.ParenExpr:
		return "(" + condString(x.X) + ")"
	case *ast.Ident:
		return x.Name
	case *ast.BasicLit:
		return x.Value
	case *ast.SelectorExpr:
		return condString(x.X) + "." + x.Sel.Name
	case *ast.CallExpr:
		return condString(x.Fun) + "()"
	case *ast.UnaryExpr:
		return x.Op.String() + condString(x.X)
	}
	return fmt.Sprintf("%T", e)
}



// fieldListTypes: the structs behind a state handle.  Their field lists are pinned: a state handle must
// not share mutable tries / objects with another handle, so a new field (a cache of tries, a pool of
// objects) has to be looked at.
var fieldListTypes = map[string]bool{"storageDB": true, "AccountDB": true, "accountObject": true}

// guardFuncs: functions whose branch conditions the model follows.  For each, one `guards` site
// lists every if-condition in source order with LOCAL identifiers blanked (`_`): comparison
// operators, constants, called functions, selector names and the order of the branches are kept, so
// renaming a local does not change the fact but `<` -> `<=`, a swapped branch or a new guard does.
var guardFuncs = map[string]bool{
	"IntrinsicGas": true, "contractExecutor.decodeContractData": true, "contractExecutor.Execute": true, "contractExecutor.BeforeExecute": true,
	"preCheckContractFee": true, "MinerManager.AddMiner": true, "MinerManager.AddStake": true, "MinerManager.RemoveMiner": true,
	"MinerManager.UpdateMiner": true, "MinerManager.GetMinerById": true, "MinerManager.GetMinerIdByAccount": true, "MinerManager.GetValidatorsStake": true,
	"MinerManager.GetProposerTotalStakeWithDetail": true, "MinerIterator.Current": true,
	"minerApplyExecutor.Execute": true, "minerAddExecutor.Execute": true, "minerChangeAccountExecutor.Execute": true, "minerRefundExecutor.Execute": true,
	"RefundManager.GetRefundStake": true, "RefundManager.getRefundHeight": true, "RefundManager.Add": true, "RefundManager.CheckAndMove": true,
	"validateNonce": true, "baseFeeExecutor.BeforeExecute": true, "TxPool.ProcessFee": true, "transferBalance": true, "ChangeAssets": true,
	"operatorExecutor.transfer": true, "deductGasFee": true, "VMExecutor.calcDifficulty": true, "VMExecutor.after": true, "VMExecutor.Execute": true,
	"Transactions.Less": true, "calcReceiptsTree": true, "RewardCalculator.CalculateReward": true, "RewardCalculator.calculateRewardPerBlock": true,
	"RewardCalculator.NextRewardHeight": true, "addReward": true, "RefundInfoList.AddRefundInfo": true, "MinerManager.RemoveUnusedValidator": true,
	"removeUnusedValidator": true,
	"storageDB.OpenTrie": true, "storageDB.OpenStorageTrie": true, "storageDB.CopyTrie": true, "NewAccountDB": true, "NewDatabase": true,
}

func normCond(info *types.Info, e ast.Expr) string {
	switch x := e.(type) {
	case *ast.BinaryExpr:
		return normCond(info, x.X) + " " + x.Op.String() + " " + normCond(info, x.Y)
	case *ast.ParenExpr:
		return "(" + normCond(info, x.X) + ")"
	case *ast.UnaryExpr:
		return x.Op.String() + normCond(info, x.X)
	case *ast.BasicLit:
		return strings.ReplaceAll(x.Value, "\"", "'")
	case *ast.Ident:
		if obj := info.Uses[x]; obj != nil {
			if v, ok := obj.(*types.Var); ok && !v.IsField() && (v.Pkg() == nil || v.Parent() != v.Pkg().Scope()) {
				return "_" // local variable / parameter / receiver
			}
		}
		return x.Name
	case *ast.SelectorExpr:
		return normCond(info, x.X) + "." + x.Sel.Name
	case *ast.CallExpr:
		var args []string
		for _, a := range x.Args {
			args = append(args, normCond(info, a))
		}
		return normCond(info, x.Fun) + "(" + strings.Join(args, ",") + ")"
	case *ast.IndexExpr:
		return normCond(info, x.X) + "[" + normCond(info, x.Index) + "]"
	case *ast.StarExpr:
		return "*" + normCond(info, x.X)
	case *ast.CompositeLit:
		return "lit"
	case *ast.TypeAssertExpr:
		return normCond(info, x.X) + ".(type)"
	}
	return fmt.Sprintf("%T", e)
}

func guardsOf(info *types.Info, body *ast.BlockStmt) string {
	var conds []string
	ast.Inspect(body, func(n ast.Node) bool {
		if ifs, ok := n.(*ast.IfStmt); ok {
			conds = append(conds, normCond(info, ifs.Cond))
		}
		return true
	})
	return strings.Join(conds, " | ")
}

// constants the model computes with, re-read from the source on every run: Go name -> (file, lean name).
// The value is the first integer literal of the initialiser (`21000`, `uint64(400)`, `big.NewInt(1000000000)`).
var wantedConsts = []struct{ file, goName, lean string }{
	{"src/vm/param.go", "TxGas", "cTxGas"},
	{"src/vm/param.go", "TxGasContractCreation", "cTxGasContractCreation"},
	{"src/vm/param.go", "TxDataZeroGas", "cTxDataZeroGas"},
	{"src/vm/param.go", "TxDataNonZeroGasEIP2028", "cTxDataNonZeroGas"},
	{"src/common/constant.go", "GasMagnification", "cGasMagnification"},
	{"src/executor/contract_executor.go", "defaultGasLimit", "cDefaultGasLimit"},
	{"src/executor/contract_executor.go", "p017defaultGasLimit", "cP017GasLimit"},
	{"src/executor/contract_executor.go", "p026defaultGasLimit", "cP026GasLimit"},
	{"src/executor/contract_executor.go", "defaultGasPrice", "cGasPrice"},
	{"src/common/constant_economy.go", "ValidatorStake", "cValidatorStake"},
	{"src/common/constant_economy.go", "ProposerStake", "cProposerStake"},
	{"src/common/constant_economy.go", "HeightAfterStake", "cHeightAfterStake"},
	{"src/service/refund_manager.go", "refundHeight", "cRefundHeight"},
}

func extractConsts(fset *token.FileSet) string {
	var sb strings.Builder
	for _, w := range wantedConsts {
		f, err := parser.ParseFile(fset, w.file, nil, 0)
		val := ""
		if err == nil {
			ast.Inspect(f, func(n ast.Node) bool {
				vs, ok := n.(*ast.ValueSpec)
				if !ok {
					return true
				}
				for i, nm := range vs.Names {
					if nm.Name == w.goName && i < len(vs.Values) && val == "" {
						ast.Inspect(vs.Values[i], func(m ast.Node) bool {
							if bl, ok := m.(*ast.BasicLit); ok && bl.Kind == token.INT && val == "" {
								val = strings.ReplaceAll(bl.Value, "_", "")
							}
							return true
						})
					}
				}
				return true
			})
		}
		if val == "" {
			val = "0 /- NOT FOUND in " + w.file + " -/"
		}
		fmt.Fprintf(&sb, "/-- `%s` (%s) -/\ndef %s : Nat := %s\n", w.goName, w.file, w.lean, val)
	}
	return sb.String()
}

// clockContext says what confines a clock reading: an enclosing condition that mentions the
// "casting" situation, and/or being an argument of a logging call.
func clockContext(stack []ast.Node) string {
	mentionsCasting := func(e ast.Expr) bool {
		found := false
		ast.Inspect(e, func(n ast.Node) bool {
			if bl, ok := n.(*ast.BasicLit); ok && bl.Value == "\"casting\"" {
				found = true
			}
			return true
		})
		return found
	}
	guard, inLog := "none", false
	for i := len(stack) - 2; i >= 0; i-- {
		switch x := stack[i].(type) {
		case *ast.IfStmt:
			if mentionsCasting(x.Cond) {
				guard = "casting"
			}
		case *ast.BinaryExpr:
			if x.Op == token.LAND && mentionsCasting(x) {
				guard = "casting"
			}
		case *ast.CallExpr:
			switch calleeName(x.Fun) {
			case "Debugf", "Infof", "Warnf", "Errorf", "Tracef":
				inLog = true
			}
		}
	}
	if inLog {
		return "guard=" + guard + " in=log"
	}
	return "guard=" + guard
}


// ---------------------------------------------------------------- process-local state on the execution path
//
// Second pass: a static call graph over the whole packages (interface calls resolved by method
// name, an over-approximation) rooted at VMExecutor.Execute, and in every reachable function
//   global  reads of package-level variables (loggers and error values excepted)
//   store   method calls on side stores held in struct fields of core / service / executor /
//           middleware types (LevelDB handles, LRU caches, sync.Map, gmap, plain map fields)
//   ctx     reads / writes / deletes of entries of the executor's context map
//   gwrite  assignments to package-level variables (the execution path should write none)
//   chainread  look-ups into the node's own block index (GetHash / GetBlockHash / QueryBlockHeaderByHeight / GetBlockHeader)
// plus two pinned facts: `order` (call order inside VMExecutor.Execute) and `bound` (opBlockhash's window)

type fnInfo struct {
	key     string
	rel     string
	name    string
	callees map[string]bool // function keys
	byName  map[string]bool // interface / unresolved method names
	sites   []site
}

var procPkgs = []string{"src/common", "src/core", "src/executor", "src/service", "src/storage/account", "src/middleware/types", "src/middleware", "src/vm"}

func funcKey(f *types.Func) (string, bool) {
	sig, _ := f.Type().(*types.Signature)
	pk := ""
	if f.Pkg() != nil {
		pk = f.Pkg().Path()
	}
	if sig != nil && sig.Recv() != nil {
		t := sig.Recv().Type()
		if p, ok := t.(*types.Pointer); ok {
			t = p.Elem()
		}
		if n, ok := t.(*types.Named); ok {
			if _, isIface := n.Underlying().(*types.Interface); isIface {
				return f.Name(), false
			}
			return pk + "." + n.Obj().Name() + "." + f.Name(), true
		}
		return f.Name(), false
	}
	return pk + "." + f.Name(), true
}

func isStoreType(t types.Type) string {
	s := t.String()
	for _, k := range []string{"db.LDBDatabase", "db.PrefixedDatabase", "db.Database", "lru.Cache", "lru.ARCCache", "sync.Map", "gmap", "MemDatabase"} {
		if strings.Contains(s, k) {
			return k
		}
	}
	if _, ok := t.Underlying().(*types.Map); ok {
		return "map"
	}
	return ""
}

func procStatePass(fset *token.FileSet, imp types.Importer) []site {
	written := map[string]bool{} // package-level variables assigned inside some function body
	funcs := map[string]*fnInfo{}
	methodsByName := map[string][]string{}
	for _, dir := range procPkgs {
		pkgs, err := parser.ParseDir(fset, dir, func(fi os.FileInfo) bool {
			return !strings.HasSuffix(fi.Name(), "_test.go") && !strings.Contains(fi.Name(), "verif")
		}, 0)
		if err != nil {
			continue
		}
		for _, pkg := range pkgs {
			var files []*ast.File
			var names []string
			for n := range pkg.Files {
				names = append(names, n)
			}
			sort.Strings(names)
			for _, n := range names {
				files = append(files, pkg.Files[n])
			}
			info := &types.Info{Types: map[ast.Expr]types.TypeAndValue{}, Uses: map[*ast.Ident]types.Object{}, Defs: map[*ast.Ident]types.Object{}, Selections: map[*ast.SelectorExpr]*types.Selection{}}
			conf := types.Config{Importer: imp, FakeImportC: true, Error: func(err error) {}}
			pkgPath := "com.tuntun.rangers/node/" + dir
			conf.Check(pkgPath, fset, files, info)
			ownerOK := dir == "src/core" || dir == "src/service" || dir == "src/executor" || dir == "src/middleware"
			for i, f := range files {
				rel := dir + "/" + filepath.Base(names[i])
				for _, d := range f.Decls {
					fd, ok := d.(*ast.FuncDecl)
					if !ok || fd.Body == nil {
						continue
					}
					obj, _ := info.Defs[fd.Name].(*types.Func)
					if obj == nil {
						continue
					}
					key, _ := funcKey(obj)
					disp := fd.Name.Name
					if fd.Recv != nil && len(fd.Recv.List) > 0 {
						disp = strings.TrimPrefix(exprString(fset, fd.Recv.List[0].Type), "*") + "." + disp
						methodsByName[fd.Name.Name] = append(methodsByName[fd.Name.Name], key)
					}
					fi := &fnInfo{key: key, rel: rel, name: disp, callees: map[string]bool{}, byName: map[string]bool{}}
					funcs[key] = fi
					seenGlobal := map[string]bool{}
					lhs := map[ast.Expr]bool{}
					ast.Inspect(fd.Body, func(n ast.Node) bool {
						switch x := n.(type) {
						case *ast.AssignStmt:
							for _, l := range x.Lhs {
								lhs[l] = true
								var id *ast.Ident
								switch t := l.(type) {
								case *ast.Ident:
									id = t
								case *ast.SelectorExpr:
									id = t.Sel
									if root, ok := t.X.(*ast.Ident); ok { // global.field = …
										if v, ok := info.Uses[root].(*types.Var); ok && v.Pkg() != nil && v.Parent() == v.Pkg().Scope() {
											written[v.Pkg().Name()+"."+v.Name()] = true
											fi.sites = append(fi.sites, site{"gwrite", rel, disp, v.Pkg().Name() + "." + v.Name() + "." + t.Sel.Name})
										}
									}
								}
								if id != nil {
									if v, ok := info.Uses[id].(*types.Var); ok && v.Pkg() != nil && v.Parent() == v.Pkg().Scope() {
										written[v.Pkg().Name()+"."+v.Name()] = true
										fi.sites = append(fi.sites, site{"gwrite", rel, disp, v.Pkg().Name() + "." + v.Name()})
									}
								}
							}
						case *ast.CallExpr:
							// callee resolution
							var id *ast.Ident
							switch fn := x.Fun.(type) {
							case *ast.Ident:
								id = fn
							case *ast.SelectorExpr:
								id = fn.Sel
							}
							if id != nil {
								if tf, ok := info.Uses[id].(*types.Func); ok {
									if k, static := funcKey(tf); static {
										fi.callees[k] = true
									} else {
										fi.byName[k] = true
									}
								} else if _, isSel := x.Fun.(*ast.SelectorExpr); isSel && info.Uses[id] == nil {
									fi.byName[id.Name] = true
								}
								if id.Name == "delete" && len(x.Args) == 2 {
									if tv, ok := info.Types[x.Args[0]]; ok && tv.Type != nil && tv.Type.String() == "map[string]interface{}" && strings.HasSuffix(exprString(fset, x.Args[0]), "context") {
										if bl, ok := x.Args[1].(*ast.BasicLit); ok {
											fi.sites = append(fi.sites, site{"ctx", rel, disp, "delete " + strings.Trim(bl.Value, "\"")})
										}
									}
								}
							}
							if id != nil && (id.Name == "GetHash" || id.Name == "GetBlockHash" || id.Name == "QueryBlockHeaderByHeight" || id.Name == "GetBlockHeader") {
								fi.sites = append(fi.sites, site{"chainread", rel, disp, id.Name})
							}
							// side store access: recv.field.Method(...)
							if se, ok := x.Fun.(*ast.SelectorExpr); ok && ownerOK {
								if fsel, ok := se.X.(*ast.SelectorExpr); ok {
									if sel := info.Selections[fsel]; sel != nil && sel.Kind() == types.FieldVal {
										if k := isStoreType(sel.Type()); k != "" {
											fi.sites = append(fi.sites, site{"store", rel, disp, exprString(fset, fsel) + "." + se.Sel.Name + " [" + k + "]"})
										}
									}
								}
							}
						case *ast.IndexExpr:
							if tv, ok := info.Types[x.X]; ok && tv.Type != nil {
								if tv.Type.String() == "map[string]interface{}" && strings.HasSuffix(exprString(fset, x.X), "context") {
									if bl, ok := x.Index.(*ast.BasicLit); ok {
										mode := "read "
										if lhs[x] {
											mode = "write "
										}
										fi.sites = append(fi.sites, site{"ctx", rel, disp, mode + strings.Trim(bl.Value, "\"")})
									}
								} else if fsel, ok := x.X.(*ast.SelectorExpr); ok && ownerOK {
									// plain map field of a core/service/executor struct
									if sel := info.Selections[fsel]; sel != nil && sel.Kind() == types.FieldVal {
										if _, isMap := sel.Type().Underlying().(*types.Map); isMap {
											fi.sites = append(fi.sites, site{"store", rel, disp, exprString(fset, fsel) + "[] [map]"})
										}
									}
								}
							}
						case *ast.Ident:
							if v, ok := info.Uses[x].(*types.Var); ok && v.Pkg() != nil && v.Parent() == v.Pkg().Scope() {
								ts := v.Type().String()
								if strings.HasSuffix(ts, "log.Logger") || ts == "error" {
									return true
								}
								pn := v.Pkg().Name() + "." + v.Name()
								if !seenGlobal[pn] {
									seenGlobal[pn] = true
									fi.sites = append(fi.sites, site{"global", rel, disp, pn})
								}
							}
						}
						return true
					})
				}
			}
		}
	}
	// reachability from the block executor
	reach := map[string]bool{}
	var todo []string
	for k := range funcs {
		if strings.HasSuffix(k, "/src/core.VMExecutor.Execute") {
			todo = append(todo, k)
		}
	}
	for len(todo) > 0 {
		k := todo[len(todo)-1]
		todo = todo[:len(todo)-1]
		if reach[k] {
			continue
		}
		reach[k] = true
		fi := funcs[k]
		if fi == nil {
			continue
		}
		for c := range fi.callees {
			if !reach[c] {
				todo = append(todo, c)
			}
		}
		// the interpreter dispatches through the jump table (function values): once Run is
		// reachable so is every instruction / gas / memory function of package vm
		if strings.HasSuffix(k, "/src/vm.EVMInterpreter.Run") {
			for c := range funcs {
				if i := strings.Index(c, "/src/vm."); i >= 0 {
					nm := c[i+len("/src/vm."):]
					if !strings.Contains(nm, ".") && (strings.HasPrefix(nm, "op") || strings.HasPrefix(nm, "gas") || strings.HasPrefix(nm, "memory") || strings.HasPrefix(nm, "make")) && !reach[c] {
						todo = append(todo, c)
					}
				}
			}
		}
		for n := range fi.byName {
			for _, c := range methodsByName[n] {
				if !reach[c] {
					todo = append(todo, c)
				}
			}
		}
	}
	var out []site
	for k, fi := range funcs {
		if !reach[k] {
			continue
		}
		for _, st := range fi.sites {
			// a package-level variable nobody assigns in a function body is a constant table
			if st.kind == "global" && !written[st.detail] {
				continue
			}
			out = append(out, st)
		}
	}
	return out
}

func main() {
	repo := "."
	for _, a := range os.Args[1:] {
		if strings.HasPrefix(a, "repo=") {
			repo = a[5:]
		}
	}
	if err := os.Chdir(repo); err != nil {
		fmt.Fprintln(os.Stderr, err)
		os.Exit(1)
	}
	fset := token.NewFileSet()
	imp := importer.ForCompiler(fset, "source", nil)
	var sites []site
	for _, sc := range scope {
		pkgs, err := parser.ParseDir(fset, sc.dir, func(fi os.FileInfo) bool {
			return !strings.HasSuffix(fi.Name(), "_test.go") && !strings.Contains(fi.Name(), "verif")
		}, 0)
		if err != nil {
			fmt.Fprintln(os.Stderr, "parse", sc.dir, err)
			os.Exit(1)
		}
		for _, pkg := range pkgs {
			var files []*ast.File
			var names []string
			for n := range pkg.Files {
				names = append(names, n)
			}
			sort.Strings(names)
			for _, n := range names {
				files = append(files, pkg.Files[n])
			}
			info := &types.Info{Types: map[ast.Expr]types.TypeAndValue{}, Uses: map[*ast.Ident]types.Object{}, Selections: map[*ast.SelectorExpr]*types.Selection{}}
			conf := types.Config{Importer: imp, FakeImportC: true, Error: func(err error) {}}
			conf.Check("com.tuntun.rangers/node/"+sc.dir, fset, files, info)
			want := map[string]bool{}
			for _, f := range sc.files {
				want[f] = true
			}
			for i, f := range files {
				base := filepath.Base(names[i])
				if len(want) > 0 && !want[base] {
					continue
				}
				rel := sc.dir + "/" + base
				for _, d := range f.Decls {
					if gd, ok := d.(*ast.GenDecl); ok && gd.Tok == token.TYPE {
						for _, sp := range gd.Specs {
							ts, ok := sp.(*ast.TypeSpec)
							if !ok || !fieldListTypes[ts.Name.Name] || !strings.HasPrefix(rel, "src/storage/account/") {
								continue
							}
							if st, ok := ts.Type.(*ast.StructType); ok {
								var fl []string
								for _, fd := range st.Fields.List {
									ty := exprString(fset, fd.Type)
									if len(fd.Names) == 0 {
										fl = append(fl, ty)
									}
									for _, nm := range fd.Names {
										fl = append(fl, nm.Name+" "+ty)
									}
								}
								sites = append(sites, site{"fields", rel, ts.Name.Name, strings.Join(fl, "; ")})
							}
						}
					}
					fd, ok := d.(*ast.FuncDecl)
					if !ok || fd.Body == nil {
						continue
					}
					fn := fd.Name.Name
					if rel == "src/core/vmexecutor.go" && (fn == "removeUnusedValidator" || fn == "removeUnusedValidator1") {
						ast.Inspect(fd.Body, func(n ast.Node) bool {
							if bl, ok := n.(*ast.BasicLit); ok && bl.Kind == token.STRING && strings.HasPrefix(bl.Value, "\"0x") {
								idLists[fn] = append(idLists[fn], strings.Trim(bl.Value, "\"")[2:])
							}
							return true
						})
					}
					if fd.Recv != nil && len(fd.Recv.List) > 0 {
						fn = strings.TrimPrefix(exprString(fset, fd.Recv.List[0].Type), "*") + "." + fn
					}
					if guardFuncs[fn] {
						sites = append(sites, site{"guards", rel, fn, guardsOf(info, fd.Body)})
					}
					if rel == "src/core/vmexecutor.go" && fn == "VMExecutor.Execute" {
						sites = append(sites, site{"order", rel, fn, callOrder(fd.Body)})
					}
					if rel == "src/vm/instructions.go" && fn == "opBlockhash" {
						sites = append(sites, site{"bound", rel, fn, hashWindow(fset, fd.Body)})
					}
					usesFloat := false
					var stack []ast.Node
					ast.Inspect(fd.Body, func(n ast.Node) bool {
						if n == nil {
							stack = stack[:len(stack)-1]
							return true
						}
						stack = append(stack, n)
						switch x := n.(type) {
						case *ast.RangeStmt:
							tv, ok := info.Types[x.X]
							if !ok || tv.Type == nil {
								sites = append(sites, site{"unknownrange", rel, fn, exprString(fset, x.X) + " " + bodyShape(x.Body)})
							} else if _, isMap := tv.Type.Underlying().(*types.Map); isMap {
								sites = append(sites, site{"maprange", rel, fn, exprString(fset, x.X) + " " + bodyShape(x.Body)})
							}
						case *ast.GoStmt:
							sites = append(sites, site{"go", rel, fn, exprString(fset, x.Call.Fun)})
						case *ast.CallExpr:
							if se, ok := x.Fun.(*ast.SelectorExpr); ok {
								full := exprString(fset, se)
								switch {
								case full == "time.Now" || full == "time.Since" || full == "utility.GetTime":
									sites = append(sites, site{"clock", rel, fn, full + " " + clockContext(stack)})
								case strings.HasPrefix(full, "rand.") || full == "base.NewRand":
									sites = append(sites, site{"rand", rel, fn, full})
								case se.Sel.Name == "Range":
									if sel := info.Selections[se]; sel != nil && strings.Contains(sel.Recv().String(), "sync.Map") {
										sites = append(sites, site{"syncrange", rel, fn, exprString(fset, se.X)})
									}
								}
							}
							if se, ok := x.Fun.(*ast.SelectorExpr); ok && strings.HasPrefix(se.Sel.Name, "IsProposal") {
								if pk, ok := se.X.(*ast.Ident); ok && pk.Name == "common" {
									sites = append(sites, site{"flag", rel, fn, se.Sel.Name})
								}
							}
							if se, ok := x.Fun.(*ast.SelectorExpr); ok && (se.Sel.Name == "GetBlockHeight" || se.Sel.Name == "SetBlockHeight") {
								if pk, ok := se.X.(*ast.Ident); ok && pk.Name == "common" {
									sites = append(sites, site{"chainheight", rel, fn, se.Sel.Name})
								}
							}
							if id, ok := x.Fun.(*ast.Ident); ok && id.Name == "float64" {
								usesFloat = true
							}
						case *ast.BinaryExpr:
							if tv, ok := info.Types[x]; ok && tv.Type != nil {
								if b, ok := tv.Type.Underlying().(*types.Basic); ok && b.Info()&types.IsFloat != 0 {
									usesFloat = true
								}
							}
						}
						return true
					})
					if usesFloat {
						sites = append(sites, site{"float", rel, fn, "float64 arithmetic"})
					}
				}
			}
		}
	}
	sites = append(sites, procStatePass(fset, imp)...)
	// stable order, ordinal for repeated identical descriptions
	sort.SliceStable(sites, func(i, j int) bool {
		a, b := sites[i], sites[j]
		if a.file != b.file {
			return a.file < b.file
		}
		if a.fn != b.fn {
			return a.fn < b.fn
		}
		if a.kind != b.kind {
			return a.kind < b.kind
		}
		return a.detail < b.detail
	})
	seen := map[string]int{}
	var sb strings.Builder
	sb.WriteString("/- GENERATED by gen/cmd/c01facts from the go-rangers working tree; do not edit.\n")
	sb.WriteString("   Inventory of range-over-map / sync.Map.Range / clock / rand / go / float sites on the\n")
	sb.WriteString("   block-execution path. key = FNV-1a(kind|file|func|detail|ordinal) >> 12. -/\n")
	sb.WriteString("namespace Rangers.Generated.NondetSites\n\n")
	sb.WriteString("structure Site where\n  key : Nat\n  kind : String\n  file : String\n  func : String\n  detail : String\n  deriving Repr\n\n")
	sb.WriteString("def sites : List Site := [\n")
	var keys []string
	for i, s := range sites {
		id := s.kind + "|" + s.file + "|" + s.fn + "|" + s.detail
		ord := seen[id]
		seen[id]++
		k := fnv(fmt.Sprintf("%s|%d", id, ord))
		keys = append(keys, fmt.Sprint(k))
		sep := ","
		if i == len(sites)-1 {
			sep = ""
		}
		fmt.Fprintf(&sb, "  ⟨%d, %q, %q, %q, %q⟩%s\n", k, s.kind, s.file, s.fn, s.detail, sep)
	}
	sb.WriteString("]\n\n")
	sb.WriteString("def siteKeys : List Nat := [" + strings.Join(keys, ", ") + "]\n\n")
	for _, nm := range []struct{ fn, def string }{{"removeUnusedValidator", "unusedValidators010"}, {"removeUnusedValidator1", "whitelist019"}} {
		var nums []string
		for _, h := range idLists[nm.fn] {
			v, ok := new(big.Int).SetString(h, 16)
			if ok {
				nums = append(nums, v.String())
			}
		}
		fmt.Fprintf(&sb, "/-- validator ids hard-coded in core.%s (as numbers) -/\ndef %s : List Nat := [%s]\n\n", nm.fn, nm.def, strings.Join(nums, ", "))
	}
	sb.WriteString(extractConsts(fset))
	sb.WriteString("\nend Rangers.Generated.NondetSites\n")
	fmt.Print(sb.String())
}
