// c05facts: T-gen translator for property C05. Re-extracts from src/core/*.go of the working tree
//   * the ordered call sequences of insertBlock, remove, ensureChainConsistency, updateTxPool,
//     removeFromCommonAncestor (calls through the chain receiver, store/cache calls with their arguments),
//   * the caller inventory of the block-adding / block-removing functions of blockChain,
//   * the inventory of functions that write the three index stores directly,
// and prints lean/Rangers/Generated/C05Facts.lean. Props/C05Facts.lean proves by `decide` that these are
// the sequences the model performs and that every path goes through the guarded functions, so a moved
// statement, a swapped cache key or a new call site breaks a proof obligation.
package main

import (
	"bytes"
	"fmt"
	"go/ast"
	"go/parser"
	"go/printer"
	"go/token"
	"os"
	"path/filepath"
	"sort"
	"strings"
)

type env map[string]string // identifier -> type name

func typeName(e ast.Expr) string {
	switch t := e.(type) {
	case *ast.StarExpr:
		return typeName(t.X)
	case *ast.Ident:
		return t.Name
	case *ast.SelectorExpr:
		return typeName(t.X) + "." + t.Sel.Name
	}
	return "?"
}

func render(fset *token.FileSet, n ast.Node) string {
	var b bytes.Buffer
	printer.Fprint(&b, fset, n)
	return strings.Join(strings.Fields(b.String()), " ")
}

// norm renders an expression with identifiers blanked (so a renamed local does not matter) but operators,
// literals, field / method names and call structure kept (so a changed comparison, constant or guard does).
func norm(e ast.Expr) string {
	switch x := e.(type) {
	case *ast.BinaryExpr:
		return "(" + norm(x.X) + " " + x.Op.String() + " " + norm(x.Y) + ")"
	case *ast.UnaryExpr:
		return x.Op.String() + norm(x.X)
	case *ast.ParenExpr:
		return norm(x.X)
	case *ast.BasicLit:
		return x.Value
	case *ast.Ident:
		if x.Name == "nil" || x.Name == "true" || x.Name == "false" {
			return x.Name
		}
		return "_"
	case *ast.SelectorExpr:
		return norm(x.X) + "." + x.Sel.Name
	case *ast.IndexExpr:
		return norm(x.X) + "[" + norm(x.Index) + "]"
	case *ast.StarExpr:
		return "*" + norm(x.X)
	case *ast.CallExpr:
		var as []string
		for _, a := range x.Args {
			as = append(as, norm(a))
		}
		return norm(x.Fun) + "(" + strings.Join(as, ",") + ")"
	}
	return "?"
}

// skeleton lists, in source order, every `if` condition and every `return` of a function body (normalised).
func skeleton(body *ast.BlockStmt) []string {
	var out []string
	ast.Inspect(body, func(n ast.Node) bool {
		switch x := n.(type) {
		case *ast.FuncLit:
			return false // deferred / spawned closures are not part of the decision
		case *ast.IfStmt:
			out = append(out, "if "+norm(x.Cond))
		case *ast.ReturnStmt:
			var rs []string
			for _, r := range x.Results {
				rs = append(rs, norm(r))
			}
			out = append(out, "return "+strings.Join(rs, ","))
		}
		return true
	})
	return out
}

func main() {
	repo := "/repo"
	for _, a := range os.Args[1:] {
		if strings.HasPrefix(a, "repo=") {
			repo = a[5:]
		}
	}
	dir := filepath.Join(repo, "src", "core")
	fset := token.NewFileSet()
	files, _ := filepath.Glob(filepath.Join(dir, "*.go"))
	sort.Strings(files)
	var parsed []*ast.File
	globals := env{}
	consts := map[string]string{} // package constants with a literal value
	for _, f := range files {
		base := filepath.Base(f)
		if strings.HasSuffix(base, "_test.go") || strings.HasPrefix(base, "verif_") {
			continue
		}
		af, err := parser.ParseFile(fset, f, nil, 0)
		if err != nil {
			fmt.Fprintln(os.Stderr, "parse:", err)
			os.Exit(1)
		}
		parsed = append(parsed, af)
		for _, d := range af.Decls {
			if g, ok := d.(*ast.GenDecl); ok && g.Tok == token.CONST {
				for _, sp := range g.Specs {
					vs := sp.(*ast.ValueSpec)
					for i, n := range vs.Names {
						if i < len(vs.Values) {
							if bl, ok := vs.Values[i].(*ast.BasicLit); ok {
								consts[n.Name] = bl.Value
							}
						}
					}
				}
			}
			if g, ok := d.(*ast.GenDecl); ok && g.Tok == token.VAR {
				for _, sp := range g.Specs {
					vs := sp.(*ast.ValueSpec)
					if vs.Type != nil {
						for _, n := range vs.Names {
							globals[n.Name] = typeName(vs.Type)
						}
					}
				}
			}
		}
	}
	tracked := map[string]bool{"insertBlock": true, "remove": true, "removeFromCommonAncestor": true, "addBlockOnChain": true,
		"ensureChainConsistency": true, "AddBlockOnChain": true}
	stores := map[string]bool{"hashDB": true, "heightDB": true, "verifyHashDB": true}
	seqOf := map[string]bool{"insertBlock": true, "remove": true, "ensureChainConsistency": true, "updateTxPool": true,
		"removeFromCommonAncestor": true, "updateLastBlock": true, "saveStates": true, "triggerOnChain": true, "tryAddBlockOnChain": true}
	seqs := map[string][]string{}
	skelOf := map[string]bool{"chainPvGreatThanRemote": true, "getRequestIdFromTransactions": true, "nextPvGreatThanFork": true,
		"verifyBlock": true, "consensusVerify": true}
	skels := map[string][]string{}
	var callers, writers, caps, flagReads, globalWrites [][2]string
	onPath := map[string]bool{"AddBlockOnChain": true, "consensusVerify": true, "addBlockOnChain": true, "verifyBlock": true, "checkStates": true,
		"insertBlock": true, "saveBlockByHash": true, "saveBlockByHeight": true, "saveStates": true, "updateVerifyHash": true,
		"updateTxPool": true, "updateLastBlock": true, "successOnChainCallBack": true, "removeFromCommonAncestor": true, "remove": true,
		"ensureChainConsistency": true, "markAddBlock": true, "eraseAddBlockMark": true, "markRemoveBlock": true, "eraseRemoveBlockMark": true,
		"hasPreBlock": true, "missTransaction": true, "validateGroupSig": true, "queryBlockByHash": true, "QueryBlockHeaderByHeight": true}
	for _, af := range parsed {
		for _, d := range af.Decls {
			fd, ok := d.(*ast.FuncDecl)
			if !ok || fd.Body == nil {
				continue
			}
			e := env{}
			for k, v := range globals {
				e[k] = v
			}
			recvT, recvN := "", ""
			if fd.Recv != nil && len(fd.Recv.List) > 0 {
				recvT = typeName(fd.Recv.List[0].Type)
				if len(fd.Recv.List[0].Names) > 0 {
					recvN = fd.Recv.List[0].Names[0].Name
					e[recvN] = recvT
				}
			}
			if fd.Type.Params != nil {
				for _, p := range fd.Type.Params.List {
					for _, n := range p.Names {
						e[n.Name] = typeName(p.Type)
					}
				}
			}
			if skelOf[fd.Name.Name] {
				skels[fd.Name.Name] = skeleton(fd.Body)
			}
			fname := fd.Name.Name
			if recvT != "" {
				fname = recvT + "." + fname
			}
			// locals introduced as  x := &T{...}  /  x := T{...}
			ast.Inspect(fd.Body, func(n ast.Node) bool {
				as, ok := n.(*ast.AssignStmt)
				if !ok || as.Tok != token.DEFINE || len(as.Lhs) != len(as.Rhs) {
					return true
				}
				for i, l := range as.Lhs {
					id, ok := l.(*ast.Ident)
					if !ok {
						continue
					}
					r := as.Rhs[i]
					if u, ok := r.(*ast.UnaryExpr); ok && u.Op == token.AND {
						r = u.X
					}
					if cl, ok := r.(*ast.CompositeLit); ok && cl.Type != nil {
						e[id.Name] = typeName(cl.Type)
					}
				}
				return true
			})
			if fd.Name.Name == "initBlockChain" {
				// chain.X, err = lru.New(N)
				ast.Inspect(fd.Body, func(n ast.Node) bool {
					as, ok := n.(*ast.AssignStmt)
					if !ok || len(as.Rhs) != 1 || len(as.Lhs) < 1 {
						return true
					}
					call, ok := as.Rhs[0].(*ast.CallExpr)
					if !ok || render(fset, call.Fun) != "lru.New" || len(call.Args) != 1 {
						return true
					}
					if l, ok := as.Lhs[0].(*ast.SelectorExpr); ok {
						v := render(fset, call.Args[0])
						if cv, ok := consts[v]; ok {
							v = cv
						}
						caps = append(caps, [2]string{l.Sel.Name, v})
					}
					return true
				})
			}
			if recvT == "blockChain" && onPath[fd.Name.Name] {
				// fork-configuration reads and writes of package-level state on the property's path
				ast.Inspect(fd.Body, func(n ast.Node) bool {
					switch x := n.(type) {
					case *ast.CallExpr:
						if sel, ok := x.Fun.(*ast.SelectorExpr); ok {
							if id, ok := sel.X.(*ast.Ident); ok && id.Name == "common" && strings.HasPrefix(sel.Sel.Name, "IsProposal") {
								flagReads = append(flagReads, [2]string{fd.Name.Name, sel.Sel.Name})
							}
						}
					case *ast.AssignStmt:
						for _, l := range x.Lhs {
							root := l
							for {
								if se, ok := root.(*ast.SelectorExpr); ok {
									root = se.X
								} else if ie, ok := root.(*ast.IndexExpr); ok {
									root = ie.X
								} else {
									break
								}
							}
							if id, ok := root.(*ast.Ident); ok {
								if _, isGlobal := globals[id.Name]; isGlobal || id.Name == "common" || id.Name == "middleware" {
									if _, local := e[id.Name]; !local || isGlobal {
										globalWrites = append(globalWrites, [2]string{fd.Name.Name, render(fset, l)})
									}
								}
							}
						}
					}
					return true
				})
			}
			wantSeq := recvT == "blockChain" && seqOf[fd.Name.Name]
			ast.Inspect(fd.Body, func(n ast.Node) bool {
				call, ok := n.(*ast.CallExpr)
				if !ok {
					return true
				}
				sel, ok := call.Fun.(*ast.SelectorExpr)
				if !ok {
					return true
				}
				// X.m(...)
				if id, ok := sel.X.(*ast.Ident); ok {
					t, known := e[id.Name]
					if !known {
						t = "?" + id.Name
					}
					if tracked[sel.Sel.Name] && (t == "blockChain" || strings.HasPrefix(t, "?")) {
						callers = append(callers, [2]string{t + "." + sel.Sel.Name, fname})
					}
					if wantSeq && id.Name == recvN {
						seqs[fd.Name.Name] = append(seqs[fd.Name.Name], sel.Sel.Name)
					}
					// the sync fork switch drives the chain through a parameter / the package singleton
					if (fd.Name.Name == "triggerOnChain" || fd.Name.Name == "tryAddBlockOnChain") && t == "blockChain" {
						seqs[fd.Name.Name] = append(seqs[fd.Name.Name], sel.Sel.Name)
					}
				}
				// X.field.m(...)
				if inner, ok := sel.X.(*ast.SelectorExpr); ok {
					if id, ok := inner.X.(*ast.Ident); ok {
						t := e[id.Name]
						if t == "blockChain" && stores[inner.Sel.Name] && (sel.Sel.Name == "Put" || sel.Sel.Name == "Delete") {
							writers = append(writers, [2]string{inner.Sel.Name + "." + sel.Sel.Name, fname})
						}
						if wantSeq && id.Name == recvN {
							var args []string
							for _, a := range call.Args {
								args = append(args, render(fset, a))
							}
							seqs[fd.Name.Name] = append(seqs[fd.Name.Name], inner.Sel.Name+"."+sel.Sel.Name+"("+strings.Join(args, ", ")+")")
						}
					}
				}
				return true
			})
		}
	}
	sort.Slice(callers, func(i, j int) bool { return callers[i][0]+callers[i][1] < callers[j][0]+callers[j][1] })
	sort.Slice(writers, func(i, j int) bool { return writers[i][0]+writers[i][1] < writers[j][0]+writers[j][1] })
	q := func(s string) string { return "\"" + strings.ReplaceAll(strings.ReplaceAll(s, "\\", "\\\\"), "\"", "\\\"") + "\"" }
	var out strings.Builder
	out.WriteString("-- GENERATED by gen/cmd/c05facts from src/core/*.go of the working tree; do not edit.\n")
	out.WriteString("namespace Rangers.Generated.C05Facts\n\n")
	names := make([]string, 0, len(seqOf))
	for k := range seqOf {
		names = append(names, k)
	}
	sort.Strings(names)
	for _, k := range names {
		out.WriteString("/-- calls on the chain in `" + k + "`, in source order -/\n")
		out.WriteString("def " + k + "Calls : List String := [\n")
		for i, c := range seqs[k] {
			sep := ","
			if i == len(seqs[k])-1 {
				sep = ""
			}
			out.WriteString("  " + q(c) + sep + "\n")
		}
		out.WriteString("]\n\n")
	}
	sk := make([]string, 0, len(skels))
	for k := range skels {
		sk = append(sk, k)
	}
	sort.Strings(sk)
	for _, k := range sk {
		out.WriteString("/-- guards and returns of `" + k + "` in source order, identifiers blanked -/\n")
		out.WriteString("def " + k + "Skeleton : List String := [\n")
		for i, c := range skels[k] {
			sep := ","
			if i == len(skels[k])-1 {
				sep = ""
			}
			out.WriteString("  " + q(c) + sep + "\n")
		}
		out.WriteString("]\n\n")
	}
	pairs := func(name, doc string, xs [][2]string) {
		out.WriteString("/-- " + doc + " -/\ndef " + name + " : List (String × String) := [\n")
		for i, c := range xs {
			sep := ","
			if i == len(xs)-1 {
				sep = ""
			}
			out.WriteString("  (" + q(c[0]) + ", " + q(c[1]) + ")" + sep + "\n")
		}
		out.WriteString("]\n\n")
	}
	pairs("callers", "(callee, calling function) for every call of a block-adding / block-removing blockChain method in package core", callers)
	pairs("cacheCaps", "(cache field, capacity) from the lru.New calls of initBlockChain (topBlocksCacheSize = 100)", caps)
	sort.Slice(flagReads, func(i, j int) bool { return flagReads[i][0]+flagReads[i][1] < flagReads[j][0]+flagReads[j][1] })
	pairs("flagReads", "(function, common.IsProposalNNN) for every fork-configuration read in the blockChain functions on the add/remove/repair path", flagReads)
	pairs("globalWrites", "(function, assigned expression) for every assignment to package-level state in those functions", globalWrites)
	pairs("writers", "(store.op, function) for every direct write of an index store of blockChain", writers)
	out.WriteString("end Rangers.Generated.C05Facts\n")
	fmt.Print(out.String())
}
