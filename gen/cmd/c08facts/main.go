// c08facts: T-gen translator for C08. Reads src/storage/rlp/{decode,raw}.go of the working
// tree (cwd = repo root) with go/parser and prints, in source order, the *shape* of every
// comparison in the functions that guard reads and allocations:
//
//	Stream.Kind, Stream.willRead, Stream.readKind, Stream.readUint (decode.go); readKind, readSize (raw.go)
//
// Shape = the expression with every identifier/selector/index replaced by `v`, every literal
// by `c`, every call by `f`, keeping the operators and parentheses, e.g. `v > (v - v)`.
// Renaming a variable does not change the output; rewriting `a > b - c` as `c + a > b` does.
// Output: one line per comparison, `<func>\t<shape>`.
package main

import (
	"fmt"
	"go/ast"
	"go/parser"
	"go/token"
	"os"
)

func shape(e ast.Expr) string {
	switch x := e.(type) {
	case *ast.BinaryExpr:
		return "(" + shape(x.X) + " " + x.Op.String() + " " + shape(x.Y) + ")"
	case *ast.ParenExpr:
		return shape(x.X)
	case *ast.UnaryExpr:
		return x.Op.String() + shape(x.X)
	case *ast.BasicLit:
		return "c"
	case *ast.CallExpr:
		// conversions like uint64(len(buf)) and calls alike
		return "f"
	case *ast.Ident:
		if x.Name == "nil" {
			return "nil"
		}
		return "v"
	case *ast.SelectorExpr, *ast.IndexExpr, *ast.StarExpr:
		return "v"
	}
	return "?"
}

func isCmp(op token.Token) bool {
	return op == token.GTR || op == token.LSS || op == token.GEQ || op == token.LEQ
}

// poolFacts prints, for every function of encode.go that touches encbufPool, how often it calls
// Get and Put and how many of the Puts are deferred: `pool\t<func>\t<gets>\t<puts>\t<deferred puts>`.
// The buffer of EncodeToReader belongs to the returned reader until EOF, so that function must
// not Put at all and the reader's Read must Put (not deferred: only on its EOF path).
func poolFacts() {
	file := "src/storage/rlp/encode.go"
	fset := token.NewFileSet()
	f, err := parser.ParseFile(fset, file, nil, 0)
	if err != nil {
		fmt.Fprintln(os.Stderr, err)
		os.Exit(1)
	}
	isPool := func(c *ast.CallExpr, name string) bool {
		se, ok := c.Fun.(*ast.SelectorExpr)
		if !ok || se.Sel.Name != name {
			return false
		}
		id, ok := se.X.(*ast.Ident)
		return ok && id.Name == "encbufPool"
	}
	for _, d := range f.Decls {
		fd, ok := d.(*ast.FuncDecl)
		if !ok || fd.Body == nil {
			continue
		}
		name := fd.Name.Name
		if fd.Recv != nil && len(fd.Recv.List) == 1 {
			t := fd.Recv.List[0].Type
			if st, ok := t.(*ast.StarExpr); ok {
				t = st.X
			}
			if id, ok := t.(*ast.Ident); ok {
				name = id.Name + "." + name
			}
		}
		gets, puts, dputs := 0, 0, 0
		ast.Inspect(fd.Body, func(n ast.Node) bool {
			switch x := n.(type) {
			case *ast.DeferStmt:
				if isPool(x.Call, "Put") {
					dputs++
				}
			case *ast.CallExpr:
				if isPool(x, "Get") {
					gets++
				}
				if isPool(x, "Put") {
					puts++
				}
			}
			return true
		})
		if gets+puts > 0 {
			fmt.Printf("pool\t%s\t%d\t%d\t%d\n", name, gets, puts, dputs)
		}
	}
}

// stateFacts prints the imports of the package's files (`import\t<file>\t<path>`) and every write to a
// package-level variable inside a function (`pkgwrite\t<func>\t<var>`): assignments, inc/dec, delete()
// whose target's root identifier is a package-level var. (Shadowing is ignored: a local with the
// name of a package variable would show up here and has to be looked at.)
func stateFacts() {
	files := []string{"src/storage/rlp/decode.go", "src/storage/rlp/encode.go", "src/storage/rlp/raw.go", "src/storage/rlp/typecache.go"}
	fset := token.NewFileSet()
	var parsed []*ast.File
	pkgVars := map[string]bool{}
	for _, file := range files {
		f, err := parser.ParseFile(fset, file, nil, 0)
		if err != nil {
			fmt.Fprintln(os.Stderr, err)
			os.Exit(1)
		}
		parsed = append(parsed, f)
		for _, im := range f.Imports {
			fmt.Printf("import\t%s\t%s\n", file[len("src/storage/rlp/"):], im.Path.Value[1:len(im.Path.Value)-1])
		}
		for _, d := range f.Decls {
			if gd, ok := d.(*ast.GenDecl); ok && gd.Tok == token.VAR {
				for _, sp := range gd.Specs {
					for _, n := range sp.(*ast.ValueSpec).Names {
						pkgVars[n.Name] = true
					}
				}
			}
		}
	}
	var root func(e ast.Expr) string
	root = func(e ast.Expr) string {
		switch x := e.(type) {
		case *ast.Ident:
			return x.Name
		case *ast.IndexExpr:
			return root(x.X)
		case *ast.SelectorExpr:
			return root(x.X)
		case *ast.StarExpr:
			return root(x.X)
		case *ast.ParenExpr:
			return root(x.X)
		}
		return ""
	}
	for _, f := range parsed {
		for _, d := range f.Decls {
			fd, ok := d.(*ast.FuncDecl)
			if !ok || fd.Body == nil {
				continue
			}
			name := fd.Name.Name
			seen := map[string]bool{}
			hit := func(v string) {
				if pkgVars[v] && !seen[v] {
					seen[v] = true
					fmt.Printf("pkgwrite\t%s\t%s\n", name, v)
				}
			}
			ast.Inspect(fd.Body, func(n ast.Node) bool {
				switch x := n.(type) {
				case *ast.AssignStmt:
					if x.Tok != token.DEFINE {
						for _, l := range x.Lhs {
							hit(root(l))
						}
					}
				case *ast.IncDecStmt:
					hit(root(x.X))
				case *ast.CallExpr:
					if id, ok := x.Fun.(*ast.Ident); ok && id.Name == "delete" && len(x.Args) > 0 {
						hit(root(x.Args[0]))
					}
				}
				return true
			})
		}
	}
}

// convFacts prints every conversion to a narrower integer type in decode.go with the syntactic
// context it occurs in: `conv\t<func>\t<type>\t<context>`, context = arg (argument of a call),
// assign (right-hand side of := or =), cond (inside an if/switch condition), other.  A size that is
// narrowed BEFORE it is range-checked shows up as a new `assign`/`cond` entry.
func convFacts() {
	file := "src/storage/rlp/decode.go"
	fset := token.NewFileSet()
	f, err := parser.ParseFile(fset, file, nil, 0)
	if err != nil {
		fmt.Fprintln(os.Stderr, err)
		os.Exit(1)
	}
	narrow := map[string]bool{"byte": true, "uint8": true, "uint16": true, "uint32": true, "int": true, "int8": true, "int16": true, "int32": true}
	for _, d := range f.Decls {
		fd, ok := d.(*ast.FuncDecl)
		if !ok || fd.Body == nil {
			continue
		}
		name := fd.Name.Name
		if fd.Recv != nil && len(fd.Recv.List) == 1 {
			t := fd.Recv.List[0].Type
			if st, ok := t.(*ast.StarExpr); ok {
				t = st.X
			}
			if id, ok := t.(*ast.Ident); ok {
				name = id.Name + "." + name
			}
		}
		var walk func(n ast.Node, ctx string)
		walk = func(n ast.Node, ctx string) {
			if n == nil {
				return
			}
			switch x := n.(type) {
			case *ast.CallExpr:
				if id, ok := x.Fun.(*ast.Ident); ok && narrow[id.Name] && len(x.Args) == 1 {
					if _, lit := x.Args[0].(*ast.BasicLit); !lit {
						fmt.Printf("conv\t%s\t%s\t%s\n", name, id.Name, ctx)
					}
					walk(x.Args[0], ctx)
					return
				}
				walk(x.Fun, ctx)
				for _, a := range x.Args {
					c := "arg"
					if ctx == "cond" {
						c = "cond"
					}
					walk(a, c)
				}
				return
			case *ast.AssignStmt:
				for _, l := range x.Lhs {
					walk(l, "other")
				}
				for _, r := range x.Rhs {
					walk(r, "assign")
				}
				return
			case *ast.IfStmt:
				walk(x.Init, "other")
				walk(x.Cond, "cond")
				walk(x.Body, "other")
				walk(x.Else, "other")
				return
			case *ast.SwitchStmt:
				walk(x.Init, "other")
				walk(x.Tag, "cond")
				walk(x.Body, "other")
				return
			case *ast.CaseClause:
				for _, e := range x.List {
					walk(e, "cond")
				}
				for _, st := range x.Body {
					walk(st, "other")
				}
				return
			}
			// generic descent keeping the context
			ast.Inspect(n, func(c ast.Node) bool {
				if c == n || c == nil {
					return true
				}
				walk(c, ctx)
				return false
			})
		}
		walk(fd.Body, "other")
	}
}

// returnFacts prints the number of return statements of every exported Stream method and of the
// stream-level helpers: `returns\t<func>\t<n>`. A new early exit (a fast path that skips the read or
// the re-arming of Kind) changes the count.
func returnFacts() {
	file := "src/storage/rlp/decode.go"
	fset := token.NewFileSet()
	f, err := parser.ParseFile(fset, file, nil, 0)
	if err != nil {
		fmt.Fprintln(os.Stderr, err)
		os.Exit(1)
	}
	for _, d := range f.Decls {
		fd, ok := d.(*ast.FuncDecl)
		if !ok || fd.Body == nil || fd.Recv == nil || len(fd.Recv.List) != 1 {
			continue
		}
		t := fd.Recv.List[0].Type
		if st, ok := t.(*ast.StarExpr); ok {
			t = st.X
		}
		if id, ok := t.(*ast.Ident); !ok || id.Name != "Stream" {
			continue
		}
		n := 0
		ast.Inspect(fd.Body, func(x ast.Node) bool {
			if _, ok := x.(*ast.FuncLit); ok {
				return false
			}
			if _, ok := x.(*ast.ReturnStmt); ok {
				n++
			}
			return true
		})
		fmt.Printf("returns\tStream.%s\t%d\n", fd.Name.Name, n)
	}
}

// cacheFacts prints the shape of every assignment (not :=) in typecache.go's cachedTypeInfo and
// cachedTypeInfo1: `cacheassign\t<func>\t<lhs shape> = <rhs shape>`. The placeholder entry that breaks
// recursion must be FILLED IN PLACE (`*v[v] = *v`): coders generated while a recursive type is under
// construction hold a pointer to it.
func cacheFacts() {
	file := "src/storage/rlp/typecache.go"
	fset := token.NewFileSet()
	f, err := parser.ParseFile(fset, file, nil, 0)
	if err != nil {
		fmt.Fprintln(os.Stderr, err)
		os.Exit(1)
	}
	var sh func(e ast.Expr) string
	sh = func(e ast.Expr) string {
		switch x := e.(type) {
		case *ast.StarExpr:
			return "*" + sh(x.X)
		case *ast.IndexExpr:
			return sh(x.X) + "[" + sh(x.Index) + "]"
		case *ast.CallExpr:
			return "f"
		case *ast.Ident, *ast.SelectorExpr:
			return "v"
		case *ast.CompositeLit:
			return "lit"
		}
		return "?"
	}
	for _, d := range f.Decls {
		fd, ok := d.(*ast.FuncDecl)
		if !ok || fd.Body == nil || (fd.Name.Name != "cachedTypeInfo" && fd.Name.Name != "cachedTypeInfo1") {
			continue
		}
		ast.Inspect(fd.Body, func(n ast.Node) bool {
			if as, ok := n.(*ast.AssignStmt); ok && as.Tok == token.ASSIGN && len(as.Lhs) == 1 && len(as.Rhs) == 1 {
				fmt.Printf("cacheassign\t%s\t%s = %s\n", fd.Name.Name, sh(as.Lhs[0]), sh(as.Rhs[0]))
			}
			return true
		})
	}
}

func main() {
	cacheFacts()
	returnFacts()
	convFacts()
	stateFacts()
	poolFacts()
	want := map[string]map[string]bool{
		"src/storage/rlp/decode.go": {"Stream.Kind": true, "Stream.willRead": true, "Stream.readKind": true, "Stream.readUint": true},
		"src/storage/rlp/raw.go":    {"readKind": true, "readSize": true},
	}
	for _, file := range []string{"src/storage/rlp/decode.go", "src/storage/rlp/raw.go"} {
		fset := token.NewFileSet()
		f, err := parser.ParseFile(fset, file, nil, 0)
		if err != nil {
			fmt.Fprintln(os.Stderr, err)
			os.Exit(1)
		}
		found := map[string]bool{}
		for _, d := range f.Decls {
			fd, ok := d.(*ast.FuncDecl)
			if !ok || fd.Body == nil {
				continue
			}
			name := fd.Name.Name
			if fd.Recv != nil && len(fd.Recv.List) == 1 {
				t := fd.Recv.List[0].Type
				if st, ok := t.(*ast.StarExpr); ok {
					t = st.X
				}
				if id, ok := t.(*ast.Ident); ok {
					name = id.Name + "." + name
				}
			}
			if !want[file][name] {
				continue
			}
			found[name] = true
			label := name
			if file == "src/storage/rlp/raw.go" {
				label = "raw." + name
			}
			ast.Inspect(fd.Body, func(n ast.Node) bool {
				if be, ok := n.(*ast.BinaryExpr); ok && isCmp(be.Op) {
					s := shape(be)
					fmt.Printf("%s\t%s\n", label, s[1:len(s)-1])
				}
				return true
			})
		}
		for n := range want[file] {
			if !found[n] {
				fmt.Fprintf(os.Stderr, "c08facts: function %s not found in %s\n", n, file)
				os.Exit(1)
			}
		}
	}
}
