// c08facts: T-gen translator for C08. Reads src/storage/rlp/{decode,raw}.go of the working
// tree (cwd = repo root) with go/parser and prints, in source order, the *shape* of every
// comparison in the functions that guard reads and allocations:
//
//	Stream.Kind, Stream.willRead, Stream.readKind, Stream.readUint (decode.go); readKind, readSize (raw.go)
//
// Shape = the expression with every identifier/selector/index replaced by `v`, every literal
// by `c`, every call by `f`, keeping the operators and parentheses, e.g. `v > (v - v)`.
// Renaming a variable does not change the output; rewriting `a > b - c` as `c + a > b` does.
// Output: one line per comparison, `<func>\t<shape>`.
package main

import (
	"fmt"
	"go/ast"
	"go/parser"
	"go/token"
	"os"
)

func shape(e ast.Expr) string {
	switch x := e.(type) {
	case *ast.BinaryExpr:
		return "(" + shape(x.X) + " " + x.Op.String() + " " + shape(x.Y) + ")"
	case *ast.ParenExpr:
		return shape(x.X)
	case *ast.UnaryExpr:
		return x.Op.String() + shape(x.X)
	case *ast.BasicLit:
		return "c"
	case *ast.CallExpr:
		// conversions like uint64(len(buf)) and calls alike
		return "f"
	case *ast.Ident:
		if x.Name == "nil" {
			return "nil"
		}
		return "v"
	case *ast.SelectorExpr, *ast.IndexExpr, *ast.StarExpr:
		return "v"
	}
	return "?"
}

func isCmp(op token.Token) bool {
	return op == token.GTR || op == token.LSS || op == token.GEQ || op == token.LEQ
}

// poolFacts prints, for every function of encode.go that touches encbufPool, how often it calls
// Get and Put and how many of the Puts are deferred: `pool\t<func>\t<gets>\t<puts>\t<deferred puts>`.
// The buffer of EncodeToReader belongs to the returned reader until EOF, so that function must
// not Put at all and the reader's Read must Put (not deferred: only on its EOF path).
func poolFacts() {
	file := "src/storage/rlp/encode.go"
	fset := token.NewFileSet()
	f, err := parser.ParseFile(fset, file, nil, 0)
	if err != nil {
		fmt.Fprintln(os.Stderr, err)
		os.Exit(1)
	}
	isPool := func(c *ast.CallExpr, name string) bool {
		se, ok := c.Fun.(*ast.SelectorExpr)
		if !ok || se.Sel.Name != name {
			return false
		}
		id, ok := se.X.(*ast.Ident)
		return ok && id.Name == "encbufPool"
	}
	for _, d := range f.Decls {
		fd, ok := d.(*ast.FuncDecl)
		if !ok || fd.Body == nil {
			continue
		}
		name := fd.Name.Name
		if fd.Recv != nil && len(fd.Recv.List) == 1 {
			t := fd.Recv.List[0].Type
			if st, ok := t.(*ast.StarExpr); ok {
				t = st.X
			}
			if id, ok := t.(*ast.Ident); ok {
				name = id.Name + "." + name
			}
		}
		gets, puts, dputs := 0, 0, 0
		ast.Inspect(fd.Body, func(n ast.Node) bool {
			switch x := n.(type) {
			case *ast.DeferStmt:
				if isPool(x.Call, "Put") {
					dputs++
				}
			case *ast.CallExpr:
				if isPool(x, "Get") {
					gets++
				}
				if isPool(x, "Put") {
					puts++
				}
			}
			return true
		})
		if gets+puts > 0 {
			fmt.Printf("pool\t%s\t%d\t%d\t%d\n", name, gets, puts, dputs)
		}
	}
}

// stateFacts prints the imports of the package's files (`import\t<file>\t<path>`) and every write to a
// package-level variable inside a function (`pkgwrite\t<func>\t<var>`): assignments, inc/dec, delete()
// whose target's root identifier is a package-level var. (Shadowing is ignored: a local with the
// name of a package variable would show up here and has to be looked at.)
func stateFacts() {
	files := []string{"src/storage/rlp/decode.go", "src/storage/rlp/encode.go", "src/storage/rlp/raw.go", "src/storage/rlp/typecache.go"}
	fset := token.NewFileSet()
	var parsed []*ast.File
	pkgVars := map[string]bool{}
	for _, file := range files {
		f, err := parser.ParseFile(fset, file, nil, 0)
		if err != nil {
			fmt.Fprintln(os.Stderr, err)
			os.Exit(1)
		}
		parsed = append(parsed, f)
		for _, im := range f.Imports {
			fmt.Printf("import\t%s\t%s\n", file[len("src/storage/rlp/"):], im.Path.Value[1:len(im.Path.Value)-1])
		}
		for _, d := range f.Decls {
			if gd, ok := d.(*ast.GenDecl); ok && gd.Tok == token.VAR {
				for _, sp := range gd.Specs {
					for _, n := range sp.(*ast.ValueSpec).Names {
						pkgVars[n.Name] = true
					}
				}
			}
		}
	}
	var root func(e ast.Expr) string
	root = func(e ast.Expr) string {
		switch x := e.(type) {
		case *ast.Ident:
			return x.Name
		case *ast.IndexExpr:
			return root(x.X)
		case *ast.SelectorExpr:
			return root(x.X)
		case *ast.StarExpr:
			return root(x.X)
		case *ast.ParenExpr:
			return root(x.X)
		}
		return ""
	}
	for _, f := range parsed {
		for _, d := range f.Decls {
			fd, ok := d.(*ast.FuncDecl)
			if !ok || fd.Body == nil {
				continue
			}
			name := fd.Name.Name
			seen := map[string]bool{}
			hit := func(v string) {
				if pkgVars[v] && !seen[v] {
					seen[v] = true
					fmt.Printf("pkgwrite\t%s\t%s\n", name, v)
				}
			}
			ast.Inspect(fd.Body, func(n ast.Node) bool {
				switch x := n.(type) {
				case *ast.AssignStmt:
					if x.Tok != token.DEFINE {
						for _, l := range x.Lhs {
							hit(root(l))
						}
					}
				case *ast.IncDecStmt:
					hit(root(x.X))
				case *ast.CallExpr:
					if id, ok := x.Fun.(*ast.Ident); ok && id.Name == "delete" && len(x.Args) > 0 {
						hit(root(x.Args[0]))
					}
				}
				return true
			})
		}
	}
}

func main() {
	stateFacts()
	poolFacts()
	want := map[string]map[string]bool{
		"src/storage/rlp/decode.go": {"Stream.Kind": true, "Stream.willRead": true, "Stream.readKind": true, "Stream.readUint": true},
		"src/storage/rlp/raw.go":    {"readKind": true, "readSize": true},
	}
	for _, file := range []string{"src/storage/rlp/decode.go", "src/storage/rlp/raw.go"} {
		fset := token.NewFileSet()
		f, err := parser.ParseFile(fset, file, nil, 0)
		if err != nil {
			fmt.Fprintln(os.Stderr, err)
			os.Exit(1)
		}
		found := map[string]bool{}
		for _, d := range f.Decls {
			fd, ok := d.(*ast.FuncDecl)
			if !ok || fd.Body == nil {
				continue
			}
			name := fd.Name.Name
			if fd.Recv != nil && len(fd.Recv.List) == 1 {
				t := fd.Recv.List[0].Type
				if st, ok := t.(*ast.StarExpr); ok {
					t = st.X
				}
				if id, ok := t.(*ast.Ident); ok {
					name = id.Name + "." + name
				}
			}
			if !want[file][name] {
				continue
			}
			found[name] = true
			label := name
			if file == "src/storage/rlp/raw.go" {
				label = "raw." + name
			}
			ast.Inspect(fd.Body, func(n ast.Node) bool {
				if be, ok := n.(*ast.BinaryExpr); ok && isCmp(be.Op) {
					s := shape(be)
					fmt.Printf("%s\t%s\n", label, s[1:len(s)-1])
				}
				return true
			})
		}
		for n := range want[file] {
			if !found[n] {
				fmt.Fprintf(os.Stderr, "c08facts: function %s not found in %s\n", n, file)
				os.Exit(1)
			}
		}
	}
}
