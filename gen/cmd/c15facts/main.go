// c15facts: translator for property C15. Reads round_sign_piece.go (argument 1;
// round_sign_finalizer.go and ../model/message.go are found next to it), and
// prints Rangers/Generated/C15Facts.lean on stdout: the ordered list of guards
// and effects of round1.Update, round2.checkSignature and SignInfo.VerifySign,
// each recognised from its canonical form (locals replaced by their defining
// expressions, log calls dropped). A statement that is not recognised becomes
// `.unknown`, which breaks the proof obligation `update_shape` in Props/C15.lean.
package main

import (
	"bytes"
	"fmt"
	"go/ast"
	"go/parser"
	"go/printer"
	"go/token"
	"os"
	"path/filepath"
	"strings"
)

var fset = token.NewFileSet()

func show(n ast.Node) string {
	var b bytes.Buffer
	printer.Fprint(&b, fset, n)
	return strings.Join(strings.Fields(b.String()), " ")
}

// canon prints e with local identifiers replaced by their definitions.
func canon(e ast.Expr, defs map[string]string) string {
	var b bytes.Buffer
	var walk func(n ast.Expr)
	walk = func(n ast.Expr) {
		switch x := n.(type) {
		case *ast.Ident:
			if d, ok := defs[x.Name]; ok {
				b.WriteString(d)
			} else {
				b.WriteString(x.Name)
			}
		case *ast.SelectorExpr:
			walk(x.X)
			b.WriteString("." + x.Sel.Name)
		case *ast.CallExpr:
			if id, ok := x.Fun.(*ast.Ident); ok && id.Name == "NewError" {
				b.WriteString("NewError(..)") // the error text is not a fact the model depends on
				return
			}
			walk(x.Fun)
			b.WriteString("(")
			for i, a := range x.Args {
				if i > 0 {
					b.WriteString(", ")
				}
				walk(a)
			}
			b.WriteString(")")
		case *ast.UnaryExpr:
			b.WriteString(x.Op.String())
			walk(x.X)
		case *ast.StarExpr:
			b.WriteString("*")
			walk(x.X)
		case *ast.ParenExpr:
			b.WriteString("(")
			walk(x.X)
			b.WriteString(")")
		case *ast.BinaryExpr:
			walk(x.X)
			b.WriteString(" " + x.Op.String() + " ")
			walk(x.Y)
		case *ast.IndexExpr:
			walk(x.X)
			b.WriteString("[")
			walk(x.Index)
			b.WriteString("]")
		case *ast.TypeAssertExpr:
			walk(x.X)
			b.WriteString(".(" + show(x.Type) + ")")
		default:
			b.WriteString(show(n))
		}
	}
	walk(e)
	return b.String()
}

// stripLogs removes log-call statements from every statement list below n (in place).
func stripLogs(n ast.Node) {
	filter := func(l []ast.Stmt) []ast.Stmt {
		var out []ast.Stmt
		for _, s := range l {
			if !isLog(s) {
				out = append(out, s)
			}
		}
		return out
	}
	ast.Inspect(n, func(x ast.Node) bool {
		switch b := x.(type) {
		case *ast.BlockStmt:
			b.List = filter(b.List)
		case *ast.CaseClause:
			b.Body = filter(b.Body)
		case *ast.CommClause:
			b.Body = filter(b.Body)
		}
		return true
	})
}

func isLog(s ast.Stmt) bool {
	es, ok := s.(*ast.ExprStmt)
	if !ok {
		return false
	}
	c, ok := es.X.(*ast.CallExpr)
	if !ok {
		return false
	}
	sel, ok := c.Fun.(*ast.SelectorExpr)
	if !ok {
		return false
	}
	x := show(sel.X)
	return strings.HasSuffix(x, "logger") || strings.HasSuffix(x, "Logger")
}

func hasCall(e ast.Expr, name string) bool {
	found := false
	ast.Inspect(e, func(n ast.Node) bool {
		if c, ok := n.(*ast.CallExpr); ok {
			if s, ok := c.Fun.(*ast.SelectorExpr); ok && s.Sel.Name == name {
				found = true
			}
		}
		return true
	})
	return found
}

// flatten turns a function body into canonical significant statements.
func flatten(body *ast.BlockStmt, defs map[string]string, effectCalls []string) []string {
	var out []string
	stripLogs(body)
	for _, st := range body.List {
		if isLog(st) {
			continue
		}
		switch s := st.(type) {
		case *ast.AssignStmt:
			effect := false
			for _, r := range s.Rhs {
				for _, n := range effectCalls {
					if hasCall(r, n) {
						effect = true
					}
				}
			}
			if fl, ok := s.Rhs[0].(*ast.FuncLit); ok && s.Tok == token.DEFINE && len(s.Lhs) == 1 {
				out = append(out, "closure "+show(s.Lhs[0])+" "+show(fl.Body)) // a local closure's body is a fact too
				continue
			}
			if s.Tok == token.DEFINE && len(s.Rhs) == 1 {
				rhs := canon(s.Rhs[0], defs)
				if effect {
					out = append(out, "do "+rhs)
				}
				for i, l := range s.Lhs {
					id, ok := l.(*ast.Ident)
					if !ok || id.Name == "_" {
						continue
					}
					if len(s.Lhs) == 1 {
						defs[id.Name] = rhs
					} else {
						defs[id.Name] = fmt.Sprintf("%s#%d", rhs, i)
					}
				}
				continue
			}
			var l, r []string
			for _, x := range s.Lhs {
				l = append(l, canon(x, defs))
			}
			for _, x := range s.Rhs {
				r = append(r, canon(x, defs))
			}
			out = append(out, "set "+strings.Join(l, ", ")+" = "+strings.Join(r, ", "))
		case *ast.IfStmt:
			pre := ""
			if s.Init != nil {
				if a, ok := s.Init.(*ast.AssignStmt); ok && len(a.Rhs) == 1 && len(a.Lhs) == 1 {
					defs[a.Lhs[0].(*ast.Ident).Name] = canon(a.Rhs[0], defs)
				} else if ok && len(a.Rhs) == 1 && a.Tok == token.DEFINE {
					rhs := canon(a.Rhs[0], defs)
					for i, l := range a.Lhs {
						if id, ok := l.(*ast.Ident); ok && id.Name != "_" {
							defs[id.Name] = fmt.Sprintf("%s#%d", rhs, i)
						}
					}
				} else {
					pre = "init " + show(s.Init) + "; "
				}
			}
			inner := flatten(s.Body, defs, effectCalls)
			el := ""
			if s.Else != nil {
				el = " else {" + show(s.Else) + "}"
			}
			out = append(out, pre+"if "+canon(s.Cond, defs)+" {"+strings.Join(inner, "; ")+"}"+el)
		case *ast.ReturnStmt:
			var r []string
			for _, x := range s.Results {
				r = append(r, canon(x, defs))
			}
			out = append(out, "return "+strings.Join(r, ", "))
		case *ast.ExprStmt:
			out = append(out, "do "+canon(s.X, defs))
		case *ast.GoStmt:
			var calls []string
			ast.Inspect(s.Call, func(n ast.Node) bool {
				if c, ok := n.(*ast.CallExpr); ok {
					if sel, ok := c.Fun.(*ast.SelectorExpr); ok && !strings.Contains(show(sel.X), "logger") &&
						!strings.Contains(show(sel), ".Hash.") {
						calls = append(calls, sel.Sel.Name)
					}
				}
				return true
			})
			out = append(out, "go{"+strings.Join(calls, ",")+"}")
		case *ast.SendStmt:
			out = append(out, "send "+canon(s.Chan, defs))
		default:
			out = append(out, "stmt "+show(st))
		}
	}
	return out
}

func findFunc(path, recv, name string) *ast.FuncDecl {
	f, err := parser.ParseFile(fset, path, nil, 0)
	if err != nil {
		fmt.Fprintln(os.Stderr, err)
		os.Exit(1)
	}
	for _, d := range f.Decls {
		fd, ok := d.(*ast.FuncDecl)
		if !ok || fd.Name.Name != name || fd.Recv == nil || len(fd.Recv.List) != 1 {
			continue
		}
		if strings.TrimPrefix(show(fd.Recv.List[0].Type), "*") == recv {
			return fd
		}
	}
	fmt.Fprintf(os.Stderr, "c15facts: %s.%s not found in %s\n", recv, name, path)
	os.Exit(1)
	return nil
}

// statefulUsesPlain: the same for a plain (receiver-less) function.
func statefulUsesPlain(path, name string) (globals, forks []string) {
	f, err := parser.ParseFile(fset, path, nil, 0)
	if err != nil {
		fmt.Fprintln(os.Stderr, err)
		os.Exit(1)
	}
	vars := pkgVars(filepath.Dir(path))
	for _, d := range f.Decls {
		fd, ok := d.(*ast.FuncDecl)
		if !ok || fd.Recv != nil || fd.Name.Name != name {
			continue
		}
		seen := map[string]bool{}
		ast.Inspect(fd.Body, func(n ast.Node) bool {
			switch x := n.(type) {
			case *ast.SelectorExpr:
				if strings.HasPrefix(x.Sel.Name, "IsProposal") || x.Sel.Name == "LocalChainConfig" {
					forks = append(forks, name+":"+x.Sel.Name)
				}
			case *ast.Ident:
				if vars[x.Name] && !seen[x.Name] {
					seen[x.Name] = true
					globals = append(globals, name+":"+x.Name)
				}
			}
			return true
		})
		return
	}
	fmt.Fprintf(os.Stderr, "c15facts: func %s not found in %s\n", name, path)
	os.Exit(1)
	return
}

const (
	msgT  = "msg.(*model.ConsensusVerifyMessage)#0"
	si    = msgT + ".SignInfo"
	pkLk  = "group_create.GroupCreateProcessor.GetMemberSignPubKey(groupsig.DeserializeID(r.bh.GroupId), " + si + ".GetSignerID())"
	rsig  = "groupsig.DeserializeSign(" + msgT + ".RandomSign.Serialize())"
	gAdd  = "r.gSignGenerator.AddWitnessSign(" + si + ".GetSignerID(), " + si + ".GetSignature())"
	rAdd  = "r.rSignGenerator.AddWitnessSign(" + si + ".GetSignerID(), *" + rsig + ")"
	retNo = "return nil"
)

// the canonical statements this translator knows, per function
var updateTable = map[string]string{
	"if !msg.(*model.ConsensusVerifyMessage)#1 {return NewError(..)}":                       "typeCheck",
	"if r.checkBlockExisted() != nil {return r.checkBlockExisted()}":                        "checkBlockExisted",
	"if !" + pkLk + "#1 {" + retNo + "}":                                                    "pkGuard",
	"if " + si + ".GetDataHash() != r.bh.Hash {" + retNo + "}":                              "bindHash",
	"if !" + si + ".VerifySign(" + pkLk + "#0) {" + retNo + "}":                             "verifySign",
	"if " + rsig + " == nil || " + rsig + ".IsNil() {" + retNo + "}":                        "randNil",
	"if !groupsig.VerifySig(" + pkLk + "#0, r.preBH.Random, *" + rsig + ") {" + retNo + "}": "randVerify",
	"do " + gAdd:                         "gAdd",
	"if !" + gAdd + "#0 {" + retNo + "}": "gAddGuard",
	"do " + rAdd:                         "rAdd",
	"if " + rAdd + "#0 && " + gAdd + "#1 && " + rAdd + "#1 {set r.bh.Signature = r.gSignGenerator.GetGroupSign().Serialize(); set r.bh.Random = r.rSignGenerator.GetGroupSign().Serialize(); set r.canProcessed = true}": "finish",
	retNo: "returnNil",
}

var checkSigTable = map[string]string{
	"if !groupsig.VerifySig(group.GetGroupPubKey(), r.bh.Hash.Bytes(), *groupsig.DeserializeSign(r.bh.Signature)) {return NewError(..)}": "verifyBlockSig",
	"if !groupsig.VerifySig(group.GetGroupPubKey(), r.preBH.Random, *groupsig.DeserializeSign(r.bh.Random)) {return NewError(..)}":       "verifyRandomSig",
	retNo: "returnNil",
}

var verifySignTable = map[string]string{
	"if !si.signerID.IsValid() {return false}":                         "signerNonZero",
	"return groupsig.VerifySig(pk, si.dataHash.Bytes(), si.signature)": "verifyOverDataHash",
}

var start2Table = map[string]string{
	"if r.finished {return NewError(..)}":                                    "finishedGuard",
	"set r.finished = true":                                                  "setFinished",
	"if r.checkBlockExisted() != nil {return r.checkBlockExisted()}":         "checkBlockExisted",
	"if r.checkSignature(r.group) != nil {return r.checkSignature(r.group)}": "checkSignature",
	"do r.blockchain.GenerateBlock(*r.bh)":                                   "generateBlock",
	"if r.blockchain.GenerateBlock(*r.bh) == nil {return NewError(..)}":      "generateGuard",
	"go{AddBlockOnChain,broadcastNewBlock}":                                  "addOnChainAsync",
	"send r.done":                                                            "signalDone",
	retNo:                                                                    "returnNil",
}

var addWitnessSignTable = map[string]string{
	"if gs.SignRecovered() {return false, true}": "recoveredGuard",
	"return gs.addWitnessForce(id, signature)":   "force",
}

var addWitnessForceTable = map[string]string{
	"if gs.witnessSignMap[id.GetHexString()]#1 {return false, false}":            "dupGuard",
	"set gs.witnessSignMap[id.GetHexString()] = signature":                       "store",
	"if len(gs.witnessSignMap) >= gs.threshold {return true, gs.genGroupSign()}": "atThreshold",
	"return true, false": "belowThreshold",
}

var genGroupSignTable = map[string]string{
	"if gs.groupSign.IsValid() {return true}":                                                  "alreadyValid",
	"if groupsig.RecoverGroupSignature(gs.witnessSignMap, gs.threshold) == nil {return false}": "nilGuard",
	"set gs.groupSign = *groupsig.RecoverGroupSignature(gs.witnessSignMap, gs.threshold)":      "storeRecovered",
	"if len(gs.groupSign.Serialize()) == 0 {}":                                                 "emptyNote",
	"return true": "returnTrue",
}

var loadPartyTable = map[string]string{
	"do p.partyLock.Lock(\"loadOrNewSignParty\")":                                                   "lock",
	"stmt defer p.partyLock.Unlock(\"loadOrNewSignParty\")":                                         "deferUnlock",
	"if p.partyManager[common.ToHex(keyBytes)]#1 {return p.partyManager[common.ToHex(keyBytes)]#0}": "routeToParty",
	"if p.finishedParty.Contains(common.ToHex(keyBytes)) {return nil}":                              "dropFinished",
	// the parking branch: append to the list under the key, no look at what is already parked
	"if !isNew {stmt var msgs []model.ConsensusMessage; if !p.futureMessages.Get(common.ToHex(keyBytes))#1 {set msgs = make([]model.ConsensusMessage, 0)} else {{ msgs = msgsRaw.([]model.ConsensusMessage) }}; set msgs = append(msgs, msg); do p.futureMessages.Add(common.ToHex(keyBytes), msgs); return nil}": "parkAppend",
}

// createParty: the composite literal is long; recognised by its frame
func isCreateParty(c string) bool {
	return strings.HasPrefix(c, "if &SignParty{") && strings.Contains(c, ".Start() == nil {set p.partyManager[common.ToHex(keyBytes)] = &SignParty{") &&
		strings.Contains(c, "; go{waitUntilDone}; return &SignParty{") && strings.HasSuffix(c, "else {{ return nil }}")
}

func steps(fd *ast.FuncDecl, table map[string]string, effects []string, dump bool) []string {
	canonStmts := flatten(fd.Body, map[string]string{}, effects)
	var out []string
	for _, c := range canonStmts {
		if n, ok := table[c]; ok {
			out = append(out, n)
		} else if fd.Name.Name == "loadOrNewSignParty" && isCreateParty(c) {
			out = append(out, "createParty")
		} else {
			out = append(out, "unknown")
			fmt.Fprintf(os.Stderr, "c15facts: unrecognised statement in %s: %s\n", fd.Name.Name, c)
		}
		if dump {
			fmt.Fprintf(os.Stderr, "CANON %s: %s\n", fd.Name.Name, c)
		}
	}
	return out
}

// pkgVars: names of the package-level variables declared in the (non-test, non-verif) files of dir.
func pkgVars(dir string) map[string]bool {
	out := map[string]bool{}
	ents, _ := os.ReadDir(dir)
	for _, e := range ents {
		n := e.Name()
		if !strings.HasSuffix(n, ".go") || strings.HasSuffix(n, "_test.go") || strings.HasPrefix(n, "verif_") {
			continue
		}
		f, err := parser.ParseFile(fset, filepath.Join(dir, n), nil, 0)
		if err != nil {
			continue
		}
		for _, d := range f.Decls {
			if gd, ok := d.(*ast.GenDecl); ok && gd.Tok == token.VAR {
				for _, sp := range gd.Specs {
					for _, id := range sp.(*ast.ValueSpec).Names {
						out[id.Name] = true
					}
				}
			}
		}
	}
	return out
}

type pathFn struct{ file, recv, name string }

// statefulUses lists, for the functions on the property's path, (a) every package-level variable of
// their own package they mention (a cache, pool or scratch buffer added to the path shows up here)
// and (b) every read of the fork configuration (IsProposalNNN, LocalChainConfig, block height).
func statefulUses(root string, fns []pathFn) (globals, forks []string) {
	vars := map[string]map[string]bool{}
	for _, fn := range fns {
		path := filepath.Join(root, fn.file)
		dir := filepath.Dir(path)
		if vars[dir] == nil {
			vars[dir] = pkgVars(dir)
		}
		fd := findFunc(path, fn.recv, fn.name)
		params := map[string]bool{}
		ast.Inspect(fd, func(n ast.Node) bool {
			switch x := n.(type) {
			case *ast.AssignStmt:
				if x.Tok == token.DEFINE {
					for _, l := range x.Lhs {
						if id, ok := l.(*ast.Ident); ok {
							params[id.Name] = true
						}
					}
				}
			case *ast.Field:
				for _, id := range x.Names {
					params[id.Name] = true
				}
			}
			return true
		})
		seen := map[string]bool{}
		ast.Inspect(fd.Body, func(n ast.Node) bool {
			switch x := n.(type) {
			case *ast.SelectorExpr:
				if strings.HasPrefix(x.Sel.Name, "IsProposal") || x.Sel.Name == "LocalChainConfig" ||
					x.Sel.Name == "GetBlockHeight" || x.Sel.Name == "SetBlockHeight" {
					forks = append(forks, fn.name+":"+x.Sel.Name)
				}
				// only the root of a selector chain can be a package-level variable of this package
				if id, ok := x.X.(*ast.Ident); ok && vars[dir][id.Name] && !params[id.Name] && !seen[id.Name] {
					seen[id.Name] = true
					globals = append(globals, fn.name+":"+id.Name)
				}
				return true
			case *ast.Ident:
				if vars[dir][x.Name] && !params[x.Name] && !seen[x.Name] {
					seen[x.Name] = true
					globals = append(globals, fn.name+":"+x.Name)
				}
			}
			return true
		})
	}
	return
}

// startRecovers: in round1.Start, the range loop over r.futureMessages calls r.<m>(msg) where <m> is
// either Update itself (false) or a round1 method that both calls r.Update and contains a deferred recover().
func startRecovers(piece string) bool {
	start := findFunc(piece, "round1", "Start")
	callee := ""
	ast.Inspect(start.Body, func(n ast.Node) bool {
		rs, ok := n.(*ast.RangeStmt)
		if !ok || !strings.Contains(show(rs.X), "futureMessages") {
			return true
		}
		ast.Inspect(rs.Body, func(m ast.Node) bool {
			if c, ok := m.(*ast.CallExpr); ok {
				if sel, ok := c.Fun.(*ast.SelectorExpr); ok && show(sel.X) == "r" && len(c.Args) == 1 && callee == "" {
					callee = sel.Sel.Name
				}
			}
			return true
		})
		return false
	})
	if callee == "" || callee == "Update" {
		return false
	}
	f, err := parser.ParseFile(fset, piece, nil, 0)
	if err != nil {
		return false
	}
	for _, d := range f.Decls {
		fd, ok := d.(*ast.FuncDecl)
		if !ok || fd.Name.Name != callee || fd.Recv == nil {
			continue
		}
		hasRecover, hasUpdate := false, false
		ast.Inspect(fd.Body, func(n ast.Node) bool {
			switch x := n.(type) {
			case *ast.DeferStmt:
				ast.Inspect(x, func(m ast.Node) bool {
					if c, ok := m.(*ast.CallExpr); ok {
						if id, ok := c.Fun.(*ast.Ident); ok && id.Name == "recover" {
							hasRecover = true
						}
					}
					return true
				})
			case *ast.CallExpr:
				if sel, ok := x.Fun.(*ast.SelectorExpr); ok && sel.Sel.Name == "Update" {
					hasUpdate = true
				}
			}
			return true
		})
		return hasRecover && hasUpdate
	}
	return false
}

// lruCaps: the integer literals of `p.<field> = common.CreateLRUCache(<n>)` in Processor.Init.
func lruCaps(path string) map[string]string {
	out := map[string]string{"finishedParty": "0", "futureMessages": "0"}
	fd := findFunc(path, "Processor", "Init")
	ast.Inspect(fd.Body, func(n ast.Node) bool {
		as, ok := n.(*ast.AssignStmt)
		if !ok || len(as.Lhs) != 1 || len(as.Rhs) != 1 {
			return true
		}
		sel, ok := as.Lhs[0].(*ast.SelectorExpr)
		call, ok2 := as.Rhs[0].(*ast.CallExpr)
		if ok && ok2 && strings.HasSuffix(show(call.Fun), "CreateLRUCache") && len(call.Args) == 1 {
			if _, want := out[sel.Sel.Name]; want {
				out[sel.Sel.Name] = show(call.Args[0])
			}
		}
		return true
	})
	return out
}

func leanStrs(xs []string) string {
	var p []string
	for _, x := range xs {
		p = append(p, fmt.Sprintf("%q", x))
	}
	return "[" + strings.Join(p, ", ") + "]"
}

func leanList(xs []string) string {
	var p []string
	for _, x := range xs {
		p = append(p, "."+x)
	}
	return "[" + strings.Join(p, ", ") + "]"
}

func main() {
	if len(os.Args) < 2 {
		fmt.Fprintln(os.Stderr, "usage: c15facts <path to round_sign_piece.go> [dump]")
		os.Exit(2)
	}
	piece := os.Args[1]
	dir := filepath.Dir(piece)
	dump := len(os.Args) > 2
	up := steps(findFunc(piece, "round1", "Update"), updateTable, []string{"AddWitnessSign"}, dump)
	// `bh := r.bh` makes bh canonical as r.bh in both functions
	cs := steps(findFunc(filepath.Join(dir, "round_sign_finalizer.go"), "round2", "checkSignature"), checkSigTable, nil, dump)
	vs := steps(findFunc(filepath.Join(dir, "..", "model", "message.go"), "SignInfo", "VerifySign"), verifySignTable, nil, dump)
	r2 := steps(findFunc(filepath.Join(dir, "round_sign_finalizer.go"), "round2", "Start"), start2Table, []string{"GenerateBlock"}, dump)
	aw := steps(findFunc(piece, "groupSignGenerator", "AddWitnessSign"), addWitnessSignTable, nil, dump)
	af := steps(findFunc(piece, "groupSignGenerator", "addWitnessForce"), addWitnessForceTable, nil, dump)
	gg := steps(findFunc(piece, "groupSignGenerator", "genGroupSign"), genGroupSignTable, nil, dump)
	lp := steps(findFunc(filepath.Join(dir, "processor_party.go"), "Processor", "loadOrNewSignParty"), loadPartyTable, nil, dump)
	binds := false
	for _, s := range up {
		if s == "bindHash" {
			binds = true
		}
		if s == "gAdd" {
			break
		}
	}
	fmt.Println("-- GENERATED by gen/cmd/c15facts from src/consensus/logical/round_sign_piece.go,")
	fmt.Println("-- round_sign_finalizer.go and src/consensus/model/message.go; do not edit.")
	fmt.Println("import Rangers.Model.Round")
	fmt.Println("namespace Rangers.Generated.C15Facts")
	fmt.Println("open Rangers.Model.Round")
	fmt.Println()
	fmt.Println("/-- guards and effects of `round1.Update`, in source order -/")
	fmt.Printf("def updateSteps : List UStep := %s\n\n", leanList(up))
	fmt.Println("/-- `round2.checkSignature` -/")
	fmt.Printf("def checkSignatureSteps : List CStep := %s\n\n", leanList(cs))
	fmt.Println("/-- `round2.Start` -/")
	fmt.Printf("def start2Steps : List R2Step := %s\n\n", leanList(r2))
	fmt.Println("/-- `groupSignGenerator.AddWitnessSign`, `addWitnessForce`, `genGroupSign` -/")
	fmt.Printf("def addWitnessSignSteps : List GStep := %s\n\n", leanList(aw))
	fmt.Printf("def addWitnessForceSteps : List GStep := %s\n\n", leanList(af))
	fmt.Printf("def genGroupSignSteps : List GStep := %s\n\n", leanList(gg))
	fmt.Println("/-- `Processor.loadOrNewSignParty` (routing, parking of messages that have no party yet, party creation) -/")
	fmt.Printf("def loadPartySteps : List PStep := %s\n\n", leanList(lp))
	// canonical statement lists of the remaining handlers on the path, and the constants they use
	canon := func(file, recv, name string) []string {
		return flatten(findFunc(filepath.Join(dir, file), recv, name).Body, map[string]string{}, nil)
	}
	fmt.Println("/-- canonical statements (locals substituted, log calls and error texts dropped) -/")
	fmt.Printf("def partyUpdateCanon : List String := %s\n\n", leanStrs(canon("party.go", "baseParty", "Update")))
	fmt.Printf("def storeMessageCanon : List String := %s\n\n", leanStrs(canon("party.go", "baseParty", "StoreMessage")))
	fmt.Printf("def canAccept0Canon : List String := %s\n\n", leanStrs(canon("round_sign.go", "round0", "CanAccept")))
	fmt.Printf("def canAccept1Canon : List String := %s\n\n", leanStrs(canon("round_sign_piece.go", "round1", "CanAccept")))
	fmt.Printf("def canAccept2Canon : List String := %s\n\n", leanStrs(canon("round_sign_finalizer.go", "round2", "CanAccept")))
	fmt.Printf("def nextRound1Canon : List String := %s\n\n", leanStrs(canon("round_sign_piece.go", "round1", "NextRound")))
	fmt.Printf("def onMessageVerifyCanon : List String := %s\n\n", leanStrs(canon("processor_party.go", "Processor", "OnMessageVerify")))
	fmt.Printf("def waitUntilDoneCanon : List String := %s\n\n", leanStrs(canon("processor_party.go", "Processor", "waitUntilDone")))
	caps := lruCaps(filepath.Join(dir, "processor.go"))
	fmt.Println("/-- `Processor.Init`: capacities of `finishedParty` and `futureMessages` -/")
	fmt.Printf("def finishedCap : Nat := %s\n", caps["finishedParty"])
	fmt.Printf("def futureCap : Nat := %s\n\n", caps["futureMessages"])
	fmt.Println("/-- `SignInfo.VerifySign` -/")
	fmt.Printf("def verifySignSteps : List VStep := %s\n\n", leanList(vs))
	srcRoot := filepath.Join(dir, "..", "..")
	globals, forks := statefulUses(srcRoot, []pathFn{
		{"consensus/logical/round_sign_piece.go", "round1", "Start"},
		{"consensus/logical/round_sign_piece.go", "round1", "Update"},
		{"consensus/logical/round_sign_piece.go", "groupSignGenerator", "AddWitnessSign"},
		{"consensus/logical/round_sign_piece.go", "groupSignGenerator", "addWitnessForce"},
		{"consensus/logical/round_sign_piece.go", "groupSignGenerator", "genGroupSign"},
		{"consensus/logical/round_sign_finalizer.go", "round2", "Start"},
		{"consensus/logical/round_sign_finalizer.go", "round2", "checkSignature"},
		{"consensus/logical/party.go", "baseParty", "Update"},
		{"consensus/logical/party.go", "baseParty", "StoreMessage"},
		{"consensus/logical/processor_party.go", "Processor", "OnMessageVerify"},
		{"consensus/logical/processor_party.go", "Processor", "loadOrNewSignParty"},
		{"consensus/logical/processor_party.go", "Processor", "waitUntilDone"},
		{"consensus/model/message.go", "SignInfo", "VerifySign"},
	})
	gsig := filepath.Join(srcRoot, "consensus", "groupsig", "sig.go")
	for _, name := range []string{"Sign", "VerifySig", "RecoverGroupSignature", "recoverSignature", "getRandomKSignInfo", "DeserializeSign"} {
		g2, f2 := statefulUsesPlain(gsig, name)
		globals = append(globals, g2...)
		forks = append(forks, f2...)
	}
	fmt.Println("/-- package-level variables of their own package mentioned by the functions on the path (`func:var`) -/")
	fmt.Printf("def pathGlobals : List String := %s\n\n", leanStrs(globals))
	fmt.Println("/-- reads of the fork configuration on the path -/")
	fmt.Printf("def pathForkReads : List String := %s\n\n", leanStrs(forks))
	fmt.Println("/-- the loop of `round1.Start` hands each stored message to a method that calls `Update` under its own `recover` -/")
	fmt.Printf("def startRecovers : Bool := %v\n\n", startRecovers(piece))
	fmt.Println("/-- `round1.Update` compares `si.GetDataHash()` with `bh.Hash` before the share is counted. -/")
	fmt.Printf("def bindsHash : Bool := %v\n\n", binds)
	fmt.Println("end Rangers.Generated.C15Facts")
}
