// c02facts: T-gen translator for property C02. Re-extracts from the working tree of
// go-rangers (src/storage/trie) the constants and construction sites the trie model
// hard-codes, and prints lean/Rangers/Generated/C02Facts.lean on stdout. Theorems in
// Props/C02Facts.lean equate the model with these definitions, so a changed constant,
// a new node-construction site without newFlag(), or a re-ordered iterator loop breaks
// a proof obligation. go/ast only (no type checking needed).
//
// usage: c02facts <repo-root>
package main

import (
	"bytes"
	"sort"
	"fmt"
	"go/ast"
	"go/parser"
	"go/printer"
	"go/token"
	"os"
	"path/filepath"
	"strconv"
	"strings"
)

var fset = token.NewFileSet()

func parse(root, name string) *ast.File {
	f, err := parser.ParseFile(fset, filepath.Join(root, "src/storage/trie", name), nil, 0)
	if err != nil {
		fail("parse %s: %v", name, err)
	}
	return f
}

func fail(format string, a ...interface{}) {
	fmt.Fprintf(os.Stderr, "c02facts: "+format+"\n", a...)
	os.Exit(1)
}

func src(n ast.Node) string {
	var b bytes.Buffer
	printer.Fprint(&b, fset, n)
	return b.String()
}

func funcDecl(f *ast.File, name string) *ast.FuncDecl {
	for _, d := range f.Decls {
		if fd, ok := d.(*ast.FuncDecl); ok && fd.Name.Name == name {
			return fd
		}
	}
	fail("function %s not found", name)
	return nil
}

func intLit(e ast.Expr) (int, bool) {
	if bl, ok := e.(*ast.BasicLit); ok && bl.Kind == token.INT {
		n, err := strconv.Atoi(bl.Value)
		return n, err == nil
	}
	return 0, false
}

func main() {
	if len(os.Args) < 2 {
		fail("usage: c02facts <repo-root>")
	}
	root := os.Args[1]
	trieF, hasherF, nodeF, encF, iterF := parse(root, "trie.go"), parse(root, "hasher.go"), parse(root, "node.go"), parse(root, "encoding.go"), parse(root, "iterator.go")

	// emptyRoot literal
	emptyRoot := ""
	ast.Inspect(trieF, func(n ast.Node) bool {
		if vs, ok := n.(*ast.ValueSpec); ok && len(vs.Names) == 1 && vs.Names[0].Name == "emptyRoot" && len(vs.Values) == 1 {
			if call, ok := vs.Values[0].(*ast.CallExpr); ok && len(call.Args) == 1 {
				if bl, ok := call.Args[0].(*ast.BasicLit); ok {
					emptyRoot, _ = strconv.Unquote(bl.Value)
				}
			}
		}
		return true
	})
	if emptyRoot == "" {
		fail("emptyRoot literal not found")
	}

	// hasher.store: `len(h.tmp) < N && !force`
	embedN, embedOp, embedCond := -1, "", ""
	ast.Inspect(funcDecl(hasherF, "store"), func(n ast.Node) bool {
		if is, ok := n.(*ast.IfStmt); ok {
			if be, ok := is.Cond.(*ast.BinaryExpr); ok && be.Op == token.LAND {
				if cmp, ok := be.X.(*ast.BinaryExpr); ok && strings.HasPrefix(src(cmp.X), "len(") {
					if v, ok := intLit(cmp.Y); ok {
						embedN, embedOp, embedCond = v, cmp.Op.String(), src(is.Cond)
					}
				}
			}
		}
		return true
	})
	if embedN < 0 {
		fail("embedding rule not found in hasher.store")
	}

	// hasher.hashChildren: `for i := 0; i < N; i++` over full node children
	hashedSlots := -1
	ast.Inspect(funcDecl(hasherF, "hashChildren"), func(n ast.Node) bool {
		if fs, ok := n.(*ast.ForStmt); ok {
			if be, ok := fs.Cond.(*ast.BinaryExpr); ok && be.Op == token.LSS {
				if v, ok := intLit(be.Y); ok {
					hashedSlots = v
				}
			}
		}
		return true
	})

	// node.go: fullNode.Children [N]node
	fullSlots := -1
	ast.Inspect(nodeF, func(n ast.Node) bool {
		if ts, ok := n.(*ast.TypeSpec); ok && ts.Name.Name == "fullNode" {
			if st, ok := ts.Type.(*ast.StructType); ok {
				for _, fld := range st.Fields.List {
					if len(fld.Names) == 1 && fld.Names[0].Name == "Children" {
						if at, ok := fld.Type.(*ast.ArrayType); ok {
							if v, ok := intLit(at.Len); ok {
								fullSlots = v
							}
						}
					}
				}
			}
		}
		return true
	})

	// encoding.go: keybytesToHex terminator; hexToCompact shifts
	terminator := -1
	ast.Inspect(funcDecl(encF, "keybytesToHex"), func(n ast.Node) bool {
		if as, ok := n.(*ast.AssignStmt); ok && len(as.Lhs) == 1 && len(as.Rhs) == 1 {
			if ix, ok := as.Lhs[0].(*ast.IndexExpr); ok && strings.ReplaceAll(src(ix.Index), " ", "") == "l-1" {
				if v, ok := intLit(as.Rhs[0]); ok {
					terminator = v
				}
			}
		}
		return true
	})
	termShift, oddShift := -1, -1
	ast.Inspect(funcDecl(encF, "hexToCompact"), func(n ast.Node) bool {
		if be, ok := n.(*ast.BinaryExpr); ok && be.Op == token.SHL {
			if v, ok := intLit(be.Y); ok {
				if src(be.X) == "terminator" {
					termShift = v
				} else if src(be.X) == "1" {
					oddShift = v
				}
			}
		}
		return true
	})

	// trie.go insert/delete: node construction sites and their flags
	lits, litsFlag, copies, reflag := 0, 0, 0, 0
	reduceSkip := -1
	for _, fn := range []string{"insert", "delete"} {
		fd := funcDecl(trieF, fn)
		ast.Inspect(fd, func(n ast.Node) bool {
			switch x := n.(type) {
			case *ast.CompositeLit:
				tn := src(x.Type)
				if tn == "shortNode" || tn == "fullNode" {
					lits++
					if strings.Contains(src(x), "t.newFlag()") {
						litsFlag++
					}
				}
			case *ast.AssignStmt:
				if len(x.Lhs) == 1 && len(x.Rhs) == 1 {
					if src(x.Rhs[0]) == "n.copy()" {
						copies++
					}
					if src(x.Lhs[0]) == "n.flags" && src(x.Rhs[0]) == "t.newFlag()" {
						reflag++
					}
				}
			case *ast.BinaryExpr:
				if fn == "delete" && x.Op == token.NEQ && src(x.X) == "pos" {
					if v, ok := intLit(x.Y); ok {
						reduceSkip = v
					}
				}
			}
			return true
		})
	}

	// iterator.go nextChild: the loop over a full node's children
	iterInit, iterCond := "", ""
	ast.Inspect(funcDecl(iterF, "nextChild"), func(n ast.Node) bool {
		if fs, ok := n.(*ast.ForStmt); ok && iterInit == "" {
			iterInit, iterCond = src(fs.Init), src(fs.Cond)
		}
		return true
	})

	for name, v := range map[string]int{"embedThreshold": embedN, "hashedSlots": hashedSlots, "fullSlots": fullSlots,
		"terminator": terminator, "termShift": termShift, "oddShift": oddShift, "reduceSkipSlot": reduceSkip} {
		if v < 0 {
			fail("could not extract %s: the source no longer has the expected shape", name)
		}
	}
	if iterInit == "" {
		fail("could not extract the nextChild loop")
	}
	// package-level state of the trie package: its variables, writes to them outside their
	// declarations, and reads of the fork configuration (proposal flags / block height)
	pkgVars := map[string]bool{}
	files, _ := filepath.Glob(filepath.Join(root, "src/storage/trie", "*.go"))
	var asts []*ast.File
	for _, fn := range files {
		if strings.HasSuffix(fn, "_test.go") {
			continue
		}
		f, err := parser.ParseFile(fset, fn, nil, 0)
		if err != nil {
			fail("parse %s: %v", fn, err)
		}
		asts = append(asts, f)
		for _, d := range f.Decls {
			if gd, ok := d.(*ast.GenDecl); ok && gd.Tok == token.VAR {
				for _, sp := range gd.Specs {
					for _, n := range sp.(*ast.ValueSpec).Names {
						pkgVars[n.Name] = true
					}
				}
			}
		}
	}
	rootIdent := func(e ast.Expr) string {
		for {
			switch x := e.(type) {
			case *ast.Ident:
				if x.Obj != nil && x.Obj.Kind == ast.Var && x.Obj.Decl != nil {
					if _, isSpec := x.Obj.Decl.(*ast.ValueSpec); isSpec && pkgVars[x.Name] {
						return x.Name
					}
				}
				return ""
			case *ast.IndexExpr:
				e = x.X
			case *ast.SelectorExpr:
				e = x.X
			case *ast.StarExpr:
				e = x.X
			case *ast.SliceExpr:
				e = x.X
			case *ast.ParenExpr:
				e = x.X
			default:
				return ""
			}
		}
	}
	pkgWrites, forkReads := 0, 0
	for _, f := range asts {
		ast.Inspect(f, func(n ast.Node) bool {
			switch x := n.(type) {
			case *ast.AssignStmt:
				if x.Tok != token.DEFINE {
					for _, l := range x.Lhs {
						if rootIdent(l) != "" {
							pkgWrites++
						}
					}
				}
			case *ast.IncDecStmt:
				if rootIdent(x.X) != "" {
					pkgWrites++
				}
			case *ast.SelectorExpr:
				if id, ok := x.X.(*ast.Ident); ok && id.Name == "common" {
					if strings.HasPrefix(x.Sel.Name, "IsProposal") || x.Sel.Name == "LocalChainConfig" ||
						x.Sel.Name == "GetBlockHeight" || x.Sel.Name == "SetBlockHeight" || strings.HasPrefix(x.Sel.Name, "IsRobin") ||
						strings.HasPrefix(x.Sel.Name, "IsMainnet") || strings.HasPrefix(x.Sel.Name, "IsDEV") {
						forkReads++
					}
				}
			}
			return true
		})
	}
	pv := make([]string, 0, len(pkgVars))
	for k := range pkgVars {
		pv = append(pv, k)
	}
	sort.Strings(pv)

	var b strings.Builder
	w := func(format string, a ...interface{}) { fmt.Fprintf(&b, format+"\n", a...) }
	w("/- GENERATED by gen/cmd/c02facts from src/storage/trie of the working tree. Do not edit. -/")
	w("namespace Rangers.Generated.C02")
	w("/-- trie.go: `emptyRoot = common.HexToHash(...)` -/")
	w("def emptyRootHex : String := %q", strings.ToLower(strings.TrimPrefix(emptyRoot, "0x")))
	w("/-- hasher.go store: `%s` -/", embedCond)
	w("def embedThreshold : Nat := %d", embedN)
	w("def embedOp : String := %q", embedOp)
	w("/-- hasher.go hashChildren: children 0..N-1 are hashed, the rest copied -/")
	w("def hashedSlots : Nat := %d", hashedSlots)
	w("/-- node.go: `Children [N]node` -/")
	w("def fullSlots : Nat := %d", fullSlots)
	w("/-- encoding.go keybytesToHex: `nibbles[l-1] = N` -/")
	w("def terminator : Nat := %d", terminator)
	w("/-- encoding.go hexToCompact: `terminator << a`, `1 << b` -/")
	w("def termShift : Nat := %d", termShift)
	w("def oddShift : Nat := %d", oddShift)
	w("/-- trie.go delete: `if pos != N` (no merge attempt for the value slot) -/")
	w("def reduceSkipSlot : Nat := %d", reduceSkip)
	w("/-- trie.go insert+delete: shortNode/fullNode composite literals, and how many carry t.newFlag() -/")
	w("def nodeLiterals : Nat := %d", lits)
	w("def nodeLiteralsWithNewFlag : Nat := %d", litsFlag)
	w("/-- trie.go insert+delete: `n = n.copy()` sites, and `n.flags = t.newFlag()` re-flag sites -/")
	w("def copySites : Nat := %d", copies)
	w("def reflagSites : Nat := %d", reflag)
	w("/-- iterator.go nextChild: the loop over a full node's children -/")
	w("def iterLoopInit : String := %q", iterInit)
	w("def iterLoopCond : String := %q", iterCond)
	w("/-- package-level variables of src/storage/trie (non-test files) -/")
	w("def packageVars : String := %q", strings.Join(pv, ","))
	w("/-- assignments / ++ / -- whose target is (inside) one of them, outside their declarations -/")
	w("def packageVarWrites : Nat := %d", pkgWrites)
	w("/-- reads of proposal flags, chain configuration or block height anywhere in the package -/")
	w("def forkConfigReads : Nat := %d", forkReads)
	w("end Rangers.Generated.C02")
	fmt.Print(b.String())
}
