// c09facts: translator for property C09 (T-gen).
//
// Reads src/middleware/pb/x.pb.go (struct tags = the schema the protobuf runtime uses) and
// src/middleware/types/serialization.go (go/ast) of the tree given by repo=<dir> and prints
// lean/Rangers/Generated/C09Facts.lean on stdout:
//   - every unary `*p.Field` whose base is a protobuf struct pointer, with whether a
//     `p.Field != nil` test dominates it and whether the field is required;
//   - which converters start with `if p == nil { return … }`;
//   - whether UnMarshalBlockHeader / UnMarshalBlock turn a nil header into an error;
//   - the schema of the messages the converters touch.
package main

import (
	"fmt"
	"go/ast"
	"go/parser"
	"go/token"
	"os"
	"path/filepath"
	"reflect"
	"sort"
	"strconv"
	"strings"
)

var msgIDs = map[string]int{"Transaction": 1, "TransactionSlice": 2, "BlockHeader": 3, "TransactionHash": 4, "Block": 5,
	"GroupHeader": 6, "Group": 7, "Hashes": 8, "Member": 9}

var fnIDs = map[string]int{"pbToTransaction": 1, "PbToBlockHeader": 2, "PbToGroupHeader": 3, "PbToGroup": 4}

type fieldInfo struct {
	num, kind, label int
}

func fail(f string, a ...interface{}) {
	fmt.Fprintf(os.Stderr, f+"\n", a...)
	os.Exit(1)
}

func main() {
	repo := "/repo"
	for _, a := range os.Args[1:] {
		if strings.HasPrefix(a, "repo=") {
			repo = a[5:]
		}
	}
	fset := token.NewFileSet()
	pbFile, err := parser.ParseFile(fset, filepath.Join(repo, "src/middleware/pb/x.pb.go"), nil, 0)
	if err != nil {
		fail("parse x.pb.go: %v", err)
	}
	// ---- schema
	schema := map[string]map[string]fieldInfo{} // message -> Go field name -> info
	allFieldNames := map[string]bool{}
	for _, d := range pbFile.Decls {
		gd, ok := d.(*ast.GenDecl)
		if !ok || gd.Tok != token.TYPE {
			continue
		}
		for _, sp := range gd.Specs {
			ts := sp.(*ast.TypeSpec)
			st, ok := ts.Type.(*ast.StructType)
			if !ok {
				continue
			}
			if _, want := msgIDs[ts.Name.Name]; !want {
				continue
			}
			m := map[string]fieldInfo{}
			for _, f := range st.Fields.List {
				if f.Tag == nil || len(f.Names) != 1 {
					continue
				}
				tag, _ := strconv.Unquote(f.Tag.Value)
				pb := reflect.StructTag(tag).Get("protobuf")
				if pb == "" {
					continue
				}
				parts := strings.Split(pb, ",")
				if len(parts) < 3 {
					fail("bad protobuf tag %q", pb)
				}
				num, err := strconv.Atoi(parts[1])
				if err != nil {
					fail("bad field number in %q", pb)
				}
				kind := map[string]int{"varint": 0, "bytes": 2, "fixed64": 1, "fixed32": 5, "group": 3, "zigzag32": 0, "zigzag64": 0}[parts[0]]
				if parts[0] == "zigzag32" || parts[0] == "zigzag64" {
					kind = 7 // not something the model's schema knows
				}
				label := map[string]int{"opt": 0, "req": 1, "rep": 2}[parts[2]]
				m[f.Names[0].Name] = fieldInfo{num, kind, label}
				allFieldNames[f.Names[0].Name] = true
			}
			schema[ts.Name.Name] = m
		}
	}
	for name := range msgIDs {
		if _, ok := schema[name]; !ok {
			fail("message %s not found in x.pb.go", name)
		}
	}

	// ---- serialization.go
	serFile, err := parser.ParseFile(fset, filepath.Join(repo, "src/middleware/types/serialization.go"), nil, 0)
	if err != nil {
		fail("parse serialization.go: %v", err)
	}
	pbAlias := "middleware_pb"
	pkgNames := map[string]bool{}
	for _, im := range serFile.Imports {
		p, _ := strconv.Unquote(im.Path.Value)
		if im.Name != nil {
			pkgNames[im.Name.Name] = true
		} else {
			pkgNames[p[strings.LastIndex(p, "/")+1:]] = true
		}
		if strings.HasSuffix(p, "/middleware/pb") && im.Name != nil {
			pbAlias = im.Name.Name
		}
	}
	type site struct {
		fn, field         int
		guarded, required bool
	}
	var sites []site
	var nilChecked []int
	headerNilIsError, blockNilHeaderIsError := false, false

	for _, d := range serFile.Decls {
		fd, ok := d.(*ast.FuncDecl)
		if !ok || fd.Body == nil {
			continue
		}
		fn := 9
		if id, ok := fnIDs[fd.Name.Name]; ok {
			fn = id
		}
		// protobuf pointer params
		params := map[string]string{}
		for _, p := range fd.Type.Params.List {
			if se, ok := p.Type.(*ast.StarExpr); ok {
				if sel, ok := se.X.(*ast.SelectorExpr); ok {
					if x, ok := sel.X.(*ast.Ident); ok && x.Name == pbAlias {
						for _, n := range p.Names {
							params[n.Name] = sel.Sel.Name
						}
					}
				}
			}
		}
		// locals bound to protobuf struct pointers: `x := new(pb.T)`, `for _, x := range p.RepeatedMsg`
		ast.Inspect(fd.Body, func(n ast.Node) bool {
			switch s := n.(type) {
			case *ast.AssignStmt:
				if len(s.Lhs) == 1 && len(s.Rhs) == 1 {
					if id, ok := s.Lhs[0].(*ast.Ident); ok {
						if call, ok := s.Rhs[0].(*ast.CallExpr); ok {
							if f, ok := call.Fun.(*ast.Ident); ok && f.Name == "new" && len(call.Args) == 1 {
								if sel, ok := call.Args[0].(*ast.SelectorExpr); ok {
									if x, ok := sel.X.(*ast.Ident); ok && x.Name == pbAlias {
										params[id.Name] = sel.Sel.Name
									}
								}
							}
						}
					}
				}
			}
			return true
		})
		// nil check on entry
		for pname := range params {
			if len(fd.Body.List) > 0 {
				if is, ok := fd.Body.List[0].(*ast.IfStmt); ok && is.Init == nil && isNilCmp(is.Cond, pname, "", token.EQL) && endsInReturn(is.Body) {
					if fn != 9 {
						nilChecked = append(nilChecked, fn)
					}
				}
			}
		}
		// dereference sites, with the stack of dominating conditions
		var walk func(n ast.Node, conds []ast.Expr)
		walk = func(n ast.Node, conds []ast.Expr) {
			if n == nil || reflect.ValueOf(n).IsNil() {
				return
			}
			switch s := n.(type) {
			case *ast.IfStmt:
				if s.Init != nil {
					walk(s.Init, conds)
				}
				walk(s.Cond, conds)
				walk(s.Body, append(append([]ast.Expr{}, conds...), s.Cond))
				if s.Else != nil {
					walk(s.Else, conds)
				}
				return
			case *ast.StarExpr:
				if sel, ok := s.X.(*ast.SelectorExpr); ok {
					if base, ok := sel.X.(*ast.Ident); ok {
						if msg, isPb := params[base.Name]; isPb {
							fi, known := schema[msg][sel.Sel.Name]
							st := site{fn: fn}
							if known {
								st.field = fi.num
								st.required = fi.label == 1
							}
							for _, c := range conds {
								if condImpliesNonNil(c, base.Name, sel.Sel.Name) {
									st.guarded = true
								}
							}
							sites = append(sites, st)
						} else if !pkgNames[base.Name] && allFieldNames[sel.Sel.Name] && isPointerScalarName(schema, sel.Sel.Name) {
							// a dereference of something that looks like a protobuf field through an unknown base
							fmt.Fprintf(os.Stderr, "unknown-base deref %s.%s at %v\n", base.Name, sel.Sel.Name, fset.Position(s.Pos()))
							sites = append(sites, site{fn: 9})
						}
					}
				}
			}
			// generic descent
			ast.Inspect(n, func(c ast.Node) bool {
				if c == n {
					return true
				}
				if c != nil {
					walk(c, conds)
				}
				return false
			})
		}
		walk(fd.Body, nil)

		// nil header turned into an error?
		if fd.Name.Name == "UnMarshalBlockHeader" || fd.Name.Name == "UnMarshalBlock" {
			ast.Inspect(fd.Body, func(n ast.Node) bool {
				is, ok := n.(*ast.IfStmt)
				if !ok {
					return true
				}
				if mentionsNilHeader(is.Cond) && returnsError(is.Body) {
					if fd.Name.Name == "UnMarshalBlockHeader" {
						headerNilIsError = true
					} else {
						blockNilHeaderIsError = true
					}
				}
				return true
			})
		}
	}
	sort.Ints(nilChecked)

	// ---- package-level variables (other than the logger) referenced by any function of serialization.go:
	// the model treats every Marshal*/UnMarshal*/converter as a pure function of its argument.
	topVarsHere := map[*ast.Object]string{}
	for _, d := range serFile.Decls {
		if gd, ok := d.(*ast.GenDecl); ok && gd.Tok == token.VAR {
			for _, sp := range gd.Specs {
				for _, n := range sp.(*ast.ValueSpec).Names {
					if n.Obj != nil {
						topVarsHere[n.Obj] = n.Name
					}
				}
			}
		}
	}
	otherVars := map[string]bool{}
	if matches, err := filepath.Glob(filepath.Join(repo, "src/middleware/types/*.go")); err == nil {
		for _, f := range matches {
			if strings.HasSuffix(f, "_test.go") || strings.HasSuffix(f, "/serialization.go") {
				continue
			}
			pf, err := parser.ParseFile(token.NewFileSet(), f, nil, 0)
			if err != nil {
				continue
			}
			for _, d := range pf.Decls {
				if gd, ok := d.(*ast.GenDecl); ok && gd.Tok == token.VAR {
					for _, sp := range gd.Specs {
						for _, n := range sp.(*ast.ValueSpec).Names {
							otherVars[n.Name] = true
						}
					}
				}
			}
		}
	}
	var sharedRefs []string
	for _, d := range serFile.Decls {
		fd, ok := d.(*ast.FuncDecl)
		if !ok || fd.Body == nil || fd.Name.Name == "InitSerialzation" {
			continue
		}
		skip := map[*ast.Ident]bool{}
		ast.Inspect(fd.Body, func(n ast.Node) bool {
			switch x := n.(type) {
			case *ast.SelectorExpr:
				skip[x.Sel] = true
			case *ast.KeyValueExpr:
				if id, ok := x.Key.(*ast.Ident); ok {
					skip[id] = true
				}
			}
			return true
		})
		seen := map[string]bool{}
		ast.Inspect(fd.Body, func(n ast.Node) bool {
			id, ok := n.(*ast.Ident)
			if !ok || skip[id] {
				return true
			}
			name := ""
			if id.Obj != nil {
				if nm, top := topVarsHere[id.Obj]; top {
					name = nm
				}
			} else if otherVars[id.Name] {
				name = id.Name
			}
			if name != "" && name != "logger" && !seen[name] {
				seen[name] = true
				sharedRefs = append(sharedRefs, fd.Name.Name+":"+name)
			}
			return true
		})
	}
	sort.Strings(sharedRefs)

	// ---- fork-configuration reads on the codec path (serialization.go, GenHash/GenHashes methods)
	forkReads := 0
	countFork := func(body *ast.BlockStmt) {
		ast.Inspect(body, func(n ast.Node) bool {
			if sel, ok := n.(*ast.SelectorExpr); ok {
				if x, ok := sel.X.(*ast.Ident); ok && x.Name == "common" {
					nm := sel.Sel.Name
					if strings.HasPrefix(nm, "IsProposal") || nm == "GetBlockHeight" || nm == "LocalChainConfig" || nm == "GetChainId" {
						forkReads++
					}
				}
			}
			return true
		})
	}
	for _, d := range serFile.Decls {
		if fd, ok := d.(*ast.FuncDecl); ok && fd.Body != nil {
			countFork(fd.Body)
		}
	}
	for _, fn := range []string{"core.go", "transaction.go"} {
		if pf, err := parser.ParseFile(token.NewFileSet(), filepath.Join(repo, "src/middleware/types", fn), nil, 0); err == nil {
			for _, d := range pf.Decls {
				if fd, ok := d.(*ast.FuncDecl); ok && fd.Body != nil && (fd.Name.Name == "GenHash" || fd.Name.Name == "GenHashes") {
					countFork(fd.Body)
				}
			}
		}
	}

	// ---- `go` statements on the codec path: serialization.go, GenHash/GenHashes, network/message.go, the
	// transaction-request codec in core (conversions must be sequential: results are complete when the call returns)
	var goStmts []string
	countGo := func(file string, only map[string]bool) {
		pf, err := parser.ParseFile(token.NewFileSet(), filepath.Join(repo, file), nil, 0)
		if err != nil {
			return
		}
		for _, d := range pf.Decls {
			fd, ok := d.(*ast.FuncDecl)
			if !ok || fd.Body == nil || (only != nil && !only[fd.Name.Name]) {
				continue
			}
			ast.Inspect(fd.Body, func(n ast.Node) bool {
				if _, ok := n.(*ast.GoStmt); ok {
					goStmts = append(goStmts, file[strings.LastIndex(file, "/")+1:]+":"+fd.Name.Name)
				}
				return true
			})
		}
	}
	countGo("src/middleware/types/serialization.go", nil)
	countGo("src/middleware/types/core.go", map[string]bool{"GenHash": true, "GenHashes": true, "Hash": true})
	countGo("src/middleware/types/transaction.go", map[string]bool{"GenHash": true, "GenHashes": true})
	countGo("src/network/message.go", nil)
	countGo("src/core/msg_handler.go", map[string]bool{"unMarshalTransactionRequestMessage": true})
	countGo("src/core/msg_sender.go", map[string]bool{"marshalTransactionRequestMessage": true})
	sort.Strings(goStmts)

	// ---- network/message.go: is the optional envelope field Code dereferenced without a nil test?
	envelopeGuarded := true
	if nf, err := parser.ParseFile(token.NewFileSet(), filepath.Join(repo, "src/network/message.go"), nil, 0); err == nil {
		for _, d := range nf.Decls {
			fd, ok := d.(*ast.FuncDecl)
			if !ok || fd.Body == nil || fd.Name.Name != "unMarshalMessage" {
				continue
			}
			var walkE func(n ast.Node, conds []ast.Expr)
			walkE = func(n ast.Node, conds []ast.Expr) {
				if n == nil || reflect.ValueOf(n).IsNil() {
					return
				}
				switch s := n.(type) {
				case *ast.IfStmt:
					if s.Init != nil {
						walkE(s.Init, conds)
					}
					walkE(s.Cond, conds)
					walkE(s.Body, append(append([]ast.Expr{}, conds...), s.Cond))
					if s.Else != nil {
						walkE(s.Else, conds)
					}
					return
				case *ast.StarExpr:
					if sel, ok := s.X.(*ast.SelectorExpr); ok && sel.Sel.Name == "Code" {
						if base, ok := sel.X.(*ast.Ident); ok {
							g := false
							for _, c := range conds {
								if condImpliesNonNil(c, base.Name, "Code") {
									g = true
								}
							}
							if !g {
								envelopeGuarded = false
							}
						}
					}
				}
				ast.Inspect(n, func(c ast.Node) bool {
					if c == n {
						return true
					}
					if c != nil {
						walkE(c, conds)
					}
					return false
				})
			}
			walkE(fd.Body, nil)
		}
	} else {
		fail("parse network/message.go: %v", err)
	}

	// ---- call sites of the parsers outside package types
	calleeID := map[string]int{"UnMarshalTransaction": 1, "UnMarshalTransactions": 2, "UnMarshalBlock": 3, "UnMarshalBlockHeader": 4,
		"UnMarshalGroup": 5, "UnMarshalMember": 6, "PbToBlockHeader": 11, "PbToBlock": 12, "PbToGroup": 13, "PbToGroupHeader": 14,
		"PbToGroups": 15, "PbToTransactions": 16}
	type callSite struct {
		area, callee, status int
		where                string
	}
	var callSites []callSite
	consensusRecovers := false
	filepath.Walk(filepath.Join(repo, "src"), func(path string, info os.FileInfo, err error) error {
		if err != nil || info.IsDir() || !strings.HasSuffix(path, ".go") || strings.HasSuffix(path, "_test.go") {
			return nil
		}
		rel, _ := filepath.Rel(filepath.Join(repo, "src"), path)
		if strings.HasPrefix(rel, "middleware/types/") || strings.HasPrefix(rel, "middleware/pb/") || strings.Contains(rel, "verif") {
			return nil
		}
		pf, err := parser.ParseFile(token.NewFileSet(), path, nil, 0)
		if err != nil {
			return nil
		}
		alias := ""
		for _, im := range pf.Imports {
			ip, _ := strconv.Unquote(im.Path.Value)
			if strings.HasSuffix(ip, "/src/middleware/types") {
				alias = "types"
				if im.Name != nil {
					alias = im.Name.Name
				}
			}
		}
		area := 3
		switch {
		case strings.HasPrefix(rel, "network/") || rel == "core/msg_handler.go" || rel == "core/sync_msg.go":
			area = 1
		case strings.HasPrefix(rel, "consensus/net/"):
			area = 2
		}
		for _, d := range pf.Decls {
			fd, ok := d.(*ast.FuncDecl)
			if !ok || fd.Body == nil {
				continue
			}
			if rel == "consensus/net/network_handler.go" && fd.Name.Name == "Handle" {
				ast.Inspect(fd.Body, func(n ast.Node) bool {
					if ds, ok := n.(*ast.DeferStmt); ok {
						ast.Inspect(ds, func(m ast.Node) bool {
							if c, ok := m.(*ast.CallExpr); ok {
								if id, ok := c.Fun.(*ast.Ident); ok && id.Name == "recover" {
									consensusRecovers = true
								}
							}
							return true
						})
					}
					return true
				})
			}
			if alias == "" {
				continue
			}
			isParserCall := func(e ast.Expr) (int, bool) {
				c, ok := e.(*ast.CallExpr)
				if !ok {
					return 0, false
				}
				sel, ok := c.Fun.(*ast.SelectorExpr)
				if !ok {
					return 0, false
				}
				x, ok := sel.X.(*ast.Ident)
				if !ok || x.Name != alias {
					return 0, false
				}
				id, ok := calleeID[sel.Sel.Name]
				return id, ok
			}
			nilCmp := func(e ast.Expr, name string) bool {
				found := false
				ast.Inspect(e, func(n ast.Node) bool {
					if be, ok := n.(*ast.BinaryExpr); ok && (be.Op == token.NEQ || be.Op == token.EQL) {
						for _, pr := range [][2]ast.Expr{{be.X, be.Y}, {be.Y, be.X}} {
							if isNil(pr[1]) {
								switch v := pr[0].(type) {
								case *ast.Ident:
									if v.Name == name {
										found = true
									}
								case *ast.SelectorExpr:
									if b, ok := v.X.(*ast.Ident); ok && b.Name == name {
										found = true
									}
								}
							}
						}
					}
					return true
				})
				return found
			}
			handledCalls := map[*ast.CallExpr]int{}
			// statement-level forms
			ast.Inspect(fd.Body, func(n ast.Node) bool {
				var list []ast.Stmt
				switch v := n.(type) {
				case *ast.BlockStmt:
					list = v.List
				case *ast.CaseClause:
					list = v.Body
				case *ast.CommClause:
					list = v.Body
				default:
					return true
				}
				blk := struct{ List []ast.Stmt }{list}
				for i, st := range blk.List {
					var as *ast.AssignStmt
					var initOf *ast.IfStmt
					switch v := st.(type) {
					case *ast.AssignStmt:
						as = v
					case *ast.IfStmt:
						if a, ok := v.Init.(*ast.AssignStmt); ok {
							as, initOf = a, v
						}
					}
					if as == nil || len(as.Rhs) != 1 {
						continue
					}
					id, ok := isParserCall(as.Rhs[0])
					if !ok {
						continue
					}
					call := as.Rhs[0].(*ast.CallExpr)
					status := 2
					if id < 10 && len(as.Lhs) == 2 {
						en, _ := as.Lhs[1].(*ast.Ident)
						switch {
						case en == nil:
						case en.Name == "_":
							status = 1
						case initOf != nil && nilCmp(initOf.Cond, en.Name):
							status = 0
						default:
							for j := i + 1; j < len(blk.List) && j <= i+3; j++ {
								if is, ok := blk.List[j].(*ast.IfStmt); ok && nilCmp(is.Cond, en.Name) {
									status = 0
								}
							}
						}
					} else if id >= 10 && len(as.Lhs) == 1 {
						if vn, ok := as.Lhs[0].(*ast.Ident); ok {
							for j := i + 1; j < len(blk.List); j++ {
								if is, ok := blk.List[j].(*ast.IfStmt); ok && nilCmp(is.Cond, vn.Name) {
									status = 0
								}
							}
						}
					}
					handledCalls[call] = status
				}
				return true
			})
			ast.Inspect(fd.Body, func(n ast.Node) bool {
				if c, ok := n.(*ast.CallExpr); ok {
					if id, ok := isParserCall(c); ok {
						status, seen := handledCalls[c]
						if !seen {
							status = 2 // nested in another expression: result used as it comes
						}
						callSites = append(callSites, callSite{area, id, status, rel + ":" + fd.Name.Name})
					}
				}
				return true
			})
		}
		return nil
	})
	sort.Slice(callSites, func(i, j int) bool {
		a, b := callSites[i], callSites[j]
		if a.area != b.area {
			return a.area < b.area
		}
		if a.callee != b.callee {
			return a.callee < b.callee
		}
		if a.status != b.status {
			return a.status < b.status
		}
		return a.where < b.where
	})

	// ---- output
	var sb strings.Builder
	sb.WriteString("-- GENERATED by gen/cmd/c09facts from src/middleware/pb/x.pb.go and\n")
	sb.WriteString("-- src/middleware/types/serialization.go; do not edit. Baseline copy committed.\n")
	sb.WriteString("namespace Rangers.Generated.C09\n\n")
	sb.WriteString(`/-- One unary ` + "`*p.Field`" + ` in serialization.go where ` + "`p`" + ` is a protobuf struct pointer.
    ` + "`fn`" + `: 1 pbToTransaction 2 PbToBlockHeader 3 PbToGroupHeader 4 PbToGroup, 9 = any other function.
    ` + "`field`" + `: protobuf field number of ` + "`Field`" + ` in its message (0 = not found).
    ` + "`guarded`" + `: an enclosing ` + "`if p.Field != nil`" + ` dominates the dereference.
    ` + "`required`" + `: the field is ` + "`req`" + ` in the schema (Unmarshal fails before the converter runs). -/
structure DerefSite where
  fn : Nat
  field : Nat
  guarded : Bool
  required : Bool
  deriving Repr, DecidableEq

`)
	sb.WriteString("def derefSites : List DerefSite := [")
	for i, s := range sites {
		if i > 0 {
			sb.WriteString(",")
		}
		fmt.Fprintf(&sb, "\n  ⟨%d, %d, %v, %v⟩", s.fn, s.field, s.guarded, s.required)
	}
	sb.WriteString("\n]\n\n")
	sb.WriteString("/-- Converter functions taking a protobuf struct pointer that start with `if p == nil { return … }`\n    (same numbering as `DerefSite.fn`). -/\n")
	sb.WriteString("def nilCheckedParams : List Nat := [")
	for i, n := range nilChecked {
		if i > 0 {
			sb.WriteString(", ")
		}
		sb.WriteString(strconv.Itoa(n))
	}
	sb.WriteString("]\n\n")
	sb.WriteString("/-- True iff UnMarshalBlockHeader / UnMarshalBlock turn a nil header from the converter into an error. -/\n")
	fmt.Fprintf(&sb, "def headerNilIsError : Bool := %v\ndef blockNilHeaderIsError : Bool := %v\n\n", headerNilIsError, blockNilHeaderIsError)
	sb.WriteString("/-- Number of (function, package-level variable) pairs in serialization.go where a function other than\n    InitSerialzation references a package-level variable other than `logger`")
	if len(sharedRefs) > 0 {
		sb.WriteString(": " + strings.Join(sharedRefs, ", "))
	}
	sb.WriteString(". -/\n")
	fmt.Fprintf(&sb, "def sharedStateRefs : Nat := %d\n\n", len(sharedRefs))
	sb.WriteString("/-- Reads of the fork configuration (common.IsProposalNNN, GetBlockHeight, LocalChainConfig, GetChainId) in\n    serialization.go and in the GenHash/GenHashes methods: the codec and the identifying hashes do not depend on the\n    proposal schedule. -/\n")
	fmt.Fprintf(&sb, "def forkFlagReads : Nat := %d\n\n", forkReads)
	sb.WriteString(`/-- Every call of a parser of package types from another package: (area, callee, status).
    area: 1 = p2p receive path (network/, core/msg_handler.go, core/sync_msg.go), 2 = consensus/net (entered through
    the handler's Handle), 3 = local storage / rpc.
    callee: 1 UnMarshalTransaction 2 UnMarshalTransactions 3 UnMarshalBlock 4 UnMarshalBlockHeader 5 UnMarshalGroup
    6 UnMarshalMember 11 PbToBlockHeader 12 PbToBlock 13 PbToGroup 14 PbToGroupHeader 15 PbToGroups 16 PbToTransactions.
    status: 0 = the error / nil result is tested right after the call, 1 = the error is discarded with _,
    2 = the result is used as it comes. -/
`)
	sb.WriteString("def parserCallSites : List (Nat × Nat × Nat) := [")
	for i, c := range callSites {
		if i > 0 {
			sb.WriteString(",")
		}
		fmt.Fprintf(&sb, "\n  (%d, %d, %d) /- %s -/", c.area, c.callee, c.status, c.where)
	}
	sb.WriteString("\n]\n\n")
	sb.WriteString("/-- consensus/net: MessageHandler.Handle defers a recover() around every decoder it calls. -/\n")
	fmt.Fprintf(&sb, "def consensusHandlerRecovers : Bool := %v\n\n", consensusRecovers)
	sb.WriteString("/-- `go` statements in the codec functions (serialization.go, GenHash methods, network/message.go, the\n    transaction-request codec)")
	if len(goStmts) > 0 {
		sb.WriteString(": " + strings.Join(goStmts, ", "))
	}
	sb.WriteString(". -/\n")
	fmt.Fprintf(&sb, "def goStatements : Nat := %d\n\n", len(goStmts))
	sb.WriteString("/-- network/message.go unMarshalMessage: no unguarded `*message.Code` (an optional field). -/\n")
	fmt.Fprintf(&sb, "def envelopeCodeGuarded : Bool := %v\n\n", envelopeGuarded)
	sb.WriteString(`/-- Schema as the protobuf runtime sees it (struct tags of x.pb.go):
    (message id, field number, kind, label) with kind 0 = varint, 2 = length-delimited;
    label 0 = optional, 1 = required, 2 = repeated.
    message ids: 1 Transaction 2 TransactionSlice 3 BlockHeader 4 TransactionHash 5 Block
    6 GroupHeader 7 Group 8 Hashes 9 Member. -/
`)
	sb.WriteString("def protoSchema : List (Nat × Nat × Nat × Nat) := [")
	names := make([]string, 0, len(msgIDs))
	for n := range msgIDs {
		names = append(names, n)
	}
	sort.Slice(names, func(i, j int) bool { return msgIDs[names[i]] < msgIDs[names[j]] })
	first := true
	nfields := 0
	for _, n := range names {
		fs := make([]fieldInfo, 0)
		for _, fi := range schema[n] {
			fs = append(fs, fi)
		}
		sort.Slice(fs, func(i, j int) bool { return fs[i].num < fs[j].num })
		for _, fi := range fs {
			if !first {
				sb.WriteString(",")
			}
			first = false
			fmt.Fprintf(&sb, "\n  (%d, %d, %d, %d)", msgIDs[n], fi.num, fi.kind, fi.label)
			nfields++
		}
	}
	sb.WriteString("\n]\n\nend Rangers.Generated.C09\n")
	unguarded := 0
	for _, s := range sites {
		if !s.guarded && !s.required {
			unguarded++
		}
	}
	fmt.Fprintf(&sb, "-- SUMMARY {\"deref_sites\":%d,\"unguarded_optional\":%d,\"nil_checked\":%d,\"schema_fields\":%d,\"header_nil_is_error\":%v,\"block_nil_header_is_error\":%v,\"shared_state_refs\":%d}\n",
		len(sites), unguarded, len(nilChecked), nfields, headerNilIsError, blockNilHeaderIsError, len(sharedRefs))
	fmt.Print(sb.String())
}

func isNil(e ast.Expr) bool {
	id, ok := e.(*ast.Ident)
	return ok && id.Name == "nil"
}

// isNilCmp: e is `base(.sel)? op nil` (either order).
func isNilCmp(e ast.Expr, base, sel string, op token.Token) bool {
	be, ok := e.(*ast.BinaryExpr)
	if !ok || be.Op != op {
		return false
	}
	match := func(x ast.Expr) bool {
		if sel == "" {
			id, ok := x.(*ast.Ident)
			return ok && id.Name == base
		}
		s, ok := x.(*ast.SelectorExpr)
		if !ok || s.Sel.Name != sel {
			return false
		}
		id, ok := s.X.(*ast.Ident)
		return ok && id.Name == base
	}
	return (match(be.X) && isNil(be.Y)) || (match(be.Y) && isNil(be.X))
}

// condImpliesNonNil: the condition is `base.sel != nil`, possibly as a conjunct of `&&`, possibly parenthesised.
func condImpliesNonNil(e ast.Expr, base, sel string) bool {
	switch x := e.(type) {
	case *ast.ParenExpr:
		return condImpliesNonNil(x.X, base, sel)
	case *ast.BinaryExpr:
		if x.Op == token.LAND {
			return condImpliesNonNil(x.X, base, sel) || condImpliesNonNil(x.Y, base, sel)
		}
		return isNilCmp(x, base, sel, token.NEQ)
	}
	return false
}

func endsInReturn(b *ast.BlockStmt) bool {
	if len(b.List) == 0 {
		return false
	}
	_, ok := b.List[len(b.List)-1].(*ast.ReturnStmt)
	return ok
}

func isPointerScalarName(schema map[string]map[string]fieldInfo, name string) bool {
	for _, m := range schema {
		if fi, ok := m[name]; ok && (fi.kind == 0 || fi.kind == 2) && fi.label != 2 {
			return true
		}
	}
	return false
}

// mentionsNilHeader: condition contains `header == nil`, `x.Header == nil`, `block == nil` … as a disjunct.
func mentionsNilHeader(e ast.Expr) bool {
	found := false
	ast.Inspect(e, func(n ast.Node) bool {
		be, ok := n.(*ast.BinaryExpr)
		if !ok || be.Op != token.EQL {
			return true
		}
		name := func(x ast.Expr) string {
			switch v := x.(type) {
			case *ast.Ident:
				return v.Name
			case *ast.SelectorExpr:
				return v.Sel.Name
			}
			return ""
		}
		for _, pr := range [][2]ast.Expr{{be.X, be.Y}, {be.Y, be.X}} {
			if isNil(pr[1]) && strings.EqualFold(name(pr[0]), "header") {
				found = true
			}
		}
		return true
	})
	return found
}

// returnsError: the block returns with a second result that is not the identifier nil.
func returnsError(b *ast.BlockStmt) bool {
	for _, s := range b.List {
		if r, ok := s.(*ast.ReturnStmt); ok && len(r.Results) == 2 && !isNil(r.Results[1]) {
			return true
		}
	}
	return false
}
