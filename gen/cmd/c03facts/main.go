// c03facts: translator (T-gen) for C03.  Re-extracts from the go-rangers working
// tree the facts the TrieDB model and the C03 theorems are stated against and
// prints lean/Rangers/Generated/TrieDbFacts.lean on stdout (FACT lines on stderr).
//
// go/ast only (no type checking: the packages need cgo and the whole module);
// every recogniser falls back to an "unknown:<source text>" token, so a
// statement it does not understand changes the generated list and breaks the
// `facts_*` theorems instead of being silently skipped.
package main

import (
	"bytes"
	"fmt"
	"go/ast"
	"go/constant"
	"go/parser"
	"go/printer"
	"go/token"
	"os"
	"path/filepath"
	"regexp"
	"sort"
	"strings"
)

var fset = token.NewFileSet()

func src(n ast.Node) string {
	var b bytes.Buffer
	printer.Fprint(&b, fset, n)
	s := strings.Join(strings.Fields(b.String()), " ")
	return s
}

func parse(path string) *ast.File {
	f, err := parser.ParseFile(fset, path, nil, parser.ParseComments)
	if err != nil {
		fmt.Fprintln(os.Stderr, "parse error:", err)
		os.Exit(1)
	}
	return f
}

func findMethod(f *ast.File, recv, name string) *ast.FuncDecl {
	for _, d := range f.Decls {
		fd, ok := d.(*ast.FuncDecl)
		if !ok || fd.Name.Name != name {
			continue
		}
		if recv == "" && fd.Recv == nil {
			return fd
		}
		if fd.Recv != nil && len(fd.Recv.List) == 1 && strings.Contains(src(fd.Recv.List[0].Type), recv) {
			return fd
		}
	}
	return nil
}

func hasCall(n ast.Node, pat string) bool {
	found := false
	ast.Inspect(n, func(x ast.Node) bool {
		if c, ok := x.(*ast.CallExpr); ok && strings.HasPrefix(src(c.Fun), pat) || ok && src(c.Fun) == pat {
			found = true
		}
		return true
	})
	return found
}

func evalInt(e ast.Expr) (int64, bool) {
	switch v := e.(type) {
	case *ast.BasicLit:
		c := constant.MakeFromLiteral(v.Value, v.Kind, 0)
		if i, ok := constant.Int64Val(c); ok {
			return i, true
		}
	case *ast.ParenExpr:
		return evalInt(v.X)
	case *ast.BinaryExpr:
		a, ok1 := evalInt(v.X)
		b, ok2 := evalInt(v.Y)
		if ok1 && ok2 {
			switch v.Op {
			case token.MUL:
				return a * b, true
			case token.ADD:
				return a + b, true
			case token.SUB:
				return a - b, true
			case token.SHL:
				return a << uint(b), true
			}
		}
	}
	return 0, false
}

func leanStrList(xs []string) string {
	q := make([]string, len(xs))
	for i, x := range xs {
		q[i] = fmt.Sprintf("%q", x)
	}
	return "[" + strings.Join(q, ", ") + "]"
}

func dedupe(xs []string) []string {
	var out []string
	for _, x := range xs {
		if len(out) > 0 && out[len(out)-1] == x {
			continue
		}
		out = append(out, x)
	}
	return out
}

func main() {
	repo := "."
	for _, a := range os.Args[1:] {
		if strings.HasPrefix(a, "repo=") {
			repo = a[5:]
		}
	}
	fact := func(format string, a ...interface{}) { fmt.Fprintf(os.Stderr, "FACT "+format+"\n", a...) }

	// ---- IdealBatchSize
	ifile := parse(filepath.Join(repo, "src/middleware/db/interface.go"))
	var ideal int64 = -1
	ast.Inspect(ifile, func(n ast.Node) bool {
		if vs, ok := n.(*ast.ValueSpec); ok {
			for i, nm := range vs.Names {
				if nm.Name == "IdealBatchSize" && i < len(vs.Values) {
					if v, ok := evalInt(vs.Values[i]); ok {
						ideal = v
					}
				}
			}
		}
		return true
	})
	if ideal < 0 {
		fmt.Fprintln(os.Stderr, "cannot evaluate IdealBatchSize")
		os.Exit(1)
	}
	fact("IdealBatchSize=%d", ideal)

	// ---- trie/database.go
	dbf := parse(filepath.Join(repo, "src/storage/trie/database.go"))
	commit := findMethod(dbf, "NodeDatabase", "commit")
	Commit := findMethod(dbf, "NodeDatabase", "Commit")
	childs := findMethod(dbf, "cachedNode", "childs")
	if commit == nil || Commit == nil || childs == nil {
		fmt.Fprintln(os.Stderr, "commit/Commit/childs not found in database.go")
		os.Exit(1)
	}
	flushGe := "true"
	var cs []string
	for _, st := range commit.Body.List {
		s := src(st)
		switch x := st.(type) {
		case *ast.AssignStmt:
			if strings.Contains(s, "db.nodes[hash]") {
				cs = append(cs, "lookup-cached")
				continue
			}
		case *ast.IfStmt:
			switch {
			case src(x.Cond) == "!ok" && strings.Contains(src(x.Body), "return nil"):
				if len(cs) > 0 && cs[len(cs)-1] == "lookup-cached" {
					cs[len(cs)-1] = "lookup-cached-else-return-nil"
					continue
				}
			case x.Init != nil && strings.Contains(src(x.Init), "batch.Put(hash[:], node.rlp())") && src(x.Cond) == "err != nil":
				cs = append(cs, "batch.Put-self")
				continue
			case strings.HasPrefix(src(x.Cond), "batch.ValueSize()") && strings.HasSuffix(src(x.Cond), "xdb.IdealBatchSize") &&
				hasCall(x.Body, "batch.Write") && hasCall(x.Body, "batch.Reset"):
				if be, ok := x.Cond.(*ast.BinaryExpr); ok {
					switch be.Op {
					case token.GEQ:
						flushGe = "true"
					case token.GTR:
						flushGe = "false"
					default:
						cs = append(cs, "unknown:"+s)
						continue
					}
				}
				cs = append(cs, "if-ValueSize-flush-Write-Reset")
				continue
			}
		case *ast.RangeStmt:
			if src(x.X) == "node.childs()" && hasCall(x.Body, "db.commit") && strings.Contains(src(x.Body), "db.commit(child, batch)") {
				cs = append(cs, "for-childs-recurse-commit")
				continue
			}
		case *ast.ReturnStmt:
			if s == "return nil" {
				cs = append(cs, "return-nil")
				continue
			}
		}
		cs = append(cs, "unknown:"+s)
	}
	fact("commit skeleton %v flushGe=%s", cs, flushGe)

	var ts []string
	for _, st := range Commit.Body.List {
		s := src(st)
		switch {
		case s == "db.lock.RLock()":
			ts = append(ts, "RLock")
		case s == "batch := db.diskdb.NewBatch()":
			ts = append(ts, "NewBatch")
		case strings.HasPrefix(s, "for hash, preimage := range db.preimages"):
			ts = append(ts, "range-preimages")
		case strings.HasPrefix(s, "if err := db.commit(node, batch); err != nil"):
			ts = append(ts, "db.commit-root")
		case strings.HasPrefix(s, "if err := batch.Write(); err != nil"):
			ts = append(ts, "batch.Write-final")
		case s == "db.lock.RUnlock()":
			ts = append(ts, "RUnlock")
		case s == "db.lock.Lock()":
			ts = append(ts, "Lock")
		case s == "defer db.lock.Unlock()":
		case strings.HasPrefix(s, "db.preimages = make(") || s == "db.preimagesSize = 0":
			ts = append(ts, "reset-preimages")
		case s == "db.uncache(node)":
			ts = append(ts, "uncache-root")
		case strings.HasPrefix(s, "db.gcnodes, db.gcsize, db.gctime =") || strings.HasPrefix(s, "db.flushnodes, db.flushsize, db.flushtime ="):
		case s == "return nil":
		default:
			ts = append(ts, "unknown:"+s)
		}
	}
	ts = dedupe(ts)
	fact("Commit skeleton %v", ts)

	var ks []string
	for _, st := range childs.Body.List {
		s := src(st)
		switch x := st.(type) {
		case *ast.AssignStmt:
			if strings.HasPrefix(s, "children := make([]common.Hash") {
				continue
			}
		case *ast.RangeStmt:
			if src(x.X) == "n.children" && strings.Contains(src(x.Body), "children = append(children, child)") {
				ks = append(ks, "range-n.children-append")
				continue
			}
		case *ast.IfStmt:
			if strings.Contains(s, "n.node.(rawNode); !ok") && strings.Contains(src(x.Body), "gatherChildren(n.node, &children)") {
				ks = append(ks, "if-not-rawNode-gatherChildren")
				continue
			}
		case *ast.ReturnStmt:
			if s == "return children" {
				continue
			}
		}
		ks = append(ks, "unknown:"+s)
	}
	fact("childs skeleton %v", ks)

	// ---- call sites over the whole tree (non-test)
	var deref, capc, pre, dels []string
	dbRecv := regexp.MustCompile(`(?i)(disk|ldb|xdb|database|(^|\.)db$)`)
	filepath.Walk(filepath.Join(repo, "src"), func(p string, info os.FileInfo, err error) error {
		if err != nil || info.IsDir() || !strings.HasSuffix(p, ".go") || strings.HasSuffix(p, "_test.go") {
			return nil
		}
		rel, _ := filepath.Rel(repo, p)
		f, err := parser.ParseFile(fset, p, nil, 0)
		if err != nil {
			return nil
		}
		inState := strings.HasPrefix(rel, "src/storage/trie/") || strings.HasPrefix(rel, "src/storage/account/")
		for _, d := range f.Decls {
			fd, ok := d.(*ast.FuncDecl)
			if !ok || fd.Body == nil {
				continue
			}
			where := rel + ":" + fd.Name.Name
			ast.Inspect(fd.Body, func(n ast.Node) bool {
				c, ok := n.(*ast.CallExpr)
				if !ok {
					return true
				}
				sel, ok := c.Fun.(*ast.SelectorExpr)
				if !ok {
					return true
				}
				switch sel.Sel.Name {
				case "Dereference":
					if len(c.Args) == 1 {
						deref = append(deref, where)
					}
				case "dereference":
					if rel != "src/storage/trie/database.go" || (fd.Name.Name != "Dereference" && fd.Name.Name != "dereference") {
						deref = append(deref, where)
					}
				case "Cap":
					if len(c.Args) == 1 {
						capc = append(capc, where)
					}
				case "insertPreimage":
					pre = append(pre, where)
				case "Delete":
					if inState && len(c.Args) == 1 && dbRecv.MatchString(src(sel.X)) {
						dels = append(dels, where+":"+src(sel.X))
					}
				}
				return true
			})
		}
		return nil
	})
	sort.Strings(deref)
	sort.Strings(capc)
	sort.Strings(pre)
	sort.Strings(dels)
	fact("Dereference callers %v; Cap callers %v; insertPreimage callers %v; state-store Delete sites %v", deref, capc, pre, dels)

	// ---- account/accountdb.go
	af := parse(filepath.Join(repo, "src/storage/account/accountdb.go"))
	emptyInit := map[string]string{}
	ast.Inspect(af, func(n ast.Node) bool {
		if vs, ok := n.(*ast.ValueSpec); ok {
			for i, nm := range vs.Names {
				if (nm.Name == "emptyData" || nm.Name == "emptyCode") && i < len(vs.Values) {
					emptyInit[nm.Name] = src(vs.Values[i])
				}
			}
		}
		return true
	})
	acommit := findMethod(af, "AccountDB", "Commit")
	if acommit == nil {
		fmt.Fprintln(os.Stderr, "AccountDB.Commit not found")
		os.Exit(1)
	}
	type posTok struct {
		pos token.Pos
		tok string
	}
	var seq []posTok
	var leafRefs [][2]string
	ast.Inspect(acommit.Body, func(n ast.Node) bool {
		c, ok := n.(*ast.CallExpr)
		if !ok {
			return true
		}
		f := src(c.Fun)
		switch {
		case strings.HasSuffix(f, ".InsertBlob"):
			seq = append(seq, posTok{c.Pos(), "InsertBlob-code-if-dirty"})
		case strings.HasSuffix(f, ".CommitTrie"):
			seq = append(seq, posTok{c.Pos(), "CommitTrie-storage"})
		case f == "adb.updateAccountObject":
			seq = append(seq, posTok{c.Pos(), "updateAccountObject"})
		case f == "adb.trie.Commit":
			tok := "trie.Commit-without-callback"
			if len(c.Args) == 1 {
				if fl, ok := c.Args[0].(*ast.FuncLit); ok {
					tok = "trie.Commit-with-leaf-callback"
					// Reference calls inside the callback with their guarding if
					var walk func(n ast.Node, guard string)
					walk = func(n ast.Node, guard string) {
						switch x := n.(type) {
						case *ast.IfStmt:
							g := src(x.Cond)
							if x.Init != nil {
								walk(x.Init, guard)
							}
							walk(x.Body, g)
							if x.Else != nil {
								walk(x.Else, "else:"+g)
							}
							return
						case *ast.BlockStmt:
							for _, s := range x.List {
								walk(s, guard)
							}
							return
						case *ast.ExprStmt:
							if ce, ok := x.X.(*ast.CallExpr); ok && strings.HasSuffix(src(ce.Fun), ".Reference") && len(ce.Args) == 2 {
								leafRefs = append(leafRefs, [2]string{src(ce.Args[0]) + "|" + src(ce.Args[1]), guard})
								return
							}
						}
						if n != nil {
							if hasCall(n, "adb.db.TrieDB().Reference") {
								leafRefs = append(leafRefs, [2]string{"unknown:" + src(n), guard})
							}
						}
					}
					walk(fl.Body, "")
				}
			}
			seq = append(seq, posTok{c.Pos(), tok})
		}
		return true
	})
	sort.Slice(seq, func(i, j int) bool { return seq[i].pos < seq[j].pos })
	var sk []string
	for _, s := range seq {
		sk = append(sk, s.tok)
	}
	var lr []string
	for _, r := range leafRefs {
		parts := strings.SplitN(r[0], "|", 2)
		name := parts[0]
		if len(parts) == 2 && parts[1] != "parent" {
			name = "unknown-parent:" + r[0]
		}
		lr = append(lr, fmt.Sprintf("(%q, %q)", name, r[1]))
	}
	fact("AccountDB.Commit skeleton %v leaf refs %v empty inits %v", sk, lr, emptyInit)

	// ---- dirty flags of the account package: where they are cleared, what gates InsertBlob
	var dirtyClears, dirtyDeletes, undoDirty []string
	insertGate := "not-found"
	adir := filepath.Join(repo, "src/storage/account")
	ents, _ := os.ReadDir(adir)
	for _, e := range ents {
		if e.IsDir() || !strings.HasSuffix(e.Name(), ".go") || strings.HasSuffix(e.Name(), "_test.go") {
			continue
		}
		f, err := parser.ParseFile(fset, filepath.Join(adir, e.Name()), nil, 0)
		if err != nil {
			continue
		}
		for _, d := range f.Decls {
			fd, ok := d.(*ast.FuncDecl)
			if !ok || fd.Body == nil {
				continue
			}
			fn := fd.Name.Name
			if fd.Recv != nil && len(fd.Recv.List) == 1 {
				fn = strings.TrimPrefix(src(fd.Recv.List[0].Type), "*") + "." + fn
			}
			where := "src/storage/account/" + e.Name() + ":" + fn
			ast.Inspect(fd.Body, func(n ast.Node) bool {
				switch x := n.(type) {
				case *ast.AssignStmt:
					for i, l := range x.Lhs {
						if sel, ok := l.(*ast.SelectorExpr); ok && strings.Contains(strings.ToLower(sel.Sel.Name), "dirty") && i < len(x.Rhs) {
							if e.Name() == "transition.go" {
								undoDirty = append(undoDirty, where+":"+sel.Sel.Name+"="+src(x.Rhs[i]))
							}
							if src(x.Rhs[i]) != "true" {
								dirtyClears = append(dirtyClears, where+":"+sel.Sel.Name+"="+src(x.Rhs[i]))
							}
						}
					}
				case *ast.CallExpr:
					if id, ok := x.Fun.(*ast.Ident); ok && id.Name == "delete" && len(x.Args) == 2 {
						if strings.Contains(strings.ToLower(src(x.Args[0])), "dirty") {
							dirtyDeletes = append(dirtyDeletes, where+":"+src(x.Args[0]))
						}
					}
				case *ast.IfStmt:
					if fn == "AccountDB.Commit" && hasCall(x.Body, "adb.db.TrieDB().InsertBlob") && !hasCall(x.Body, "accountObject.CommitTrie") {
						insertGate = src(x.Cond)
					}
				}
				return true
			})
		}
	}
	sort.Strings(dirtyClears)
	sort.Strings(dirtyDeletes)
	sort.Strings(undoDirty)
	fact("dirty flag clears %v; dirty set deletes %v; InsertBlob gate %q", dirtyClears, dirtyDeletes, insertGate)

	// ---- core/blockchain_add.go: the head record is written only after saveStates succeeded
	bf := parse(filepath.Join(repo, "src/core/blockchain_add.go"))
	callTok := func(st ast.Stmt) string {
		s := src(st)
		switch {
		case strings.HasPrefix(s, "logger."):
			return ""
		case strings.HasPrefix(s, "blockByte, err := types.MarshalBlock(") || strings.HasPrefix(s, "headerByte, err := types.MarshalBlockHeader("):
			return "marshal"
		case strings.HasPrefix(s, "if err != nil {") && strings.Contains(s, "return types.AddBlockFailed, nil"):
			return "marshal"
		case s == "chain.markAddBlock(blockByte)":
			return "markAddBlock"
		case strings.HasPrefix(s, "if !chain.saveBlockByHash(") && strings.Contains(s, "return types.AddBlockFailed"):
			return "saveBlockByHash-or-fail"
		case strings.HasPrefix(s, "if !chain.saveBlockByHeight(") && strings.Contains(s, "return types.AddBlockFailed"):
			return "saveBlockByHeight-or-fail"
		case s == "saveStateResult, accountDB, receipts := chain.saveStates(remoteBlock)":
			return "saveStates"
		case strings.HasPrefix(s, "if !saveStateResult {") && strings.Contains(s, "return types.AddBlockFailed, nil"):
			return "if-not-saved-return-failed"
		case s == "chain.updateVerifyHash(remoteBlock)":
			return "updateVerifyHash"
		case s == "chain.updateTxPool(remoteBlock, receipts)":
			return "updateTxPool"
		case strings.HasPrefix(s, "chain.topBlocks.Add("):
			return "topBlocks.Add"
		case strings.HasPrefix(s, "if !chain.updateLastBlock(accountDB, remoteBlock, headerByte)"):
			return "updateLastBlock-or-fail"
		case strings.HasPrefix(s, "if chain.latestBlock != nil {") && strings.Contains(s, "common.SetBlockHeight"):
			return ""
		case s == "chain.eraseAddBlockMark()":
			return "eraseAddBlockMark"
		case s == "chain.successOnChainCallBack(remoteBlock)":
			return "successCallback"
		case s == "return types.AddBlockSucc, headerByte":
			return "return-succ"
		}
		return "unknown:" + s
	}
	var ib []string
	if fd := findMethod(bf, "blockChain", "insertBlock"); fd != nil {
		for _, st := range fd.Body.List {
			if t := callTok(st); t != "" {
				ib = append(ib, t)
			}
		}
	} else {
		ib = []string{"insertBlock-not-found"}
	}
	ib = dedupe(ib)
	var ss []string
	if fd := findMethod(bf, "blockChain", "saveStates"); fd != nil {
		for _, st := range fd.Body.List {
			s := src(st)
			switch {
			case strings.HasPrefix(s, "defer logger.") || strings.HasPrefix(s, "var state ") || strings.HasPrefix(s, "var receipts "):
			case strings.HasPrefix(s, "if value, exit := chain.verifiedBlocks.Get(b.Header.Hash); exit {") && strings.Contains(s, "chain.checkStates(b, false)") && strings.Contains(s, "return false, state, receipts"):
				ss = append(ss, "state-from-verified-cache-or-execute-else-return-false")
			case s == "root, err := state.Commit(true)":
				ss = append(ss, "state.Commit")
			case strings.HasPrefix(s, "if err != nil {") && strings.Contains(s, "return false, state, receipts"):
				ss = append(ss, "if-err-return-false")
			case s == "trieDB := middleware.AccountDBManagerInstance.GetTrieDB()":
			case s == "err = trieDB.Commit(root, false)":
				ss = append(ss, "trieDB.Commit-root")
			case s == "return true, state, receipts":
				ss = append(ss, "return-true")
			default:
				ss = append(ss, "unknown:"+s)
			}
		}
	} else {
		ss = []string{"saveStates-not-found"}
	}
	var ul []string
	if fd := findMethod(bf, "blockChain", "updateLastBlock"); fd != nil {
		for i, st := range fd.Body.List {
			s := src(st)
			switch {
			case s == "err := chain.heightDB.Put([]byte(latestBlockKey), headerJson)":
				ul = append(ul, fmt.Sprintf("stmt%d:Put-latestBlockKey", i))
			case strings.HasPrefix(s, "if err != nil {") && strings.Contains(s, "return false"):
				ul = append(ul, "if-err-return-false")
			}
		}
	}
	// every writer of the head record in src/core (non-test, non-verif files)
	var headWriters []string
	filepath.Walk(filepath.Join(repo, "src/core"), func(p string, info os.FileInfo, err error) error {
		if err != nil || info.IsDir() || !strings.HasSuffix(p, ".go") || strings.HasSuffix(p, "_test.go") || strings.Contains(filepath.Base(p), "verif_") {
			return nil
		}
		f, err := parser.ParseFile(fset, p, nil, 0)
		if err != nil {
			return nil
		}
		rel, _ := filepath.Rel(repo, p)
		for _, d := range f.Decls {
			fd, ok := d.(*ast.FuncDecl)
			if !ok || fd.Body == nil {
				continue
			}
			ast.Inspect(fd.Body, func(n ast.Node) bool {
				if c, ok := n.(*ast.CallExpr); ok {
					if sel, ok := c.Fun.(*ast.SelectorExpr); ok && (sel.Sel.Name == "Put" || sel.Sel.Name == "Delete") && len(c.Args) >= 1 && strings.Contains(src(c.Args[0]), "latestBlockKey") {
						headWriters = append(headWriters, rel+":"+fd.Name.Name+":"+sel.Sel.Name)
					}
				}
				return true
			})
		}
		return nil
	})
	sort.Strings(headWriters)
	// fork_block.go saveState: same commit pair
	var fs []string
	if ff := parse(filepath.Join(repo, "src/core/fork_block.go")); ff != nil {
		if fd := findMethod(ff, "blockChainFork", "saveState"); fd != nil {
			for _, st := range fd.Body.List {
				s := src(st)
				switch {
				case strings.HasPrefix(s, "if state == nil {"):
				case strings.HasPrefix(s, "fork.logger."):
				case s == "root, err := state.Commit(true)":
					fs = append(fs, "state.Commit")
				case strings.HasPrefix(s, "if err != nil {") && strings.Contains(s, "return err"):
					fs = append(fs, "if-err-return-err")
				case s == "trieDB := middleware.AccountDBManagerInstance.GetTrieDB()":
				case s == "err = trieDB.Commit(root, false)":
					fs = append(fs, "trieDB.Commit-root")
				case s == "return nil":
					fs = append(fs, "return-nil")
				default:
					fs = append(fs, "unknown:"+s)
				}
			}
		}
	}
	fact("insertBlock %v; saveStates %v; updateLastBlock %v; head writers %v; fork saveState %v", ib, ss, ul, headWriters, fs)

	// ---- fork flags read and package-level state written on the state path (trie + account)
	var flagReads, pkgWrites []string
	for _, pkgdir := range []string{"src/storage/trie", "src/storage/account"} {
		ents, _ := os.ReadDir(filepath.Join(repo, pkgdir))
		var files []*ast.File
		var names []string
		pkgVars := map[string]bool{}
		for _, e := range ents {
			if e.IsDir() || !strings.HasSuffix(e.Name(), ".go") || strings.HasSuffix(e.Name(), "_test.go") {
				continue
			}
			f, err := parser.ParseFile(fset, filepath.Join(repo, pkgdir, e.Name()), nil, 0)
			if err != nil {
				continue
			}
			files = append(files, f)
			names = append(names, e.Name())
			for _, d := range f.Decls {
				if gd, ok := d.(*ast.GenDecl); ok && gd.Tok == token.VAR {
					for _, sp := range gd.Specs {
						for _, nm := range sp.(*ast.ValueSpec).Names {
							pkgVars[nm.Name] = true
						}
					}
				}
			}
		}
		for i, f := range files {
			for _, d := range f.Decls {
				fd, ok := d.(*ast.FuncDecl)
				if !ok || fd.Body == nil {
					continue
				}
				where := pkgdir + "/" + names[i] + ":" + fd.Name.Name
				// names bound locally in this function shadow package variables
				local := map[string]bool{}
				if fd.Recv != nil {
					for _, fl := range fd.Recv.List {
						for _, n := range fl.Names {
							local[n.Name] = true
						}
					}
				}
				for _, fl := range fd.Type.Params.List {
					for _, n := range fl.Names {
						local[n.Name] = true
					}
				}
				ast.Inspect(fd.Body, func(n ast.Node) bool {
					switch x := n.(type) {
					case *ast.AssignStmt:
						if x.Tok == token.DEFINE {
							for _, l := range x.Lhs {
								if id, ok := l.(*ast.Ident); ok {
									local[id.Name] = true
								}
							}
						}
					case *ast.ValueSpec:
						for _, id := range x.Names {
							local[id.Name] = true
						}
					}
					return true
				})
				ast.Inspect(fd.Body, func(n ast.Node) bool {
					switch x := n.(type) {
					case *ast.CallExpr:
						if sel, ok := x.Fun.(*ast.SelectorExpr); ok && src(sel.X) == "common" &&
							(strings.HasPrefix(sel.Sel.Name, "IsProposal") || sel.Sel.Name == "IsSub" || sel.Sel.Name == "IsMainnet" ||
								sel.Sel.Name == "IsRobin" || sel.Sel.Name == "IsDEV" || sel.Sel.Name == "GetBlockHeight" || sel.Sel.Name == "IsFullNode") {
							flagReads = append(flagReads, where+":"+sel.Sel.Name)
						}
					case *ast.AssignStmt:
						if x.Tok != token.DEFINE {
							for _, l := range x.Lhs {
								if id, ok := l.(*ast.Ident); ok && pkgVars[id.Name] && !local[id.Name] {
									pkgWrites = append(pkgWrites, where+":"+id.Name)
								}
							}
						}
					case *ast.IncDecStmt:
						if id, ok := x.X.(*ast.Ident); ok && pkgVars[id.Name] && !local[id.Name] {
							pkgWrites = append(pkgWrites, where+":"+id.Name)
						}
					}
					return true
				})
			}
		}
	}
	sort.Strings(flagReads)
	sort.Strings(pkgWrites)
	fact("fork flag reads %v; package-level writes %v", flagReads, pkgWrites)

	// ---- which objects AccountDB.Commit / Finalise delete or write: the guards, verbatim
	var commitCases []string
	isDirtyDef, finaliseGuard, finaliseRange := "not-found", "not-found", "not-found"
	ast.Inspect(acommit.Body, func(n ast.Node) bool {
		switch x := n.(type) {
		case *ast.AssignStmt:
			if len(x.Lhs) == 2 && src(x.Lhs[1]) == "isDirty" {
				isDirtyDef = src(x)
			}
		case *ast.SwitchStmt:
			if x.Tag == nil {
				for _, c := range x.Body.List {
					cc := c.(*ast.CaseClause)
					var conds []string
					for _, e := range cc.List {
						conds = append(conds, src(e))
					}
					act := "other"
					switch {
					case hasCall(cc, "adb.deleteAccountObject"):
						act = "delete"
					case hasCall(cc, "adb.updateAccountObject"):
						act = "update"
					}
					if len(conds) == 0 {
						conds = []string{"default"}
					}
					commitCases = append(commitCases, strings.Join(conds, " , ")+" => "+act)
				}
			}
		}
		return true
	})
	if fin := findMethod(af, "AccountDB", "Finalise"); fin != nil {
		ast.Inspect(fin.Body, func(n ast.Node) bool {
			switch x := n.(type) {
			case *ast.RangeStmt:
				finaliseRange = src(x.X)
			case *ast.IfStmt:
				if hasCall(x.Body, "adb.deleteAccountObject") {
					finaliseGuard = src(x.Cond)
				}
			}
			return true
		})
	}
	fact("Commit cases %v; isDirty %q; Finalise guard %q over %q", commitCases, isDirtyDef, finaliseGuard, finaliseRange)

	// ---- the batch objects (middleware/db): what Put / ValueSize / Write / Reset do
	var batchFacts []string
	for _, spec := range []struct{ file, typ string }{
		{"src/middleware/db/leveldb.go", "ldbBatch"}, {"src/middleware/db/database.go", "prefixBatch"}, {"src/middleware/db/database.go", "memBatch"}} {
		bfile := parse(filepath.Join(repo, spec.file))
		for _, m := range []string{"Put", "ValueSize", "Write", "Reset"} {
			fd := findMethod(bfile, spec.typ, m)
			if fd == nil {
				batchFacts = append(batchFacts, spec.typ+"."+m+": not-found")
				continue
			}
			var toks []string
			for _, st := range fd.Body.List {
				t := src(st)
				if strings.HasPrefix(t, "b.logger.") || strings.Contains(t, "verifC") {
					continue // logging; verif-tagged observation hooks of other properties (no-ops without the tag)
				}
				toks = append(toks, t)
			}
			batchFacts = append(batchFacts, spec.typ+"."+m+": "+strings.Join(toks, " ; "))
		}
	}
	fact("batch objects %v", batchFacts)

	// ---- hasher.store: insert before onleaf
	hf := parse(filepath.Join(repo, "src/storage/trie/hasher.go"))
	store := findMethod(hf, "hasher", "store")
	insertBefore := "false"
	if store != nil {
		var pIns, pLeaf token.Pos
		ast.Inspect(store.Body, func(n ast.Node) bool {
			if c, ok := n.(*ast.CallExpr); ok {
				switch src(c.Fun) {
				case "db.insert":
					if pIns == 0 {
						pIns = c.Pos()
					}
				case "h.onleaf":
					if pLeaf == 0 {
						pLeaf = c.Pos()
					}
				}
			}
			return true
		})
		if pIns != 0 && pLeaf != 0 && pIns < pLeaf {
			insertBefore = "true"
		}
	}
	fact("store insert before onleaf = %s", insertBefore)

	// SHA3-256("") = a7ffc6f8bf1ed766...; spelled out rather than computed so that the
	// translator needs no third-party import (gen/go.mod stays as it is)
	var prefix7 uint64
	if emptyInit["emptyData"] == "sha3.Sum256(nil)" && emptyInit["emptyCode"] == "sha3.Sum256(nil)" {
		prefix7 = 0xa7ffc6f8bf1ed7
	}

	var o bytes.Buffer
	o.WriteString(`/-
GENERATED by gen/cmd/c03facts from the go-rangers working tree; do not edit.
Facts about src/storage/trie/database.go, src/storage/account/accountdb.go and
src/middleware/db/interface.go that the C03 model and theorems are stated against.
-/
namespace Rangers.Generated.TrieDbFacts

`)
	fmt.Fprintf(&o, "/-- `xdb.IdealBatchSize` (src/middleware/db/interface.go). -/\ndef idealBatchSize : Nat := %d\n\n", ideal)
	fmt.Fprintf(&o, "/-- the flush test in `NodeDatabase.commit` is `batch.ValueSize() >= IdealBatchSize` (true) or `>` (false). -/\ndef commitFlushIsGe : Bool := %s\n\n", flushGe)
	fmt.Fprintf(&o, "/-- statement skeleton of `func (db *NodeDatabase) commit(hash, batch)`, in source order. -/\ndef commitSkeleton : List String :=\n  %s\n\n", leanStrList(cs))
	fmt.Fprintf(&o, "/-- statement skeleton of the tail of `func (db *NodeDatabase) Commit(node, report)`, in source order. -/\ndef commitTopSkeleton : List String :=\n  %s\n\n", leanStrList(ts))
	fmt.Fprintf(&o, "/-- what `cachedNode.childs()` returns: external children first, then gatherChildren of the node. -/\ndef childsSkeleton : List String := %s\n\n", leanStrList(ks))
	fmt.Fprintf(&o, "/-- non-test call sites (file:function) of `NodeDatabase.Dereference` outside database.go. -/\ndef dereferenceCallers : List String := %s\n\n", leanStrList(deref))
	fmt.Fprintf(&o, "/-- non-test call sites of `NodeDatabase.Cap`. -/\ndef capCallers : List String := %s\n\n", leanStrList(capc))
	fmt.Fprintf(&o, "/-- non-test call sites of `insertPreimage` (the preimage store stays empty). -/\ndef preimageCallers : List String := %s\n\n", leanStrList(pre))
	fmt.Fprintf(&o, "/-- `.Delete(` calls on a database value inside src/storage/trie and src/storage/account (non-test). -/\ndef stateStoreDeleteSites : List String := %s\n\n", leanStrList(dels))
	fmt.Fprintf(&o, "/-- `Reference(x, parent)` calls inside the leaf callback of `AccountDB.Commit`, with their guards. -/\ndef leafCallbackRefs : List (String × String) :=\n  [%s]\n\n", strings.Join(lr, ", "))
	fmt.Fprintf(&o, "/-- `emptyData` / `emptyCode` initialisers in accountdb.go. -/\ndef emptyDataInit : String := %q\ndef emptyCodeInit : String := %q\n\n", emptyInit["emptyData"], emptyInit["emptyCode"])
	fmt.Fprintf(&o, "/-- SHA3-256 of the empty string, big-endian, as the harness shows it (first 7 bytes). -/\ndef emptyDataPrefix7 : Nat := 0x%x\n\n", prefix7)
	fmt.Fprintf(&o, "/-- order of the three commit steps in `AccountDB.Commit`'s per-object branch and after it. -/\ndef stateCommitSkeleton : List String :=\n  %s\n\n", leanStrList(sk))
	fmt.Fprintf(&o, "/-- in `hasher.store`: `db.insert` precedes the `onleaf` callback. -/\ndef storeInsertBeforeOnleaf : Bool := %s\n\n", insertBefore)
	fmt.Fprintf(&o, "/-- `blockChain.insertBlock` (src/core/blockchain_add.go), statements in source order (logging and marshalling folded). -/\ndef insertBlockSkeleton : List String :=\n  %s\n\n", leanStrList(ib))
	fmt.Fprintf(&o, "/-- `blockChain.saveStates`: returns true only after `state.Commit` and `trieDB.Commit(root)` both returned nil. -/\ndef saveStatesSkeleton : List String :=\n  %s\n\n", leanStrList(ss))
	fmt.Fprintf(&o, "/-- `blockChain.updateLastBlock`: the head record write and its error check. -/\ndef updateLastBlockSkeleton : List String := %s\n\n", leanStrList(ul))
	fmt.Fprintf(&o, "/-- every `Put`/`Delete` of the head record key `latestBlockKey` in src/core (file:function:op). -/\ndef headRecordWriters : List String := %s\n\n", leanStrList(headWriters))
	fmt.Fprintf(&o, "/-- `blockChainFork.saveState` (src/core/fork_block.go): the same commit pair. -/\ndef forkSaveStateSkeleton : List String := %s\n\n", leanStrList(fs))
	fmt.Fprintf(&o, "/-- bodies of Put / ValueSize / Write / Reset of the batch types in src/middleware/db (logging dropped). -/\ndef batchObjectFacts : List String :=\n  %s\n\n", leanStrList(batchFacts))
	fmt.Fprintf(&o, "/-- the cases of the per-object `switch` in `AccountDB.Commit`, verbatim, with what each does. -/\ndef commitObjectCases : List String :=\n  %s\n\n", leanStrList(commitCases))
	fmt.Fprintf(&o, "/-- how `isDirty` is computed in `AccountDB.Commit`. -/\ndef commitIsDirtyDef : String := %q\n\n", isDirtyDef)
	fmt.Fprintf(&o, "/-- the delete guard of `AccountDB.Finalise` and the set it ranges over. -/\ndef finaliseDeleteGuard : String := %q\ndef finaliseRangesOver : String := %q\n\n", finaliseGuard, finaliseRange)
	fmt.Fprintf(&o, "/-- every read of a fork / network flag in src/storage/trie and src/storage/account (non-test). -/\ndef forkFlagReads : List String := %s\n\n", leanStrList(flagReads))
	fmt.Fprintf(&o, "/-- every assignment to a package-level variable inside a function of those two packages. -/\ndef packageLevelWrites : List String := %s\n\n", leanStrList(pkgWrites))
	fmt.Fprintf(&o, "/-- every assignment of something other than `true` to a `dirty*` field in src/storage/account (non-test). -/\ndef dirtyFlagClearSites : List String :=\n  %s\n\n", leanStrList(dirtyClears))
	fmt.Fprintf(&o, "/-- every `delete(<dirty set>, …)` in src/storage/account (non-test). -/\ndef dirtySetDeleteSites : List String :=\n  %s\n\n", leanStrList(dirtyDeletes))
	fmt.Fprintf(&o, "/-- every direct assignment to a `dirty*` field inside a journal undo (transition.go); undos go through the setters. -/\ndef undoDirtyFieldAssignments : List String := %s\n\n", leanStrList(undoDirty))
	fmt.Fprintf(&o, "/-- the condition guarding `InsertBlob` in `AccountDB.Commit`. -/\ndef insertBlobGate : String := %q\n\n", insertGate)
	o.WriteString("end Rangers.Generated.TrieDbFacts\n")
	os.Stdout.Write(o.Bytes())
}
