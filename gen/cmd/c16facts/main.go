// c16facts: translator for property C16. Re-extracts from the go-rangers
// working tree (go/ast, no type checking) the facts the Lean model and theorems
// depend on and prints them as Lean source:
//
//	=== FILE C16Facts.lean   constants (ProveSize, N, N2, suite bytes, max256, MaxQN, PotentialProposal*)
//	=== FILE C16Sites.lean   call order inside ECVRFVerify / ECVRFProve / validateProve / calQn /
//	                         verifyBlockVRF, and every call site of VRFProof2Hash / decodeProof
//	                         with whether the proof was padded to ProveSize first
package main

import (
	"fmt"
	"go/ast"
	"go/parser"
	"go/token"
	"os"
	"path/filepath"
	"sort"
	"strconv"
	"strings"
)

func die(f string, a ...interface{}) {
	fmt.Fprintf(os.Stderr, "c16facts: "+f+"\n", a...)
	os.Exit(1)
}

func parse(fset *token.FileSet, p string) *ast.File {
	f, err := parser.ParseFile(fset, p, nil, 0)
	if err != nil {
		die("parse %s: %v", p, err)
	}
	return f
}

func constInt(f *ast.File, name string, env map[string]int64) (int64, bool) {
	var eval func(e ast.Expr) (int64, bool)
	eval = func(e ast.Expr) (int64, bool) {
		switch x := e.(type) {
		case *ast.BasicLit:
			v, err := strconv.ParseInt(x.Value, 0, 64)
			return v, err == nil
		case *ast.Ident:
			v, ok := env[x.Name]
			return v, ok
		case *ast.ParenExpr:
			return eval(x.X)
		case *ast.BinaryExpr:
			a, ok1 := eval(x.X)
			b, ok2 := eval(x.Y)
			if !ok1 || !ok2 {
				return 0, false
			}
			switch x.Op {
			case token.ADD:
				return a + b, true
			case token.SUB:
				return a - b, true
			case token.MUL:
				return a * b, true
			case token.QUO:
				if b == 0 {
					return 0, false
				}
				return a / b, true
			}
		}
		return 0, false
	}
	for _, d := range f.Decls {
		g, ok := d.(*ast.GenDecl)
		if !ok || g.Tok != token.CONST {
			continue
		}
		for _, s := range g.Specs {
			vs := s.(*ast.ValueSpec)
			for i, n := range vs.Names {
				if i < len(vs.Values) {
					if v, ok := eval(vs.Values[i]); ok {
						env[n.Name] = v
					}
				}
			}
		}
	}
	v, ok := env[name]
	return v, ok
}

// string argument of  name, _ = hex.DecodeString("..")  or  t.SetString("..", 16)
func findStringArg(f *ast.File, pred func(call *ast.CallExpr, lhs string) bool) string {
	res := ""
	ast.Inspect(f, func(n ast.Node) bool {
		switch x := n.(type) {
		case *ast.ValueSpec:
			for i, v := range x.Values {
				if c, ok := v.(*ast.CallExpr); ok && i < len(x.Names) && pred(c, x.Names[0].Name) {
					if l, ok := c.Args[0].(*ast.BasicLit); ok {
						res, _ = strconv.Unquote(l.Value)
					}
				}
			}
		case *ast.ExprStmt:
			if c, ok := x.X.(*ast.CallExpr); ok && pred(c, "") && len(c.Args) > 0 {
				if l, ok := c.Args[0].(*ast.BasicLit); ok {
					res, _ = strconv.Unquote(l.Value)
				}
			}
		}
		return true
	})
	return res
}

func selName(e ast.Expr) string {
	switch x := e.(type) {
	case *ast.Ident:
		return x.Name
	case *ast.SelectorExpr:
		return selName(x.X) + "." + x.Sel.Name
	case *ast.CallExpr:
		return selName(x.Fun) + "()"
	case *ast.ParenExpr:
		return selName(x.X)
	case *ast.StarExpr:
		return selName(x.X)
	}
	return "?"
}

var ignoredRecv = []string{"stdLogger.", "blog.", "logger.", "fmt.", "consensusLogger.", "errors.", "hex."}

// callOrder lists the callees of a function body in source order (logging and
// formatting calls, conversions to builtin/new/make/copy/len excluded).
func callOrder(fn *ast.FuncDecl) []string {
	var out []string
	ast.Inspect(fn.Body, func(n ast.Node) bool {
		c, ok := n.(*ast.CallExpr)
		if !ok {
			return true
		}
		name := selName(c.Fun)
		for _, ig := range ignoredRecv {
			if strings.HasPrefix(name, ig) {
				return false // do not descend into log arguments
			}
		}
		switch name {
		case "new", "make", "copy", "len", "append", "uint64", "int64", "int", "float64", "byte":
			return true
		}
		if i := strings.LastIndex(name, "."); i >= 0 && strings.HasPrefix(name, "new(") {
			name = name[i+1:]
		}
		out = append(out, name)
		return true
	})
	return out
}

func funcByName(f *ast.File, name string) *ast.FuncDecl {
	for _, d := range f.Decls {
		if fn, ok := d.(*ast.FuncDecl); ok && fn.Name.Name == name && fn.Body != nil {
			return fn
		}
	}
	return nil
}

func leanStr(s string) string { return strconv.Quote(s) }

func leanList(xs []string) string {
	q := make([]string, len(xs))
	for i, x := range xs {
		q[i] = leanStr(x)
	}
	return "[" + strings.Join(q, ", ") + "]"
}

// ---- package-level state: which functions write package-level variables (as far as go/ast can tell)

var readOnlyMethods = map[string]bool{"Cmp": true, "CmpAbs": true, "Float64": true, "Float32": true, "String": true, "Sign": true, "Num": true, "Denom": true,
	"IsInt": true, "IsInt64": true, "IsUint64": true, "FloatString": true, "RatString": true, "Bytes": true, "Text": true, "BitLen": true, "Int64": true, "Uint64": true,
	"Error": true, "Len": true, "Cap": true, "ProbablyPrime": true, "Bit": true, "Format": true, "MarshalText": true, "MarshalJSON": true, "GobEncode": true}

// packageVars: names of package-level variables of all non-test, non-hook files of dir -> declared type text ("" if inferred)
func packageVars(fset *token.FileSet, dir string) map[string]string {
	res := map[string]string{}
	files, _ := filepath.Glob(filepath.Join(dir, "*.go"))
	for _, p := range files {
		b := filepath.Base(p)
		if strings.HasSuffix(b, "_test.go") || strings.Contains(b, "verif") {
			continue
		}
		f := parse(fset, p)
		for _, d := range f.Decls {
			g, ok := d.(*ast.GenDecl)
			if !ok || g.Tok != token.VAR {
				continue
			}
			for _, sp := range g.Specs {
				vs := sp.(*ast.ValueSpec)
				ty := ""
				if vs.Type != nil {
					ty = selName(vs.Type)
				}
				for _, n := range vs.Names {
					if n.Name != "_" {
						res[n.Name] = ty
					}
				}
			}
		}
	}
	return res
}

func rootIdent(e ast.Expr) *ast.Ident {
	for {
		switch x := e.(type) {
		case *ast.Ident:
			return x
		case *ast.SelectorExpr:
			e = x.X
		case *ast.IndexExpr:
			e = x.X
		case *ast.SliceExpr:
			e = x.X
		case *ast.StarExpr:
			e = x.X
		case *ast.ParenExpr:
			e = x.X
		default:
			return nil
		}
	}
}

// stateWrites lists, for every function of file (except init), the ways it may write a package-level variable.
func stateWrites(fset *token.FileSet, repo, rel string) [][3]string {
	p := filepath.Join(repo, rel)
	f := parse(fset, p)
	pv := packageVars(fset, filepath.Dir(p))
	var out [][3]string
	for _, d := range f.Decls {
		fn, ok := d.(*ast.FuncDecl)
		if !ok || fn.Body == nil || fn.Name.Name == "init" {
			continue
		}
		local := map[string]bool{}
		alias := map[string]string{} // local name -> package var it may alias
		addLocal := func(fl *ast.FieldList) {
			if fl != nil {
				for _, fd := range fl.List {
					for _, n := range fd.Names {
						local[n.Name] = true
					}
				}
			}
		}
		addLocal(fn.Recv)
		addLocal(fn.Type.Params)
		addLocal(fn.Type.Results)
		isPkg := func(id *ast.Ident) (string, bool) {
			if id == nil {
				return "", false
			}
			if a, ok := alias[id.Name]; ok {
				return a, true
			}
			if local[id.Name] {
				return "", false
			}
			_, ok := pv[id.Name]
			return id.Name, ok
		}
		note := func(what string) { out = append(out, [3]string{rel, fn.Name.Name, what}) }
		ast.Inspect(fn.Body, func(n ast.Node) bool {
			switch x := n.(type) {
			case *ast.AssignStmt:
				for i, lhs := range x.Lhs {
					id, direct := lhs.(*ast.Ident)
					var rhs ast.Expr
					if len(x.Rhs) == len(x.Lhs) {
						rhs = x.Rhs[i]
					}
					if direct {
						// aliasing: x := pkgVar, x = pkgVar, x := pkgVar[:0], x = &pkgVar ...
						aliased := ""
						if rhs != nil {
							r := rhs
							if u, ok := r.(*ast.UnaryExpr); ok && u.Op == token.AND {
								r = u.X
							}
							if name, ok := isPkg(rootIdent(r)); ok {
								switch r.(type) {
								case *ast.Ident, *ast.SliceExpr, *ast.StarExpr, *ast.ParenExpr:
									aliased = name
								}
							}
							// x = append(alias, ...) may still share the backing array
							if c, ok := r.(*ast.CallExpr); ok && selName(c.Fun) == "append" && len(c.Args) > 0 {
								if name, ok := isPkg(rootIdent(c.Args[0])); ok {
									aliased = name
								}
							}
						}
						if x.Tok == token.DEFINE {
							local[id.Name] = true
							delete(alias, id.Name)
							if aliased != "" {
								alias[id.Name] = aliased
							}
							continue
						}
						if local[id.Name] {
							delete(alias, id.Name)
							if aliased != "" {
								alias[id.Name] = aliased
							}
							continue
						}
						if _, ok := pv[id.Name]; ok {
							note("assigns " + id.Name)
						}
						continue
					}
					if name, ok := isPkg(rootIdent(lhs)); ok {
						note("assigns into " + name)
					}
				}
			case *ast.IncDecStmt:
				if name, ok := isPkg(rootIdent(x.X)); ok {
					note("inc/dec " + name)
				}
			case *ast.DeclStmt:
				if g, ok := x.Decl.(*ast.GenDecl); ok {
					for _, sp := range g.Specs {
						if vs, ok := sp.(*ast.ValueSpec); ok {
							for _, nm := range vs.Names {
								local[nm.Name] = true
							}
						}
					}
				}
			case *ast.RangeStmt:
				if x.Tok == token.DEFINE {
					for _, e := range []ast.Expr{x.Key, x.Value} {
						if id, ok := e.(*ast.Ident); ok {
							local[id.Name] = true
						}
					}
				}
			case *ast.UnaryExpr:
				if x.Op == token.AND {
					if name, ok := isPkg(rootIdent(x.X)); ok {
						if _, isComposite := x.X.(*ast.CompositeLit); !isComposite {
							note("takes the address of " + name)
						}
					}
				}
			case *ast.CallExpr:
				name := selName(x.Fun)
				if (name == "append" || name == "copy") && len(x.Args) > 0 {
					if v, ok := isPkg(rootIdent(x.Args[0])); ok {
						note(name + " into the backing array of " + v)
					}
				}
				if se, ok := x.Fun.(*ast.SelectorExpr); ok {
					if id, ok := se.X.(*ast.Ident); ok {
						if v, ok := isPkg(id); ok && !readOnlyMethods[se.Sel.Name] && !strings.Contains(pv[v], "Logger") {
							note("calls " + v + "." + se.Sel.Name + " (receiver is package-level state)")
						}
					}
				}
			}
			return true
		})
	}
	return out
}

// paramWrites lists, for every function of file, the ways it may write through one of its own parameters
// (caller-owned memory): element assignment, copy/append into the parameter or a local alias of it
// (x := p, x = p[:0], x = append(x, ...)), mutating method on a parameter receiver.
func paramWrites(fset *token.FileSet, repo, rel string) [][3]string {
	p := filepath.Join(repo, rel)
	f := parse(fset, p)
	var out [][3]string
	for _, d := range f.Decls {
		fn, ok := d.(*ast.FuncDecl)
		if !ok || fn.Body == nil {
			continue
		}
		alias := map[string]string{} // name -> parameter it may alias
		if fn.Type.Params != nil {
			for _, fd := range fn.Type.Params.List {
				for _, n := range fd.Names {
					alias[n.Name] = n.Name
				}
			}
		}
		isParam := func(id *ast.Ident) (string, bool) {
			if id == nil {
				return "", false
			}
			a, ok := alias[id.Name]
			return a, ok
		}
		note := func(what string) { out = append(out, [3]string{filepath.Base(rel), fn.Name.Name, what}) }
		ast.Inspect(fn.Body, func(n ast.Node) bool {
			switch x := n.(type) {
			case *ast.AssignStmt:
				for i, lhs := range x.Lhs {
					var rhs ast.Expr
					if len(x.Rhs) == len(x.Lhs) {
						rhs = x.Rhs[i]
					}
					if id, direct := lhs.(*ast.Ident); direct {
						aliased := ""
						if rhs != nil {
							r := rhs
							if c, ok := r.(*ast.CallExpr); ok && selName(c.Fun) == "append" && len(c.Args) > 0 {
								r = c.Args[0]
							}
							switch r.(type) {
							case *ast.Ident, *ast.SliceExpr, *ast.ParenExpr:
								if name, ok := isParam(rootIdent(r)); ok {
									aliased = name
								}
							}
						}
						if aliased != "" {
							alias[id.Name] = aliased
						} else {
							delete(alias, id.Name) // rebinding the name to fresh memory is not a write through the parameter
						}
						continue
					}
					switch lhs.(type) {
					case *ast.IndexExpr, *ast.StarExpr:
						if name, ok := isParam(rootIdent(lhs)); ok {
							note("assigns into " + name)
						}
					}
				}
			case *ast.CallExpr:
				name := selName(x.Fun)
				if name == "copy" && len(x.Args) > 0 {
					if v, ok := isParam(rootIdent(x.Args[0])); ok {
						note("copy into " + v)
					}
				}
				if name == "append" && len(x.Args) > 0 {
					if _, isSlice := x.Args[0].(*ast.SliceExpr); isSlice {
						if v, ok := isParam(rootIdent(x.Args[0])); ok {
							note("append into the backing array of " + v)
						}
					}
				}
				if se, ok := x.Fun.(*ast.SelectorExpr); ok {
					if id, ok := se.X.(*ast.Ident); ok {
						if v, ok := isParam(id); ok && !readOnlyMethods[se.Sel.Name] && mutatingBigMethods[se.Sel.Name] {
							note("calls " + v + "." + se.Sel.Name + " (receiver is a parameter)")
						}
					}
				}
			}
			return true
		})
	}
	return out
}

var mutatingBigMethods = map[string]bool{"Set": true, "SetInt": true, "SetInt64": true, "SetFrac": true, "SetFloat64": true, "SetString": true, "SetBytes": true,
	"Quo": true, "Mul": true, "Add": true, "Sub": true, "Neg": true, "Inv": true, "Abs": true, "Div": true, "Mod": true, "Exp": true, "Lsh": true, "Rsh": true,
	"FromBytes": true, "Zero": true}

func main() {
	repo := "/repo"
	for _, a := range os.Args[1:] {
		if strings.HasPrefix(a, "repo=") {
			repo = a[5:]
		}
	}
	fset := token.NewFileSet()
	vrfGo := parse(fset, filepath.Join(repo, "src/common/ed25519/vrf.go"))
	stakeGo := parse(fset, filepath.Join(repo, "src/consensus/logical/vrf_with_stake.go"))
	paramGo := parse(fset, filepath.Join(repo, "src/consensus/model/param.go"))

	env := map[string]int64{}
	proveSize, ok1 := constInt(vrfGo, "ProveSize", env)
	n2, ok2 := constInt(vrfGo, "N2", env)
	n, ok3 := constInt(vrfGo, "N", env)
	if !ok1 || !ok2 || !ok3 {
		die("constants ProveSize/N2/N not found in vrf.go")
	}
	hexOf := func(v string) string {
		return findStringArg(vrfGo, func(c *ast.CallExpr, lhs string) bool {
			return selName(c.Fun) == "hex.DecodeString" && lhs == v
		})
	}
	suite, one, two := hexOf("suite"), hexOf("one"), hexOf("two")
	max256 := findStringArg(stakeGo, func(c *ast.CallExpr, lhs string) bool {
		return strings.HasSuffix(selName(c.Fun), ".SetString") && len(c.Args) == 2
	})
	if suite == "" || one == "" || two == "" || max256 == "" {
		die("suite/one/two/max256 literals not found")
	}
	// InitParam composite literal
	params := map[string]int64{}
	if fn := funcByName(paramGo, "InitParam"); fn != nil {
		ast.Inspect(fn.Body, func(nd ast.Node) bool {
			if kv, ok := nd.(*ast.KeyValueExpr); ok {
				if k, ok := kv.Key.(*ast.Ident); ok {
					if l, ok := kv.Value.(*ast.BasicLit); ok && l.Kind == token.INT {
						v, _ := strconv.ParseInt(l.Value, 0, 64)
						params[k.Name] = v
					}
				}
			}
			return true
		})
	}
	for _, k := range []string{"MaxQN", "PotentialProposal", "PotentialProposalMax", "PotentialProposalIndex"} {
		if _, ok := params[k]; !ok {
			die("InitParam does not set %s to an integer literal", k)
		}
		if params[k] < 0 {
			die("InitParam sets %s negative", k)
		}
	}

	var b strings.Builder
	b.WriteString("=== FILE C16Facts.lean\n")
	b.WriteString("-- GENERATED by gen/cmd/c16facts from the go-rangers working tree; do not edit.\n")
	b.WriteString("namespace Rangers.Generated.C16Facts\n\n")
	w := func(doc, name, typ, val string) {
		fmt.Fprintf(&b, "/-- %s -/\ndef %s : %s := %s\n", doc, name, typ, val)
	}
	w("src/common/ed25519/vrf.go: const ProveSize", "proveSize", "Nat", fmt.Sprint(proveSize))
	w("src/common/ed25519/vrf.go: const N2", "n2", "Nat", fmt.Sprint(n2))
	w("src/common/ed25519/vrf.go: const N", "n", "Nat", fmt.Sprint(n))
	w("src/common/ed25519/vrf.go: suite, one, two (hex literals)", "suiteHex", "List String", leanList([]string{suite, one, two}))
	w("src/consensus/logical/vrf_with_stake.go: init() max256 hex literal", "max256Hex", "String", leanStr(max256))
	mgbt, okm := constInt(paramGo, "MAX_GROUP_BLOCK_TIME", map[string]int64{})
	if !okm || mgbt < 0 {
		die("const MAX_GROUP_BLOCK_TIME not found in param.go")
	}
	w("src/consensus/model/param.go: const MAX_GROUP_BLOCK_TIME", "maxGroupBlockTime", "Nat", fmt.Sprint(mgbt))
	// economy constants behind common.GetRewardBlocks()
	econGo := parse(fset, filepath.Join(repo, "src/common/constant_economy.go"))
	eenv := map[string]int64{}
	ci, okc := constInt(econGo, "castingInterval", eenv)
	rt, okr := constInt(econGo, "rewardTime", eenv)
	if !okc || !okr {
		die("castingInterval / rewardTime not found in constant_economy.go")
	}
	w("src/common/constant_economy.go: const castingInterval (ms)", "castingInterval", "Nat", fmt.Sprint(ci))
	w("src/common/constant_economy.go: const rewardTime (ms)", "rewardTime", "Nat", fmt.Sprint(rt))
	// Proposal025Block of every network configuration in src/common/version.go
	verGo := parse(fset, filepath.Join(repo, "src/common/version.go"))
	var p025 []string
	ast.Inspect(verGo, func(n ast.Node) bool {
		vs, ok := n.(*ast.ValueSpec)
		if !ok {
			return true
		}
		for i, nm := range vs.Names {
			if i >= len(vs.Values) || !strings.HasSuffix(nm.Name, "ChainConfig") {
				continue
			}
			if cl, ok := vs.Values[i].(*ast.CompositeLit); ok {
				for _, e := range cl.Elts {
					if kv, ok := e.(*ast.KeyValueExpr); ok && selName(kv.Key) == "Proposal025Block" {
						if l, ok := kv.Value.(*ast.BasicLit); ok {
							p025 = append(p025, "("+leanStr(nm.Name)+", "+l.Value+")")
						}
					}
				}
			}
		}
		return true
	})
	sort.Strings(p025)
	w("src/common/version.go: Proposal025Block per network configuration", "proposal025", "List (String × Nat)", "["+strings.Join(p025, ", ")+"]")
	w("src/consensus/model/param.go: InitParam MaxQN", "maxQN", "Nat", fmt.Sprint(params["MaxQN"]))
	w("src/consensus/model/param.go: InitParam PotentialProposal", "potentialProposal", "Nat", fmt.Sprint(params["PotentialProposal"]))
	w("src/consensus/model/param.go: InitParam PotentialProposalMax", "potentialProposalMax", "Nat", fmt.Sprint(params["PotentialProposalMax"]))
	w("src/consensus/model/param.go: InitParam PotentialProposalIndex", "potentialProposalIndex", "Nat", fmt.Sprint(params["PotentialProposalIndex"]))
	b.WriteString("\nend Rangers.Generated.C16Facts\n")

	// ---- call order + call sites
	b.WriteString("=== FILE C16Sites.lean\n")
	b.WriteString("-- GENERATED by gen/cmd/c16facts from the go-rangers working tree; do not edit.\n")
	b.WriteString("namespace Rangers.Generated.C16Sites\n\n")
	order := func(f *ast.File, fname, lean string) {
		fn := funcByName(f, fname)
		if fn == nil {
			die("function %s not found", fname)
		}
		fmt.Fprintf(&b, "/-- callees of %s in source order (logging excluded) -/\ndef %s : List String :=\n  %s\n", fname, lean, leanList(callOrder(fn)))
	}
	orderOnly := func(f *ast.File, fname, lean string, keep map[string]bool) {
		fn := funcByName(f, fname)
		if fn == nil {
			die("function %s not found", fname)
		}
		var ks []string
		for _, c := range callOrder(fn) {
			if keep[c] {
				ks = append(ks, c)
			}
		}
		fmt.Fprintf(&b, "/-- decision-relevant callees of %s in source order -/\ndef %s : List String :=\n  %s\n", fname, lean, leanList(ks))
	}
	order(vrfGo, "ECVRFVerify", "verifyCalls")
	order(vrfGo, "ECVRFProve", "proveCalls")
	order(vrfGo, "decodeProof", "decodeProofCalls")
	order(vrfGo, "stringToPoint", "stringToPointCalls")
	order(vrfGo, "hashToCurve", "hashToCurveCalls")
	// validateProve logs a lot; keep only the calls that decide (ok, qn)
	orderOnly(stakeGo, "validateProve", "validateProveCalls", map[string]bool{"tryZeroPadding": true, "calcVrfValueRatio": true,
		"common.GetRewardBlocks": true, "calcStakeRatio": true, "vrfValueRatio.Cmp": true, "calQn": true})
	order(stakeGo, "calQn", "calQnCalls")
	order(stakeGo, "calcStakeRatio", "calcStakeRatioCalls")
	order(stakeGo, "verifyBlockVRF", "verifyBlockVRFCalls")
	order(stakeGo, "genVrfMsg", "genVrfMsgCalls")
	order(parse(fset, filepath.Join(repo, "src/consensus/logical/logical_util.go")), "CalDeltaByTime", "calDeltaCalls")
	order(parse(fset, filepath.Join(repo, "src/consensus/base/hash.go")), "Data2CommonHash", "data2CommonHashCalls")
	order(parse(fset, filepath.Join(repo, "src/consensus/logical/vrf_worker.go")), "genProve", "genProveCalls")

	// argument lists of every validateProve call: which height the proposer / the verifier evaluate the rule at
	{
		var calls, deltaCalls []string
		for _, rel := range []string{"src/consensus/logical/vrf_with_stake.go", "src/consensus/logical/vrf_worker.go"} {
			pth := filepath.Join(repo, rel)
			f := parse(fset, pth)
			src, _ := os.ReadFile(pth)
			for _, d := range f.Decls {
				fn, ok := d.(*ast.FuncDecl)
				if !ok || fn.Body == nil {
					continue
				}
				ast.Inspect(fn.Body, func(n ast.Node) bool {
					if c, ok := n.(*ast.CallExpr); ok && selName(c.Fun) == "CalDeltaByTime" {
						var as []string
						for _, a := range c.Args {
							as = append(as, strings.Join(strings.Fields(string(src[fset.Position(a.Pos()).Offset:fset.Position(a.End()).Offset])), " "))
						}
						deltaCalls = append(deltaCalls, fn.Name.Name+"("+strings.Join(as, ", ")+")")
					}
					if c, ok := n.(*ast.CallExpr); ok && selName(c.Fun) == "validateProve" {
						var as []string
						for _, a := range c.Args {
							as = append(as, strings.Join(strings.Fields(string(src[fset.Position(a.Pos()).Offset:fset.Position(a.End()).Offset])), " "))
						}
						calls = append(calls, fn.Name.Name+"("+strings.Join(as, ", ")+")")
					}
					return true
				})
			}
		}
		fmt.Fprintf(&b, "\n/-- every call of validateProve with its argument expressions -/\ndef validateProveCallArgs : List String :=\n  %s\n", leanList(calls))
		fmt.Fprintf(&b, "/-- every call of CalDeltaByTime with its argument expressions: which two times define the slot -/\ndef calDeltaCallArgs : List String :=\n  %s\n", leanList(deltaCalls))
	}

	// vrf_worker.go: status constants, the two compare-and-swap transitions, the workingOn condition
	{
		wf := parse(fset, filepath.Join(repo, "src/consensus/logical/vrf_worker.go"))
		src, _ := os.ReadFile(filepath.Join(repo, "src/consensus/logical/vrf_worker.go"))
		text := func(n ast.Node) string {
			return strings.Join(strings.Fields(string(src[fset.Position(n.Pos()).Offset:fset.Position(n.End()).Offset])), " ")
		}
		var consts []string
		for _, d := range wf.Decls {
			if g, ok := d.(*ast.GenDecl); ok && g.Tok == token.CONST {
				for _, sp := range g.Specs {
					vs := sp.(*ast.ValueSpec)
					for i, nm := range vs.Names {
						if i < len(vs.Values) {
							consts = append(consts, nm.Name+"="+text(vs.Values[i]))
						}
					}
				}
			}
		}
		fmt.Fprintf(&b, "\n/-- vrf_worker.go: status constants -/\ndef workerConsts : List String :=\n  %s\n", leanList(consts))
		cas := func(fname string) []string {
			var out []string
			if fn := funcByName(wf, fname); fn != nil {
				ast.Inspect(fn.Body, func(n ast.Node) bool {
					if c, ok := n.(*ast.CallExpr); ok && selName(c.Fun) == "atomic.CompareAndSwapInt32" && len(c.Args) == 3 {
						out = append(out, text(c.Args[1]), text(c.Args[2]))
					}
					return true
				})
			}
			return out
		}
		fmt.Fprintf(&b, "/-- markProposed: CompareAndSwap(old, new) -/\ndef markProposedCAS : List String :=\n  %s\n", leanList(cas("markProposed")))
		fmt.Fprintf(&b, "/-- markSuccess: CompareAndSwap(old, new) -/\ndef markSuccessCAS : List String :=\n  %s\n", leanList(cas("markSuccess")))
		ret := func(fname string) string {
			r := ""
			if fn := funcByName(wf, fname); fn != nil {
				ast.Inspect(fn.Body, func(n ast.Node) bool {
					if rs, ok := n.(*ast.ReturnStmt); ok && len(rs.Results) == 1 {
						r = text(rs.Results[0])
					}
					return true
				})
			}
			return r
		}
		fmt.Fprintf(&b, "/-- workingOn / timeout return expressions -/\ndef workingOnExpr : String := %s\ndef timeoutExpr : String := %s\n", leanStr(ret("workingOn")), leanStr(ret("timeout")))
	}

	// configuration / fork-flag reads on the path: every selector rooted at package `common` in the rule's files
	{
		var reads []string
		for _, rel := range []string{"src/consensus/logical/vrf_with_stake.go", "src/consensus/logical/vrf_worker.go", "src/consensus/vrf/vrf.go", "src/common/ed25519/vrf.go"} {
			f := parse(fset, filepath.Join(repo, rel))
			for _, d := range f.Decls {
				fn, ok := d.(*ast.FuncDecl)
				if !ok || fn.Body == nil {
					continue
				}
				ast.Inspect(fn.Body, func(n ast.Node) bool {
					if se, ok := n.(*ast.SelectorExpr); ok {
						name := selName(se)
						if strings.HasPrefix(name, "common.") && (strings.Contains(name, "Config") || strings.Contains(name, "Proposal") || strings.Contains(name, "Height") || strings.Contains(name, "Reward") || strings.HasPrefix(name, "common.Is") || strings.HasPrefix(name, "common.Get")) {
							reads = append(reads, filepath.Base(rel)+":"+fn.Name.Name+":"+name)
							return false
						}
					}
					return true
				})
			}
		}
		fmt.Fprintf(&b, "\n/-- configuration / fork-schedule reads of the VRF code (file:function:selector) -/\ndef configReads : List String :=\n  %s\n", leanList(reads))
	}

	// package-level state writes in the VRF code
	{
		var ws [][3]string
		for _, rel := range []string{"src/common/ed25519/vrf.go", "src/consensus/logical/vrf_with_stake.go", "src/consensus/vrf/vrf.go"} {
			ws = append(ws, stateWrites(fset, repo, rel)...)
		}
		b.WriteString("\n/-- (file, function, what) for every write to package-level state by a function of the VRF files (init excluded; go/ast, no type information) -/\n")
		b.WriteString("def stateWrites : List (String × String × String) :=\n  [")
		for i, w := range ws {
			if i > 0 {
				b.WriteString(",\n   ")
			}
			fmt.Fprintf(&b, "(%s, %s, %s)", leanStr(w[0]), leanStr(w[1]), leanStr(w[2]))
		}
		b.WriteString("]\n")
	}

	// writes through parameters (caller-owned memory) in the consensus-side VRF code
	{
		var ws [][3]string
		for _, rel := range []string{"src/consensus/logical/vrf_with_stake.go", "src/consensus/logical/vrf_worker.go", "src/consensus/vrf/vrf.go"} {
			ws = append(ws, paramWrites(fset, repo, rel)...)
		}
		b.WriteString("\n/-- (file, function, what) for every write through a parameter (caller-owned memory) -/\n")
		b.WriteString("def paramWrites : List (String × String × String) :=\n  [")
		for i, w := range ws {
			if i > 0 {
				b.WriteString(",\n   ")
			}
			fmt.Fprintf(&b, "(%s, %s, %s)", leanStr(w[0]), leanStr(w[1]), leanStr(w[2]))
		}
		b.WriteString("]\n")
	}

	// every non-test call site of VRFProof2Hash / decodeProof: padded first?
	type site struct {
		file, fn, callee string
		padded           bool
	}
	var sites []site
	filepath.Walk(filepath.Join(repo, "src"), func(p string, info os.FileInfo, err error) error {
		if err != nil || info.IsDir() || !strings.HasSuffix(p, ".go") || strings.HasSuffix(p, "_test.go") {
			return nil
		}
		base := filepath.Base(p)
		if strings.Contains(base, "verif") {
			return nil // our own hooks
		}
		src, err := os.ReadFile(p)
		if err != nil || !(strings.Contains(string(src), "VRFProof2Hash") || strings.Contains(string(src), "decodeProof") || strings.Contains(string(src), "calcVrfValueRatio")) {
			return nil
		}
		f := parse(fset, p)
		rel, _ := filepath.Rel(repo, p)
		for _, d := range f.Decls {
			fn, ok := d.(*ast.FuncDecl)
			if !ok || fn.Body == nil {
				continue
			}
			padded := false
			ast.Inspect(fn.Body, func(nd ast.Node) bool {
				switch x := nd.(type) {
				case *ast.CallExpr:
					name := selName(x.Fun)
					if strings.HasSuffix(name, "tryZeroPadding") {
						padded = true
					}
					if strings.HasSuffix(name, "VRFProof2Hash") || name == "decodeProof" || name == "calcVrfValueRatio" {
						sites = append(sites, site{rel, fn.Name.Name, name, padded})
					}
				case *ast.BinaryExpr:
					// explicit length guard against ProveSize before the call
					if x.Op == token.LSS && strings.HasSuffix(selName(x.Y), "ProveSize") {
						padded = true
					}
				}
				return true
			})
		}
		return nil
	})
	sort.Slice(sites, func(i, j int) bool {
		if sites[i].file != sites[j].file {
			return sites[i].file < sites[j].file
		}
		return sites[i].fn < sites[j].fn
	})
	b.WriteString("\n/-- (file, function, callee, proof padded to ProveSize before the call) for every call of VRFProof2Hash / decodeProof -/\n")
	b.WriteString("def sliceSites : List (String × String × String × Bool) :=\n  [")
	for i, s := range sites {
		if i > 0 {
			b.WriteString(",\n   ")
		}
		fmt.Fprintf(&b, "(%s, %s, %s, %v)", leanStr(s.file), leanStr(s.fn), leanStr(s.callee), s.padded)
	}
	b.WriteString("]\n\nend Rangers.Generated.C16Sites\n")
	fmt.Print(b.String())
}
