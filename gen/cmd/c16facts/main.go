// c16facts: translator for property C16. Re-extracts from the go-rangers
// working tree (go/ast, no type checking) the facts the Lean model and theorems
// depend on and prints them as Lean source:
//
//	=== FILE C16Facts.lean   constants (ProveSize, N, N2, suite bytes, max256, MaxQN, PotentialProposal*)
//	=== FILE C16Sites.lean   call order inside ECVRFVerify / ECVRFProve / validateProve / calQn /
//	                         verifyBlockVRF, and every call site of VRFProof2Hash / decodeProof
//	                         with whether the proof was padded to ProveSize first
package main

import (
	"fmt"
	"go/ast"
	"go/parser"
	"go/token"
	"os"
	"path/filepath"
	"sort"
	"strconv"
	"strings"
)

func die(f string, a ...interface{}) {
	fmt.Fprintf(os.Stderr, "c16facts: "+f+"\n", a...)
	os.Exit(1)
}

func parse(fset *token.FileSet, p string) *ast.File {
	f, err := parser.ParseFile(fset, p, nil, 0)
	if err != nil {
		die("parse %s: %v", p, err)
	}
	return f
}

func constInt(f *ast.File, name string, env map[string]int64) (int64, bool) {
	var eval func(e ast.Expr) (int64, bool)
	eval = func(e ast.Expr) (int64, bool) {
		switch x := e.(type) {
		case *ast.BasicLit:
			v, err := strconv.ParseInt(x.Value, 0, 64)
			return v, err == nil
		case *ast.Ident:
			v, ok := env[x.Name]
			return v, ok
		case *ast.ParenExpr:
			return eval(x.X)
		case *ast.BinaryExpr:
			a, ok1 := eval(x.X)
			b, ok2 := eval(x.Y)
			if !ok1 || !ok2 {
				return 0, false
			}
			switch x.Op {
			case token.ADD:
				return a + b, true
			case token.SUB:
				return a - b, true
			case token.MUL:
				return a * b, true
			case token.QUO:
				if b == 0 {
					return 0, false
				}
				return a / b, true
			}
		}
		return 0, false
	}
	for _, d := range f.Decls {
		g, ok := d.(*ast.GenDecl)
		if !ok || g.Tok != token.CONST {
			continue
		}
		for _, s := range g.Specs {
			vs := s.(*ast.ValueSpec)
			for i, n := range vs.Names {
				if i < len(vs.Values) {
					if v, ok := eval(vs.Values[i]); ok {
						env[n.Name] = v
					}
				}
			}
		}
	}
	v, ok := env[name]
	return v, ok
}

// string argument of  name, _ = hex.DecodeString("..")  or  t.SetString("..", 16)
func findStringArg(f *ast.File, pred func(call *ast.CallExpr, lhs string) bool) string {
	res := ""
	ast.Inspect(f, func(n ast.Node) bool {
		switch x := n.(type) {
		case *ast.ValueSpec:
			for i, v := range x.Values {
				if c, ok := v.(*ast.CallExpr); ok && i < len(x.Names) && pred(c, x.Names[0].Name) {
					if l, ok := c.Args[0].(*ast.BasicLit); ok {
						res, _ = strconv.Unquote(l.Value)
					}
				}
			}
		case *ast.ExprStmt:
			if c, ok := x.X.(*ast.CallExpr); ok && pred(c, "") && len(c.Args) > 0 {
				if l, ok := c.Args[0].(*ast.BasicLit); ok {
					res, _ = strconv.Unquote(l.Value)
				}
			}
		}
		return true
	})
	return res
}

func selName(e ast.Expr) string {
	switch x := e.(type) {
	case *ast.Ident:
		return x.Name
	case *ast.SelectorExpr:
		return selName(x.X) + "." + x.Sel.Name
	case *ast.CallExpr:
		return selName(x.Fun) + "()"
	case *ast.ParenExpr:
		return selName(x.X)
	case *ast.StarExpr:
		return selName(x.X)
	}
	return "?"
}

var ignoredRecv = []string{"stdLogger.", "blog.", "logger.", "fmt.", "consensusLogger.", "errors.", "hex."}

// callOrder lists the callees of a function body in source order (logging and
// formatting calls, conversions to builtin/new/make/copy/len excluded).
func callOrder(fn *ast.FuncDecl) []string {
	var out []string
	ast.Inspect(fn.Body, func(n ast.Node) bool {
		c, ok := n.(*ast.CallExpr)
		if !ok {
			return true
		}
		name := selName(c.Fun)
		for _, ig := range ignoredRecv {
			if strings.HasPrefix(name, ig) {
				return false // do not descend into log arguments
			}
		}
		switch name {
		case "new", "make", "copy", "len", "append", "uint64", "int64", "int", "float64", "byte":
			return true
		}
		if i := strings.LastIndex(name, "."); i >= 0 && strings.HasPrefix(name, "new(") {
			name = name[i+1:]
		}
		out = append(out, name)
		return true
	})
	return out
}

func funcByName(f *ast.File, name string) *ast.FuncDecl {
	for _, d := range f.Decls {
		if fn, ok := d.(*ast.FuncDecl); ok && fn.Name.Name == name && fn.Body != nil {
			return fn
		}
	}
	return nil
}

func leanStr(s string) string { return strconv.Quote(s) }

func leanList(xs []string) string {
	q := make([]string, len(xs))
	for i, x := range xs {
		q[i] = leanStr(x)
	}
	return "[" + strings.Join(q, ", ") + "]"
}

func main() {
	repo := "/repo"
	for _, a := range os.Args[1:] {
		if strings.HasPrefix(a, "repo=") {
			repo = a[5:]
		}
	}
	fset := token.NewFileSet()
	vrfGo := parse(fset, filepath.Join(repo, "src/common/ed25519/vrf.go"))
	stakeGo := parse(fset, filepath.Join(repo, "src/consensus/logical/vrf_with_stake.go"))
	paramGo := parse(fset, filepath.Join(repo, "src/consensus/model/param.go"))

	env := map[string]int64{}
	proveSize, ok1 := constInt(vrfGo, "ProveSize", env)
	n2, ok2 := constInt(vrfGo, "N2", env)
	n, ok3 := constInt(vrfGo, "N", env)
	if !ok1 || !ok2 || !ok3 {
		die("constants ProveSize/N2/N not found in vrf.go")
	}
	hexOf := func(v string) string {
		return findStringArg(vrfGo, func(c *ast.CallExpr, lhs string) bool {
			return selName(c.Fun) == "hex.DecodeString" && lhs == v
		})
	}
	suite, one, two := hexOf("suite"), hexOf("one"), hexOf("two")
	max256 := findStringArg(stakeGo, func(c *ast.CallExpr, lhs string) bool {
		return strings.HasSuffix(selName(c.Fun), ".SetString") && len(c.Args) == 2
	})
	if suite == "" || one == "" || two == "" || max256 == "" {
		die("suite/one/two/max256 literals not found")
	}
	// InitParam composite literal
	params := map[string]int64{}
	if fn := funcByName(paramGo, "InitParam"); fn != nil {
		ast.Inspect(fn.Body, func(nd ast.Node) bool {
			if kv, ok := nd.(*ast.KeyValueExpr); ok {
				if k, ok := kv.Key.(*ast.Ident); ok {
					if l, ok := kv.Value.(*ast.BasicLit); ok && l.Kind == token.INT {
						v, _ := strconv.ParseInt(l.Value, 0, 64)
						params[k.Name] = v
					}
				}
			}
			return true
		})
	}
	for _, k := range []string{"MaxQN", "PotentialProposal", "PotentialProposalMax", "PotentialProposalIndex"} {
		if _, ok := params[k]; !ok {
			die("InitParam does not set %s to an integer literal", k)
		}
		if params[k] < 0 {
			die("InitParam sets %s negative", k)
		}
	}

	var b strings.Builder
	b.WriteString("=== FILE C16Facts.lean\n")
	b.WriteString("-- GENERATED by gen/cmd/c16facts from the go-rangers working tree; do not edit.\n")
	b.WriteString("namespace Rangers.Generated.C16Facts\n\n")
	w := func(doc, name, typ, val string) {
		fmt.Fprintf(&b, "/-- %s -/\ndef %s : %s := %s\n", doc, name, typ, val)
	}
	w("src/common/ed25519/vrf.go: const ProveSize", "proveSize", "Nat", fmt.Sprint(proveSize))
	w("src/common/ed25519/vrf.go: const N2", "n2", "Nat", fmt.Sprint(n2))
	w("src/common/ed25519/vrf.go: const N", "n", "Nat", fmt.Sprint(n))
	w("src/common/ed25519/vrf.go: suite, one, two (hex literals)", "suiteHex", "List String", leanList([]string{suite, one, two}))
	w("src/consensus/logical/vrf_with_stake.go: init() max256 hex literal", "max256Hex", "String", leanStr(max256))
	mgbt, okm := constInt(paramGo, "MAX_GROUP_BLOCK_TIME", map[string]int64{})
	if !okm || mgbt < 0 {
		die("const MAX_GROUP_BLOCK_TIME not found in param.go")
	}
	w("src/consensus/model/param.go: const MAX_GROUP_BLOCK_TIME", "maxGroupBlockTime", "Nat", fmt.Sprint(mgbt))
	w("src/consensus/model/param.go: InitParam MaxQN", "maxQN", "Nat", fmt.Sprint(params["MaxQN"]))
	w("src/consensus/model/param.go: InitParam PotentialProposal", "potentialProposal", "Nat", fmt.Sprint(params["PotentialProposal"]))
	w("src/consensus/model/param.go: InitParam PotentialProposalMax", "potentialProposalMax", "Nat", fmt.Sprint(params["PotentialProposalMax"]))
	w("src/consensus/model/param.go: InitParam PotentialProposalIndex", "potentialProposalIndex", "Nat", fmt.Sprint(params["PotentialProposalIndex"]))
	b.WriteString("\nend Rangers.Generated.C16Facts\n")

	// ---- call order + call sites
	b.WriteString("=== FILE C16Sites.lean\n")
	b.WriteString("-- GENERATED by gen/cmd/c16facts from the go-rangers working tree; do not edit.\n")
	b.WriteString("namespace Rangers.Generated.C16Sites\n\n")
	order := func(f *ast.File, fname, lean string) {
		fn := funcByName(f, fname)
		if fn == nil {
			die("function %s not found", fname)
		}
		fmt.Fprintf(&b, "/-- callees of %s in source order (logging excluded) -/\ndef %s : List String :=\n  %s\n", fname, lean, leanList(callOrder(fn)))
	}
	orderOnly := func(f *ast.File, fname, lean string, keep map[string]bool) {
		fn := funcByName(f, fname)
		if fn == nil {
			die("function %s not found", fname)
		}
		var ks []string
		for _, c := range callOrder(fn) {
			if keep[c] {
				ks = append(ks, c)
			}
		}
		fmt.Fprintf(&b, "/-- decision-relevant callees of %s in source order -/\ndef %s : List String :=\n  %s\n", fname, lean, leanList(ks))
	}
	order(vrfGo, "ECVRFVerify", "verifyCalls")
	order(vrfGo, "ECVRFProve", "proveCalls")
	order(vrfGo, "decodeProof", "decodeProofCalls")
	order(vrfGo, "stringToPoint", "stringToPointCalls")
	order(vrfGo, "hashToCurve", "hashToCurveCalls")
	// validateProve logs a lot; keep only the calls that decide (ok, qn)
	orderOnly(stakeGo, "validateProve", "validateProveCalls", map[string]bool{"tryZeroPadding": true, "calcVrfValueRatio": true,
		"common.GetRewardBlocks": true, "calcStakeRatio": true, "vrfValueRatio.Cmp": true, "calQn": true})
	order(stakeGo, "calQn", "calQnCalls")
	order(stakeGo, "calcStakeRatio", "calcStakeRatioCalls")
	order(stakeGo, "verifyBlockVRF", "verifyBlockVRFCalls")
	order(stakeGo, "genVrfMsg", "genVrfMsgCalls")
	order(parse(fset, filepath.Join(repo, "src/consensus/logical/logical_util.go")), "CalDeltaByTime", "calDeltaCalls")
	order(parse(fset, filepath.Join(repo, "src/consensus/base/hash.go")), "Data2CommonHash", "data2CommonHashCalls")
	order(parse(fset, filepath.Join(repo, "src/consensus/logical/vrf_worker.go")), "genProve", "genProveCalls")

	// vrf_worker.go: status constants, the two compare-and-swap transitions, the workingOn condition
	{
		wf := parse(fset, filepath.Join(repo, "src/consensus/logical/vrf_worker.go"))
		src, _ := os.ReadFile(filepath.Join(repo, "src/consensus/logical/vrf_worker.go"))
		text := func(n ast.Node) string {
			return strings.Join(strings.Fields(string(src[fset.Position(n.Pos()).Offset:fset.Position(n.End()).Offset])), " ")
		}
		var consts []string
		for _, d := range wf.Decls {
			if g, ok := d.(*ast.GenDecl); ok && g.Tok == token.CONST {
				for _, sp := range g.Specs {
					vs := sp.(*ast.ValueSpec)
					for i, nm := range vs.Names {
						if i < len(vs.Values) {
							consts = append(consts, nm.Name+"="+text(vs.Values[i]))
						}
					}
				}
			}
		}
		fmt.Fprintf(&b, "\n/-- vrf_worker.go: status constants -/\ndef workerConsts : List String :=\n  %s\n", leanList(consts))
		cas := func(fname string) []string {
			var out []string
			if fn := funcByName(wf, fname); fn != nil {
				ast.Inspect(fn.Body, func(n ast.Node) bool {
					if c, ok := n.(*ast.CallExpr); ok && selName(c.Fun) == "atomic.CompareAndSwapInt32" && len(c.Args) == 3 {
						out = append(out, text(c.Args[1]), text(c.Args[2]))
					}
					return true
				})
			}
			return out
		}
		fmt.Fprintf(&b, "/-- markProposed: CompareAndSwap(old, new) -/\ndef markProposedCAS : List String :=\n  %s\n", leanList(cas("markProposed")))
		fmt.Fprintf(&b, "/-- markSuccess: CompareAndSwap(old, new) -/\ndef markSuccessCAS : List String :=\n  %s\n", leanList(cas("markSuccess")))
		ret := func(fname string) string {
			r := ""
			if fn := funcByName(wf, fname); fn != nil {
				ast.Inspect(fn.Body, func(n ast.Node) bool {
					if rs, ok := n.(*ast.ReturnStmt); ok && len(rs.Results) == 1 {
						r = text(rs.Results[0])
					}
					return true
				})
			}
			return r
		}
		fmt.Fprintf(&b, "/-- workingOn / timeout return expressions -/\ndef workingOnExpr : String := %s\ndef timeoutExpr : String := %s\n", leanStr(ret("workingOn")), leanStr(ret("timeout")))
	}

	// every non-test call site of VRFProof2Hash / decodeProof: padded first?
	type site struct {
		file, fn, callee string
		padded           bool
	}
	var sites []site
	filepath.Walk(filepath.Join(repo, "src"), func(p string, info os.FileInfo, err error) error {
		if err != nil || info.IsDir() || !strings.HasSuffix(p, ".go") || strings.HasSuffix(p, "_test.go") {
			return nil
		}
		base := filepath.Base(p)
		if strings.Contains(base, "verif") {
			return nil // our own hooks
		}
		src, err := os.ReadFile(p)
		if err != nil || !(strings.Contains(string(src), "VRFProof2Hash") || strings.Contains(string(src), "decodeProof") || strings.Contains(string(src), "calcVrfValueRatio")) {
			return nil
		}
		f := parse(fset, p)
		rel, _ := filepath.Rel(repo, p)
		for _, d := range f.Decls {
			fn, ok := d.(*ast.FuncDecl)
			if !ok || fn.Body == nil {
				continue
			}
			padded := false
			ast.Inspect(fn.Body, func(nd ast.Node) bool {
				switch x := nd.(type) {
				case *ast.CallExpr:
					name := selName(x.Fun)
					if strings.HasSuffix(name, "tryZeroPadding") {
						padded = true
					}
					if strings.HasSuffix(name, "VRFProof2Hash") || name == "decodeProof" || name == "calcVrfValueRatio" {
						sites = append(sites, site{rel, fn.Name.Name, name, padded})
					}
				case *ast.BinaryExpr:
					// explicit length guard against ProveSize before the call
					if x.Op == token.LSS && strings.HasSuffix(selName(x.Y), "ProveSize") {
						padded = true
					}
				}
				return true
			})
		}
		return nil
	})
	sort.Slice(sites, func(i, j int) bool {
		if sites[i].file != sites[j].file {
			return sites[i].file < sites[j].file
		}
		return sites[i].fn < sites[j].fn
	})
	b.WriteString("\n/-- (file, function, callee, proof padded to ProveSize before the call) for every call of VRFProof2Hash / decodeProof -/\n")
	b.WriteString("def sliceSites : List (String × String × String × Bool) :=\n  [")
	for i, s := range sites {
		if i > 0 {
			b.WriteString(",\n   ")
		}
		fmt.Fprintf(&b, "(%s, %s, %s, %v)", leanStr(s.file), leanStr(s.fn), leanStr(s.callee), s.padded)
	}
	b.WriteString("]\n\nend Rangers.Generated.C16Sites\n")
	fmt.Print(b.String())
}
