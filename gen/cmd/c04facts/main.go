// c04facts: T-gen translator for property C04. Parses src/storage/account with go/ast and writes
// lean/Rangers/Generated/JournalFacts.lean: for every method of *AccountDB / *accountObject which
// journal appends and which un-journaled (lower-case) setters its body contains and in which order,
// plus the list of journal entry kinds (types with an undo method).
//
//	usage: c04facts <repo> <out.lean>
package main

import (
	"fmt"
	"go/ast"
	"go/parser"
	"go/token"
	"os"
	"path/filepath"
	"sort"
	"strings"
)

var rawSetters = map[string]bool{"setData": true, "setNonce": true, "setNFTSetDefinition": true, "markSuicided": true,
	"setTransientState": true, "setBalance": true}

type fact struct {
	recv, name           string
	appends              int
	raw                  []string
	firstAppend, firstRaw token.Pos
	directWrites         []string // assignments to adb.refund / adb.logs / adb.logSize / accessList mutators
}

func recvName(fd *ast.FuncDecl) string {
	if fd.Recv == nil || len(fd.Recv.List) == 0 {
		return ""
	}
	t := fd.Recv.List[0].Type
	if s, ok := t.(*ast.StarExpr); ok {
		t = s.X
	}
	if id, ok := t.(*ast.Ident); ok {
		return id.Name
	}
	return ""
}

func main() {
	repo, out := os.Args[1], os.Args[2]
	dir := filepath.Join(repo, "src", "storage", "account")
	fset := token.NewFileSet()
	pkgs, err := parser.ParseDir(fset, dir, func(fi os.FileInfo) bool {
		return !strings.HasSuffix(fi.Name(), "_test.go") && !strings.HasPrefix(fi.Name(), "verif_")
	}, 0)
	if err != nil {
		fmt.Fprintln(os.Stderr, err)
		os.Exit(1)
	}
	var facts []fact
	var undoKinds []string
	entryFields := map[string][]string{}   // journal entry struct -> field names in declaration order
	undoUses := map[string]map[string]bool{} // journal entry struct -> fields its undo method reads
	var literals []string                    // "type:field,field" per composite literal of a journal entry type
	pkgVars := map[string]bool{}             // package-level variables
	stateFields := map[string][]string{}     // fields of the state-carrying structs
	var stateWriters, forkReads []string     // "func:var" assignments to package-level state; "func:flag" fork flag reads
	for _, pkg := range pkgs {
		for _, f := range pkg.Files {
			for _, d := range f.Decls {
				if gd, ok := d.(*ast.GenDecl); ok && gd.Tok == token.VAR {
					for _, sp := range gd.Specs {
						for _, n := range sp.(*ast.ValueSpec).Names {
							pkgVars[n.Name] = true
						}
					}
				}
			}
		}
	}
	for _, pkg := range pkgs {
		for _, f := range pkg.Files {
			for _, d := range f.Decls {
				if gd, ok := d.(*ast.GenDecl); ok && gd.Tok == token.TYPE {
					for _, sp := range gd.Specs {
						ts := sp.(*ast.TypeSpec)
						st, ok := ts.Type.(*ast.StructType)
						if ok && (ts.Name.Name == "accountObject" || ts.Name.Name == "AccountDB" || ts.Name.Name == "Account" || ts.Name.Name == "accessList") {
							var fs []string
							for _, fl := range st.Fields.List {
								for _, n := range fl.Names {
									fs = append(fs, n.Name)
								}
							}
							stateFields[ts.Name.Name] = fs
						}
						if !ok || !strings.HasSuffix(ts.Name.Name, "Change") {
							continue
						}
						var fs []string
						for _, fl := range st.Fields.List {
							for _, n := range fl.Names {
								fs = append(fs, n.Name)
							}
						}
						entryFields[ts.Name.Name] = fs
					}
				}
				fd, ok := d.(*ast.FuncDecl)
				if !ok || fd.Body == nil {
					continue
				}
				rn := recvName(fd)
				// writes to package-level state and reads of fork flags
				locals := map[string]bool{}
				ast.Inspect(fd, func(n ast.Node) bool {
					switch x := n.(type) {
					case *ast.AssignStmt:
						if x.Tok == token.DEFINE {
							for _, l := range x.Lhs {
								if id, ok := l.(*ast.Ident); ok {
									locals[id.Name] = true
								}
							}
						}
					case *ast.Field:
						for _, n := range x.Names {
							locals[n.Name] = true
						}
					}
					return true
				})
				ast.Inspect(fd.Body, func(n ast.Node) bool {
					switch x := n.(type) {
					case *ast.AssignStmt:
						if x.Tok != token.DEFINE {
							for _, l := range x.Lhs {
								if id, ok := l.(*ast.Ident); ok && pkgVars[id.Name] && !locals[id.Name] {
									stateWriters = append(stateWriters, fd.Name.Name+":"+id.Name)
								}
							}
						}
					case *ast.CallExpr:
						if sel, ok := x.Fun.(*ast.SelectorExpr); ok {
							if id, ok := sel.X.(*ast.Ident); ok && id.Name == "common" &&
								(strings.HasPrefix(sel.Sel.Name, "IsProposal") || sel.Sel.Name == "IsSub" || sel.Sel.Name == "GetBlockHeight") {
								forkReads = append(forkReads, fd.Name.Name+":"+sel.Sel.Name)
							}
						}
					}
					return true
				})
				// composite literals of journal entry types, wherever they are built
				ast.Inspect(fd.Body, func(n ast.Node) bool {
					cl, ok := n.(*ast.CompositeLit)
					if !ok {
						return true
					}
					id, ok := cl.Type.(*ast.Ident)
					if !ok || !strings.HasSuffix(id.Name, "Change") {
						return true
					}
					var keys []string
					keyed := false
					for _, e := range cl.Elts {
						if kv, ok := e.(*ast.KeyValueExpr); ok {
							keyed = true
							if k, ok := kv.Key.(*ast.Ident); ok {
								keys = append(keys, k.Name)
							}
						}
					}
					if !keyed {
						keys = []string{fmt.Sprintf("#%d", len(cl.Elts))}
					}
					literals = append(literals, id.Name+":"+strings.Join(keys, ","))
					return true
				})
				if fd.Name.Name == "undo" && rn != "" {
					undoKinds = append(undoKinds, rn)
					recv := ""
					if len(fd.Recv.List[0].Names) > 0 {
						recv = fd.Recv.List[0].Names[0].Name
					}
					uses := map[string]bool{}
					ast.Inspect(fd.Body, func(n ast.Node) bool {
						if sel, ok := n.(*ast.SelectorExpr); ok {
							if id, ok := sel.X.(*ast.Ident); ok && id.Name == recv {
								uses[sel.Sel.Name] = true
							}
						}
						return true
					})
					undoUses[rn] = uses
					continue
				}
				if rn != "AccountDB" && rn != "accountObject" {
					continue
				}
				fc := fact{recv: rn, name: fd.Name.Name}
				ast.Inspect(fd.Body, func(n ast.Node) bool {
					switch x := n.(type) {
					case *ast.CallExpr:
						if id, ok := x.Fun.(*ast.Ident); ok && id.Name == "append" && len(x.Args) > 0 {
							if sel, ok := x.Args[0].(*ast.SelectorExpr); ok && sel.Sel.Name == "transitions" {
								fc.appends++
								if fc.firstAppend == 0 {
									fc.firstAppend = x.Pos()
								}
							}
						}
						if sel, ok := x.Fun.(*ast.SelectorExpr); ok {
							if rawSetters[sel.Sel.Name] {
								fc.raw = append(fc.raw, sel.Sel.Name)
								if fc.firstRaw == 0 {
									fc.firstRaw = x.Pos()
								}
							}
							switch sel.Sel.Name {
							case "AddAddress", "AddSlot":
								fc.directWrites = append(fc.directWrites, "accessList."+sel.Sel.Name)
							}
						}
					case *ast.AssignStmt:
						for _, l := range x.Lhs {
							e := l
							if ix, ok := e.(*ast.IndexExpr); ok {
								e = ix.X
							}
							if sel, ok := e.(*ast.SelectorExpr); ok {
								switch sel.Sel.Name {
								case "refund", "logs", "logSize":
									fc.directWrites = append(fc.directWrites, sel.Sel.Name)
								}
							}
						}
					case *ast.IncDecStmt:
						if sel, ok := x.X.(*ast.SelectorExpr); ok && sel.Sel.Name == "logSize" {
							fc.directWrites = append(fc.directWrites, "logSize")
						}
					}
					return true
				})
				if fc.appends > 0 || len(fc.raw) > 0 || len(fc.directWrites) > 0 {
					facts = append(facts, fc)
				}
			}
		}
	}
	sort.Slice(facts, func(i, j int) bool {
		if facts[i].recv != facts[j].recv {
			return facts[i].recv < facts[j].recv
		}
		return facts[i].name < facts[j].name
	})
	sort.Strings(undoKinds)
	q := func(xs []string) string {
		ys := make([]string, len(xs))
		for i, x := range xs {
			ys[i] = fmt.Sprintf("%q", x)
		}
		return "[" + strings.Join(ys, ", ") + "]"
	}
	var sb strings.Builder
	sb.WriteString("-- GENERATED by gen/cmd/c04facts from src/storage/account/*.go; do not edit.\n")
	sb.WriteString("namespace Rangers.Generated.JournalFacts\n\n")
	sb.WriteString("structure Fact where\n  recv : String\n  name : String\n  appends : Nat\n  raw : List String\n  direct : List String\n  appendFirst : Bool\nderiving DecidableEq, Repr\n\n")
	sb.WriteString("def facts : List Fact := [\n")
	for i, f := range facts {
		af := f.firstAppend != 0 && (f.firstRaw == 0 || f.firstAppend < f.firstRaw)
		sep := ","
		if i == len(facts)-1 {
			sep = ""
		}
		sort.Strings(f.directWrites)
		fmt.Fprintf(&sb, "  ⟨%q, %q, %d, %s, %s, %v⟩%s\n", f.recv, f.name, f.appends, q(f.raw), q(f.directWrites), af, sep)
	}
	sb.WriteString("]\n\n")
	fmt.Fprintf(&sb, "def undoKinds : List String := %s\n\n", q(undoKinds))
	var names []string
	for n := range entryFields {
		names = append(names, n)
	}
	sort.Strings(names)
	sb.WriteString("/-- fields of every journal entry struct, in declaration order -/\ndef entryFields : List (String × List String) := [\n")
	for i, n := range names {
		sep := ","
		if i == len(names)-1 {
			sep = ""
		}
		fmt.Fprintf(&sb, "  (%q, %s)%s\n", n, q(entryFields[n]), sep)
	}
	sb.WriteString("]\n\n/-- the fields each undo method reads (in declaration order) -/\ndef undoUses : List (String × List String) := [\n")
	for i, n := range names {
		sep := ","
		if i == len(names)-1 {
			sep = ""
		}
		var us []string
		for _, f := range entryFields[n] {
			if undoUses[n][f] {
				us = append(us, f)
			}
		}
		fmt.Fprintf(&sb, "  (%q, %s)%s\n", n, q(us), sep)
	}
	sort.Strings(literals)
	fmt.Fprintf(&sb, "]\n\n/-- every composite literal of a journal entry type with the fields it sets (#n = n positional values) -/\ndef literals : List String := %s\n\n", q(literals))
	sort.Strings(stateWriters)
	sort.Strings(forkReads)
	fmt.Fprintf(&sb, "/-- assignments to package-level variables: function:variable -/\ndef pkgStateWriters : List String := %s\n\n", q(stateWriters))
	fmt.Fprintf(&sb, "/-- reads of fork / configuration flags: function:flag -/\ndef forkReads : List String := %s\n\n", q(forkReads))
	var sn []string
	for n := range stateFields {
		sn = append(sn, n)
	}
	sort.Strings(sn)
	sb.WriteString("/-- fields of the structs that carry the state (a new cache / memo field shows up here) -/\ndef stateFields : List (String × List String) := [\n")
	for i, n := range sn {
		sep := ","
		if i == len(sn)-1 {
			sep = ""
		}
		fmt.Fprintf(&sb, "  (%q, %s)%s\n", n, q(stateFields[n]), sep)
	}
	sb.WriteString("]\n\n")
	sb.WriteString("end Rangers.Generated.JournalFacts\n")
	if err := os.WriteFile(out, []byte(sb.String()), 0644); err != nil {
		fmt.Fprintln(os.Stderr, err)
		os.Exit(1)
	}
	fmt.Printf("facts=%d undoKinds=%d\n", len(facts), len(undoKinds))
}
