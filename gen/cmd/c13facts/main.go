// c13facts: T-gen translator for property C13. Re-reads from the go-rangers working tree
//   - bn256 group order, field prime, curve constant b
//   - SSSS_THRESHOLD, GROUP_MIN/MAX_MEMBERS, the DEV override, the shape and divisor of GetGroupK
//   - every call site that fixes a threshold (dealing: genSecKeyList; recovery:
//     New/newGroupSignGenerator) and whether its argument is model.Param.GetGroupK(...)
//   - every call of RecoverGroupSignature and whether it is reached only under
//     `len(witnessSignMap) >= threshold`
//
// and writes lean/Rangers/Generated/Bn256Consts.lean and C13Sites.lean.
// Pure go/ast; no go-rangers package is imported, so it runs even if the tree does not build.
package main

import (
	"bytes"
	"encoding/json"
	"fmt"
	"go/ast"
	"go/parser"
	"go/printer"
	"go/token"
	"os"
	"path/filepath"
	"sort"
	"strings"
)

func die(f string, a ...interface{}) {
	fmt.Fprintf(os.Stderr, "c13facts: "+f+"\n", a...)
	os.Exit(1)
}

var fset = token.NewFileSet()

func show(n ast.Node) string {
	var b bytes.Buffer
	printer.Fprint(&b, fset, n)
	return strings.Join(strings.Fields(b.String()), " ")
}

func parse(path string) *ast.File {
	f, err := parser.ParseFile(fset, path, nil, 0)
	if err != nil {
		die("parse %s: %v", path, err)
	}
	return f
}

// value spec `name = <expr>` at package level
func pkgValue(f *ast.File, name string) ast.Expr {
	for _, d := range f.Decls {
		gd, ok := d.(*ast.GenDecl)
		if !ok {
			continue
		}
		for _, s := range gd.Specs {
			vs, ok := s.(*ast.ValueSpec)
			if !ok {
				continue
			}
			for i, n := range vs.Names {
				if n.Name == name && i < len(vs.Values) {
					return vs.Values[i]
				}
			}
		}
	}
	return nil
}

func callArgLit(e ast.Expr, fn string) string {
	c, ok := e.(*ast.CallExpr)
	if !ok || show(c.Fun) != fn || len(c.Args) != 1 {
		return ""
	}
	if l, ok := c.Args[0].(*ast.BasicLit); ok {
		return strings.Trim(l.Value, "\"")
	}
	return ""
}

func isDigits(s string) bool {
	if s == "" {
		return false
	}
	for _, c := range s {
		if c < '0' || c > '9' {
			return false
		}
	}
	return true
}

func intConst(f *ast.File, name string) string {
	e := pkgValue(f, name)
	if e == nil {
		die("constant %s not found", name)
	}
	l, ok := e.(*ast.BasicLit)
	if !ok || !isDigits(l.Value) {
		die("constant %s is not a decimal literal: %s", name, show(e))
	}
	return l.Value
}

func funcDecl(f *ast.File, recv, name string) *ast.FuncDecl {
	for _, d := range f.Decls {
		fd, ok := d.(*ast.FuncDecl)
		if !ok || fd.Name.Name != name {
			continue
		}
		r := ""
		if fd.Recv != nil && len(fd.Recv.List) == 1 {
			r = show(fd.Recv.List[0].Type)
		}
		if r == recv {
			return fd
		}
	}
	return nil
}

type site struct {
	File, Func, Callee, Arg string
	ViaGroupK               bool
}

type rsite struct {
	File, Func, Args string
	Guarded          bool
	Guard            string
}

func lq(s string) string { b, _ := json.Marshal(s); return string(b) }

func main() {
	args := map[string]string{}
	for _, a := range os.Args[1:] {
		if i := strings.IndexByte(a, '='); i > 0 {
			args[a[:i]] = a[i+1:]
		}
	}
	repo, out := args["repo"], args["out"]
	if repo == "" || out == "" {
		die("usage: c13facts repo=<go-rangers> out=<lean/Rangers/Generated>")
	}
	cons := filepath.Join(repo, "src", "consensus")

	// ---- bn256 constants
	cf := parse(filepath.Join(cons, "groupsig", "bn256", "constants.go"))
	order := callArgLit(pkgValue(cf, "Order"), "bigFromBase10")
	fieldP := callArgLit(pkgValue(cf, "P"), "bigFromBase10")
	if !isDigits(order) || !isDigits(fieldP) {
		die("bn256 Order/P are not bigFromBase10(\"<digits>\")")
	}
	cu := parse(filepath.Join(cons, "groupsig", "bn256", "curve.go"))
	curveB := callArgLit(pkgValue(cu, "curveB"), "newGFp")
	if !isDigits(curveB) {
		die("curveB is not newGFp(<digits>): %s", show(pkgValue(cu, "curveB")))
	}
	// groupsig uses bn256.Order as the scalar modulus
	sk := parse(filepath.Join(cons, "groupsig", "seckey.go"))
	if e := pkgValue(sk, "curveOrder"); e == nil || show(e) != "bn_curve.Order" {
		die("groupsig.curveOrder is no longer bn_curve.Order")
	}

	// ---- threshold parameters
	pf := parse(filepath.Join(cons, "model", "param.go"))
	thr := intConst(pf, "SSSS_THRESHOLD")
	gmax := intConst(pf, "GROUP_MAX_MEMBERS")
	gmin := intConst(pf, "GROUP_MIN_MEMBERS")
	gk := funcDecl(pf, "*ConsensusParam", "GetGroupK")
	if gk == nil || len(gk.Body.List) != 1 {
		die("GetGroupK not found or not a single statement")
	}
	body := show(gk.Body.List[0])
	const pre, post = "return int(math.Ceil(float64(max*p.SSSSThreshold) / ", "))"
	if !strings.HasPrefix(body, pre) || !strings.HasSuffix(body, post) {
		die("GetGroupK has an unexpected shape: %s", body)
	}
	div := body[len(pre) : len(body)-len(post)]
	if !isDigits(div) {
		die("GetGroupK divisor is not a literal: %s", div)
	}
	ip := funcDecl(pf, "", "InitParam")
	if ip == nil {
		die("InitParam not found")
	}
	ipS := show(ip)
	if !strings.Contains(ipS, "SSSSThreshold: SSSS_THRESHOLD,") {
		die("InitParam no longer sets SSSSThreshold: SSSS_THRESHOLD")
	}
	devMin := gmin
	const devPre = "if common.IsDEV() { Param.GroupMemberMin = "
	if i := strings.Index(ipS, devPre); i >= 0 {
		rest := ipS[i+len(devPre):]
		j := strings.IndexByte(rest, ' ')
		if j < 0 || !isDigits(rest[:j]) {
			die("DEV override of GroupMemberMin is not a literal")
		}
		devMin = rest[:j]
	}

	// ---- call sites
	var sites []site
	var rsites []rsite
	thresholdMethods := map[string]bool{} // "<file>:<recv>.<name>" of methods that just return GetGroupK(...)
	var files []string
	filepath.Walk(cons, func(p string, info os.FileInfo, err error) error {
		if err == nil && !info.IsDir() && strings.HasSuffix(p, ".go") && !strings.HasSuffix(p, "_test.go") &&
			!strings.HasPrefix(filepath.Base(p), "verif_") && !strings.HasSuffix(p, "_verif.go") {
			files = append(files, p)
		}
		return nil
	})
	sort.Strings(files)
	parsed := map[string]*ast.File{}
	for _, p := range files {
		parsed[p] = parse(p)
	}
	isGroupK := func(e ast.Expr) bool {
		c, ok := e.(*ast.CallExpr)
		return ok && show(c.Fun) == "model.Param.GetGroupK" && len(c.Args) == 1
	}
	for _, p := range files {
		for _, d := range parsed[p].Decls {
			fd, ok := d.(*ast.FuncDecl)
			if !ok || fd.Body == nil || fd.Recv == nil || len(fd.Body.List) != 1 {
				continue
			}
			if rs, ok := fd.Body.List[0].(*ast.ReturnStmt); ok && len(rs.Results) == 1 && isGroupK(rs.Results[0]) {
				thresholdMethods[filepath.Dir(p)+":"+fd.Name.Name] = true
			}
		}
	}
	for _, p := range files {
		rel, _ := filepath.Rel(repo, p)
		for _, d := range parsed[p].Decls {
			fd, ok := d.(*ast.FuncDecl)
			if !ok || fd.Body == nil {
				continue
			}
			// local variables assigned once from GetGroupK
			fromK := map[string]bool{}
			ast.Inspect(fd.Body, func(n ast.Node) bool {
				if as, ok := n.(*ast.AssignStmt); ok && len(as.Lhs) == 1 && len(as.Rhs) == 1 {
					if id, ok := as.Lhs[0].(*ast.Ident); ok && isGroupK(as.Rhs[0]) {
						fromK[id.Name] = true
					}
				}
				return true
			})
			var stack []ast.Node
			ast.Inspect(fd.Body, func(n ast.Node) bool {
				if n == nil {
					stack = stack[:len(stack)-1]
					return true
				}
				stack = append(stack, n)
				c, ok := n.(*ast.CallExpr)
				if !ok {
					return true
				}
				fn := show(c.Fun)
				base := fn
				if i := strings.LastIndexByte(fn, '.'); i >= 0 {
					base = fn[i+1:]
				}
				switch base {
				case "NewGroupSignGenerator", "newGroupSignGenerator", "genSecKeyList":
					if len(c.Args) != 1 {
						die("%s: %s with %d args", rel, fn, len(c.Args))
					}
					a := c.Args[0]
					via := isGroupK(a)
					if id, ok := a.(*ast.Ident); ok && fromK[id.Name] {
						via = true
					}
					if ac, ok := a.(*ast.CallExpr); ok && len(ac.Args) == 0 {
						if se, ok := ac.Fun.(*ast.SelectorExpr); ok && thresholdMethods[filepath.Dir(p)+":"+se.Sel.Name] {
							via = true
						}
					}
					sites = append(sites, site{rel, fd.Name.Name, base, show(a), via})
				case "RecoverGroupSignature":
					rs := rsite{File: rel, Func: fd.Name.Name, Args: show(&ast.CompositeLit{Elts: c.Args})}
					rsites = append(rsites, rs)
				}
				return true
			})
		}
	}
	// guard of the RecoverGroupSignature callers: the calling function (genGroupSign) must be
	// called only from an if-statement `len(gs.witnessSignMap) >= gs.threshold` in the same file
	for i := range rsites {
		p := filepath.Join(repo, rsites[i].File)
		callee := rsites[i].Func
		guarded, ncalls, guard := true, 0, ""
		for _, d := range parsed[p].Decls {
			fd, ok := d.(*ast.FuncDecl)
			if !ok || fd.Body == nil {
				continue
			}
			var ifs []*ast.IfStmt
			var walk func(n ast.Node)
			walk = func(n ast.Node) {
				ast.Inspect(n, func(m ast.Node) bool {
					if is, ok := m.(*ast.IfStmt); ok && m != n {
						ifs = append(ifs, is)
						walk(is.Body)
						ifs = ifs[:len(ifs)-1]
						if is.Else != nil {
							walk(is.Else)
						}
						return false
					}
					if c, ok := m.(*ast.CallExpr); ok {
						fn := show(c.Fun)
						if fn == "gs."+callee || fn == callee {
							ncalls++
							ok2 := false
							for _, is := range ifs {
								if show(is.Cond) == "len(gs.witnessSignMap) >= gs.threshold" {
									ok2 = true
									guard = show(is.Cond)
								}
							}
							if !ok2 {
								guarded = false
							}
						}
					}
					return true
				})
			}
			walk(fd.Body)
		}
		rsites[i].Guarded = guarded && ncalls > 0
		rsites[i].Guard = guard
		if rsites[i].Args != "{gs.witnessSignMap, gs.threshold}" {
			rsites[i].Guarded = false
		}
	}

	// ---- the unexported twin logical.groupSignGenerator must be the same code as
	// model.GroupSignGenerator (which the harness drives) up to locking
	twin := func(file, recv string) map[string]string {
		f := parsed[filepath.Join(cons, file)]
		if f == nil {
			die("twin: %s not parsed", file)
		}
		m := map[string]string{}
		for _, name := range []string{"AddWitnessSign", "SignRecovered", "addWitnessForce", "genGroupSign"} {
			fd := funcDecl(f, recv, name)
			if fd == nil {
				die("twin: %s.%s not found in %s", recv, name, file)
			}
			var parts []string
			for _, st := range fd.Body.List {
				t := show(st)
				if strings.Contains(t, "gs.lock.") {
					continue
				}
				parts = append(parts, t)
			}
			m[name] = strings.Join(parts, " ; ")
		}
		return m
	}
	tm := twin(filepath.Join("model", "group_sign.go"), "*GroupSignGenerator")
	tl := twin(filepath.Join("logical", "round_sign_piece.go"), "*groupSignGenerator")
	type twinFact struct {
		Name string
		Same bool
	}
	var twins []twinFact
	for _, name := range []string{"AddWitnessSign", "SignRecovered", "addWitnessForce", "genGroupSign"} {
		twins = append(twins, twinFact{name, tm[name] == tl[name]})
	}

	// ---- package-level state on the property's path (groupsig, bn256, base): no function may
	// write a package-level variable (assignment, ++/--, or a mutating method such as
	// Set/Add/Mul/Mod/Exp/ModInverse/Unmarshal/MakeAffine called ON a package-level variable), and
	// no fork flag (IsProposalNNN / LocalChainConfig / GetBlockHeight) is read there.
	mutators := map[string]bool{"Set": true, "SetBytes": true, "SetString": true, "SetInt64": true, "SetUint64": true,
		"Add": true, "Sub": true, "Mul": true, "Mod": true, "Exp": true, "ModInverse": true, "ModSqrt": true, "Neg": true,
		"Lsh": true, "Rsh": true, "Div": true, "Quo": true, "Rem": true, "Sqrt": true, "Square": true, "Invert": true, "Double": true,
		"Unmarshal": true, "MakeAffine": true, "SetInfinity": true, "SetZero": true, "SetOne": true, "Conjugate": true,
		"ScalarMult": true, "ScalarBaseMult": true, "Frobenius": true, "FrobeniusP2": true, "MulScalar": true, "MulXi": true, "MulTau": true,
		"Deserialize": true, "SetHexString": true, "SetBigInt": true, "HashToPoint": true, "Finalize": true}
	var stateWrites, forkReads []string
	scanned := 0
	for _, dir := range []string{filepath.Join(cons, "groupsig"), filepath.Join(cons, "groupsig", "bn256"), filepath.Join(cons, "base")} {
		var pf []string
		for _, p := range files {
			if filepath.Dir(p) == dir {
				pf = append(pf, p)
			}
		}
		// .go files of bn256 that are not under src/consensus walk (all are); collect package vars
		pkgVars := map[string]bool{}
		for _, p := range pf {
			for _, d := range parsed[p].Decls {
				if gd, ok := d.(*ast.GenDecl); ok && gd.Tok == token.VAR {
					for _, sp := range gd.Specs {
						for _, nm := range sp.(*ast.ValueSpec).Names {
							if nm.Name != "_" {
								pkgVars[nm.Name] = true
							}
						}
					}
				}
			}
		}
		for _, p := range pf {
			rel, _ := filepath.Rel(repo, p)
			scanned++
			for _, d := range parsed[p].Decls {
				fd, ok := d.(*ast.FuncDecl)
				if !ok || fd.Body == nil {
					continue
				}
				// names bound locally (params, receivers, := and var declarations) shadow package vars
				local := map[string]bool{}
				addFields := func(fl *ast.FieldList) {
					if fl == nil {
						return
					}
					for _, f := range fl.List {
						for _, nm := range f.Names {
							local[nm.Name] = true
						}
					}
				}
				addFields(fd.Recv)
				addFields(fd.Type.Params)
				addFields(fd.Type.Results)
				// local names bound directly to a package-level variable (x := pkgVar, var x = pkgVar):
				// a mutating method on such an alias writes the package variable
				alias := map[string]bool{}
				isPkgIdent := func(e ast.Expr) bool {
					if u, ok := e.(*ast.UnaryExpr); ok && u.Op == token.AND {
						e = u.X
					}
					id, ok := e.(*ast.Ident)
					return ok && pkgVars[id.Name] && !local[id.Name]
				}
				ast.Inspect(fd.Body, func(n ast.Node) bool {
					switch x := n.(type) {
					case *ast.AssignStmt:
						if x.Tok == token.DEFINE {
							for i, l := range x.Lhs {
								if id, ok := l.(*ast.Ident); ok {
									if len(x.Rhs) == len(x.Lhs) && isPkgIdent(x.Rhs[i]) {
										alias[id.Name] = true
									}
									local[id.Name] = true
								}
							}
						}
					case *ast.ValueSpec:
						for i, nm := range x.Names {
							if len(x.Values) == len(x.Names) && isPkgIdent(x.Values[i]) {
								alias[nm.Name] = true
							}
							local[nm.Name] = true
						}
					case *ast.RangeStmt:
						if x.Tok == token.DEFINE {
							for _, e := range []ast.Expr{x.Key, x.Value} {
								if id, ok := e.(*ast.Ident); ok {
									local[id.Name] = true
								}
							}
						}
					}
					return true
				})
				root := func(e ast.Expr) string {
					for {
						switch x := e.(type) {
						case *ast.Ident:
							return x.Name
						case *ast.SelectorExpr:
							e = x.X
						case *ast.IndexExpr:
							e = x.X
						case *ast.StarExpr:
							e = x.X
						case *ast.ParenExpr:
							e = x.X
						case *ast.UnaryExpr:
							e = x.X
						default:
							return ""
						}
					}
				}
				isPkg := func(e ast.Expr) bool {
					r := root(e)
					return r != "" && ((pkgVars[r] && !local[r]) || alias[r])
				}
				ast.Inspect(fd.Body, func(n ast.Node) bool {
					switch x := n.(type) {
					case *ast.AssignStmt:
						if x.Tok != token.DEFINE {
							for _, l := range x.Lhs {
								if isPkg(l) {
									stateWrites = append(stateWrites, rel+":"+fd.Name.Name+": "+show(x))
								}
							}
						}
					case *ast.IncDecStmt:
						if isPkg(x.X) {
							stateWrites = append(stateWrites, rel+":"+fd.Name.Name+": "+show(x))
						}
					case *ast.CallExpr:
						// gfpAdd(c, a, b) style helpers write through their first argument
						if id, ok := x.Fun.(*ast.Ident); ok && len(x.Args) > 0 {
							switch id.Name {
							case "gfpAdd", "gfpSub", "gfpMul", "gfpNeg", "montEncode", "montDecode", "copy":
								if isPkg(x.Args[0]) {
									stateWrites = append(stateWrites, rel+":"+fd.Name.Name+": "+show(x))
								}
							}
						}
						if se, ok := x.Fun.(*ast.SelectorExpr); ok {
							if mutators[se.Sel.Name] && isPkg(se.X) {
								stateWrites = append(stateWrites, rel+":"+fd.Name.Name+": "+show(x))
							}
							if strings.HasPrefix(se.Sel.Name, "IsProposal") || se.Sel.Name == "GetBlockHeight" || se.Sel.Name == "LocalChainConfig" {
								forkReads = append(forkReads, rel+":"+fd.Name.Name+": "+show(x))
							}
						}
					case *ast.SelectorExpr:
						if x.Sel.Name == "LocalChainConfig" {
							forkReads = append(forkReads, rel+":"+fd.Name.Name+": "+show(x))
						}
					}
					return true
				})
			}
		}
	}
	// fork flags on the rest of the path (generators, DKG, threshold)
	for _, rel0 := range []string{"model/group_sign.go", "model/param.go", "logical/round_sign_piece.go", "logical/group_create/group_node_info.go"} {
		p := filepath.Join(cons, rel0)
		if parsed[p] == nil {
			die("path file %s not found", rel0)
		}
		scanned++
		ast.Inspect(parsed[p], func(n ast.Node) bool {
			if se, ok := n.(*ast.SelectorExpr); ok {
				if strings.HasPrefix(se.Sel.Name, "IsProposal") || se.Sel.Name == "LocalChainConfig" {
					forkReads = append(forkReads, rel0+": "+show(se))
				}
			}
			return true
		})
	}

	// ---- round1.Update: the statements from the first AddWitnessSign to the end (logger calls
	// dropped) and the nil guard on the random-beacon share
	var round1Tail []string
	round1NilGuard := false
	{
		f := parsed[filepath.Join(cons, "logical", "round_sign_piece.go")]
		fd := funcDecl(f, "*round1", "Update")
		if fd == nil {
			die("round1.Update not found")
		}
		isLog := func(st ast.Stmt) bool {
			es, ok := st.(*ast.ExprStmt)
			return ok && strings.HasPrefix(show(es.X), "r.logger.")
		}
		var norm func(st ast.Stmt) string
		norm = func(st ast.Stmt) string {
			if is, ok := st.(*ast.IfStmt); ok && is.Else == nil && is.Init == nil {
				var body []string
				for _, b := range is.Body.List {
					if !isLog(b) {
						body = append(body, norm(b))
					}
				}
				return "if " + show(is.Cond) + " { " + strings.Join(body, " ; ") + " }"
			}
			return show(st)
		}
		start := -1
		for i, st := range fd.Body.List {
			t := show(st)
			if strings.Contains(t, "sig == nil || sig.IsNil()") {
				round1NilGuard = true
			}
			if start < 0 && strings.Contains(t, "r.gSignGenerator.AddWitnessSign(") {
				start = i
			}
		}
		if start < 0 {
			die("round1.Update: no call of gSignGenerator.AddWitnessSign")
		}
		for _, st := range fd.Body.List[start:] {
			if !isLog(st) {
				round1Tail = append(round1Tail, norm(st))
			}
		}
	}

	// ---- locking discipline of the generator and of groupNodeInfo: every X.Lock() / X.RLock() statement
	// is immediately followed by `defer X.Unlock()` / `defer X.RUnlock()`
	var lockViolations []string
	locksSeen := 0
	for _, rel0 := range []string{"model/group_sign.go", "logical/group_create/group_node_info.go", "logical/round_sign_piece.go"} {
		f := parsed[filepath.Join(cons, rel0)]
		for _, d := range f.Decls {
			fd, ok := d.(*ast.FuncDecl)
			if !ok || fd.Body == nil {
				continue
			}
			var walk func(list []ast.Stmt)
			walk = func(list []ast.Stmt) {
				for i, st := range list {
					if es, ok := st.(*ast.ExprStmt); ok {
						if c, ok := es.X.(*ast.CallExpr); ok {
							if se, ok := c.Fun.(*ast.SelectorExpr); ok && (se.Sel.Name == "Lock" || se.Sel.Name == "RLock") && len(c.Args) == 0 {
								locksSeen++
								want := "defer " + show(se.X) + "." + map[string]string{"Lock": "Unlock", "RLock": "RUnlock"}[se.Sel.Name] + "()"
								if i+1 >= len(list) || show(list[i+1]) != want {
									lockViolations = append(lockViolations, rel0+":"+fd.Name.Name+": "+show(st)+" not followed by "+want)
								}
							}
						}
					}
					ast.Inspect(st, func(n ast.Node) bool {
						if b, ok := n.(*ast.BlockStmt); ok {
							walk(b.List)
							return false
						}
						return true
					})
				}
			}
			walk(fd.Body.List)
		}
	}

	// ---- write Lean
	var b strings.Builder
	b.WriteString("/-! GENERATED by gen/cmd/c13facts from the go-rangers working tree; do not edit.\n")
	b.WriteString("Sources: src/consensus/groupsig/bn256/constants.go (Order, P), curve.go (curveB),\n")
	b.WriteString("src/consensus/model/param.go (SSSS_THRESHOLD, GROUP_MIN/MAX_MEMBERS, GetGroupK divisor). -/\n")
	b.WriteString("namespace Rangers.Generated.Bn256\n\n")
	fmt.Fprintf(&b, "def order : Nat := %s\n", order)
	fmt.Fprintf(&b, "def fieldP : Nat := %s\n", fieldP)
	fmt.Fprintf(&b, "def curveB : Nat := %s\n", curveB)
	fmt.Fprintf(&b, "def ssssThreshold : Nat := %s\n", thr)
	fmt.Fprintf(&b, "def groupKDivisor : Nat := %s\n", div)
	fmt.Fprintf(&b, "def groupMinMembers : Nat := %s\n", gmin)
	fmt.Fprintf(&b, "def groupMaxMembers : Nat := %s\n", gmax)
	fmt.Fprintf(&b, "def groupMinMembersDev : Nat := %s\n", devMin)
	b.WriteString("\nend Rangers.Generated.Bn256\n")
	if err := os.WriteFile(filepath.Join(out, "Bn256Consts.lean"), []byte(b.String()), 0644); err != nil {
		die("%v", err)
	}
	var s strings.Builder
	s.WriteString("/-! GENERATED by gen/cmd/c13facts from the go-rangers working tree; do not edit.\n")
	s.WriteString("Call sites that fix a signing threshold, and the calls of RecoverGroupSignature. -/\n")
	s.WriteString("namespace Rangers.Generated.C13Sites\n\n")
	s.WriteString("structure Site where\n  file : String\n  func : String\n  callee : String\n  arg : String\n  viaGroupK : Bool\n  deriving Repr, DecidableEq\n\n")
	s.WriteString("structure RecoverSite where\n  file : String\n  func : String\n  args : String\n  guardedByLenGeThreshold : Bool\n  deriving Repr, DecidableEq\n\n")
	s.WriteString("def thresholdSites : List Site := [\n")
	for i, x := range sites {
		sep := ","
		if i == len(sites)-1 {
			sep = ""
		}
		fmt.Fprintf(&s, "  ⟨%s, %s, %s, %s, %v⟩%s\n", lq(x.File), lq(x.Func), lq(x.Callee), lq(x.Arg), x.ViaGroupK, sep)
	}
	s.WriteString("]\n\ndef recoverSites : List RecoverSite := [\n")
	for i, x := range rsites {
		sep := ","
		if i == len(rsites)-1 {
			sep = ""
		}
		fmt.Fprintf(&s, "  ⟨%s, %s, %s, %v⟩%s\n", lq(x.File), lq(x.Func), lq(x.Args), x.Guarded, sep)
	}
	s.WriteString("]\n\n/-- method of logical.groupSignGenerator, and whether its body equals the one of\n    model.GroupSignGenerator up to the lock statements -/\ndef twinMethods : List (String × Bool) := [\n")
	for i, x := range twins {
		sep := ","
		if i == len(twins)-1 {
			sep = ""
		}
		fmt.Fprintf(&s, "  (%s, %v)%s\n", lq(x.Name), x.Same, sep)
	}
	s.WriteString("]\n\n/-- writes to package-level variables (assignment, increment, mutating method or gfpXxx(dst, ..) on a package variable) in\n    packages groupsig, groupsig/bn256, base -/\ndef packageStateWrites : List String := [")
	for i, x := range stateWrites {
		if i > 0 {
			s.WriteString(", ")
		}
		s.WriteString(lq(x))
	}
	s.WriteString("]\n\n/-- reads of fork flags (IsProposalNNN, LocalChainConfig, GetBlockHeight) on the property's path -/\ndef forkFlagReads : List String := [")
	for i, x := range forkReads {
		if i > 0 {
			s.WriteString(", ")
		}
		s.WriteString(lq(x))
	}
	fmt.Fprintf(&s, "]\n\ndef pathFilesScanned : Nat := %d\n", scanned)
	s.WriteString("\n/-- Lock()/RLock() statements in the generators and groupNodeInfo that are not immediately followed by the matching deferred unlock -/\ndef lockWithoutDeferUnlock : List String := [")
	for i, x := range lockViolations {
		if i > 0 {
			s.WriteString(", ")
		}
		s.WriteString(lq(x))
	}
	fmt.Fprintf(&s, "]\n\ndef lockStatementsSeen : Nat := %d\n", locksSeen)
	s.WriteString("\n/-- round1.Update from the first AddWitnessSign on, logger calls dropped -/\ndef round1UpdateTail : List String := [\n")
	for i, x := range round1Tail {
		sep := ","
		if i == len(round1Tail)-1 {
			sep = ""
		}
		fmt.Fprintf(&s, "  %s%s\n", lq(x), sep)
	}
	fmt.Fprintf(&s, "]\n\n/-- round1.Update returns early on `sig == nil || sig.IsNil()` for the random-beacon share -/\ndef round1RandomNilGuard : Bool := %v\n", round1NilGuard)
	s.WriteString("\nend Rangers.Generated.C13Sites\n")
	if err := os.WriteFile(filepath.Join(out, "C13Sites.lean"), []byte(s.String()), 0644); err != nil {
		die("%v", err)
	}
	facts := map[string]interface{}{"order": order, "fieldP": fieldP, "curveB": curveB, "ssssThreshold": thr,
		"groupKDivisor": div, "groupMin": gmin, "groupMax": gmax, "groupMinDev": devMin,
		"thresholdSites": len(sites), "recoverSites": len(rsites)}
	fb, _ := json.Marshal(facts)
	fmt.Println("FACTS " + string(fb))
}
