// c11facts: translator (T-gen) for property C11.
//
// Reads, from the go-rangers working tree it is linked against (build tag verif):
//   * the LIVE jump table NewEVMInterpreter builds, for all 8 on/off combinations of
//     the three table-changing proposals (014, 022, 026), through the dump hook
//     vm.VerifC11Table (src/vm/verif_c11_dump.go);
//   * the gas / limit constants of src/vm/param.go, gas.go, operations_acl.go, common;
//   * by go/ast, for every function of src/vm/memory_table.go and the gas functions of
//     src/vm/gas_table.go: which stack positions (`stack.Back(n)`) it reads and which
//     helper it calls, in source order.
// and prints lean/Rangers/Generated/Evm11Tables.lean on stdout.
package main

import (
	"fmt"
	"go/ast"
	"go/parser"
	"go/printer"
	"go/token"
	"io/ioutil"
	"math"
	"os"
	"path/filepath"
	"regexp"
	"sort"
	"strconv"
	"strings"

	"com.tuntun.rangers/node/src/common"
	"com.tuntun.rangers/node/src/vm"
)

var binOps = map[string]string{
	"opAdd": "add", "opMul": "mul", "opSub": "sub", "opDiv": "div", "opSdiv": "sdiv", "opMod": "mod", "opSmod": "smod",
	"opExp": "exp", "opSignExtend": "signextend", "opLt": "lt", "opGt": "gt", "opSlt": "slt", "opSgt": "sgt", "opEq": "eq",
	"opAnd": "and", "opOr": "or", "opXor": "xor", "opByte": "byte", "opSHL": "shl", "opSHR": "shr", "opSAR": "sar",
}
var envOps = map[string]string{
	"opAddress": "address", "opOrigin": "origin", "opCaller": "caller", "opCallValue": "callvalue", "opCallDataSize": "calldatasize",
	"opCodeSize": "codesize", "opGasprice": "gasprice", "opCoinbase": "coinbase", "opTimestamp": "timestamp", "opNumber": "number",
	"opDifficulty": "difficulty", "opGasLimit": "gaslimit", "opPc": "pc", "opMsize": "msize", "opGas": "gas", "opChainID": "chainid",
	"opReturnDataSize": "returndatasize", "opSelfBalance": "selfbalance", "opBaseFee": "basefee", "opBlobBaseFee": "blobbasefee", "opPush0": "push0",
}
var mapOps = map[string]string{
	"opBalance": "balance", "opCallDataLoad": "calldataload", "opExtCodeSize": "extcodesize", "opExtCodeHash": "extcodehash",
	"opBlockhash": "blockhash", "opMload": "mload", "opSload": "sload", "opTload": "tload", "opBlobHash": "blobhash", "opGetStake": "getstake",
}
var plainExec = map[string]string{
	"opStop": ".stop", "opIszero": ".un .iszero", "opNot": ".un .not", "opAddmod": ".tern .addmod", "opMulmod": ".tern .mulmod",
	"opSha3": ".sha3", "opPop": ".pop", "opMstore": ".mstore", "opMstore8": ".mstore8", "opSstore": ".sstore", "opTstore": ".tstore",
	"opJump": ".jump", "opJumpi": ".jumpi", "opJumpdest": ".jumpdest", "opPush1": ".push1",
	"opCallDataCopy": ".copy .calldatacopy", "opCodeCopy": ".copy .codecopy", "opReturnDataCopy": ".copy .returndatacopy", "opMcopy": ".copy .mcopy",
	"opExtCodeCopy": ".extcodecopy", "opCreate": ".create", "opCreate2": ".create2",
	"opCall": ".call .call", "opCallCode": ".call .callcode", "opDelegateCall": ".call .delegatecall", "opStaticCall": ".call .staticcall",
	"opReturn": ".ret", "opRevert": ".revert", "opSuicide": ".selfdestruct",
	"opPrintF": ".printf", "opStake": ".stake", "opUnStake": ".unstake", "opUnStakeAll": ".unstakeall", "opStakeNum": ".stakenum",
	"opAuth": ".auth", "opAuthCall": ".authcall",
}
var memFns = map[string]string{
	"memorySha3": ".two 0 1", "memoryCallDataCopy": ".two 0 2", "memoryReturnDataCopy": ".two 0 2", "memoryCodeCopy": ".two 0 2",
	"memoryExtCodeCopy": ".two 1 3", "memoryMLoad": ".fixed 0 32", "memoryMStore8": ".fixed 0 1", "memoryMStore": ".fixed 0 32",
	"memoryMcopy": ".mcopy", "memoryCreate": ".two 1 2", "memoryCreate2": ".two 1 2", "memoryCall": ".max2 5 6 3 4",
	"memoryDelegateCall": ".max2 4 5 2 3", "memoryStaticCall": ".max2 4 5 2 3", "memoryReturn": ".two 0 1", "memoryRevert": ".two 0 1",
	"memoryLog": ".two 0 1", "memoryAuthCall": ".max2 7 8 5 6",
}
var dynFns = map[string]string{
	"pureMemoryGascost": ".pureMem", "gasSStore": ".sstore", "gasSStoreEIP2200": ".sstore2200", "gasSha3": ".sha3", "gasCreate2": ".create2",
	"gasExpFrontier": ".expFrontier", "gasExpEIP158": ".expEIP158", "gasCall": ".call", "gasCallCode": ".callcode",
	"gasDelegateCall": ".delegatecall", "gasStaticCall": ".staticcall", "gasSelfdestruct": ".selfdestruct", "gasAuthCall": ".authcall",
}

func execOf(o vm.VerifC11Op) string {
	if v, ok := binOps[o.Exec]; ok {
		return ".bin ." + v
	}
	if v, ok := envOps[o.Exec]; ok {
		return ".env ." + v
	}
	if v, ok := mapOps[o.Exec]; ok {
		return ".map ." + v
	}
	if v, ok := plainExec[o.Exec]; ok {
		return v
	}
	switch o.Exec {
	case "makePush.func1":
		return fmt.Sprintf(".push %d %d", o.P1, o.P2)
	case "makeDup.func1":
		return fmt.Sprintf(".dup %d", o.P1)
	case "makeSwap.func1":
		return fmt.Sprintf(".swap %d", o.P1)
	case "makeLog.func1":
		return fmt.Sprintf(".log %d", o.P1)
	}
	return ".unknown"
}

func memOf(o vm.VerifC11Op) string {
	if o.MemorySize == "" {
		return ".none"
	}
	if v, ok := memFns[o.MemorySize]; ok {
		return v
	}
	return ".unknown"
}

func dynOf(o vm.VerifC11Op) string {
	if o.DynamicGas == "" {
		return ".none"
	}
	if v, ok := dynFns[o.DynamicGas]; ok {
		return v
	}
	switch o.DynamicGas {
	case "memoryCopierGas.func1":
		if o.DynP >= 0 {
			return fmt.Sprintf(".copier %d", o.DynP)
		}
	case "makeGasLog.func1":
		if o.DynP >= 0 {
			return fmt.Sprintf(".log %d", o.DynP)
		}
	}
	return ".unknown"
}

func b(x bool) string {
	if x {
		return "true"
	}
	return "false"
}

// ---- go/ast skeleton of the memory-size and gas functions

type skel struct {
	name  string
	items []string
}

func exprName(e ast.Expr) string {
	switch v := e.(type) {
	case *ast.Ident:
		return v.Name
	case *ast.SelectorExpr:
		return exprName(v.X) + "." + v.Sel.Name
	}
	return "?"
}

func skeleton(fn *ast.FuncDecl, body *ast.BlockStmt, name string) skel {
	s := skel{name: name}
	ast.Inspect(body, func(n ast.Node) bool {
		ce, ok := n.(*ast.CallExpr)
		if !ok {
			return true
		}
		fnName := exprName(ce.Fun)
		switch {
		case strings.HasSuffix(fnName, ".Back") && len(ce.Args) == 1:
			if lit, ok := ce.Args[0].(*ast.BasicLit); ok {
				s.items = append(s.items, "B"+lit.Value)
			} else {
				s.items = append(s.items, "B("+exprName(ce.Args[0])+")")
			}
		case fnName == "calcMemSize64" || fnName == "calcMemSize64WithUint" || fnName == "memoryGasCost" ||
			fnName == "callGas" || fnName == "authCallGas" || fnName == "toWordSize" ||
			fnName == "utility.SafeAdd" || fnName == "utility.SafeMul" || fnName == "common.IsProposal026" || fnName == "common.IsProposal015":
			tag := fnName[strings.LastIndex(fnName, ".")+1:]
			for _, a := range ce.Args {
				switch v := a.(type) {
				case *ast.BasicLit:
					tag += "," + v.Value
				case *ast.Ident:
					if v.Name == strings.ToUpper(v.Name[:1])+v.Name[1:] && v.Obj == nil { // exported constant
						tag += "," + v.Name
					}
				case *ast.SelectorExpr:
					if exprName(v) == "common.GasMagnification" {
						tag += ",GasMagnification"
					}
				}
			}
			s.items = append(s.items, tag)
		}
		return true
	})
	// multiplications by the magnification that are NOT overflow-checked
	ast.Inspect(body, func(n ast.Node) bool {
		be, ok := n.(*ast.BinaryExpr)
		if ok && be.Op == token.MUL && (exprName(be.Y) == "common.GasMagnification" || exprName(be.X) == "common.GasMagnification") {
			s.items = append(s.items, "rawmul:GasMagnification")
		}
		return true
	})
	return s
}

func skeletons(repo string) []skel {
	var out []skel
	fset := token.NewFileSet()
	for _, f := range []string{"memory_table.go", "gas_table.go", "gas.go"} {
		file, err := parser.ParseFile(fset, filepath.Join(repo, "src", "vm", f), nil, 0)
		if err != nil {
			panic(err)
		}
		for _, d := range file.Decls {
			fd, ok := d.(*ast.FuncDecl)
			if !ok || fd.Body == nil {
				continue
			}
			out = append(out, skeleton(fd, fd.Body, fd.Name.Name))
		}
	}
	out = append(out, runGuards(repo)...)
	out = append(out, pkgState(repo)...)
	out = append(out, frameFacts(repo)...)
	out = append(out, executorFacts(repo)...)
	sort.Slice(out, func(i, j int) bool { return out[i].name < out[j].name })
	return out
}

// executor/contract_executor.go: the gas-limit constants and every condition / assignment of Execute and
// IntrinsicGas that mentions the gas limit (what bounds the gas evm.Call / Create are given).
func executorFacts(repo string) []skel {
	fset := token.NewFileSet()
	file, err := parser.ParseFile(fset, filepath.Join(repo, "src", "executor", "contract_executor.go"), nil, 0)
	if err != nil {
		panic(err)
	}
	show := func(n ast.Node) string {
		var sb strings.Builder
		printer.Fprint(&sb, fset, n)
		return strings.Join(strings.Fields(sb.String()), " ")
	}
	consts := skel{name: "executor.gasConstants"}
	for _, d := range file.Decls {
		if gd, ok := d.(*ast.GenDecl); ok && gd.Tok == token.CONST {
			for _, sp := range gd.Specs {
				vs := sp.(*ast.ValueSpec)
				for i, n := range vs.Names {
					if strings.Contains(n.Name, "GasLimit") && i < len(vs.Values) {
						consts.items = append(consts.items, n.Name+"="+show(vs.Values[i]))
					}
				}
			}
		}
	}
	out := []skel{consts}
	for _, d := range file.Decls {
		fd, ok := d.(*ast.FuncDecl)
		if !ok || fd.Body == nil || (fd.Name.Name != "Execute" && fd.Name.Name != "IntrinsicGas") {
			continue
		}
		sk := skel{name: "executor." + fd.Name.Name}
		ast.Inspect(fd.Body, func(n ast.Node) bool {
			switch v := n.(type) {
			case *ast.IfStmt:
				c := show(v.Cond)
				if strings.Contains(c, "gasLimit") || strings.Contains(c, "GasLimit") || strings.Contains(c, "IsProposal") || fd.Name.Name == "IntrinsicGas" {
					sk.items = append(sk.items, "if "+c)
				}
			case *ast.AssignStmt:
				t := show(v)
				if strings.Contains(t, "asLimit") || (fd.Name.Name == "IntrinsicGas" && strings.Contains(t, "gas")) {
					sk.items = append(sk.items, t)
				}
			case *ast.ReturnStmt:
				if fd.Name.Name == "IntrinsicGas" {
					sk.items = append(sk.items, show(v))
				}
			}
			return true
		})
		out = append(out, sk)
	}
	return out
}

// How frames are built and how jump destinations are validated (evm.go, contract.go):
//   frame.<Func>      : the NewContract / SetCallCode / SetCodeOptionalHash / AsDelegate calls of evm.Call, CallCode,
//                       DelegateCall, StaticCall, AuthCall, create, printed with their arguments (which address is
//                       `self`, which account's code hash keys the shared JUMPDEST-analysis cache, which code runs);
//   contract.<Func>   : every `if` condition and `return` expression of validJumpdest, isCode, GetOp, GetByte, UseGas,
//                       with the receiver renamed to $c (comparison operators, bounds, cache key).
func frameFacts(repo string) []skel {
	fset := token.NewFileSet()
	var out []skel
	show := func(n ast.Node, recv string) string {
		var sb strings.Builder
		printer.Fprint(&sb, fset, n)
		t := strings.Join(strings.Fields(sb.String()), " ")
		if recv != "" {
			t = regexp.MustCompile(`\b`+regexp.QuoteMeta(recv)+`\.`).ReplaceAllString(t, "$$c.")
		}
		return strings.ReplaceAll(t, "evm.StateDB.", "")
	}
	evmFile, err := parser.ParseFile(fset, filepath.Join(repo, "src", "vm", "evm.go"), nil, 0)
	if err != nil {
		panic(err)
	}
	want := map[string]bool{"Call": true, "CallCode": true, "DelegateCall": true, "StaticCall": true, "AuthCall": true, "create": true}
	for _, d := range evmFile.Decls {
		fd, ok := d.(*ast.FuncDecl)
		if !ok || fd.Body == nil || !want[fd.Name.Name] {
			continue
		}
		sk := skel{name: "frame." + fd.Name.Name}
		ast.Inspect(fd.Body, func(n ast.Node) bool {
			ce, ok := n.(*ast.CallExpr)
			if !ok {
				return true
			}
			fn := exprName(ce.Fun)
			if fn == "NewContract" || strings.HasSuffix(fn, ".SetCallCode") || strings.HasSuffix(fn, ".SetCodeOptionalHash") || strings.HasSuffix(fn, ".AsDelegate") || fn == "run" {
				if strings.HasSuffix(fn, ".AsDelegate") {
					sk.items = append(sk.items, "AsDelegate")
				} else {
					sk.items = append(sk.items, show(ce, ""))
				}
			}
			return true
		})
		out = append(out, sk)
	}
	cFile, err := parser.ParseFile(fset, filepath.Join(repo, "src", "vm", "contract.go"), nil, 0)
	if err != nil {
		panic(err)
	}
	wantC := map[string]bool{"validJumpdest": true, "isCode": true, "GetOp": true, "GetByte": true, "UseGas": true, "AsDelegate": true}
	for _, d := range cFile.Decls {
		fd, ok := d.(*ast.FuncDecl)
		if !ok || fd.Body == nil || !wantC[fd.Name.Name] || fd.Recv == nil || len(fd.Recv.List[0].Names) == 0 {
			continue
		}
		recv := fd.Recv.List[0].Names[0].Name
		sk := skel{name: "contract." + fd.Name.Name}
		ast.Inspect(fd.Body, func(n ast.Node) bool {
			switch v := n.(type) {
			case *ast.IfStmt:
				sk.items = append(sk.items, "if "+show(v.Cond, recv))
			case *ast.ReturnStmt:
				sk.items = append(sk.items, show(v, recv))
			case *ast.AssignStmt:
				sk.items = append(sk.items, show(v, recv))
			}
			return true
		})
		out = append(out, sk)
	}
	aFile, err := parser.ParseFile(fset, filepath.Join(repo, "src", "vm", "analysis.go"), nil, 0)
	if err == nil {
		for _, d := range aFile.Decls {
			fd, ok := d.(*ast.FuncDecl)
			if !ok || fd.Body == nil || fd.Name.Name != "codeBitmap" {
				continue
			}
			sk := skel{name: "analysis.codeBitmap"}
			ast.Inspect(fd.Body, func(n ast.Node) bool {
				switch v := n.(type) {
				case *ast.IfStmt:
					sk.items = append(sk.items, "if "+show(v.Cond, ""))
				case *ast.ForStmt:
					if v.Cond != nil {
						sk.items = append(sk.items, "for "+show(v.Cond, ""))
					}
				case *ast.AssignStmt:
					sk.items = append(sk.items, show(v, ""))
				}
				return true
			})
			out = append(out, sk)
		}
	}
	return out
}

// Package-level mutable state of src/vm (hardening class 3c) and fork-flag reads of the frame code (class 5):
//   pkgstate.writes : "<func>:<var>" for every assignment / ++ / -- whose target is rooted at a package-level variable;
//   pkgstate.pools  : "<func>:<var>.<Get|Put>" for every use of a package-level pool;
//   flags.<func>    : the common.IsProposalNNN() calls / LocalChainConfig.ProposalNNNBlock reads of evm.go's create,
//                     NewEVMInterpreter and RunPrecompiledContract, in source order.
func pkgState(repo string) []skel {
	fset := token.NewFileSet()
	dir := filepath.Join(repo, "src", "vm")
	files, _ := filepath.Glob(filepath.Join(dir, "*.go"))
	sort.Strings(files)
	var parsed []*ast.File
	pkgVars := map[string]bool{}
	for _, f := range files {
		base := filepath.Base(f)
		if strings.HasSuffix(base, "_test.go") || strings.HasPrefix(base, "verif_") || base == "vm_test_helper.go" {
			continue
		}
		file, err := parser.ParseFile(fset, f, nil, 0)
		if err != nil {
			panic(err)
		}
		parsed = append(parsed, file)
		for _, d := range file.Decls {
			if gd, ok := d.(*ast.GenDecl); ok && gd.Tok == token.VAR {
				for _, sp := range gd.Specs {
					for _, n := range sp.(*ast.ValueSpec).Names {
						pkgVars[n.Name] = true
					}
				}
			}
		}
	}
	root := func(e ast.Expr) *ast.Ident {
		for {
			switch v := e.(type) {
			case *ast.Ident:
				return v
			case *ast.SelectorExpr:
				e = v.X
			case *ast.IndexExpr:
				e = v.X
			case *ast.StarExpr:
				e = v.X
			case *ast.ParenExpr:
				e = v.X
			default:
				return nil
			}
		}
	}
	isPkg := func(id *ast.Ident) bool {
		if id == nil || !pkgVars[id.Name] {
			return false
		}
		if id.Obj == nil {
			return true // declared in another file of the package
		}
		if vs, ok := id.Obj.Decl.(*ast.ValueSpec); ok {
			_ = vs
			return id.Obj.Kind == ast.Var && id.Obj.Pos() != token.NoPos && isTopLevel(parsed, id.Obj)
		}
		return false
	}
	writes := map[string]bool{}
	pools := map[string]bool{}
	flags := map[string][]string{}
	for _, file := range parsed {
		for _, d := range file.Decls {
			fd, ok := d.(*ast.FuncDecl)
			if !ok || fd.Body == nil {
				continue
			}
			name := fd.Name.Name
			ast.Inspect(fd.Body, func(n ast.Node) bool {
				switch v := n.(type) {
				case *ast.AssignStmt:
					if v.Tok == token.DEFINE {
						return true
					}
					for _, l := range v.Lhs {
						if id := root(l); isPkg(id) {
							writes[name+":"+id.Name] = true
						}
					}
				case *ast.IncDecStmt:
					if id := root(v.X); isPkg(id) {
						writes[name+":"+id.Name] = true
					}
				case *ast.CallExpr:
					if se, ok := v.Fun.(*ast.SelectorExpr); ok {
						if id, ok := se.X.(*ast.Ident); ok && isPkg(id) && (se.Sel.Name == "Get" || se.Sel.Name == "Put") {
							pools[name+":"+id.Name+"."+se.Sel.Name] = true
						}
						if name == "create" || name == "NewEVMInterpreter" || name == "RunPrecompiledContract" || name == "Call" {
							if fn := exprName(v.Fun); strings.HasPrefix(fn, "common.IsProposal") || fn == "common.IsSub" {
								flags[name] = append(flags[name], fn)
							}
						}
					}
				case *ast.SelectorExpr:
					if name == "NewEVMInterpreter" && strings.HasPrefix(v.Sel.Name, "Proposal") && strings.HasSuffix(v.Sel.Name, "Block") {
						flags[name] = append(flags[name], v.Sel.Name)
					}
				}
				return true
			})
		}
	}
	keys := func(m map[string]bool) []string {
		var ks []string
		for k := range m {
			ks = append(ks, k)
		}
		sort.Strings(ks)
		return ks
	}
	out := []skel{{name: "pkgstate.pools", items: keys(pools)}, {name: "pkgstate.writes", items: keys(writes)}}
	for _, fn := range []string{"Call", "NewEVMInterpreter", "RunPrecompiledContract", "create"} {
		out = append(out, skel{name: "flags." + fn, items: flags[fn]})
	}
	return out
}

func isTopLevel(files []*ast.File, obj *ast.Object) bool {
	for _, f := range files {
		for _, d := range f.Decls {
			if gd, ok := d.(*ast.GenDecl); ok && gd.Tok == token.VAR {
				for _, sp := range gd.Specs {
					for _, n := range sp.(*ast.ValueSpec).Names {
						if n.Obj == obj {
							return true
						}
					}
				}
			}
		}
	}
	return false
}

// The read-only discipline of EVMInterpreter.Run (interpreter.go), with the receiver and the
// readOnly parameter renamed to $in / $ro so that renaming them is harmless:
//   Run.readOnlyEntry : condition of the `if` that sets $in.readOnly = true, and what its body does
//                       (the assignment and the deferred reset);
//   Run.readOnlyCheck : condition of the `if $in.readOnly` in the loop and of the write test inside it.
func runGuards(repo string) []skel {
	fset := token.NewFileSet()
	file, err := parser.ParseFile(fset, filepath.Join(repo, "src", "vm", "interpreter.go"), nil, 0)
	if err != nil {
		panic(err)
	}
	var out []skel
	for _, d := range file.Decls {
		fd, ok := d.(*ast.FuncDecl)
		if !ok || fd.Name.Name != "Run" || fd.Recv == nil || fd.Body == nil || len(fd.Recv.List) == 0 || len(fd.Recv.List[0].Names) == 0 {
			continue
		}
		recv := fd.Recv.List[0].Names[0].Name
		ro := ""
		for _, f := range fd.Type.Params.List {
			if id, ok := f.Type.(*ast.Ident); ok && id.Name == "bool" && len(f.Names) > 0 {
				ro = f.Names[0].Name
			}
		}
		norm := func(e ast.Node) string {
			var sb strings.Builder
			printer.Fprint(&sb, fset, e)
			t := strings.Join(strings.Fields(sb.String()), " ")
			t = regexp.MustCompile(`\b`+regexp.QuoteMeta(recv)+`\.`).ReplaceAllString(t, "$$in.")
			if ro != "" {
				t = regexp.MustCompile(`(^|[^.\w])`+regexp.QuoteMeta(ro)+`\b`).ReplaceAllString(t, "${1}$$ro")
			}
			return t
		}
		entry := skel{name: "Run.readOnlyEntry"}
		check := skel{name: "Run.readOnlyCheck"}
		ast.Inspect(fd.Body, func(n ast.Node) bool {
			is, ok := n.(*ast.IfStmt)
			if !ok {
				return true
			}
			setsFlag := false
			for _, st := range is.Body.List {
				if as, ok := st.(*ast.AssignStmt); ok && len(as.Lhs) == 1 && norm(as.Lhs[0]) == "$in.readOnly" {
					setsFlag = true
				}
			}
			if setsFlag {
				entry.items = append(entry.items, "if "+norm(is.Cond))
				for _, st := range is.Body.List {
					switch v := st.(type) {
					case *ast.AssignStmt:
						entry.items = append(entry.items, norm(v))
					case *ast.DeferStmt:
						if fl, ok := v.Call.Fun.(*ast.FuncLit); ok {
							for _, b := range fl.Body.List {
								entry.items = append(entry.items, "defer "+norm(b))
							}
						} else {
							entry.items = append(entry.items, "defer "+norm(v.Call))
						}
					default:
						entry.items = append(entry.items, "other")
					}
				}
				return true
			}
			if norm(is.Cond) == "$in.readOnly" {
				check.items = append(check.items, "if $in.readOnly")
				for _, st := range is.Body.List {
					if inner, ok := st.(*ast.IfStmt); ok {
						check.items = append(check.items, "if "+norm(inner.Cond))
						for _, b := range inner.Body.List {
							check.items = append(check.items, norm(b))
						}
					}
				}
			}
			return true
		})
		// order of the checks in the interpreter loop (the `for` statement of Run)
		order := skel{name: "Run.loopOrder"}
		ast.Inspect(fd.Body, func(n ast.Node) bool {
			fs, ok := n.(*ast.ForStmt)
			if !ok || fs.Cond != nil || fs.Init != nil {
				return true
			}
			for _, st := range fs.Body.List {
				tag := ""
				switch v := st.(type) {
				case *ast.AssignStmt:
					t := norm(v)
					switch {
					case strings.Contains(t, ".GetOp("):
						tag = "getop"
					case strings.Contains(t, "$in.jumpTable["):
						tag = "lookup"
					case strings.Contains(t, ".execute("):
						tag = "execute"
					case strings.Contains(t, "constantGas"):
						tag = "cost=constantGas"
					}
				case *ast.IfStmt:
					c := norm(v.Cond)
					if v.Init != nil {
						c = norm(v.Init) + "; " + c
					}
					switch {
					case strings.Contains(c, "== nil") && strings.Contains(c, "operation"):
						tag = "nil->invalid-opcode"
					case strings.Contains(c, "minStack"):
						tag = "stack-validation"
					case c == "$in.readOnly":
						tag = "read-only"
					case strings.Contains(c, "UseGas(operation.constantGas)"):
						tag = "use-constant-gas"
					case strings.Contains(c, "operation.memorySize != nil"):
						tag = "memory-size"
					case strings.Contains(c, "operation.dynamicGas != nil"):
						tag = "dynamic-gas"
					case strings.Contains(c, "memorySize > 0"):
						tag = "resize"
					case strings.Contains(c, "operation.returns"):
						tag = "set-return-data"
					case strings.Contains(c, "abort"):
						tag = "abort-poll"
					}
				case *ast.SwitchStmt:
					tag = "err/reverts/halts/pc++"
				}
				if tag != "" {
					order.items = append(order.items, tag)
				}
			}
			return false
		})
		out = append(out, entry, check, order)
	}
	return out
}

func main() {
	repo, _ := os.Getwd()
	if len(os.Args) > 1 {
		repo = os.Args[1]
	}
	tmp, err := ioutil.TempDir("", "c11facts")
	if err != nil {
		panic(err)
	}
	defer os.RemoveAll(tmp)
	os.Chdir(tmp)
	// the logging set-up writes to stdout while initialising: keep our output apart
	realOut := os.Stdout
	devnull, _ := os.OpenFile(os.DevNull, os.O_WRONLY, 0)
	os.Stdout = devnull
	common.Init(0, "verif.ini", "dev")
	vm.InitVM()
	common.SetBlockHeight(0)
	os.Stdout = realOut

	var sb strings.Builder
	w := func(f string, a ...interface{}) { fmt.Fprintf(&sb, f, a...) }
	w("-- GENERATED by gen/cmd/c11facts from the go-rangers working tree; do not edit.\n")
	w("import Rangers.Model.Evm11Table\n")
	w("namespace Rangers.Evm11.Gen\nopen Rangers.Evm11\n\n")
	const height = 1000
	for cfg := 0; cfg < 8; cfg++ {
		set := func(on bool) uint64 {
			if on {
				return 0
			}
			return math.MaxUint64
		}
		common.LocalChainConfig.Proposal014Block = set(cfg&1 != 0)
		common.LocalChainConfig.Proposal022Block = set(cfg&2 != 0)
		common.LocalChainConfig.Proposal026Block = set(cfg&4 != 0)
		t := vm.VerifC11Table(height)
		w("/-- live jump table, Proposal014=%v Proposal022=%v Proposal026=%v -/\n", cfg&1 != 0, cfg&2 != 0, cfg&4 != 0)
		w("def t%d : JumpTable := #[\n", cfg)
		for i := 0; i < 256; i++ {
			o := t[i]
			sep := ","
			if i == 255 {
				sep = ""
			}
			if !o.Defined {
				w("  none%s\n", sep)
				continue
			}
			w("  some ⟨%s, %d, %d, %d, %s, %s, %s, %s, %s, %s, %s⟩%s  -- 0x%02x %s %s\n", execOf(o), o.ConstantGas, o.MinStack, o.MaxStack,
				memOf(o), dynOf(o), b(o.Halts), b(o.Jumps), b(o.Writes), b(o.Reverts), b(o.Returns), sep, i, o.Mnemonic, o.Exec)
		}
		w("]\n\n")
	}
	w("def tableOf (p14 p22 p26 : Bool) : JumpTable :=\n  match p14, p22, p26 with\n")
	for cfg := 0; cfg < 8; cfg++ {
		w("  | %s, %s, %s => t%d\n", b(cfg&1 != 0), b(cfg&2 != 0), b(cfg&4 != 0), cfg)
	}
	w("\ndef allTables : List JumpTable := [t0, t1, t2, t3, t4, t5, t6, t7]\n\n")

	consts := [][2]interface{}{
		{"StackLimit", vm.StackLimit}, {"CallCreateDepth", vm.CallCreateDepth}, {"MemoryGas", vm.MemoryGas}, {"QuadCoeffDiv", vm.QuadCoeffDiv},
		{"CopyGas", vm.CopyGas}, {"Sha3WordGas", vm.Sha3WordGas}, {"LogGas", vm.LogGas}, {"LogTopicGas", vm.LogTopicGas}, {"LogDataGas", vm.LogDataGas},
		{"ExpGas", vm.ExpGas}, {"ExpByteFrontier", vm.ExpByteFrontier}, {"ExpByteEIP158", vm.ExpByteEIP158},
		{"CallValueTransferGas", vm.CallValueTransferGas}, {"CallNewAccountGas", vm.CallNewAccountGas}, {"CallStipend", vm.CallStipend},
		{"SstoreSetGas", vm.SstoreSetGas}, {"SstoreSetGasEIP2200", vm.SstoreSetGasEIP2200},
		{"SelfdestructGasEIP150", vm.SelfdestructGasEIP150}, {"CreateBySelfdestructGas", vm.CreateBySelfdestructGas}, {"SelfdestructRefundGas", vm.SelfdestructRefundGas},
		{"CreateDataGas", vm.CreateDataGas}, {"MaxCodeSize", uint64(vm.MaxCodeSize)},
		{"ColdAccountAccessCostEIP2929", vm.ColdAccountAccessCostEIP2929}, {"WarmStorageReadCostEIP2929", vm.WarmStorageReadCostEIP2929},
		{"AuthCallValueTransferGas", vm.AuthCallValueTransferGas}, {"GasMagnification", uint64(common.GasMagnification)},
	}
	w("def constants : List (String × Nat) := [\n")
	for i, c := range consts {
		sep := ","
		if i == len(consts)-1 {
			sep = ""
		}
		w("  (%s, %d)%s\n", strconv.Quote(c[0].(string)), c[1].(uint64), sep)
	}
	w("]\n\n")
	sk := skeletons(repo)
	w("/-- per function of memory_table.go / gas_table.go / gas.go: stack positions read (`Bn`) and helper calls, in source order -/\n")
	w("def sourceSkeleton : List (String × List String) := [\n")
	for i, s := range sk {
		sep := ","
		if i == len(sk)-1 {
			sep = ""
		}
		var q []string
		for _, it := range s.items {
			q = append(q, strconv.Quote(it))
		}
		w("  (%s, [%s])%s\n", strconv.Quote(s.name), strings.Join(q, ", "), sep)
	}
	w("]\n\nend Rangers.Evm11.Gen\n")
	fmt.Fprint(realOut, sb.String())
}
