// c19facts: translator (T-gen) for property C19. Reads src/core/*.go of the tree given as
// repo=<dir> with go/ast and writes Lean facts about the group chain's store discipline:
//   - the ordered effects of groupChain.save and groupChain.remove (every Put/Delete on
//     chain.groups with the source text of key and value, count++/--, lastGroup assignment,
//     sqlite mirror call),
//   - the guards AddGroup evaluates before it calls save,
//   - every function in package core that writes chain.groups / chain.count / chain.lastGroup,
//     and every caller of save / remove.
// Props/C19Facts.lean proves that the model's write lists have exactly this shape, so a
// re-ordered statement, a new write or a new call site breaks a proof obligation.
package main

import (
	"bytes"
	"fmt"
	"go/ast"
	"go/parser"
	"go/printer"
	"go/token"
	"os"
	"path/filepath"
	"regexp"
	"sort"
	"strings"
)

var fset = token.NewFileSet()

func src(n ast.Node) string {
	var b bytes.Buffer
	printer.Fprint(&b, fset, n)
	return strings.Join(strings.Fields(b.String()), " ")
}

// recvName returns the receiver identifier of a method on *groupChain, or "".
func recvName(fd *ast.FuncDecl) string {
	if fd.Recv == nil || len(fd.Recv.List) != 1 {
		return ""
	}
	t := fd.Recv.List[0].Type
	if st, ok := t.(*ast.StarExpr); ok {
		t = st.X
	}
	if id, ok := t.(*ast.Ident); !ok || id.Name != "groupChain" {
		return ""
	}
	if len(fd.Recv.List[0].Names) == 0 {
		return "_"
	}
	return fd.Recv.List[0].Names[0].Name
}

// canon makes the rendered statements independent of the names a function gives to its
// receiver, its first parameter and its locals: receiver -> chain, parameter -> group, a local
// introduced by `x := e` (or `x, y := e`) -> ‹e› (‹e›#i). Renaming a local is a harmless edit.
func canon(fd *ast.FuncDecl, lines []string) []string {
	type sub struct{ from, to string }
	var subs []sub
	ast.Inspect(fd.Body, func(n ast.Node) bool {
		as, ok := n.(*ast.AssignStmt)
		if !ok || as.Tok != token.DEFINE || len(as.Rhs) != 1 {
			return true
		}
		for i, l := range as.Lhs {
			id, ok := l.(*ast.Ident)
			if !ok || id.Name == "_" {
				continue
			}
			to := "‹" + src(as.Rhs[0]) + "›"
			if len(as.Lhs) > 1 {
				to += fmt.Sprintf("#%d", i)
			}
			subs = append(subs, sub{id.Name, to})
		}
		return true
	})
	if fd.Recv != nil && len(fd.Recv.List) == 1 && len(fd.Recv.List[0].Names) == 1 {
		subs = append(subs, sub{fd.Recv.List[0].Names[0].Name, "chain"})
	}
	if fd.Type.Params != nil && len(fd.Type.Params.List) >= 1 && len(fd.Type.Params.List[0].Names) >= 1 {
		subs = append(subs, sub{fd.Type.Params.List[0].Names[0].Name, "group"})
	}
	// receiver/parameter names inside the local definitions are canonicalised too (apply twice)
	apply := func(x string) string {
		for _, sb := range subs {
			if sb.from == sb.to {
				continue
			}
			re := regexp.MustCompile(`(^|[^.\w‹])` + regexp.QuoteMeta(sb.from) + `\b`)
			x = re.ReplaceAllString(x, "${1}"+strings.ReplaceAll(sb.to, "$", "$$"))
		}
		return x
	}
	out := make([]string, len(lines))
	for i, l := range lines {
		out[i] = apply(l)
	}
	return out
}

// effects lists, in source order, the statements of fd that touch the chain's persistent or mirrored state.
func effects(fd *ast.FuncDecl) []string {
	var out []string
	// locals bound to a batch of the chain's store, and batch writes whose error is returned
	batchVars := map[string]bool{}
	returned := map[token.Pos]bool{}
	ast.Inspect(fd.Body, func(n ast.Node) bool {
		switch x := n.(type) {
		case *ast.AssignStmt:
			if x.Tok == token.DEFINE && len(x.Lhs) == 1 && len(x.Rhs) == 1 {
				if c, ok := x.Rhs[0].(*ast.CallExpr); ok && strings.HasSuffix(src(c.Fun), ".groups.NewBatch") {
					if id, ok := x.Lhs[0].(*ast.Ident); ok {
						batchVars[id.Name] = true
					}
				}
			}
		case *ast.IfStmt:
			if as, ok := x.Init.(*ast.AssignStmt); ok && len(as.Rhs) == 1 {
				if c, ok := as.Rhs[0].(*ast.CallExpr); ok {
					rets := false
					ast.Inspect(x.Body, func(m ast.Node) bool {
						if r, ok := m.(*ast.ReturnStmt); ok && len(r.Results) > 0 && src(r.Results[len(r.Results)-1]) == src(as.Lhs[0]) {
							rets = true
						}
						return true
					})
					if rets {
						returned[c.Pos()] = true
					}
				}
			}
		}
		return true
	})
	ast.Inspect(fd.Body, func(n ast.Node) bool {
		switch x := n.(type) {
		case *ast.CallExpr:
			s := src(x.Fun)
			if sel, ok := x.Fun.(*ast.SelectorExpr); ok {
				if id, ok := sel.X.(*ast.Ident); ok && batchVars[id.Name] {
					switch {
					case sel.Sel.Name == "Put" && len(x.Args) == 2:
						out = append(out, "BatchPut "+src(x.Args[0])+" <- "+src(x.Args[1]))
					case sel.Sel.Name == "Write" && returned[x.Pos()]:
						out = append(out, "BatchWrite (error returned)")
					case sel.Sel.Name == "Write":
						out = append(out, "BatchWrite (error ignored)")
					}
					return true
				}
			}
			switch {
			case strings.HasSuffix(s, ".groups.Put") && len(x.Args) == 2:
				out = append(out, "Put "+src(x.Args[0])+" <- "+src(x.Args[1]))
			case strings.HasSuffix(s, ".groups.Delete") && len(x.Args) == 1:
				out = append(out, "Delete "+src(x.Args[0]))
			case strings.HasSuffix(s, ".groups.NewBatch"):
				out = append(out, "NewBatch")
			case s == "mysql.InsertGroup" || s == "mysql.DeleteGroup":
				out = append(out, s+" "+src(x.Args[0]))
			}
		case *ast.IncDecStmt:
			if strings.HasSuffix(src(x.X), ".count") {
				out = append(out, src(x.X)+x.Tok.String())
			}
		case *ast.AssignStmt:
			for i, l := range x.Lhs {
				ls := src(l)
				if strings.HasSuffix(ls, ".count") || strings.HasSuffix(ls, ".lastGroup") || strings.HasSuffix(ls, ".GroupHeight") {
					r := "?"
					if i < len(x.Rhs) {
						r = src(x.Rhs[i])
					}
					out = append(out, ls+" "+x.Tok.String()+" "+r)
				}
			}
		}
		return true
	})
	return out
}

// lockEvents lists, in source order, where fd takes the chain lock and where it reads the state
// the lock protects (store reads, lastGroup, count) or calls save/remove.
func lockEvents(fd *ast.FuncDecl) []string {
	var out []string
	add := func(e string) {
		if len(out) == 0 || out[len(out)-1] != e {
			out = append(out, e)
		}
	}
	ast.Inspect(fd.Body, func(n ast.Node) bool {
		switch x := n.(type) {
		case *ast.DeferStmt:
			s := src(x.Call.Fun)
			if strings.HasSuffix(s, ".lock.Unlock") || strings.HasSuffix(s, ".lock.RUnlock") {
				add("defer " + s[strings.LastIndex(s, ".")+1:])
				return false
			}
		case *ast.CallExpr:
			s := src(x.Fun)
			switch {
			case strings.HasSuffix(s, ".lock.Lock"):
				add("Lock")
			case strings.HasSuffix(s, ".lock.RLock"):
				add("RLock")
			case strings.HasSuffix(s, ".lock.Unlock"), strings.HasSuffix(s, ".lock.RUnlock"):
				add("early " + s[strings.LastIndex(s, ".")+1:])
			case strings.HasSuffix(s, ".groups.Has") && len(x.Args) == 1:
				add("Has " + src(x.Args[0]))
			case strings.HasSuffix(s, ".groups.Get") && len(x.Args) == 1:
				add("Get " + src(x.Args[0]))
			case s == "consensusHelper.CheckGroup":
				add("CheckGroup")
			case strings.HasSuffix(s, ".save"), strings.HasSuffix(s, ".remove"), strings.HasSuffix(s, ".getGroupByHeight"),
				strings.HasSuffix(s, ".getGroupById"), strings.HasSuffix(s, ".height"):
				add("call " + s)
			}
		case *ast.SelectorExpr:
			if x.Sel.Name == "lastGroup" || x.Sel.Name == "count" {
				add("touch " + src(x))
			}
		}
		return true
	})
	return out
}

// returnSites lists every return statement of fd with the number of effects (store writes, count /
// lastGroup updates, sqlite statements) that precede it in the source: "return false after 0 effects".
func returnSites(fd *ast.FuncDecl) []string {
	type ev struct {
		pos token.Pos
		ret string
	}
	var effPos []token.Pos
	var rets []ev
	ast.Inspect(fd.Body, func(n ast.Node) bool {
		switch x := n.(type) {
		case *ast.CallExpr:
			s := src(x.Fun)
			if strings.HasSuffix(s, ".groups.Put") || strings.HasSuffix(s, ".groups.Delete") || strings.HasSuffix(s, ".Write") ||
				s == "mysql.InsertGroup" || s == "mysql.DeleteGroup" {
				effPos = append(effPos, x.Pos())
			}
		case *ast.IncDecStmt:
			if strings.HasSuffix(src(x.X), ".count") {
				effPos = append(effPos, x.Pos())
			}
		case *ast.AssignStmt:
			for _, l := range x.Lhs {
				if ls := src(l); strings.HasSuffix(ls, ".lastGroup") || strings.HasSuffix(ls, ".count") {
					effPos = append(effPos, x.Pos())
				}
			}
		case *ast.ReturnStmt:
			r := ""
			for i, e := range x.Results {
				if i > 0 {
					r += ", "
				}
				r += src(e)
			}
			rets = append(rets, ev{x.Pos(), r})
		case *ast.FuncLit:
			return false
		}
		return true
	})
	var out []string
	for _, r := range rets {
		k := 0
		for _, p := range effPos {
			if p < r.pos {
				k++
			}
		}
		out = append(out, fmt.Sprintf("return %s after %d effects", r.ret, k))
	}
	return out
}

// resultUse says what each caller does with the result of chain.save / chain.remove.
func resultUse(fd *ast.FuncDecl, qual string, scoped bool) []string {
	var out []string
	var visit func(n ast.Node, parent string)
	isCall := func(e ast.Expr) (string, bool) {
		c, ok := e.(*ast.CallExpr)
		if !ok {
			return "", false
		}
		sel, ok := c.Fun.(*ast.SelectorExpr)
		if !ok || (sel.Sel.Name != "save" && sel.Sel.Name != "remove") {
			return "", false
		}
		x := src(sel.X)
		if (x == "chain" && scoped) || x == "groupChainImpl" || strings.HasSuffix(x, "groupChain") {
			return sel.Sel.Name, true
		}
		return "", false
	}
	_ = visit
	ast.Inspect(fd.Body, func(n ast.Node) bool {
		switch x := n.(type) {
		case *ast.ExprStmt:
			if nm, ok := isCall(x.X); ok {
				out = append(out, qual+": "+nm+" result ignored")
			}
		case *ast.AssignStmt:
			for _, r := range x.Rhs {
				if nm, ok := isCall(r); ok {
					out = append(out, qual+": "+nm+" result assigned")
				}
			}
		case *ast.ReturnStmt:
			for _, r := range x.Results {
				if nm, ok := isCall(r); ok {
					out = append(out, qual+": "+nm+" result returned")
				}
			}
		case *ast.IfStmt:
			if nm, ok := isCall(x.Cond); ok {
				out = append(out, qual+": "+nm+" result tested")
			}
			if u, ok := x.Cond.(*ast.UnaryExpr); ok {
				if nm, ok := isCall(u.X); ok {
					out = append(out, qual+": "+nm+" result tested")
				}
			}
		}
		return true
	})
	return out
}

// shape lists, in source order, the conditions, loop headers, selected calls, header assignments,
// breaks and returns of fd — enough to pin comparison operators and branch order.
func shape(fd *ast.FuncDecl) []string {
	var out []string
	ast.Inspect(fd.Body, func(n ast.Node) bool {
		switch x := n.(type) {
		case *ast.IfStmt:
			c := src(x.Cond)
			if x.Init != nil {
				c = src(x.Init) + "; " + c
			}
			out = append(out, "if "+c)
		case *ast.ForStmt:
			h := "for"
			if x.Init != nil {
				h += " " + src(x.Init) + ";"
			}
			if x.Cond != nil {
				h += " " + src(x.Cond)
			}
			if x.Post != nil {
				h += "; " + src(x.Post)
			}
			out = append(out, h)
		case *ast.BranchStmt:
			out = append(out, x.Tok.String())
		case *ast.ReturnStmt:
			r := "return"
			for i, e := range x.Results {
				if i > 0 {
					r += ","
				}
				r += " " + src(e)
			}
			out = append(out, r)
		case *ast.AssignStmt:
			for i, l := range x.Lhs {
				ls := src(l)
				if strings.HasPrefix(ls, "header.") && i < len(x.Rhs) {
					out = append(out, ls+" "+x.Tok.String()+" "+src(x.Rhs[i]))
				}
			}
		case *ast.CallExpr:
			f := src(x.Fun)
			if strings.HasSuffix(f, ".removeFromCommonAncestor") || strings.HasSuffix(f, ".AddGroup") || strings.HasSuffix(f, ".getGroup") ||
				strings.HasSuffix(f, ".GetGroupByHeight") || f == "append" || strings.HasSuffix(f, ".MovePre") || strings.HasSuffix(f, ".Current") {
				out = append(out, "call "+src(x))
			}
		}
		return true
	})
	return out
}

// guards lists the conditions of the if-statements of AddGroup whose body returns, up to the call of save.
func guards(fd *ast.FuncDecl) []string {
	var out []string
	for _, st := range fd.Body.List {
		switch x := st.(type) {
		case *ast.IfStmt:
			returns := false
			ast.Inspect(x.Body, func(n ast.Node) bool {
				if _, ok := n.(*ast.ReturnStmt); ok {
					returns = true
				}
				return true
			})
			if returns {
				c := src(x.Cond)
				if x.Init != nil {
					c = src(x.Init) + "; " + c
				}
				out = append(out, c)
			}
		case *ast.ReturnStmt:
			out = append(out, "return "+src(x.Results[0]))
		case *ast.AssignStmt:
			if len(x.Rhs) == 1 {
				if c, ok := x.Rhs[0].(*ast.CallExpr); ok {
					s := src(c.Fun)
					if strings.HasSuffix(s, ".Has") || strings.HasSuffix(s, ".CheckGroup") {
						out = append(out, src(x))
					}
				}
			}
		}
	}
	return out
}

// split separates the effects whose ORDER matters (physical writes and the count updates that
// determine what they store) from the in-memory / sqlite statements, which are reported sorted:
// moving `chain.lastGroup = …` past `chain.count--` is a harmless edit and must not change the facts.
func split(eff []string) (ordered, memory []string) {
	for _, e := range eff {
		k := strings.Fields(e)[0]
		if k == "Put" || k == "Delete" || k == "NewBatch" || k == "BatchPut" || k == "BatchWrite" || strings.HasSuffix(k, ".count++") || strings.HasSuffix(k, ".count--") ||
			(strings.HasSuffix(k, ".count") && len(strings.Fields(e)) > 1) {
			ordered = append(ordered, e)
		} else {
			memory = append(memory, e)
		}
	}
	sort.Strings(memory)
	return
}

func leanList(name string, xs []string) string {
	var b strings.Builder
	fmt.Fprintf(&b, "def %s : List String := [", name)
	for i, x := range xs {
		if i > 0 {
			b.WriteString(",")
		}
		b.WriteString("\n  " + leanStr(x))
	}
	b.WriteString("]\n")
	return b.String()
}

func leanStr(s string) string {
	s = strings.ReplaceAll(s, "\\", "\\\\")
	s = strings.ReplaceAll(s, "\"", "\\\"")
	return "\"" + s + "\""
}

func main() {
	repo := "."
	for _, a := range os.Args[1:] {
		if strings.HasPrefix(a, "repo=") {
			repo = a[5:]
		}
	}
	dir := filepath.Join(repo, "src", "core")
	files, err := filepath.Glob(filepath.Join(dir, "*.go"))
	if err != nil || len(files) == 0 {
		fmt.Fprintln(os.Stderr, "c19facts: no go files in", dir)
		os.Exit(1)
	}
	sort.Strings(files)
	var saveEff, removeEff, addGuards, writers, saveCallers, removeCallers []string
	var saveMem, removeMem []string
	var addLock, ancestorLock, saveLock, removeLock []string
	var removeRets, saveRets, uses []string
	var availShape, triggerShape, headerRewrite []string
	pkgVars := map[string]bool{}
	var fields, flagReads []string
	type fnBody struct {
		name string
		fd   *ast.FuncDecl
	}
	var chainFns []fnBody
	consts := map[string]string{}
	wantConst := map[string]bool{"groupChainPrefix": true, "groupForkDBPrefix": true, "lastGroupKey": true,
		"groupCountKey": true, "latestGroupHeightKey": true, "groupCommonAncestorHeightKey": true}
	found := map[string]bool{}
	for _, f := range files {
		base := filepath.Base(f)
		if strings.HasSuffix(base, "_test.go") || strings.HasPrefix(base, "verif_") || strings.HasSuffix(base, "_verif.go") {
			continue
		}
		af, err := parser.ParseFile(fset, f, nil, 0)
		if err != nil {
			fmt.Fprintln(os.Stderr, "c19facts:", err)
			os.Exit(1)
		}
		for _, d := range af.Decls {
			if gd, ok := d.(*ast.GenDecl); ok && gd.Tok == token.VAR {
				for _, sp := range gd.Specs {
					for _, nm := range sp.(*ast.ValueSpec).Names {
						pkgVars[nm.Name] = true
					}
				}
			}
			if gd, ok := d.(*ast.GenDecl); ok && gd.Tok == token.TYPE {
				for _, sp := range gd.Specs {
					ts := sp.(*ast.TypeSpec)
					if st, ok := ts.Type.(*ast.StructType); ok && ts.Name.Name == "groupChain" {
						for _, f := range st.Fields.List {
							for _, nm := range f.Names {
								fields = append(fields, nm.Name+" "+src(f.Type))
							}
						}
					}
				}
			}
			if gd, ok := d.(*ast.GenDecl); ok && gd.Tok == token.CONST {
				for _, sp := range gd.Specs {
					vs := sp.(*ast.ValueSpec)
					for i, nm := range vs.Names {
						if wantConst[nm.Name] && i < len(vs.Values) {
							if bl, ok := vs.Values[i].(*ast.BasicLit); ok && bl.Kind == token.STRING {
								consts[nm.Name] = strings.Trim(bl.Value, "\"`")
							}
						}
					}
				}
			}
			fd, ok := d.(*ast.FuncDecl)
			if !ok || fd.Body == nil {
				continue
			}
			name := fd.Name.Name
			if base == "groupchain.go" || base == "groupchain_sync.go" {
				chainFns = append(chainFns, fnBody{name, fd})
			}
			isGC := recvName(fd) != ""
			scoped := isGC || name == "initGroupChain" // start-up builds the chain in a local named chain
			if isGC && name == "save" {
				saveRets = returnSites(fd)
				saveEff, saveMem = split(canon(fd, effects(fd)))
				found["save"] = true
			}
			if isGC && name == "remove" {
				removeRets = returnSites(fd)
				removeEff, removeMem = split(canon(fd, effects(fd)))
				found["remove"] = true
			}
			if isGC && name == "removeFromCommonAncestor" {
				ancestorLock = canon(fd, lockEvents(fd))
				found["removeFromCommonAncestor"] = true
			}
			if isGC && name == "save" {
				for _, e := range lockEvents(fd) {
					if strings.Contains(e, "ock") {
						saveLock = append(saveLock, e)
					}
				}
			}
			if isGC && name == "remove" {
				for _, e := range lockEvents(fd) {
					if strings.Contains(e, "ock") {
						removeLock = append(removeLock, e)
					}
				}
			}
			if isGC && name == "availableGroupsAt" {
				availShape = shape(fd)
			}
			if name == "triggerOnChain" && fd.Recv != nil {
				triggerShape = shape(fd)
			}
			if isGC && name == "AddGroup" {
				for _, e := range shape(fd) {
					if strings.HasPrefix(e, "header.") {
						headerRewrite = append(headerRewrite, e)
					}
				}
				addLock = canon(fd, lockEvents(fd))
				addGuards = canon(fd, guards(fd))
				found["AddGroup"] = true
			}
			qual := name
			if fd.Recv != nil && len(fd.Recv.List) == 1 {
				qual = src(fd.Recv.List[0].Type) + "." + name
			}
			uses = append(uses, resultUse(fd, qual, scoped)...)
			// writers of the chain's state anywhere in the package
			for _, e := range canon(fd, effects(fd)) {
				kind := strings.Fields(e)[0]
				if kind == "Put" || kind == "Delete" || kind == "NewBatch" || kind == "BatchPut" || kind == "BatchWrite" ||
					strings.Contains(e, ".count") || strings.Contains(e, ".lastGroup") {
					// effects() matches on field names; restrict to group-chain receivers/values
					if scoped || strings.Contains(e, "groupChainImpl") {
						w := qual + ": " + kind
						if kind != "Put" && kind != "Delete" && kind != "NewBatch" && kind != "BatchPut" && kind != "BatchWrite" {
							w = qual + ": " + e
						}
						writers = append(writers, w)
					}
				}
			}
			ast.Inspect(fd.Body, func(n ast.Node) bool {
				if c, ok := n.(*ast.CallExpr); ok {
					if sel, ok := c.Fun.(*ast.SelectorExpr); ok {
						x := src(sel.X)
						if (x == "chain" && scoped) || x == "groupChainImpl" || strings.HasSuffix(x, "groupChain") {
							if sel.Sel.Name == "save" {
								saveCallers = append(saveCallers, qual)
							}
							if sel.Sel.Name == "remove" {
								removeCallers = append(removeCallers, qual)
							}
						}
					}
				}
				return true
			})
		}
	}
	for _, k := range []string{"save", "remove", "AddGroup", "removeFromCommonAncestor"} {
		if !found[k] {
			fmt.Fprintln(os.Stderr, "c19facts: groupChain."+k+" not found")
			os.Exit(1)
		}
	}
	// package-level state written, and configuration / fork flags read, by the code of groupchain*.go
	var pkgWrites []string
	for _, fb := range chainFns {
		ast.Inspect(fb.fd.Body, func(n ast.Node) bool {
			switch x := n.(type) {
			case *ast.AssignStmt:
				if x.Tok == token.DEFINE {
					return true
				}
				for _, l := range x.Lhs {
					root := l
					for {
						switch y := root.(type) {
						case *ast.SelectorExpr:
							root = y.X
							continue
						case *ast.IndexExpr:
							root = y.X
							continue
						case *ast.StarExpr:
							root = y.X
							continue
						}
						break
					}
					if id, ok := root.(*ast.Ident); ok && pkgVars[id.Name] {
						if id.Obj != nil {
							if _, top := id.Obj.Decl.(*ast.ValueSpec); !top {
								continue // a local or parameter of the same name
							}
						}
						pkgWrites = append(pkgWrites, fb.name+": "+src(l))
					}
				}
			case *ast.CallExpr:
				f := src(x.Fun)
				if strings.HasPrefix(f, "common.IsProposal") || f == "common.IsSub" || f == "common.IsMainnet" || f == "common.IsDEV" ||
					f == "common.IsRobin" || f == "common.GetBlockHeight" || strings.HasPrefix(f, "common.LocalChainConfig") {
					flagReads = append(flagReads, fb.name+": "+f)
				}
			}
			return true
		})
	}
	sort.Strings(pkgWrites)
	sort.Strings(flagReads)
	var b strings.Builder
	b.WriteString("/- GENERATED by gen/cmd/c19facts from src/core/*.go — do not edit. -/\n")
	b.WriteString("namespace Rangers.Generated.GroupChainFacts\n\n")
	b.WriteString("/-- Ordered store effects of `groupChain.save` (physical writes and count updates). -/\n")
	b.WriteString(leanList("saveEffects", saveEff))
	b.WriteString("\n/-- In-memory / sqlite statements of `save` (sorted; their relative order is not a fact). -/\n")
	b.WriteString(leanList("saveMemory", saveMem))
	b.WriteString("\n/-- Ordered effects of `groupChain.remove`. -/\n")
	b.WriteString(leanList("removeEffects", removeEff))
	b.WriteString("\n/-- In-memory / sqlite statements of `remove` (sorted). -/\n")
	b.WriteString(leanList("removeMemory", removeMem))
	b.WriteString("\n/-- Top-level guards of `groupChain.AddGroup`, in order, ending with the call of save. -/\n")
	b.WriteString(leanList("addGuards", addGuards))
	b.WriteString("\n/-- Every statement in package core that writes the group store, `count` or `lastGroup` (sorted). -/\n")
	sort.Strings(writers)
	b.WriteString(leanList("stateWriters", writers))
	b.WriteString("\n/-- Where `AddGroup` takes the chain lock relative to its reads of protected state and to `save`. -/\n")
	b.WriteString(leanList("addLockOrder", addLock))
	b.WriteString("\n/-- The same for `removeFromCommonAncestor`, the only caller of `remove`. -/\n")
	b.WriteString(leanList("ancestorLockOrder", ancestorLock))
	b.WriteString("\n/-- Lock operations inside `save` / `remove` themselves (they rely on their callers). -/\n")
	b.WriteString(leanList("saveLockOps", saveLock))
	b.WriteString(leanList("removeLockOps", removeLock))
	b.WriteString("\n/-- Every `return` of `remove` / `save` with the number of effects that precede it in the source. -/\n")
	b.WriteString(leanList("removeReturns", removeRets))
	b.WriteString(leanList("saveReturns", saveRets))
	b.WriteString("\n/-- What each caller does with the result of `save` / `remove`. -/\n")
	b.WriteString(leanList("resultUses", uses))
	b.WriteString("\n/-- The header fields `AddGroup` rewrites before `save`. -/\n")
	b.WriteString(leanList("addHeaderRewrite", headerRewrite))
	b.WriteString("\n/-- Shape (conditions, loops, calls, breaks, returns in source order) of `availableGroupsAt`. -/\n")
	b.WriteString(leanList("availableShape", availShape))
	b.WriteString("\n/-- Shape of `groupChainFork.triggerOnChain`. -/\n")
	b.WriteString(leanList("triggerOnChainShape", triggerShape))
	b.WriteString("\n" + leanList("saveCallers", saveCallers))
	b.WriteString("\n" + leanList("removeCallers", removeCallers))
	b.WriteString("\n/-- Fields of `type groupChain struct` — all the state a chain object has. -/\n")
	b.WriteString(leanList("groupChainFields", fields))
	b.WriteString("\n/-- Package-level variables assigned by the functions of groupchain.go / groupchain_sync.go. -/\n")
	b.WriteString(leanList("packageStateWrites", pkgWrites))
	b.WriteString("\n/-- Network / fork-schedule flags read by those functions. -/\n")
	b.WriteString(leanList("forkFlagReads", flagReads))
	b.WriteString("\n/-- Store prefixes and bookkeeping keys of the group chain and of the group fork database. -/\n")
	for _, k := range []string{"groupChainPrefix", "groupForkDBPrefix", "lastGroupKey", "groupCountKey", "latestGroupHeightKey", "groupCommonAncestorHeightKey"} {
		v, ok := consts[k]
		if !ok {
			fmt.Fprintln(os.Stderr, "c19facts: constant "+k+" not found")
			os.Exit(1)
		}
		b.WriteString("def " + k + " : String := " + leanStr(v) + "\n")
	}
	b.WriteString("\nend Rangers.Generated.GroupChainFacts\n")
	fmt.Print(b.String())
}
