"""C01 — block execution is replica-deterministic (see design/C01.md)."""
import json
import os
import re

import vlib

PROPS = ['Rangers.Props.C01', 'Rangers.Props.C01B', 'Rangers.Props.C01C', 'Rangers.Props.C01D', 'Rangers.Props.C01E', 'Rangers.Props.C01F', 'Rangers.Props.C01Sites']
DRIVERS = ['C01']
META = dict(
    level='proof',
    technique='Lean 4 theorems about an executable model of VMExecutor.Execute in which every map-range site takes its '
              'iteration order as a parameter; tie = go/ast+go/types nondeterminism-site inventory regenerated from the '
              'source (T-gen) + differential execution of the real executor against the compiled model under three '
              'orders (T-corr); searcher = N-fold re-execution of the real executor in fresh AccountDBs/contexts',
    level_text='machine-checked proof (Lean 4 kernel) of order/clock/cache independence of the modelled pipeline for all '
               'states, headers, transaction lists and iteration orders; partial for float arithmetic and goroutines',
    level_note='EVM and miner apply/add/change-account executors enter the theorems as one uninterpreted deterministic '
               'function (EVM steps are replayed from observation in the correspondence); only math.Pow of the reward '
               'formula is uninterpreted; the fork-flag lookup through the process-wide chain height is a recorded finding',
    trusted_base=['Lean 4.33 kernel (+leanchecker in thorough)', 'gen/cmd/c01facts (go/ast, go/types inventory)',
                  'harness/cmd/c01 (scenario generator, leaf conversions StrToBigInt/HexToAddress/Float64ToBigInt taken '
                  'from the implementation)', 'Go runtime map-iteration randomisation (searcher)',
                  'trie root is a function of content (C02)', 'encoding/json, math/big, sort.Sort (<=12: insertion sort)'],
    assumptions=['situation != "casting" (the wall-clock cut-off only decides what the proposer packs)',
                 'the executors not interpreted by the model (EVM, miner operations) are deterministic functions of '
                 '(transaction, header, ledger) — supported by the site inventory and the N-fold searcher, not proved',
                 'math.Pow (inside getTotalReward) gives the same bits on every replica — the rest of the reward float arithmetic (uint64->float64, /, *, Float64ToBigInt, NextRewardHeight) is modelled bit-exactly and compared',
                 'refund escrow addresses sha256("refund"+height) do not collide and hold no balance of their own',
                 'every execution starts from a fresh AccountDB opened at the parent root (as checkStates does)'],
    rule='distinct op lines sent to both the real executor and the compiled model whose model answer is neither bad-op '
         'nor unmodelled, plus distinct (parent state, header, tx list) scenarios re-executed N times by the searcher',
    explanation='Theorems: Props/C01.lean. exec_deterministic quantifies over all iteration orders of the six map-range '
                'sites. sites_accounted ties the inventory of range-over-map / clock / rand / go / float sites found in '
                'the current source to the sites the model covers.',
)

KNOWN_SITE_KEYS = None


SCOPE_DIRS = ['src/core', 'src/executor', 'src/service', 'src/storage/account', 'src/middleware/types', 'src/vm']


def _scope_digest(ctx):
    """sha256 over every non-test .go file of the scanned packages and over the translator itself."""
    import hashlib
    h = hashlib.sha256()
    roots = [os.path.join(ctx.repo, d) for d in SCOPE_DIRS] + [os.path.join(vlib.GEN, 'cmd', 'c01facts')]
    for root in roots:
        for fn in sorted(os.listdir(root)) if os.path.isdir(root) else []:
            if fn.endswith('.go') and not fn.endswith('_test.go'):
                h.update(fn.encode())
                h.update(open(os.path.join(root, fn), 'rb').read())
    return h.hexdigest()


def gen(ctx):
    """T-gen: regenerate Generated/NondetSites.lean from ctx.repo (go/ast + go/types, ~35 s because the
    source importer type-checks the dependencies; the output is re-used when no scanned file changed)."""
    target = os.path.join(vlib.LEAN, 'Rangers', 'Generated', 'NondetSites.lean')
    dig = _scope_digest(ctx)
    cache = os.path.join(vlib.WORK, 'c01facts.cache.json')
    so = None
    if os.path.exists(cache):
        try:
            c = json.load(open(cache))
            if c.get('digest') == dig:
                so = c['out']
        except Exception:
            so = None
    cached = so is not None
    if so is None:
        rc, so, se = vlib.go_run_gen(ctx, 'c01facts', ['repo=' + ctx.repo], timeout=600)
        if rc != 0 or 'def siteKeys' not in so:
            return dict(ok=False, error='c01facts failed: ' + (se or so)[-1500:])
        os.makedirs(vlib.WORK, exist_ok=True)
        json.dump(dict(digest=dig, out=so), open(cache, 'w'))
    changed = vlib.write_if_changed(target, so)
    n = len(re.findall(r'^\s*⟨', so, re.M))
    return dict(ok=True, sites=n, changed=changed, cached=cached)


def correspond(ctx):
    n = 6000 if ctx.thorough() else 700
    c = vlib.correspond(ctx, 'c01', 'C01', ['n=%d' % n], timeout=1500 if ctx.thorough() else 400,
                        nontrivial=lambda o, x: x not in ('ok', 'bad-op'))
    c['name'] = 'executor-vs-model'
    return [c]


def _have_hooks(ctx):
    """hooks H10 (clock advance, Execute with injected chain index / per-tx callback) present in the tree?"""
    try:
        a = open(os.path.join(ctx.repo, 'src', 'core', 'verif_c01_exec.go')).read()
        return 'VerifC01ExecuteOpts' in a and os.path.exists(os.path.join(ctx.repo, 'src', 'utility', 'verif_c01_clock.go'))
    except Exception:
        return False


def _search_run(ctx, n, cases):
    if _have_hooks(ctx):
        # casting mode with a forced deadline and replicas with different local chain indexes need H10
        binp, log = vlib.go_build(ctx, vlib.HARNESS, './cmd/c01', 'c01s', tags='verif c01hooks')
    else:
        binp, log = vlib.go_build(ctx, vlib.HARNESS, './cmd/c01', 'c01s')
    if not binp:
        return None, 'harness build failed: ' + log[-1500:]
    cwd = ctx.scratch('c01search')
    env = dict(VERIF_SEED=str(ctx.seed), VERIF_TIER=ctx.tier, VERIF_CORPUS=os.path.join(vlib.VERIF, 'corpus', ctx.pid),
               GOMEMLIMIT='8GiB')
    rc, so, se = vlib.run([binp, 'mode=search', 'n=%d' % n, 'cases=%d' % cases, 'hist=%d' % (30 if ctx.thorough() else 9)], cwd=cwd, env=env,
                          timeout=3000 if ctx.thorough() else 1500)
    import shutil
    shutil.rmtree(cwd, ignore_errors=True)
    viol = []
    for line in so.split('\n'):
        if line.startswith('VIOL '):
            try:
                viol.append(json.loads(line[5:]))
            except Exception:
                pass
    for line in so.split('\n'):
        if line.startswith('SEARCH '):
            return json.loads(line[7:]), None
    if viol:
        # the run did not finish (time box / crash) but violations were flushed when found
        return dict(evaluations=0, distinct=0, violations=viol, n=n, cases=cases,
                    incomplete='searcher exited %d before its summary: %s' % (rc, (se or so)[-300:])), None
    return None, 'searcher exited %d: %s' % (rc, (se or so)[-1500:])


def _race_run(ctx):
    """thorough only — EVIDENCE, not proof: the concurrent batch (and a few N-fold runs) under the Go race
    detector.  Every reported race is keyed by the go-rangers function at the top of the earlier access."""
    binp, log = vlib.go_build(ctx, vlib.HARNESS, './cmd/c01', 'c01race', race=True)
    if not binp:
        return dict(error='race build failed: ' + log[-800:], races=[])
    cwd = ctx.scratch('c01race')
    env = dict(VERIF_SEED=str(ctx.seed), VERIF_CORPUS=os.path.join(vlib.VERIF, 'corpus', ctx.pid), GORACE='halt_on_error=0',
               GOMEMLIMIT='8GiB')
    rc, so, se = vlib.run([binp, 'mode=search', 'n=2', 'cases=24', 'conc=12', 'rounds=12'], cwd=cwd, env=env, timeout=1500)
    import shutil
    shutil.rmtree(cwd, ignore_errors=True)
    races = {}
    for chunk in se.split('WARNING: DATA RACE')[1:]:
        # stable key: the racing global when the detector names it, else the smallest of the two
        # go-rangers functions on top of the two stacks (whichever access came first)
        g = re.search(r"Location is global '([^']+)'", chunk)
        if g:
            fn = 'global-' + g.group(1).split('/')[-1]
        else:
            tops = []
            for part in re.split(r'Previous ', chunk)[:2]:
                m = re.search(r'com\.tuntun\.rangers/node/src/([\w/]+)\.([^\s(]*(?:\([^)]*\))?[\w.]*)\(\)', part)
                if m:
                    tops.append(m.group(1).split('/')[-1] + '.' + re.sub(r'[^\w.]', '', m.group(2)))
            fn = min(tops) if tops else 'unknown'
        races.setdefault(fn, chunk[:1800] + (' … ' + g.group(0) if g else ''))
    return dict(races=[dict(function=k, report=v) for k, v in sorted(races.items())], exit=rc)


def search(ctx, hints):
    broken = bool(hints.get('broken'))
    if ctx.thorough():
        n, cases = 1024, 280
    else:
        n, cases = 64, (700 if broken else 300)
    res, err = _search_run(ctx, n, cases)
    if res is None:
        return dict(evaluations=0, distinct_nontrivial=0, violations=[], samples=[], error=err)
    viols = []
    for v in res.get('violations') or []:
        viols.append(dict(key=v['key'], desc=v['desc'],
                          replay=dict(scenario=v['scenario'], outcomes=v['outcomes'][:6],
                                      command='harness/bin/c01 mode=replay file=<scenario.json> n=%d' % n)))
    extra = {}
    if ctx.thorough():
        rr = _race_run(ctx)
        extra['race_detector'] = dict(note='evidence, not proof: concurrent block executions under go build -race',
                                      functions=[r['function'] for r in rr.get('races', [])], error=rr.get('error'))
        for r in rr.get('races', []):
            viols.append(dict(key='data-race-' + r['function'],
                              desc='the Go race detector reports unsynchronised access while blocks are executed concurrently',
                              replay=dict(report=r['report'], command='go build -race harness/cmd/c01; mode=search conc=12 rounds=12')))
    return dict(evaluations=res['evaluations'], distinct_nontrivial=res['distinct'], violations=viols, **extra,
                samples=[dict(note='N-fold re-execution', hooks_H10=_have_hooks(ctx), n=res['n'], cases=res['cases'], kinds=res.get('kinds'), evm=res.get('evm'))])


def replay(ctx, payload):
    """Re-execute a recorded scenario N times on the implementation and show the outcomes."""
    sc = (payload.get('replay') or {}).get('scenario')
    if not sc:
        print(json.dumps(payload, indent=1))
        return 0
    binp, log = vlib.go_build(ctx, vlib.HARNESS, './cmd/c01', 'c01')
    if not binp:
        print(log)
        return 1
    cwd = ctx.scratch('c01replay')
    f = os.path.join(cwd, 'scenario.json')
    json.dump(sc, open(f, 'w'))
    rc, so, se = vlib.run([binp, 'mode=replay', 'file=' + f, 'n=64'], cwd=cwd, env=dict(VERIF_SEED=str(ctx.seed)))
    print('\n'.join(l for l in so.split('\n') if l and not l.startswith('no ')))
    return 0
