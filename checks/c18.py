"""C18 — decimal amount strings and 18-decimal integers convert without loss.

Proof: Lean theorems about Rangers.Model.Decimal (the model the driver executes).
Tie: T-gen — gen/cmd/c18facts re-extracts constants, the ParseFloat call, the
float pipeline, wrapper call shapes, the value path ends and the FormatDecimalFor*
call sites into Generated/C18Facts.lean (pinned by Props/C18Gen.lean); and
T-corr — harness/cmd/c18 runs the real utility / eth_tx / executor code on
generated op lines, the compiled Lean model answers the same lines, streams are diffed.
Searcher: direct round-trip / exactness oracle on the implementation (no model).
"""
import json
import os
import re
import shutil

import vlib

PROPS = ['Rangers.Props.C18', 'Rangers.Props.C18Gen', 'Rangers.Props.C18Aux', 'Rangers.Props.C18Sites', 'Rangers.Props.C18Size', 'Rangers.Props.C18Exp', 'Rangers.Props.C18Tx']
DRIVERS = ['C18']

META = dict(
    level='proof',
    technique='Lean 4 theorems over an exact value-level model of big.Float parsing/rounding + differential correspondence against the real Go code',
    level_text='machine-checked proof for all inputs in the stated ranges; model tied to the code by differential execution',
    level_note='exactness bound proved: |amount| * 10^decimals < 2^510 (covers 78 integer digits + 18 fractional digits and all of 0..2^256-1 with room to spare); '
               'math/big itself is modelled from its source and compared on every run, not verified',
    trusted_base=[
        'Lean 4 kernel (axioms propext, Classical.choice, Quot.sound only)',
        'Go math/big (Float.Parse/Quo/Mul/round/Int, Int.String/SetString) implements what the model transcribes; compared on every run (ops pf/parse)',
        'encoding/json round trip of an ASCII string (evmval path), storage/rlp big.Int round trip, account.AccountDB storage (ft ops) — exercised, not modelled',
        'the harness harness/cmd/c18 and the comparer in bin/vlib.py',
        'Lean core Nat.toDigits / Nat.ofDigitChars lemmas (part of the Lean distribution, kernel-checked)',
    ],
    assumptions=[
        'token decimal counts and digit counts are as in the quantifier (0..18 decimals, <= 78 integer digits, <= 18 fractional digits); outside it the model is still compared with the code but no identity is claimed',
        'callers pass non-nil *big.Int (nil is answered "0"/0 by the Go code and is not modelled)',
        'Go converts uint64 to float64 with round-to-nearest-even (modelled, compared by the stake op on every run)',
    ],
    rule='distinct op lines evaluated by both the implementation and the model whose model answer is neither bad-op nor unmodelled',
    explanation='strToBigInt parses through a 512-bit binary float with away-from-zero rounding, multiplies by 10^d (rounded again) and truncates. '
                'The model reproduces big.ParseFloat for base 10 exactly (grammar, radix point as 2^-f*5^-f, pow5 table and loop, one correctly rounded '
                'division, exponent range, Inf) and the theorems show that for every plain decimal string with value N/10^f and N*10^d < 2^510 the result is '
                'exactly trunc(N*10^d/10^f); the format/parse round trip, both 18-decimal re-scalings, the bound-token balance operations of accountdb_tuntun.go and the wrapped-transaction value path follow. '
                'Deepening: Float64ToBigInt with a bit-exact float64 model (exact on every double; stakes exact below 2^53), Uint64ToBigInt, the VM whole-coin reader, '
                'BigIntBase10toN, service.ChangeAssets, a generated inventory of all 43 conversion call sites each mapped to its exactness theorem, and a size bound '
                '(bits <= 4|s| + 5 exp + 4 d + 8; linear without an exponent marker) for the resource observation.',
)


def _n(ctx, quick, thorough):
    return thorough if ctx.thorough() else quick


def gen(ctx):
    """T-gen: re-extract constants / call shapes / call sites from ctx.repo into Generated/C18Facts.lean."""
    rc, so, se = vlib.go_run_gen(ctx, 'c18facts', [])
    if rc != 0 or 'namespace Rangers.Generated.C18' not in so:
        return dict(ok=False, error='c18facts failed: ' + (se or so)[-800:])
    path = os.path.join(vlib.LEAN, 'Rangers', 'Generated', 'C18Facts.lean')
    changed = vlib.write_if_changed(path, so)
    return dict(ok=True, changed=changed, file='lean/Rangers/Generated/C18Facts.lean',
                facts=len([l for l in so.split('\n') if l.startswith('def ')]))


def correspond(ctx):
    n = _n(ctx, 40000, 600000)
    c = vlib.correspond(ctx, 'c18', 'C18', ['n=%d' % n], timeout=_n(ctx, 300, 1500),
                        nontrivial=lambda o, x: x not in ('bad-op', 'skipped-huge'))
    c['name'] = 'c18'
    # the implementation must never panic on any amount string / integer (a panic would also be a diff)
    viol = []
    for p in c.get('panics', [])[:5]:
        viol.append(dict(key='panic', desc='implementation panicked on %s: %s' % (p['op'], p['impl']),
                         replay=dict(op=p['op'], impl=p['impl'], cmd='harness/bin/c18 mode=exec "op=%s"' % p['op'])))
    # a generated / corpus op the model driver does not understand is a broken tie, not agreement
    # (both sides answering `bad-op` would otherwise compare equal)
    if c.get('bad_op', 0) > 0:
        c['ok'] = False
        c.setdefault('errors', []).append('%d op lines answered bad-op by the model driver (generator/driver mismatch)' % c['bad_op'])
    if viol:
        c['violations'] = viol
    return [c]


def search(ctx, hints):
    res = dict(evaluations=0, distinct_nontrivial=0, violations=[], samples=[])
    binp = os.path.join(vlib.HARNESS, 'bin', 'c18')
    if not os.path.exists(binp):
        binp, log = vlib.go_build(ctx, vlib.HARNESS, './cmd/c18', 'c18')
        if not binp:
            res['error'] = 'searcher build failed: ' + log[-1500:]
            return res
    broken = bool(hints.get('broken'))
    n = _n(ctx, 30000, 400000) * (4 if broken else 1)
    cwd = ctx.scratch('c18search')
    env = dict(VERIF_SEED=str(ctx.seed), VERIF_TIER=ctx.tier, GOMEMLIMIT='8GiB')
    rc, so, se = vlib.run([binp, 'mode=search', 'n=%d' % n], cwd=cwd, env=env, timeout=_n(ctx, 300, 1500))
    shutil.rmtree(cwd, ignore_errors=True)
    if rc != 0:
        # keep what was found before the searcher died: VIOL lines are printed when found
        res['error'] = 'searcher exited %d: %s' % (rc, (se or so)[-800:])
    leads = []
    for line in so.split('\n'):
        if line.startswith('VIOL '):
            m = re.match(r'VIOL (\S+) (.*?) :: (.*)$', line)
            if not m:
                continue
            key, op, detail = m.group(1), m.group(2), m.group(3)
            res['violations'].append(dict(
                key=key, desc='%s: %s' % (op, detail),
                replay=dict(op=op, detail=detail,
                            cmd='cd <scratch> && VERIF_SEED=%d %s mode=search n=%d' % (ctx.seed, binp, n))))
        elif line.startswith('SAMPLE '):
            res['samples'].append({'op': line[7:300], 'impl': 'property holds'})
        elif line.startswith('LEAD '):
            leads.append(line[5:])
        elif line.startswith('STATS '):
            try:
                st = json.loads(line[6:])
                res['evaluations'] = st.get('evaluations', 0)
                res['distinct_nontrivial'] = st.get('distinct', 0)
                res['dist'] = st.get('dist')
            except Exception:
                pass
    res['leads_observed_not_c18_violations'] = leads
    res['phases'] = 'deterministic small-scope families; random oracle; history (reversed/shuffled re-execution with interleaved decimals); concurrency (8 goroutines vs sequential) - the last two are evidence, not proof'
    if ctx.thorough() and not res.get('error'):
        # concurrency phase again under the race detector (evidence, not proof)
        rbin, log = vlib.go_build(ctx, vlib.HARNESS, './cmd/c18', 'c18race', race=True)
        if not rbin:
            res['race'] = 'race build failed: ' + log[-400:]
        else:
            cwd = ctx.scratch('c18race')
            rc2, so2, se2 = vlib.run([rbin, 'mode=conc', 'n=6000'], cwd=cwd, env=dict(env, GORACE='halt_on_error=0'), timeout=1200)
            shutil.rmtree(cwd, ignore_errors=True)
            races = (se2 + so2).count('WARNING: DATA RACE')
            res['race'] = dict(exit=rc2, data_races=races, label='evidence, not proof')
            for line in so2.split('\n'):
                m = re.match(r'VIOL (\S+) (.*?) :: (.*)$', line)
                if m:
                    res['violations'].append(dict(key=m.group(1), desc='%s: %s (race build)' % (m.group(2), m.group(3)),
                                                  replay=dict(op=m.group(2), detail=m.group(3), cmd='%s mode=conc n=6000' % rbin)))
            if races:
                i = (se2 + so2).find('WARNING: DATA RACE')
                res['violations'].append(dict(key='data-race', desc='race detector: %d report(s) while converting concurrently' % races,
                                              replay=dict(report=(se2 + so2)[i:i + 1500], cmd='%s mode=conc n=6000' % rbin)))
    return res


def replay(ctx, payload):
    """Re-run the recorded op against the implementation and the model."""
    print(json.dumps(payload, indent=1))
    rp = payload.get('replay') or {}
    op = rp.get('op')
    if not op and payload.get('broken'):
        for b in payload['broken']:
            if b[0] == 'correspondence' and b[1].get('first'):
                op = b[1]['first'][0]['op']
    if not op or op.split(' ')[0] not in ('parse', 'pf', 'fmt', 'tostr', 'nodot', 'erc20', 'rocket', 'evmval', 'ft', 'stake', 'f64', 'u64', 'stakearg', 'basen', 'calldata', 'size', 'xfer', 'cfg', 'decode', 'convert', 'world', 'u64b', 'b2u64', 'bbstr', 'rawbal'):
        return 0
    binp, log = vlib.go_build(ctx, vlib.HARNESS, './cmd/c18', 'c18')
    if not binp:
        print('harness build failed', log[-500:])
        return 1
    cwd = ctx.scratch('c18replay')
    rc, so, se = vlib.run([binp, 'mode=exec', 'op=' + op], cwd=cwd, timeout=120)
    impl = [l for l in so.split('\n') if l.startswith('ANSWER ')]
    opsf = os.path.join(ctx.work, 'replay.ops')
    open(opsf, 'w').write(op + '\n')
    modf = os.path.join(ctx.work, 'replay.mod')
    vlib.run_driver('C18', opsf, modf)
    print('op:    ', op)
    print('impl:  ', impl[0][7:] if impl else '?')
    print('model: ', open(modf).read().strip())
    return 0
