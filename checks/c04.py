"""C04 — reverting to a snapshot restores the account state exactly (AccountDB journal)."""
import json
import os
import vlib

PROPS = ['Rangers.Props.C04', 'Rangers.Props.C04B', 'Rangers.Props.C04C', 'Rangers.Props.C04D']
DRIVERS = ['C04']
BOUND_TOKEN = 'b0' + '5e' * 19      # a non-zero bound token contract for the second configuration

META = dict(
    level='proof',
    technique='Lean 4 model of AccountDB/accountObject/journal + undo-inverse induction; T-corr op scripts incl. hidden-state dump',
    level_text='machine-checked proof about an executable model, tied to the source by differential execution',
    level_note='observations restored: every op but GetCommittedState (4 ops under decidable side conditions); root restored: only for regions that do not touch account objects, otherwise refuted (known findings)',
    trusted_base=['Lean 4 kernel', 'Go harness harness/cmd/c04 and hook verif_c04_dump.go', 'trie root = f(content) (property C02)',
                  'Keccak / SHA3 (code hash, balance slot key are inputs of the model)',
                  '18-decimal conversions are the identity on the amounts used (property C18)'],
    assumptions=['sequential use of AccountDB', 'Proposal002 active for the revert theorems',
                 'the ERC20 binding account of an unbound FT name does not exist'],
    rule='distinct op lines sent to both implementation and model whose model answer is not bad-op',
    explanation='see design/C04.md',
)


def gen(ctx):
    """T-gen: regenerate Rangers/Generated/JournalFacts.lean from the working tree."""
    tmp = os.path.join(ctx.work, 'JournalFacts.lean')
    if os.path.exists(tmp):
        os.remove(tmp)
    rc, so, se = vlib.go_run_gen(ctx, 'c04facts', [ctx.repo, tmp])
    if rc != 0 or not os.path.exists(tmp):
        return dict(ok=False, error='c04facts failed: ' + (se or so)[-600:])
    changed = vlib.write_if_changed(os.path.join(vlib.LEAN, 'Rangers', 'Generated', 'JournalFacts.lean'), open(tmp).read())
    return dict(ok=True, changed=changed, summary=so.strip())


def canon(op, ans):
    if ans.startswith('PANIC'):
        return 'PANIC'
    return ans


def _nontrivial(op, ans):
    return ans != 'bad-op'


def correspond(ctx):
    n = 160 if ctx.thorough() else 36
    c1 = vlib.correspond(ctx, 'c04', 'C04', ['n=%d' % n], canon=canon, timeout=1500, nontrivial=_nontrivial)
    c1['name'] = 'scripts-unbound-token'
    _post(c1)
    c2 = vlib.correspond(ctx, 'c04', 'C04', ['n=%d' % (n // 3), 'bind=' + BOUND_TOKEN], canon=canon, timeout=1500, nontrivial=_nontrivial)
    c2['name'] = 'scripts-bound-token'
    _post(c2)
    return [c1, c2, _concurrency(ctx)]


def _concurrency(ctx):
    """Evidence, not proof: N goroutines on their own AccountDB over one shared database must answer as when alone."""
    res = dict(name='concurrency-evidence (not proof)', ok=False, ops=0, mismatches=0, errors=[], samples=[], distinct_nontrivial=0)
    race = ctx.thorough()
    binp, log = vlib.go_build(ctx, vlib.HARNESS, './cmd/c04', 'c04race' if race else 'c04conc', race=race)
    if not binp:
        res['errors'].append('build failed: ' + log[-600:])
        return res
    cwd = ctx.scratch('c04conc')
    args = ['mode=conc', 'rounds=%d' % (30 if race else 6)]
    rc, so, se = vlib.run([binp] + args, cwd=cwd, env=dict(VERIF_SEED=str(ctx.seed), GORACE='exitcode=0'), timeout=1200)
    import shutil
    shutil.rmtree(cwd, ignore_errors=True)
    # race reports: the unsynchronised package global rpgContractAddress (rewritten by loadContractCache on every
    # balance lookup while no ERC20 binding exists) is a by-product documented in design/C04.md; any other report fails
    reports = [r for r in se.split('WARNING: DATA RACE')[1:]]
    other = [r for r in reports if 'loadContractCache' not in r]
    race_reports = dict(total=len(reports), rpgContractAddress=len(reports) - len(other), other=len(other))
    if other:
        res['errors'].append('unexpected data race: ' + other[0][:600])
    for line in so.split('\n'):
        if line.startswith('STATS '):
            st = json.loads(line[6:])
            res['stats'] = dict(st, race_detector=race, race_reports=race_reports)
            res['ops'] = st.get('answers_compared', 0)
            res['mismatches'] = len(st.get('mismatches') or [])
            res['first'] = [dict(index=0, op='concurrent replay', impl=m, model='answer when run alone') for m in (st.get('mismatches') or [])]
    if rc != 0:
        res['errors'].append('exit %d: %s' % (rc, (se or so)[-800:]))
    res['ok'] = rc == 0 and res['ops'] > 0 and res['mismatches'] == 0 and not other
    return res


def _answer_classes(c):
    """Distribution of answer classes per op kind (which branch of each reader / mutator the stream reached)."""
    import collections
    paths = c.get('paths') or {}
    if not paths.get('ops') or not os.path.exists(paths['ops']):
        return {}
    d = collections.defaultdict(collections.Counter)
    for o, a in zip(open(paths['ops'], errors='replace'), open(paths['obs'], errors='replace')):
        o, a = o.rstrip('\n'), a.rstrip('\n')
        k = o.split(' ')[0]
        if a.startswith('PANIC'):
            cl = 'PANIC'
        elif k in ('suicide', 'exist', 'empty', 'cantransfer', 'iscontract', 'suicided', 'inal', 'addbinding', 'inalslot', 'revert'):
            cl = a
        elif k in ('subbal', 'subft'):
            cl = a.split(' ')[-1]
        elif k in ('getdata', 'code', 'logs', 'allrefund'):
            cl = 'empty' if a == '-' else 'nonempty'
        elif k in ('getstate', 'committed', 'tget', 'codehash'):
            cl = 'zero' if set(a) <= set('0') else 'nonzero'
        elif k in ('bal', 'nonce', 'getft', 'refund', 'codesize', 'subrefund', 'incnonce'):
            cl = 'zero' if a == '0' else ('ok' if a == 'ok' else 'nonzero')
        else:
            continue
        d[k][cl] += 1
    return {k: dict(v) for k, v in sorted(d.items())}


def _post(c):
    st = c.get('stats') or {}
    if isinstance(st, dict):
        st['answer_classes'] = _answer_classes(c)
    if not isinstance(st, dict):
        return
    if st.get('root_clashes'):
        c['ok'] = False
        c.setdefault('errors', []).append('root/content clash: ' + str(st['root_clashes'][:1]))
    if st.get('generated_bad_ops'):
        c['ok'] = False
        c.setdefault('errors', []).append('%d well-formed generated lines were refused with bad-op (broken tie)' % st['generated_bad_ops'])
    if st.get('alias_violations'):
        c['ok'] = False
        c.setdefault('errors', []).append('returned slice aliases reused memory: ' + str(st['alias_violations'][:1]))
    if st.get('reference_clashes'):
        c['ok'] = False
        c.setdefault('errors', []).append('independent reference disagrees: ' + str(st['reference_clashes'][:1]))


def search(ctx, hints):
    n = 4000 if ctx.thorough() else 500
    if hints.get('broken'):
        n *= 3
    binp = os.path.join(vlib.HARNESS, 'bin', 'c04')
    if not os.path.exists(binp):
        binp, log = vlib.go_build(ctx, vlib.HARNESS, './cmd/c04', 'c04')
        if not binp:
            return dict(evaluations=0, distinct_nontrivial=0, violations=[], samples=[], error='searcher build failed: ' + log[-800:])
    cwd = ctx.scratch('c04search')
    rc, so, se = vlib.run([binp, 'mode=search', 'n=%d' % n], cwd=cwd, env=dict(VERIF_SEED=str(ctx.seed)), timeout=1500)
    import shutil
    shutil.rmtree(cwd, ignore_errors=True)
    res = dict(evaluations=0, distinct_nontrivial=0, violations=[], samples=[])
    if rc != 0:
        res['error'] = 'searcher exited %d: %s' % (rc, (se or so)[-800:])
    for line in so.split('\n'):
        if line.startswith('VIOL '):
            v = json.loads(line[5:])
            res['violations'].append(dict(key=v['key'], desc=v['desc'], replay=v))
        elif line.startswith('STATS '):
            st = json.loads(line[6:])
            res['evaluations'] = st.get('evaluations', 0)
            res['distinct_nontrivial'] = st.get('distinct', 0)
            res['samples'] = [{'region': s} for s in st.get('samples', [])]
            res['stats'] = st
    return res
