"""C09 - block/header/transaction/group wire codecs are lossless and total."""
import json
import os
import re

import vlib

PROPS = ['Rangers.Props.C09', 'Rangers.Props.C09B', 'Rangers.Props.C09C', 'Rangers.Props.C09D', 'Rangers.Props.C09E', 'Rangers.Props.C09F', 'Rangers.Props.C09G']
DRIVERS = ['C09']
META = dict(
    level='proof',
    technique='Lean 4 theorems over an executable model of the proto2 wire codec, the serialization.go '
              'converters and the hash-input renderings; tied to the source by a go/ast translator '
              '(deref sites, nil checks, proto schema) and by differential execution against the real '
              'Marshal/UnMarshal/GenHash',
    level_text='machine-checked proof (Lean 4) + checked correspondence',
    level_note='round-trip, fixed-point, hash-stability and totality theorems hold for all inputs of the model; '
               'the model is compared with the implementation on structured, boundary-biased and malformed inputs on every run',
    trusted_base=['Lean 4 kernel', 'gen/cmd/c09facts (go/ast translator)', 'harness/cmd/c09 (Go harness)',
                  'gogo/protobuf v1.3.1 table-driven Marshal/Unmarshal (modelled, compared on every run, not verified)',
                  'encoding/json (modelled and compared: header projection, string escaping/unquoting, RequestIds maps, '
                  '[]UserData SubTransactions; whitespace, non-uint64 numbers and partial decoding after type errors not modelled)',
                  'time.MarshalBinary/UnmarshalBinary/MarshalJSON of Go 1.23 (modelled, compared)',
                  'crypto/sha256 (an executable SHA-256 in Lean is compared end to end; no theorem depends on it)'],
    assumptions=['SHA-256 is treated as a function of its input: hash stability is proved on the hash input',
                 'encoding/json on SubTransactions is modelled for the []UserData grammar (decode + re-render) and compared; idempotence of that re-render is a hypothesis (SubTxStable) of the tx fixed-point theorem',
                 'producible values: non-nil Transactions/EvictedTxs, non-negative ProveValue, zone offsets whose '
                 'seconds part is not negative and that MarshalBinary accepts, RequestIds keys that JSON writes verbatim'],
    rule='distinct op lines (marshal of a generated value / unmarshal of a byte string) answered by both the '
         'implementation and the model with something other than bad-op/unmodelled',
    explanation='Wire.lean models gogo/protobuf framing (varints, unknown-field skipping, groups, last-wins, merge, '
                'required checks), WireConv.lean the converters with panic sites read from the source, Json.lean the '
                'hash inputs. Props/C09.lean proves wire and converter round trips, the one-pass fixed point, hash '
                'stability for producible values and that no parser can panic or return (nil,nil) given the generated facts.',
)

GEN_OUT = os.path.join(vlib.LEAN, 'Rangers', 'Generated', 'C09Facts.lean')


def gen(ctx):
    rc, so, se = vlib.go_run_gen(ctx, 'c09facts', ['repo=' + ctx.repo])
    if rc != 0:
        return dict(ok=False, error='c09facts failed: ' + (se or so)[-1500:])
    changed = vlib.write_if_changed(GEN_OUT, so)
    info = {}
    m = re.search(r'-- SUMMARY (.*)', so)
    if m:
        try:
            info = json.loads(m.group(1))
        except Exception:
            info = dict(raw=m.group(1))
    return dict(ok=True, changed=changed, facts=info)


def _hooks_present(ctx):
    """verif hooks H11 (network) and H12 (core) are needed for the envelope / frame / transaction-request ops."""
    return all(os.path.exists(os.path.join(ctx.repo, f)) for f in
               ('src/network/verif_c09_export.go', 'src/core/verif_c09_export.go'))


class _tags:
    """Build the harness with the extra tag c09hooks when the hooks are in the tree under test."""
    def __init__(self, ctx):
        self.extra = _hooks_present(ctx)

    def __enter__(self):
        self.orig = vlib.go_build
        if self.extra:
            orig = self.orig

            def go_build(ctx, moddir, pkg, outname, tags='verif', race=False):
                return orig(ctx, moddir, pkg, outname, tags=(tags + ',c09hooks') if tags else 'c09hooks', race=race)
            vlib.go_build = go_build
        return self

    def __exit__(self, *a):
        vlib.go_build = self.orig


def canon(op, x):
    if x.startswith('PANIC'):
        return 'panic'
    return x


def nontrivial(op, x):
    return not (x in ('bad-op', 'unmodelled'))


def correspond(ctx):
    with _tags(ctx) as t:
        c = vlib.correspond(ctx, 'c09', 'C09', ['mode=corr'], canon=canon, timeout=900, nontrivial=nontrivial)
    c['name'] = 'codec'
    hooks_note = ('H11/H12 present: envelope, frame-header and transaction-request ops included' if t.extra else
                  'verif hooks H11 (network) / H12 (core) absent from the tree under test: envelope, frame-header and '
                  'transaction-request ops NOT run')
    if isinstance(c.get('stats'), dict):
        c['stats']['hooks'] = hooks_note
    # a broken tie is not agreement: the model must understand every op, and a healthy share of the
    # stream must be successful marshals/parses on BOTH sides (not errors agreeing with errors)
    if c.get('bad_op', 0) > 0:
        c['ok'] = False
        c.setdefault('errors', []).append('%d ops were answered bad-op by the model (generator/driver mismatch)' % c['bad_op'])
    res = ((c.get('stats') or {}).get('dist') or {}).get('results') or {}
    n_ok = res.get('ok', 0)
    if c.get('ops') and n_ok * 5 < c['ops']:
        c['ok'] = False
        c.setdefault('errors', []).append('only %d of %d ops were successful parses: the stream degenerated into errors' % (n_ok, c['ops']))
    # how much of the stream the model declined to answer
    if c.get('ops') and c.get('unmodelled', 0) * 5 > c['ops']:
        c['ok'] = False
        c.setdefault('errors', []).append('more than 20%% of the ops are unmodelled (%d of %d)' % (c['unmodelled'], c['ops']))
    return [c]


def search(ctx, hints):
    with _tags(ctx):
        return _search(ctx, hints)


def _search(ctx, hints):
    binp, log = vlib.go_build(ctx, vlib.HARNESS, './cmd/c09', 'c09')
    if not binp:
        return dict(evaluations=0, distinct_nontrivial=0, violations=[], samples=[], error='harness build failed: ' + log[-1500:])
    cwd = ctx.scratch('c09search')
    out = os.path.join(ctx.work, 'search.json')
    hp = os.path.join(ctx.work, 'search.hints')
    with open(hp, 'w') as f:
        for c in hints.get('corr', []):
            for m in c.get('first', []) or []:
                if m and m.get('op'):
                    f.write(m['op'] + '\n')
            if c.get('crash_op'):
                f.write(c['crash_op'] + '\n')
    broken = bool(hints.get('broken'))
    n = 300
    if ctx.thorough():
        n = 3000
    if broken:
        n *= 4
    env = dict(VERIF_SEED=str(ctx.seed), VERIF_TIER=ctx.tier)
    for f in (out, out + '.live'):
        if os.path.exists(f):
            os.remove(f)
    rc, so, se = vlib.run([binp, 'mode=search', 'out=' + out, 'hints=' + hp, 'n=%d' % n], cwd=cwd, env=env, timeout=1500)
    import shutil
    shutil.rmtree(cwd, ignore_errors=True)
    # violations are flushed one JSON line at a time when found, so a searcher that dies
    # (fatal runtime error, timeout) still reports what it had
    live = []
    if os.path.exists(out + '.live'):
        for line in open(out + '.live'):
            try:
                live.append(json.loads(line))
            except Exception:
                pass
    if rc != 0 or not os.path.exists(out):
        vs = [dict(key=v['key'], desc=v['desc'], replay=v['replay']) for v in live]
        vs.append(dict(key='searcher-died', desc='the searcher process exited %d before finishing: %s' % (rc, (se or so)[-600:]),
                       replay=dict(call='harness mode=search', observed=(se or so)[-1500:])))
        return dict(evaluations=0, distinct_nontrivial=0, violations=vs, samples=[],
                    error='searcher exited %d: %s' % (rc, (se or so)[-1500:]))
    r = json.load(open(out))
    vs = r.get('violations') or []
    res = dict(evaluations=r.get('evaluations', 0), distinct_nontrivial=r.get('distinct', 0),
               violations=[dict(key=v['key'], desc=v['desc'], replay=v['replay']) for v in vs],
               samples=[dict(op=v['replay'].get('call'), impl=v['replay'].get('observed', '')[:200]) for v in vs[:4]],
               concurrency='8 goroutines x 40 rounds compared with sequential results: evidence about goroutine safety, not proof')
    if ctx.thorough():
        # the concurrent and retention phases again under the race detector (evidence, not proof)
        rbin, rlog = vlib.go_build(ctx, vlib.HARNESS, './cmd/c09', 'c09race', race=True)
        if not rbin:
            res['race'] = 'race build failed: ' + rlog[-300:]
        else:
            cwd2 = ctx.scratch('c09race')
            out2 = os.path.join(ctx.work, 'race.json')
            rc2, so2, se2 = vlib.run([rbin, 'mode=search', 'out=' + out2, 'n=30'], cwd=cwd2, env=env, timeout=1500)
            shutil.rmtree(cwd2, ignore_errors=True)
            txt = so2 + se2
            res['race'] = 'exit %d, %d DATA RACE reports' % (rc2, txt.count('WARNING: DATA RACE'))
            if 'WARNING: DATA RACE' in txt:
                i = txt.index('WARNING: DATA RACE')
                res['violations'].append(dict(key='data-race', desc='the race detector reports a data race in the codec under concurrent use',
                                              replay=dict(call='go build -race; N goroutines Marshal/UnMarshal', observed=txt[i:i + 1500])))
    return res


def replay(ctx, payload):
    """Re-run a recorded input against the implementation and the model."""
    rp = payload.get('replay') or {}
    print(json.dumps(payload, indent=1))
    b = rp.get('bytes')
    call = rp.get('call', '')
    kind = {'UnMarshalBlockHeader': 'hu', 'UnMarshalTransaction': 'tu', 'UnMarshalTransactions': 'su',
            'UnMarshalBlock': 'bu', 'UnMarshalGroup': 'gu'}.get(call.split(';')[0])
    if not (b and kind):
        return 0
    d = os.path.join(ctx.work, 'replay-corpus')
    os.makedirs(d, exist_ok=True)
    for f in os.listdir(d):
        os.remove(os.path.join(d, f))
    open(os.path.join(d, 'r.ops'), 'w').write('%s %s\n' % (kind, b))
    binp, log = vlib.go_build(ctx, vlib.HARNESS, './cmd/c09', 'c09')
    if not binp:
        print(log)
        return 1
    ops, obs, mod = [os.path.join(ctx.work, 'replay.' + x) for x in ('ops', 'obs', 'mod')]
    open(ops, 'w').write('%s %s\n' % (kind, b))
    cwd = ctx.scratch('c09replay')
    # implementation: the searcher's parse oracle on exactly this input
    out = os.path.join(ctx.work, 'replay.json')
    hp = os.path.join(ctx.work, 'replay.hints')
    open(hp, 'w').write('%s %s\n' % (kind, b))
    vlib.run([binp, 'mode=search', 'out=' + out, 'hints=' + hp, 'n=0'], cwd=cwd, env=dict(VERIF_SEED='1'), timeout=300)
    vlib.run_driver('C09', ops, mod)
    print('implementation:', [v for v in json.load(open(out)).get('violations', []) if v['replay'].get('bytes') == b] or 'no violation on this input')
    print('model:', open(mod).read().strip())
    return 0
